// Builder mode: the functions of pkg/provider that construct reply messages (response.go, logout_response.go,
// attributes.go) as programs of a small first-order language (Idp/BuilderTypes.v); Idp/Builder.v interprets them.
// The translation is syntax-directed: identifiers, string literals and constants, field selections, composite
// literals, calls among the translated functions, NewID(), assignments to field paths, appends, `if x != ""`,
// `if flag`, ranges over slices.  Any other call is kept as its source text ([BOpaque]) for an oracle; any other
// statement makes go2v fail.
package main

import (
	"fmt"
	"go/ast"
	"go/token"
	"go/types"
	"sort"
	"strconv"
	"strings"
)

type bld struct {
	consts  map[string]string
	funcs   map[string]bool // translated functions and methods by name
	pkg     map[string]string
	where   string
	structs map[string][]string // field names of the package's own struct types (for positional literals)
}

// callTargets: calls whose callee cannot be told from the name alone (two getMetadata, two GetMetadata): the receiver
// expression as written in the source selects the translated function.  Any other spelling stays an opaque call.
var callTargets = map[string]string{
	"idp.GetMetadata":    "IdentityProvider.GetMetadata",
	"p.conf.getMetadata": "IdentityProviderConfig.getMetadata",
}

// conversions that do not change the value
var identityConvs = map[string]bool{"string": true, "md.EntityIDType": true}

func (b *bld) typeName(e ast.Expr) string {
	switch x := e.(type) {
	case *ast.Ident:
		return "provider." + x.Name
	case *ast.SelectorExpr:
		if p, ok := x.X.(*ast.Ident); ok {
			return p.Name + "." + x.Sel.Name
		}
	case *ast.StarExpr:
		return b.typeName(x.X)
	}
	problem("%s: type expression %s outside the builder subset", b.where, types.ExprString(e))
	return "?"
}

func (b *bld) lit(c *ast.CompositeLit, elemType ast.Expr) string {
	t := c.Type
	if t == nil {
		t = elemType
	}
	if at, ok := t.(*ast.ArrayType); ok && at.Len == nil {
		var xs []string
		for _, el := range c.Elts {
			if inner, ok := el.(*ast.CompositeLit); ok && inner.Type == nil {
				xs = append(xs, b.lit(inner, at.Elt))
			} else {
				xs = append(xs, b.expr(el))
			}
		}
		return "(BList [" + strings.Join(xs, "; ") + "])"
	}
	var fs []string
	for i, el := range c.Elts {
		kv, ok := el.(*ast.KeyValueExpr)
		if !ok {
			// positional literal of one of the package's own struct types
			if id, isId := t.(*ast.Ident); isId && i < len(b.structs[id.Name]) && len(c.Elts) == len(b.structs[id.Name]) {
				fs = append(fs, fmt.Sprintf("(%s, %s)", coqStr(b.structs[id.Name][i]), b.expr(el)))
				continue
			}
			problem("%s: unkeyed struct literal %s", b.where, types.ExprString(c))
			continue
		}
		fs = append(fs, fmt.Sprintf("(%s, %s)", coqStr(exprStr(kv.Key)), b.expr(kv.Value)))
	}
	return fmt.Sprintf("(BNew %s [%s])", coqStr(b.typeName(t)), strings.Join(fs, "; "))
}

func (b *bld) expr(e ast.Expr) string {
	switch x := e.(type) {
	case *ast.ParenExpr:
		return b.expr(x.X)
	case *ast.Ident:
		switch x.Name {
		case "true":
			return "(BBool true)"
		case "false":
			return "(BBool false)"
		case "nil":
			return "BNil"
		}
		if v, ok := b.consts[x.Name]; ok && x.Obj == nil {
			return "(BStr " + coqStr(v) + ")"
		}
		if v, ok := b.consts[x.Name]; ok && x.Obj != nil {
			// declared in this file: a constant, or a package-level variable with a literal value (never assigned elsewhere:
			// facts mode treats them the same way)
			if _, isSpec := x.Obj.Decl.(*ast.ValueSpec); isSpec && (x.Obj.Kind == ast.Con || x.Obj.Kind == ast.Var) {
				return "(BStr " + coqStr(v) + ")"
			}
		}
		return "(BVar " + coqStr(x.Name) + ")"
	case *ast.BasicLit:
		if x.Kind == token.STRING {
			s, err := strconv.Unquote(x.Value)
			if err == nil {
				return "(BStr " + coqStr(s) + ")"
			}
		}
	case *ast.SelectorExpr:
		if p, ok := x.X.(*ast.Ident); ok && p.Obj == nil {
			if v, isConst := b.consts[p.Name+"."+x.Sel.Name]; isConst {
				return "(BStr " + coqStr(v) + ")"
			}
		}
		return fmt.Sprintf("(BSel %s %s)", b.expr(x.X), coqStr(x.Sel.Name))
	case *ast.BinaryExpr:
		if x.Op == token.ADD {
			return fmt.Sprintf("(BConcat %s %s)", b.expr(x.X), b.expr(x.Y))
		}
	case *ast.UnaryExpr:
		if x.Op == token.AND {
			return b.expr(x.X)
		}
	case *ast.StarExpr:
		return b.expr(x.X)
	case *ast.IndexExpr:
		if bl, ok := x.Index.(*ast.BasicLit); ok && bl.Kind == token.INT {
			return fmt.Sprintf("(BIdx %s %s)", b.expr(x.X), bl.Value)
		}
	case *ast.CompositeLit:
		return b.lit(x, nil)
	case *ast.CallExpr:
		args := func() string {
			var as []string
			for _, a := range x.Args {
				as = append(as, b.expr(a))
			}
			return strings.Join(as, "; ")
		}
		if identityConvs[types.ExprString(x.Fun)] && len(x.Args) == 1 {
			return b.expr(x.Args[0])
		}
		if tgt, ok := callTargets[types.ExprString(x.Fun)]; ok && b.funcs[tgt] {
			if sel, isSel := x.Fun.(*ast.SelectorExpr); isSel {
				return fmt.Sprintf("(BCall %s (Some %s) [%s])", coqStr(tgt), b.expr(sel.X), args())
			}
		}
		switch f := x.Fun.(type) {
		case *ast.Ident:
			if f.Name == "NewID" && len(x.Args) == 0 {
				return "BFresh"
			}
			if f.Name == "make" {
				return "(BList [])"
			}
			if b.funcs[f.Name] {
				return fmt.Sprintf("(BCall %s None [%s])", coqStr(f.Name), args())
			}
		case *ast.SelectorExpr:
			if b.funcs[f.Sel.Name] {
				return fmt.Sprintf("(BCall %s (Some %s) [%s])", coqStr(f.Sel.Name), b.expr(f.X), args())
			}
		}
		return "(BOpaque " + coqStr(types.ExprString(x)) + ")"
	}
	problem("%s: expression %s (%T) outside the builder subset", b.where, types.ExprString(e), e)
	return "BNil"
}

// path of an assignable expression: root variable and the selections / constant indexes below it
func (b *bld) path(e ast.Expr) (string, []string, bool) {
	switch x := e.(type) {
	case *ast.Ident:
		return x.Name, nil, true
	case *ast.SelectorExpr:
		r, p, ok := b.path(x.X)
		return r, append(p, "PField "+coqStr(x.Sel.Name)), ok
	case *ast.IndexExpr:
		if bl, ok := x.Index.(*ast.BasicLit); ok && bl.Kind == token.INT {
			r, p, ok := b.path(x.X)
			return r, append(p, "PIndex "+bl.Value), ok
		}
	case *ast.StarExpr:
		return b.path(x.X)
	}
	return "", nil, false
}

func (b *bld) cond(e ast.Expr) string {
	switch x := e.(type) {
	case *ast.ParenExpr:
		return b.cond(x.X)
	case *ast.Ident:
		return "(CVar " + b.expr(x) + ")"
	case *ast.BinaryExpr:
		isEmptyLit := func(e ast.Expr) bool { bl, ok := e.(*ast.BasicLit); return ok && bl.Value == `""` }
		isNil := func(e ast.Expr) bool { id, ok := e.(*ast.Ident); return ok && id.Name == "nil" }
		isZero := func(e ast.Expr) bool { bl, ok := e.(*ast.BasicLit); return ok && bl.Value == "0" }
		lenOf := func(e ast.Expr) ast.Expr {
			if c, ok := e.(*ast.CallExpr); ok {
				if id, ok := c.Fun.(*ast.Ident); ok && id.Name == "len" && len(c.Args) == 1 {
					return c.Args[0]
				}
			}
			return nil
		}
		switch x.Op {
		case token.NEQ:
			if isEmptyLit(x.Y) {
				return "(CNotEmpty " + b.expr(x.X) + ")"
			}
			if isNil(x.Y) || isZero(x.Y) {
				return "(CNotNil " + b.expr(x.X) + ")"
			}
		case token.EQL:
			if isNil(x.Y) {
				return "(CNoElems " + b.expr(x.X) + ")"
			}
			if l := lenOf(x.X); l != nil && isZero(x.Y) {
				return "(CNoElems " + b.expr(l) + ")"
			}
			if !isEmptyLit(x.Y) && !isNil(x.X) {
				return fmt.Sprintf("(CEq %s %s)", b.expr(x.X), b.expr(x.Y))
			}
		case token.LAND:
			return fmt.Sprintf("(CAnd %s %s)", b.cond(x.X), b.cond(x.Y))
		case token.LOR:
			return fmt.Sprintf("(COr %s %s)", b.cond(x.X), b.cond(x.Y))
		}
	}
	problem("%s: condition %s outside the builder subset", b.where, types.ExprString(e))
	return "(CVar BNil)"
}

func (b *bld) block(stmts []ast.Stmt) string {
	var out []string
	for _, s := range stmts {
		out = append(out, b.stmt(s))
	}
	return "[" + strings.Join(out, ";\n      ") + "]"
}

func (b *bld) stmt(s ast.Stmt) string {
	switch x := s.(type) {
	case *ast.AssignStmt:
		if len(x.Lhs) == 1 && len(x.Rhs) == 1 {
			// x = append(x, e)
			if c, ok := x.Rhs[0].(*ast.CallExpr); ok {
				if id, ok := c.Fun.(*ast.Ident); ok && id.Name == "append" && len(c.Args) == 2 {
					if l, ok := x.Lhs[0].(*ast.Ident); ok {
						if a0, ok := c.Args[0].(*ast.Ident); ok && a0.Name == l.Name {
							return fmt.Sprintf("BAppend %s %s", coqStr(l.Name), b.expr(c.Args[1]))
						}
					}
				}
			}
			if x.Tok == token.DEFINE {
				if l, ok := x.Lhs[0].(*ast.Ident); ok {
					return fmt.Sprintf("BLet %s %s", coqStr(l.Name), b.expr(x.Rhs[0]))
				}
			}
			if x.Tok == token.ASSIGN {
				if r, p, ok := b.path(x.Lhs[0]); ok {
					return fmt.Sprintf("BAssign %s [%s] %s", coqStr(r), strings.Join(p, "; "), b.expr(x.Rhs[0]))
				}
			}
		}
		// a, b, c := f(...)
		if x.Tok == token.DEFINE && len(x.Lhs) > 1 && len(x.Rhs) == 1 {
			var names []string
			for _, l := range x.Lhs {
				id, ok := l.(*ast.Ident)
				if !ok {
					names = nil
					break
				}
				names = append(names, coqStr(id.Name))
			}
			if names != nil {
				return fmt.Sprintf("BLetN [%s] %s", strings.Join(names, "; "), b.expr(x.Rhs[0]))
			}
		}
	case *ast.IfStmt:
		if x.Init == nil {
			els := "[]"
			switch e := x.Else.(type) {
			case nil:
			case *ast.BlockStmt:
				els = b.block(e.List)
			default:
				problem("%s: else-if outside the builder subset", b.where)
			}
			return fmt.Sprintf("BIf %s %s %s", b.cond(x.Cond), b.block(x.Body.List), els)
		}
	case *ast.RangeStmt:
		// for _, x := range L { for i := range x.F { x.F[i] = E } }: every element of field F of every element of L := E
		// (L holds pointers: the assignment is visible through L)
		if xv, ok := x.Value.(*ast.Ident); ok && len(x.Body.List) == 1 {
			if inner, ok := x.Body.List[0].(*ast.RangeStmt); ok && inner.Value == nil && len(inner.Body.List) == 1 {
				if iv, ok := inner.Key.(*ast.Ident); ok {
					if sel, ok := inner.X.(*ast.SelectorExpr); ok {
						if base, ok := sel.X.(*ast.Ident); ok && base.Name == xv.Name {
							if as, ok := inner.Body.List[0].(*ast.AssignStmt); ok && as.Tok == token.ASSIGN && len(as.Lhs) == 1 && len(as.Rhs) == 1 {
								if ix, ok := as.Lhs[0].(*ast.IndexExpr); ok && types.ExprString(ix.X) == types.ExprString(inner.X) && types.ExprString(ix.Index) == iv.Name {
									if l, ok := x.X.(*ast.Ident); ok {
										return fmt.Sprintf("BSetAll %s %s %s", coqStr(l.Name), coqStr(sel.Sel.Name), b.expr(as.Rhs[0]))
									}
								}
							}
						}
					}
				}
			}
		}
		k, v := "_", "_"
		if id, ok := x.Key.(*ast.Ident); ok {
			k = id.Name
		}
		if x.Value != nil {
			if id, ok := x.Value.(*ast.Ident); ok {
				v = id.Name
			}
		}
		return fmt.Sprintf("BRange %s %s %s %s", coqStr(k), coqStr(v), b.expr(x.X), b.block(x.Body.List))
	case *ast.ReturnStmt:
		if len(x.Results) == 1 {
			return "BReturn " + b.expr(x.Results[0])
		}
		if len(x.Results) > 1 {
			var rs []string
			for _, r := range x.Results {
				rs = append(rs, b.expr(r))
			}
			return "BReturn (BList [" + strings.Join(rs, "; ") + "])"
		}
	}
	problem("%s: statement at %v outside the builder subset", b.where, s.Pos())
	return "BReturn BNil"
}

func genBuilders(repo string) string {
	fset := token.NewFileSet()
	var out strings.Builder
	out.WriteString("(* GENERATED by go2v (builder mode) from pkg/provider/{response,logout_response,attributes}.go -- do not edit *)\n")
	out.WriteString("From Saml Require Import Base.Bytes Idp.BuilderTypes.\nLocal Open Scope string_scope.\n\n")
	files := []*ast.File{parse(fset, repo, "pkg/provider/response.go"), parse(fset, repo, "pkg/provider/logout_response.go"), parse(fset, repo, "pkg/provider/attributes.go"),
		parse(fset, repo, "pkg/provider/metadata.go"), parse(fset, repo, "pkg/provider/identityprovider.go")}
	var all []*ast.File
	for _, n := range []string{"sso.go", "login.go", "logout.go", "attribute_query.go", "provider.go", "identityprovider.go", "metadata.go"} {
		all = append(all, parse(fset, repo, "pkg/provider/"+n))
	}
	all = append(all, files...)
	want := []string{"makeFailedResponse", "makeSuccessfulResponse", "makeAssertionResponse", "getIssuer", "makeAttributeQueryResponse", "makeAssertion", "makeResponse",
		"makeFailedLogoutResponse", "makeSuccessfulLogoutResponse", "makeLogoutResponse", "GetNameID", "GetSAML",
		"IdentityProviderConfig.getMetadata", "Config.getMetadata", "IdentityProvider.GetMetadata"}
	b := &bld{consts: stringConsts(all), funcs: map[string]bool{}, structs: map[string][]string{}}
	// constants of the md package, as md.Name
	for k, v := range stringConsts([]*ast.File{parse(fset, repo, "pkg/provider/xml/md/models.go")}) {
		b.consts["md."+k] = v
	}
	for _, f := range files {
		for _, d := range f.Decls {
			if g, ok := d.(*ast.GenDecl); ok && g.Tok == token.TYPE {
				for _, sp := range g.Specs {
					if ts, ok := sp.(*ast.TypeSpec); ok {
						if st, ok := ts.Type.(*ast.StructType); ok {
							var ns []string
							for _, fl := range st.Fields.List {
								for _, n := range fl.Names {
									ns = append(ns, n.Name)
								}
							}
							b.structs[ts.Name.Name] = ns
						}
					}
				}
			}
		}
	}
	for _, w := range want {
		b.funcs[w] = true
	}
	var defs []string
	found := map[string]bool{}
	for _, f := range files {
		for _, d := range f.Decls {
			fn, ok := d.(*ast.FuncDecl)
			if !ok || fn.Body == nil {
				continue
			}
			name := fn.Name.Name
			if fn.Recv != nil && len(fn.Recv.List) == 1 {
				q := strings.TrimPrefix(types.ExprString(fn.Recv.List[0].Type), "*") + "." + name
				if b.funcs[q] {
					name = q
				}
			}
			if !b.funcs[name] {
				continue
			}
			if found[name] {
				problem("builder %s declared twice", name)
			}
			found[name] = true
			b.where = "builder " + name
			recv := "None"
			if fn.Recv != nil && len(fn.Recv.List) == 1 && len(fn.Recv.List[0].Names) == 1 {
				recv = "(Some " + coqStr(fn.Recv.List[0].Names[0].Name) + ")"
			}
			var params []string
			for _, p := range fn.Type.Params.List {
				for _, n := range p.Names {
					params = append(params, coqStr(n.Name))
				}
			}
			defs = append(defs, fmt.Sprintf("  {| bf_name := %s; bf_recv := %s; bf_params := [%s]; bf_body :=\n     %s |}", coqStr(name), recv, strings.Join(params, "; "), b.block(fn.Body.List)))
		}
	}
	for _, w := range want {
		if !found[w] {
			problem("builder %s not found", w)
		}
	}
	sort.Strings(defs)
	out.WriteString("Definition builders : list bfun := [\n" + strings.Join(defs, ";\n") + "].\n")
	return out.String()
}
