// go2v function mode: translate a small first-order subset of Go into Gallina (shallow, state-passing, monadic).
package main

import (
	"fmt"
	"go/ast"
	"go/token"
	"strconv"
	"strings"
)

type local struct {
	name    string // coq name
	typ     string // coq type
	zero    string
	writes  int  // number of assignment sites (definition included)
	mutable bool // stored in the state record; otherwise a Gallina binder
}

type tr struct {
	fset    *token.FileSet
	structs map[string]map[string]string // struct name -> field -> coq type
	locals  map[*ast.Object]*local
	order   []*ast.Object
	used    map[string]int
	thunks  map[*ast.Object]string // func-typed params: result coq type ("" = unit)
	fname   string
	errs    []string
	retTyp  string

	recvStruct  map[*ast.Object]string // variables of a single-field struct type (identified with the field)
	aliases     map[string]string      // named func types -> coq type
	userFuncs   map[string]string      // already translated functions -> result type
	singleField map[string]string      // single-field structs are identified with their field
	lastParams  []*local
	consts      map[string]string // package-level constants -> Coq term
	userExtra   map[string]string // translated functions that take oracle arguments first
	ptrOpt      bool   // pointers are options (nil = None); field access through a pointer yields the field's zero for nil
	extraParams string // further binders of the generated definition (oracles the body refers to by name)
}

type plist struct{ decl, args string }

func (t *tr) paramList() plist {
	var d, a []string
	for _, l := range t.lastParams {
		d = append(d, fmt.Sprintf("(%s : %s)", l.name, l.typ))
		a = append(a, l.name)
	}
	return plist{strings.Join(d, " "), strings.Join(a, " ")}
}

func (t *tr) coqTypeA(e ast.Expr) string {
	switch x := e.(type) {
	case *ast.Ident:
		if a, ok := t.aliases[x.Name]; ok {
			return a
		}
		if f, ok := t.singleField[x.Name]; ok {
			return t.structs[x.Name][f]
		}
	case *ast.ArrayType:
		return "(list " + t.coqTypeA(x.Elt) + ")"
	case *ast.StarExpr:
		if t.ptrOpt {
			return "(option " + t.coqTypeA(x.X) + ")"
		}
		return t.coqTypeA(x.X)
	}
	return coqType(e)
}

func exprStr(e ast.Expr) string {
	switch x := e.(type) {
	case *ast.Ident:
		return x.Name
	case *ast.SelectorExpr:
		return exprStr(x.X) + "." + x.Sel.Name
	case *ast.CallExpr:
		return exprStr(x.Fun) + "()"
	case *ast.StarExpr:
		return exprStr(x.X)
	}
	return "?"
}

func (t *tr) fail(n ast.Node, f string, a ...interface{}) string {
	t.errs = append(t.errs, fmt.Sprintf("%s: ", t.fset.Position(n.Pos()))+fmt.Sprintf(f, a...))
	return "(* UNSUPPORTED *)"
}

func coqType(e ast.Expr) string {
	switch x := e.(type) {
	case *ast.Ident:
		switch x.Name {
		case "string":
			return "bytes"
		case "int":
			return "Z"
		case "bool":
			return "bool"
		case "error":
			return "goerr"
		}
		return x.Name
	case *ast.ArrayType:
		return "(list " + coqType(x.Elt) + ")"
	case *ast.SelectorExpr:
		return x.Sel.Name
	case *ast.StarExpr:
		return coqType(x.X)
	case *ast.FuncType:
		return "FUNC"
	}
	return "UNKNOWN"
}
func zeroOf(typ string) string {
	switch typ {
	case "bytes":
		return `(b "")`
	case "Z":
		return "0%Z"
	case "bool":
		return "false"
	case "goerr":
		return "None"
	}
	if strings.HasPrefix(typ, "(list") {
		return "[]"
	}
	if strings.HasPrefix(typ, "(option") {
		return "None"
	}
	if typ == "(bytes * bytes)" {
		return `(b "", b "")`
	}
	return "default_" + typ
}

func (t *tr) declare(obj *ast.Object, typ string) *local {
	if l, ok := t.locals[obj]; ok {
		return l
	}
	n := obj.Name
	if c := t.used[n]; c > 0 {
		n = fmt.Sprintf("%s_%d", n, c)
	}
	t.used[obj.Name]++
	l := &local{name: n, typ: typ, zero: zeroOf(typ)}
	t.locals[obj] = l
	t.order = append(t.order, obj)
	return l
}

// ---- expression typing (very small) ----
func (t *tr) typeOf(e ast.Expr) string {
	switch x := e.(type) {
	case *ast.BasicLit:
		if x.Kind == token.STRING {
			return "bytes"
		}
		return "Z"
	case *ast.Ident:
		if x.Name == "true" || x.Name == "false" {
			return "bool"
		}
		if x.Obj != nil {
			if l, ok := t.locals[x.Obj]; ok {
				return l.typ
			}
		}
		if _, ok := t.consts[x.Name]; ok {
			return "bytes"
		}
	case *ast.SelectorExpr:
		bt := t.typeOf(x.X)
		if strings.HasPrefix(bt, "(option ") {
			bt = strings.TrimSuffix(strings.TrimPrefix(bt, "(option "), ")")
		}
		if f, ok := t.structs[bt]; ok {
			return f[x.Sel.Name]
		}
		if id, ok := x.X.(*ast.Ident); ok && id.Obj != nil {
			if sn, ok := t.recvStruct[id.Obj]; ok {
				return t.structs[sn][x.Sel.Name]
			}
		}
	case *ast.CallExpr:
		if exprStr(x.Fun) == "time.Now().UTC" {
			return "Z"
		}
		if exprStr(x.Fun) == "reflect.DeepEqual" {
			return "bool"
		}
		if exprStr(x.Fun) == "strings.Join" {
			return "bytes"
		}
		if inner, ok := x.Fun.(*ast.CallExpr); ok {
			if id, ok := inner.Fun.(*ast.Ident); ok {
				if rt, ok := t.userFuncs[id.Name]; ok {
					return rt
				}
			}
		}
		if s, ok := x.Fun.(*ast.SelectorExpr); ok && (s.Sel.Name == "After" || s.Sel.Name == "Before" || s.Sel.Name == "Equal") {
			return "bool"
		}
		if id, ok := x.Fun.(*ast.Ident); ok {
			if rt, ok := t.userFuncs[id.Name]; ok {
				return rt
			}
		}
		if s, ok := x.Fun.(*ast.SelectorExpr); ok {
			if id, ok := s.X.(*ast.Ident); ok {
				switch id.Name + "." + s.Sel.Name {
				case "strconv.Atoi":
					return "Z"
				case "url.QueryEscape", "strings.TrimPrefix", "strings.TrimSuffix":
					return "bytes"
				case "strings.HasPrefix":
					return "bool"
				}
			}
		}
		if id, ok := x.Fun.(*ast.Ident); ok {
			if id.Name == "len" {
				return "Z"
			}
			if id.Obj != nil {
				if rt, ok := t.thunks[id.Obj]; ok {
					return rt
				}
				if l, ok := t.locals[id.Obj]; ok && strings.HasPrefix(l.typ, "(M ") {
					return strings.TrimSuffix(strings.TrimPrefix(l.typ, "(M "), ")")
				}
			}
		}
	case *ast.BinaryExpr:
		switch x.Op {
		case token.ADD:
			return t.typeOf(x.X)
		default:
			return "bool"
		}
	case *ast.UnaryExpr:
		return "bool"
	case *ast.ParenExpr:
		return t.typeOf(x.X)
	}
	return "UNKNOWN"
}

// ---- expressions: produce a term of type M T, reading locals from `st` ----
func (t *tr) expr(e ast.Expr) string {
	switch x := e.(type) {
	case *ast.BasicLit:
		if x.Kind == token.STRING {
			s, _ := strconv.Unquote(x.Value)
			return fmt.Sprintf("(ret (b %s))", coqStr(s))
		}
		return fmt.Sprintf("(ret %s%%Z)", x.Value)
	case *ast.ParenExpr:
		return t.expr(x.X)
	case *ast.Ident:
		if x.Name == "true" || x.Name == "false" {
			return "(ret " + x.Name + ")"
		}
		if x.Name == "nil" && x.Obj == nil {
			return "(ret (None : goerr))" // only reachable where an error value is expected (return nil)
		}
		if x.Obj != nil {
			if l, ok := t.locals[x.Obj]; ok {
				if !l.mutable {
					return fmt.Sprintf("(ret %s)", l.name)
				}
				return fmt.Sprintf("(ret (%s_%s st))", t.fname, l.name)
			}
		}
		if c, ok := t.consts[x.Name]; ok {
			return "(ret " + c + ")"
		}
		return t.fail(e, "unknown identifier %s", x.Name)
	case *ast.SelectorExpr:
		if id, ok := x.X.(*ast.Ident); ok && id.Obj != nil {
			if _, ok := t.recvStruct[id.Obj]; ok {
				return t.expr(x.X) // single-field struct: the value is the field
			}
		}
		bt := t.typeOf(x.X)
		if strings.HasPrefix(bt, "(option ") {
			in := strings.TrimSuffix(strings.TrimPrefix(bt, "(option "), ")")
			if fs, ok := t.structs[in]; ok {
				// Go would panic on a nil receiver; the sources guard every such access (short-circuit &&, ||); the model yields the zero value
				return fmt.Sprintf("(x <- %s ;; ret (match x with Some v_ => %s_%s v_ | None => %s end))", t.expr(x.X), in, x.Sel.Name, zeroOf(fs[x.Sel.Name]))
			}
		}
		if _, ok := t.structs[bt]; !ok {
			return t.fail(e, "field access on non-struct type %s", bt)
		}
		return fmt.Sprintf("(x <- %s ;; ret (%s_%s x))", t.expr(x.X), bt, x.Sel.Name)
	case *ast.UnaryExpr:
		if x.Op == token.NOT {
			return fmt.Sprintf("(x <- %s ;; ret (negb x))", t.expr(x.X))
		}
	case *ast.BinaryExpr:
		if id, ok := x.Y.(*ast.Ident); ok && id.Name == "nil" && (x.Op == token.EQL || x.Op == token.NEQ) {
			body := "goerr_is_nil x"
			if ty := t.typeOf(x.X); strings.HasPrefix(ty, "(option ") {
				body = "match x with None => true | Some _ => false end"
			} else if strings.HasPrefix(ty, "(list") {
				body = "match x with [] => true | _ => false end" // a nil slice and an empty one are not told apart
			}
			if x.Op == token.NEQ {
				body = "negb (" + body + ")"
			}
			return fmt.Sprintf("(x <- %s ;; ret (%s))", t.expr(x.X), body)
		}
		l, r := t.expr(x.X), t.expr(x.Y)
		ty := t.typeOf(x.X)
		switch x.Op {
		case token.LAND:
			return fmt.Sprintf("(x <- %s ;; if x then %s else ret false)", l, r)
		case token.LOR:
			return fmt.Sprintf("(x <- %s ;; if x then ret true else %s)", l, r)
		case token.EQL, token.NEQ:
			if id, ok := x.Y.(*ast.Ident); ok && id.Name == "nil" {
				body := "goerr_is_nil x"
				if x.Op == token.NEQ {
					body = "negb (" + body + ")"
				}
				return fmt.Sprintf("(x <- %s ;; ret (%s))", l0(t, x.X), body)
			}
			eq := map[string]string{"bytes": "beq", "Z": "Z.eqb", "bool": "Bool.eqb"}[ty]
			if eq == "" {
				return t.fail(e, "== on type %s", ty)
			}
			body := fmt.Sprintf("%s x y", eq)
			if x.Op == token.NEQ {
				body = "negb (" + body + ")"
			}
			return fmt.Sprintf("(x <- %s ;; y <- %s ;; ret (%s))", l, r, body)
		case token.LSS:
			return fmt.Sprintf("(x <- %s ;; y <- %s ;; ret (Z.ltb x y))", l, r)
		case token.GTR:
			return fmt.Sprintf("(x <- %s ;; y <- %s ;; ret (Z.ltb y x))", l, r)
		case token.ADD:
			if ty == "bytes" {
				return fmt.Sprintf("(x <- %s ;; y <- %s ;; ret (x ++ y))", l, r)
			}
			return fmt.Sprintf("(x <- %s ;; y <- %s ;; ret (x + y)%%Z)", l, r)
		}
	case *ast.CallExpr:
		if id, ok := x.Fun.(*ast.Ident); ok {
			if id.Name == "len" {
				return fmt.Sprintf("(x <- %s ;; ret (Z.of_nat (length x)))", t.expr(x.Args[0]))
			}
			if id.Obj != nil {
				if _, ok := t.thunks[id.Obj]; ok && len(x.Args) == 0 {
					return t.locals[id.Obj].name // effectful thunk (an immutable parameter)
				}
				if l, ok := t.locals[id.Obj]; ok && strings.HasPrefix(l.typ, "(M ") && len(x.Args) == 0 && !l.mutable {
					return l.name // call of a func-typed value (range variable over steps)
				}
			}
			if _, ok := t.userFuncs[id.Name]; ok {
				args := []string{}
				binds := ""
				for i, a := range x.Args {
					binds += fmt.Sprintf("a%d <- %s ;; ", i, t.expr(a))
					args = append(args, fmt.Sprintf("a%d", i))
				}
				if ex := t.userExtra[id.Name]; ex != "" {
					args = append([]string{ex}, args...)
				}
				return fmt.Sprintf("(%s%s %s)", binds, id.Name, strings.Join(args, " "))
			}
		}
		if inner, ok := x.Fun.(*ast.CallExpr); ok && len(x.Args) == 0 {
			if id, ok := inner.Fun.(*ast.Ident); ok {
				if _, ok := t.userFuncs[id.Name]; ok {
					args := []string{}
					for _, a := range inner.Args {
						ai, ok := a.(*ast.Ident)
						if !ok || ai.Obj == nil || t.thunks[ai.Obj] == "" {
							return t.fail(e, "argument of %s is not a thunk parameter", id.Name)
						}
						args = append(args, t.locals[ai.Obj].name)
					}
					return fmt.Sprintf("(%s %s)", id.Name, strings.Join(args, " "))
				}
			}
		}
		if exprStr(x.Fun) == "strings.Join" && len(x.Args) == 2 {
			if in, ok := x.Args[0].(*ast.CallExpr); ok && exprStr(in.Fun) == "strings.Fields" && len(in.Args) == 1 {
				if lit, ok := x.Args[1].(*ast.BasicLit); ok && lit.Value == `""` {
					return fmt.Sprintf("(a0 <- %s ;; ret (go_join_fields a0))", t.expr(in.Args[0]))
				}
			}
		}
		if exprStr(x.Fun) == "reflect.DeepEqual" && len(x.Args) == 2 {
			if cl, ok := x.Args[1].(*ast.CompositeLit); ok && len(cl.Elts) == 0 {
				ty := coqType(cl.Type)
				if _, ok := t.structs[ty]; ok {
					return fmt.Sprintf("(x <- %s ;; ret (%s_is_zero x))", t.expr(x.Args[0]), ty)
				}
			}
		}
		if exprStr(x.Fun) == "time.Now().UTC" && len(x.Args) == 0 {
			return "(ret go_now)"
		}
		if s, ok := x.Fun.(*ast.SelectorExpr); ok && len(x.Args) == 1 && t.typeOf(s.X) == "Z" {
			switch s.Sel.Name {
			case "After":
				return fmt.Sprintf("(x <- %s ;; y <- %s ;; ret (Z.ltb y x))", t.expr(s.X), t.expr(x.Args[0]))
			case "Before":
				return fmt.Sprintf("(x <- %s ;; y <- %s ;; ret (Z.ltb x y))", t.expr(s.X), t.expr(x.Args[0]))
			case "Equal":
				return fmt.Sprintf("(x <- %s ;; y <- %s ;; ret (Z.eqb x y))", t.expr(s.X), t.expr(x.Args[0]))
			}
		}
		if s, ok := x.Fun.(*ast.SelectorExpr); ok {
			if id, ok := s.X.(*ast.Ident); ok {
				q := id.Name + "." + s.Sel.Name
				if q == "fmt.Errorf" && len(x.Args) >= 1 {
					if lit, ok := x.Args[0].(*ast.BasicLit); ok && lit.Kind == token.STRING {
						msg, _ := strconv.Unquote(lit.Value)
						return fmt.Sprintf("(ret (Some (b %s) : goerr))", coqStr(msg))
					}
				}
				prim := map[string]string{"strconv.Atoi": "go_atoi", "url.QueryEscape": "go_query_escape", "strings.TrimPrefix": "go_trim_prefix", "strings.TrimSuffix": "go_trim_suffix", "strings.HasPrefix": "go_has_prefix"}[q]
				if prim != "" {
					args := []string{}
					binds := ""
					for i, a := range x.Args {
						binds += fmt.Sprintf("a%d <- %s ;; ", i, t.expr(a))
						args = append(args, fmt.Sprintf("a%d", i))
					}
					return fmt.Sprintf("(%sret (%s %s))", binds, prim, strings.Join(args, " "))
				}
				if id.Name == "logging" {
					// evaluate arguments (they may call thunks), then log
					binds := ""
					for i, a := range x.Args {
						binds += fmt.Sprintf("_a%d <- %s ;; ", i, t.expr(a))
					}
					return fmt.Sprintf("(%slog)", binds)
				}
			}
		}
	}
	return t.fail(e, "expression %T", e)
}

func l0(t *tr, e ast.Expr) string { return t.expr(e) }
func isBlank(e ast.Expr) bool     { id, ok := e.(*ast.Ident); return ok && id.Name == "_" }

func coqStr(s string) string { return `"` + strings.ReplaceAll(s, `"`, `""`) + `"` }

// ---- statements: produce a term of type M (ctl St R) ----
func (t *tr) block(stmts []ast.Stmt) string {
	if len(stmts) == 0 {
		return "(ret (Normal st))"
	}
	if a, ok := stmts[0].(*ast.AssignStmt); ok && a.Tok == token.DEFINE {
		if id, ok := a.Lhs[0].(*ast.Ident); ok && id.Obj != nil {
			if l := t.locals[id.Obj]; l != nil && !l.mutable && (len(a.Lhs) == 1 || isBlank(a.Lhs[1])) {
				return fmt.Sprintf("(%s <- %s ;;\n %s)", l.name, t.expr(a.Rhs[0]), t.block(stmts[1:]))
			}
		}
	}
	if a, ok := stmts[0].(*ast.AssignStmt); ok && a.Tok == token.DEFINE && len(a.Lhs) == 2 && len(a.Rhs) == 1 && exprStr(a.Rhs[0]) == "time.Parse()" {
		c := a.Rhs[0].(*ast.CallExpr)
		i0, ok0 := a.Lhs[0].(*ast.Ident)
		i1, ok1 := a.Lhs[1].(*ast.Ident)
		if ok0 && ok1 && len(c.Args) == 2 && t.locals[i0.Obj] != nil && t.locals[i1.Obj] != nil && !t.locals[i0.Obj].mutable && !t.locals[i1.Obj].mutable {
			// t, err := time.Parse(layout, value): the oracle go_time_parse answers with the instant, or nothing on error
			return fmt.Sprintf("(a0 <- %s ;; a1 <- %s ;; let p_ := go_time_parse a0 a1 in let %s := match p_ with Some z_ => z_ | None => 0%%Z end in let %s := (match p_ with Some _ => None | None => Some (b \"parsing time\") end : goerr) in\n %s)",
				t.expr(c.Args[0]), t.expr(c.Args[1]), t.locals[i0.Obj].name, t.locals[i1.Obj].name, t.block(stmts[1:]))
		}
	}
	head := t.stmt(stmts[0])
	if len(stmts) == 1 {
		return head
	}
	return fmt.Sprintf("(seqc %s (fun st =>\n %s))", head, t.block(stmts[1:]))
}

func (t *tr) assign(lhs ast.Expr, rhs string) string {
	id, ok := lhs.(*ast.Ident)
	if !ok {
		return t.fail(lhs, "assignment target %T", lhs)
	}
	if id.Name == "_" {
		return fmt.Sprintf("(_x <- %s ;; ret (Normal st))", rhs)
	}
	l := t.locals[id.Obj]
	if l == nil {
		return t.fail(lhs, "undeclared %s", id.Name)
	}
	return fmt.Sprintf("(v <- %s ;; ret (Normal (%s_set_%s v st)))", rhs, t.fname, l.name)
}

func (t *tr) stmt(s ast.Stmt) string {
	switch x := s.(type) {
	case *ast.AssignStmt:
		if x.Tok == token.ADD_ASSIGN && len(x.Lhs) == 1 && len(x.Rhs) == 1 {
			cp := *x
			cp.Tok = token.ASSIGN
			cp.Rhs = []ast.Expr{&ast.BinaryExpr{X: x.Lhs[0], Op: token.ADD, Y: x.Rhs[0], OpPos: x.TokPos}}
			return t.stmt(&cp)
		}
		if x.Tok != token.ASSIGN && x.Tok != token.DEFINE {
			return t.fail(s, "assignment operator %s", x.Tok)
		}
		if len(x.Lhs) == 2 && len(x.Rhs) == 1 { // i, _ := strconv.Atoi(..)
			if id, ok := x.Lhs[1].(*ast.Ident); ok && id.Name == "_" {
				return t.assign(x.Lhs[0], t.expr(x.Rhs[0]))
			}
		}
		if len(x.Lhs) != len(x.Rhs) {
			return t.fail(s, "assignment arity")
		}
		// evaluate all RHS first (Go semantics), then assign left to right
		out := "(ret (Normal st))"
		for i := len(x.Lhs) - 1; i >= 0; i-- {
			id, ok := x.Lhs[i].(*ast.Ident)
			if !ok || id.Obj == nil || t.locals[id.Obj] == nil {
				return t.fail(s, "assignment target %T", x.Lhs[i])
			}
			l := t.locals[id.Obj]
			if !l.mutable {
				return t.fail(s, "assignment to single-assignment local %s outside a definition", l.name)
			}
			out = fmt.Sprintf("(let st := %s_set_%s v%d st in %s)", t.fname, l.name, i, out)
		}
		for i := len(x.Rhs) - 1; i >= 0; i-- {
			out = fmt.Sprintf("(v%d <- %s ;; %s)", i, t.expr(x.Rhs[i]), out)
		}
		return out
	case *ast.ExprStmt:
		return fmt.Sprintf("(_x <- %s ;; ret (Normal st))", t.expr(x.X))
	case *ast.IfStmt:
		if x.Init != nil {
			cp := *x
			cp.Init = nil
			return t.block([]ast.Stmt{x.Init, &cp})
		}
		els := "(ret (Normal st))"
		if x.Else != nil {
			switch e := x.Else.(type) {
			case *ast.BlockStmt:
				els = t.block(e.List)
			case *ast.IfStmt:
				els = t.stmt(e)
			}
		}
		return fmt.Sprintf("(c <- %s ;; if c then\n %s\n else %s)", t.expr(x.Cond), t.block(x.Body.List), els)
	case *ast.RangeStmt:
		v, ok := x.Value.(*ast.Ident)
		if !ok {
			return t.fail(s, "range without value variable")
		}
		l := t.locals[v.Obj]
		if !l.mutable {
			return fmt.Sprintf("(xs <- %s ;; range_ctl xs st (fun %s st =>\n %s))", t.expr(x.X), l.name, t.block(x.Body.List))
		}
		return fmt.Sprintf("(xs <- %s ;; range_ctl xs st (fun x_ st => let st := %s_set_%s x_ st in\n %s))", t.expr(x.X), t.fname, l.name, t.block(x.Body.List))
	case *ast.BranchStmt:
		if x.Tok == token.BREAK {
			return "(ret (Brk st))"
		}
	case *ast.ReturnStmt:
		if len(x.Results) == 1 {
			return fmt.Sprintf("(v <- %s ;; ret (Ret v))", t.expr(x.Results[0]))
		}
		if len(x.Results) == 2 {
			return fmt.Sprintf("(v1 <- %s ;; v2 <- %s ;; ret (Ret (v1, v2)))", t.expr(x.Results[0]), t.expr(x.Results[1]))
		}
	case *ast.BlockStmt:
		return t.block(x.List)
	}
	return t.fail(s, "statement %T", s)
}

// collect locals (params first), infer types in program order
func (t *tr) collect(fn *ast.FuncType, recv *ast.FieldList, body *ast.BlockStmt) {
	fields := []*ast.Field{}
	if recv != nil {
		fields = append(fields, recv.List...)
	}
	fields = append(fields, fn.Params.List...)
	for _, f := range fields {
		for _, n := range f.Names {
			ty := t.coqTypeA(f.Type)
			if sn := exprStr(f.Type); t.singleField[sn] != "" {
				t.recvStruct[n.Obj] = sn
			}
			if ft, ok := f.Type.(*ast.FuncType); ok {
				rt := "unit"
				if ft.Results != nil && len(ft.Results.List) == 1 {
					rt = t.coqTypeA(ft.Results.List[0].Type)
				}
				t.thunks[n.Obj] = rt
				ty = "(M " + rt + ")"
			}
			t.declare(n.Obj, ty).writes = 1 // a parameter is already defined: any assignment makes it mutable
		}
	}
	ast.Inspect(body, func(n ast.Node) bool {
		switch x := n.(type) {
		case *ast.FuncLit:
			return false
		case *ast.AssignStmt:
			defer func() {
				for _, l := range x.Lhs {
					if id, ok := l.(*ast.Ident); ok && id.Obj != nil {
						if lc := t.locals[id.Obj]; lc != nil {
							lc.writes++
						}
					}
				}
			}()
			if x.Tok == token.DEFINE && len(x.Lhs) == 2 && len(x.Rhs) == 1 && exprStr(x.Rhs[0]) == "time.Parse()" {
				if a, ok := x.Lhs[0].(*ast.Ident); ok && a.Obj != nil {
					t.declare(a.Obj, "Z")
				}
				if b, ok := x.Lhs[1].(*ast.Ident); ok && b.Obj != nil {
					t.declare(b.Obj, "goerr")
				}
				return true
			}
			if x.Tok == token.DEFINE {
				for i, l := range x.Lhs {
					id := l.(*ast.Ident)
					if id.Name == "_" || id.Obj == nil {
						continue
					}
					var rhs ast.Expr
					if len(x.Rhs) == len(x.Lhs) {
						rhs = x.Rhs[i]
					} else {
						rhs = x.Rhs[0]
					}
					t.declare(id.Obj, t.typeOf(rhs))
				}
			}
		case *ast.RangeStmt:
			if v, ok := x.Value.(*ast.Ident); ok && v.Obj != nil {
				ct := t.typeOf(x.X)
				el := strings.TrimSuffix(strings.TrimPrefix(ct, "(list "), ")")
				t.declare(v.Obj, el).writes++
			}
		}
		return true
	})
	for _, o := range t.order {
		l := t.locals[o]
		l.mutable = l.writes > 1
	}
}

func (t *tr) emitFunc(name string, fn *ast.FuncType, recv *ast.FieldList, body *ast.BlockStmt, ret string, w *strings.Builder) {
	t.fname = name
	t.locals = map[*ast.Object]*local{}
	t.order = nil
	t.used = map[string]int{}
	t.thunks = map[*ast.Object]string{}
	t.recvStruct = map[*ast.Object]string{}
	if t.singleField == nil {
		t.singleField = map[string]string{}
	}
	t.collect(fn, recv, body)
	var mut []*ast.Object
	for _, o := range t.order {
		if t.locals[o].mutable {
			mut = append(mut, o)
		}
	}
	allOrder := t.order
	fmt.Fprintf(w, "\n(* ---- %s ---- *)\nRecord %s_st := { ", name, name)
	if len(mut) == 0 {
		fmt.Fprintf(w, "%s_dummy : unit", name)
	}
	for i, o := range mut {
		l := t.locals[o]
		if i > 0 {
			w.WriteString("; ")
		}
		fmt.Fprintf(w, "%s_%s : %s", name, l.name, l.typ)
	}
	w.WriteString(" }.\n")
	t.order = mut
	for _, o := range t.order {
		l := t.locals[o]
		fmt.Fprintf(w, "Definition %s_set_%s (v : %s) (st : %s_st) : %s_st := {| ", name, l.name, l.typ, name, name)
		for j, o2 := range t.order {
			l2 := t.locals[o2]
			if j > 0 {
				w.WriteString("; ")
			}
			if o2 == o {
				fmt.Fprintf(w, "%s_%s := v", name, l2.name)
			} else {
				fmt.Fprintf(w, "%s_%s := %s_%s st", name, l2.name, name, l2.name)
			}
		}
		w.WriteString(" |}.\n")
	}
	params := []string{}
	inits := []string{}
	np := 0
	if recv != nil {
		for _, f := range recv.List {
			np += len(f.Names)
		}
	}
	for _, f := range fn.Params.List {
		np += len(f.Names)
	}
	t.lastParams = nil
	isParam := map[*ast.Object]bool{}
	for i, o := range allOrder {
		if i < np {
			isParam[o] = true
			l := t.locals[o]
			pn := l.name
			if l.mutable {
				pn = l.name + "_arg"
			}
			params = append(params, fmt.Sprintf("(%s : %s)", pn, l.typ))
			t.lastParams = append(t.lastParams, &local{name: pn, typ: l.typ})
		}
	}
	for _, o := range mut {
		l := t.locals[o]
		if isParam[o] {
			inits = append(inits, fmt.Sprintf("%s_%s := %s_arg", name, l.name, l.name))
		} else {
			inits = append(inits, fmt.Sprintf("%s_%s := %s", name, l.name, l.zero))
		}
	}
	if len(mut) == 0 {
		inits = append(inits, fmt.Sprintf("%s_dummy := tt", name))
	}
	if t.extraParams != "" {
		params = append([]string{t.extraParams}, params...)
	}
	fmt.Fprintf(w, "Definition %s %s : M %s :=\n let st := {| %s |} in\n r <- (%s : M (ctl %s_st %s)) ;;\n ret (match r with Ret v => v | _ => %s end).\n",
		name, strings.Join(params, " "), ret, strings.Join(inits, "; "), t.block(body.List), name, ret, zeroOf(ret))
}
