// facts mode: extract the structure of the handlers (checker chains, call order, constants, templates).
package main

import (
	"fmt"
	"go/ast"
	"go/token"
	"go/types"
	"sort"
	"strconv"
	"strings"
)

func callees(n ast.Node) []string {
	set := map[string]bool{}
	if n == nil {
		return nil
	}
	ast.Inspect(n, func(x ast.Node) bool {
		if c, ok := x.(*ast.CallExpr); ok {
			switch f := c.Fun.(type) {
			case *ast.Ident:
				set[f.Name] = true
			case *ast.SelectorExpr:
				set[exprStr(f)] = true
			}
		}
		return true
	})
	var out []string
	for k := range set {
		if strings.HasPrefix(k, "fmt.") || strings.HasPrefix(k, "logging.") || strings.HasSuffix(k, ".Error") && !strings.HasPrefix(k, "http.") ||
			k == "r.Context" || k == "string" || k == "append" || k == "make" || k == "len" {
			continue
		}
		out = append(out, k)
	}
	sort.Strings(out)
	return out
}

func idents(n ast.Node, prefix string) []string {
	set := map[string]bool{}
	ast.Inspect(n, func(x ast.Node) bool {
		if id, ok := x.(*ast.Ident); ok && strings.HasPrefix(id.Name, prefix) {
			set[id.Name] = true
		}
		return true
	})
	var out []string
	for k := range set {
		out = append(out, k)
	}
	sort.Strings(out)
	return out
}

func identsAll(n ast.Node) []string {
	var out []string
	ast.Inspect(n, func(x ast.Node) bool {
		if id, ok := x.(*ast.Ident); ok {
			out = append(out, id.Name)
		}
		return true
	})
	return out
}

func assigned(n ast.Node) []string {
	set := map[string]bool{}
	ast.Inspect(n, func(x ast.Node) bool {
		if a, ok := x.(*ast.AssignStmt); ok {
			for _, l := range a.Lhs {
				if s, ok := l.(*ast.SelectorExpr); ok {
					set[exprStr(s)] = true
				}
			}
		}
		return true
	})
	var out []string
	for k := range set {
		out = append(out, k)
	}
	sort.Strings(out)
	return out
}

func contains(l []string, s string) bool {
	for _, x := range l {
		if x == s {
			return true
		}
	}
	return false
}

func coqStrList(l []string) string {
	var o []string
	for _, x := range l {
		o = append(o, coqStr(x))
	}
	return "[" + strings.Join(o, "; ") + "]"
}

// constants: package-level string consts / vars with literal values
func stringConsts(files []*ast.File) map[string]string {
	out := map[string]string{}
	for _, f := range files {
		for _, d := range f.Decls {
			g, ok := d.(*ast.GenDecl)
			if !ok || (g.Tok != token.CONST && g.Tok != token.VAR) {
				continue
			}
			for _, sp := range g.Specs {
				vs, ok := sp.(*ast.ValueSpec)
				if !ok {
					continue
				}
				for i, n := range vs.Names {
					if i < len(vs.Values) {
						if bl, ok := vs.Values[i].(*ast.BasicLit); ok && bl.Kind == token.STRING {
							s, err := strconv.Unquote(bl.Value)
							if err == nil {
								out[n.Name] = s
							}
						}
					}
				}
			}
		}
	}
	return out
}

// intConsts: package-level integer constants with simple constant expressions
func evalInt(e ast.Expr, env map[string]int64) (int64, bool) {
	switch x := e.(type) {
	case *ast.BasicLit:
		if x.Kind == token.INT {
			v, err := strconv.ParseInt(x.Value, 0, 64)
			return v, err == nil
		}
	case *ast.Ident:
		v, ok := env[x.Name]
		return v, ok
	case *ast.ParenExpr:
		return evalInt(x.X, env)
	case *ast.BinaryExpr:
		a, ok1 := evalInt(x.X, env)
		b, ok2 := evalInt(x.Y, env)
		if !ok1 || !ok2 {
			return 0, false
		}
		switch x.Op {
		case token.SHL:
			return a << uint(b), true
		case token.MUL:
			return a * b, true
		case token.ADD:
			return a + b, true
		case token.SUB:
			return a - b, true
		}
	}
	return 0, false
}

func intConsts(files []*ast.File) map[string]int64 {
	out := map[string]int64{}
	for _, f := range files {
		for _, d := range f.Decls {
			g, ok := d.(*ast.GenDecl)
			if !ok || g.Tok != token.CONST {
				continue
			}
			for _, sp := range g.Specs {
				vs, ok := sp.(*ast.ValueSpec)
				if !ok {
					continue
				}
				for i, n := range vs.Names {
					if i < len(vs.Values) {
						if v, ok := evalInt(vs.Values[i], out); ok {
							out[n.Name] = v
						}
					}
				}
			}
		}
	}
	return out
}

func failFact(last ast.Expr, consts map[string]string) string {
	cs := callees(last)
	st := idents(last, "StatusCode")
	resolve := func(n string) string {
		if v, ok := consts[n]; ok {
			return "(b " + coqStr(v) + ")"
		}
		return "(b " + coqStr("?"+n) + ")"
	}
	switch {
	case len(cs) == 2 && contains(cs, "response.sendBackResponse") && contains(cs, "response.makeFailedResponse") && len(st) == 1:
		return "FSaml " + resolve(st[0])
	case len(cs) == 2 && contains(cs, "response.sendBackLogoutResponse") && contains(cs, "response.makeFailedLogoutResponse") && len(st) == 1:
		return "FSamlLogout " + resolve(st[0])
	case len(cs) == 1 && cs[0] == "http.Error":
		hs := idents(last, "Status")
		if len(hs) == 1 && hs[0] == "StatusInternalServerError" {
			return "FHttp 500"
		}
		return "FUnknown"
	}
	return "FUnknown"
}

func chainFacts(f *ast.File, fname, defname string, consts map[string]string, out *strings.Builder) {
	fn := funcDecl(f, fname)
	if fn == nil {
		problem("%s not found", fname)
		return
	}
	var steps, pre, post []string
	afterCheck := false
	seenCheck := 0
	for _, st := range fn.Body.List {
		if es, ok := st.(*ast.ExprStmt); ok {
			if c, ok := es.X.(*ast.CallExpr); ok {
				if s, ok := c.Fun.(*ast.SelectorExpr); ok && exprStr(s.X) == "checkerInstance" {
					if afterCheck {
						problem("%s: checker step added after CheckFailed", fname)
					}
					kind := s.Sel.Name
					logicArgs := c.Args
					fail := "FNone"
					if kind != "WithValueStep" {
						logicArgs = c.Args[:len(c.Args)-1]
						fail = failFact(c.Args[len(c.Args)-1], consts)
					}
					var tag, lits, writes, cs []string
					for _, a := range logicArgs {
						tag = append(tag, callees(a)...)
						writes = append(writes, assigned(a)...)
						for _, id := range identsAll(a) {
							if _, ok := consts[id]; ok && !contains(cs, id) {
								cs = append(cs, id)
							}
						}
						if bl, ok := a.(*ast.BasicLit); ok {
							s, _ := strconv.Unquote(bl.Value)
							lits = append(lits, s)
						}
					}
					sort.Strings(cs)
					steps = append(steps, fmt.Sprintf("  {| sk := K%s; callees := %s; lits := %s; consts := %s; writes := %s; sf := %s |}",
						strings.TrimPrefix(kind, "With"), coqStrList(tag), coqStrList(lits), coqStrList(cs), coqStrList(writes), fail))
					continue
				}
			}
		}
		if is, ok := st.(*ast.IfStmt); ok && strings.Contains(exprStr(is.Cond), "CheckFailed") {
			// must be: if checkerInstance.CheckFailed() { return }
			okShape := exprStr(is.Cond) == "checkerInstance.CheckFailed()" && is.Else == nil && len(is.Body.List) == 1
			if okShape {
				rs, ok := is.Body.List[0].(*ast.ReturnStmt)
				okShape = ok && len(rs.Results) == 0
			}
			if !okShape {
				problem("%s: the CheckFailed guard is not `if checkerInstance.CheckFailed() { return }`", fname)
			}
			afterCheck = true
			seenCheck++
			continue
		}
		facts := stmtFact(st, consts)
		if afterCheck {
			post = append(post, facts...)
		} else {
			pre = append(pre, facts...)
		}
	}
	if seenCheck != 1 {
		problem("%s: expected exactly one CheckFailed guard, found %d", fname, seenCheck)
	}
	fmt.Fprintf(out, "Definition %s_pre : list stmtfact := [\n%s\n].\n", defname, strings.Join(pre, ";\n"))
	fmt.Fprintf(out, "Definition %s_steps : list stepfact := [\n%s\n].\n", defname, strings.Join(steps, ";\n"))
	fmt.Fprintf(out, "Definition %s_post : list stmtfact := [\n%s\n].\n\n", defname, strings.Join(post, ";\n"))
}

// stmtFact: one fact per top-level statement of a straight-line function
func stmtFact(st ast.Stmt, consts map[string]string) []string {
	mk := func(kind string, targets, conds, calls []string, returns bool, extra string) string {
		return fmt.Sprintf("  {| sfk := %s; targets := %s; conds := %s; calls := %s; returns := %v; cases := %s |}", kind, coqStrList(targets), coqStrList(conds), coqStrList(calls), returns, extra)
	}
	endsWithReturn := func(b *ast.BlockStmt) bool {
		if b == nil || len(b.List) == 0 {
			return false
		}
		_, ok := b.List[len(b.List)-1].(*ast.ReturnStmt)
		return ok
	}
	switch x := st.(type) {
	case *ast.DeclStmt:
		return nil
	case *ast.AssignStmt:
		var targets []string
		for _, l := range x.Lhs {
			targets = append(targets, exprStr(l))
		}
		var calls []string
		for _, r := range x.Rhs {
			calls = append(calls, callees(r)...)
		}
		return []string{mk("SAssign", targets, nil, calls, false, "[]")}
	case *ast.IfStmt:
		var targets, conds []string
		if x.Init != nil {
			if a, ok := x.Init.(*ast.AssignStmt); ok {
				for _, l := range a.Lhs {
					targets = append(targets, exprStr(l))
				}
			}
			conds = append(conds, callees(x.Init)...)
		}
		conds = append(conds, callees(x.Cond)...)
		conds = append(conds, "cond:"+condStr(x.Cond))
		calls := callees(x.Body)
		for _, sc := range idents(x.Body, "StatusCode") {
			calls = append(calls, "status:"+consts[sc])
		}
		if x.Else != nil {
			calls = append(calls, "else")
			calls = append(calls, callees(x.Else)...)
		}
		// order of calls and error checks inside the body
		var seq []string
		for _, bs := range x.Body.List {
			switch y := bs.(type) {
			case *ast.AssignStmt:
				for _, r := range y.Rhs {
					for _, c := range callees(r) {
						seq = append(seq, "call:"+c)
					}
				}
			case *ast.IfStmt:
				if condStr(y.Cond) == "err!=nil" && endsWithReturn(y.Body) {
					pre := ""
					if y.Init != nil {
						for _, c := range callees(y.Init) {
							seq = append(seq, "call:"+c)
						}
					}
					seq = append(seq, pre+"iferr-return")
				} else {
					seq = append(seq, "if:"+condStr(y.Cond))
				}
			case *ast.ReturnStmt:
				seq = append(seq, "return")
			case *ast.ExprStmt:
				for _, c := range callees(y) {
					seq = append(seq, "call:"+c)
				}
			default:
				seq = append(seq, "stmt")
			}
		}
		extra := "[]"
		if len(seq) > 0 {
			extra = "[(" + coqStrList([]string{"body"}) + ", " + coqStrList(seq) + ")]"
		}
		return []string{mk("SIf", targets, conds, calls, endsWithReturn(x.Body), extra)}
	case *ast.ExprStmt:
		return []string{mk("SExpr", nil, nil, callees(x), false, "[]")}
	case *ast.ReturnStmt:
		calls := callees(x)
		for _, sc := range idents(x, "StatusCode") {
			calls = append(calls, "status:"+consts[sc])
		}
		return []string{mk("SReturn", nil, nil, calls, true, "[]")}
	case *ast.SwitchStmt:
		var cases []string
		for _, cc := range x.Body.List {
			cl := cc.(*ast.CaseClause)
			var cs []string
			for _, e := range cl.List {
				n := exprStr(e)
				if bl, ok := e.(*ast.BasicLit); ok && bl.Kind == token.STRING {
					n, _ = strconv.Unquote(bl.Value)
					n = "lit:" + n
				}
				if v, ok := consts[n]; ok {
					n = v
				}
				cs = append(cs, n)
			}
			body := &ast.BlockStmt{List: cl.Body}
			calls := callees(body)
			for _, s := range idents(body, "StatusCode") {
				calls = append(calls, "status:"+consts[s])
			}
			// how the clause ends: return:err = last result is not the nil identifier, return:ok = it is
			if n := len(cl.Body); n > 0 {
				if rs, ok := cl.Body[n-1].(*ast.ReturnStmt); ok && len(rs.Results) >= 2 {
					if id, ok := rs.Results[len(rs.Results)-1].(*ast.Ident); ok && id.Name == "nil" {
						calls = append(calls, "return:ok")
					} else {
						calls = append(calls, "return:err")
					}
				}
			}
			cases = append(cases, fmt.Sprintf("(%s, %s)", coqStrList(cs), coqStrList(calls)))
		}
		return []string{mk("SSwitch", []string{exprStr(x.Tag)}, nil, nil, false, "["+strings.Join(cases, "; ")+"]")}
	}
	return []string{mk("SOther", nil, nil, callees(st), false, "[]")}
}

func condStr(e ast.Expr) string {
	switch x := e.(type) {
	case *ast.BinaryExpr:
		return condStr(x.X) + x.Op.String() + condStr(x.Y)
	case *ast.UnaryExpr:
		return x.Op.String() + condStr(x.X)
	case *ast.ParenExpr:
		return "(" + condStr(x.X) + ")"
	case *ast.BasicLit:
		return x.Value
	case *ast.CallExpr:
		return exprStr(x.Fun) + "()"
	}
	return exprStr(e)
}

func straightFacts(f *ast.File, fname, defname string, consts map[string]string, out *strings.Builder) {
	fn := funcDecl(f, fname)
	if fn == nil {
		problem("%s not found", fname)
		return
	}
	var facts []string
	for _, st := range fn.Body.List {
		facts = append(facts, stmtFact(st, consts)...)
	}
	fmt.Fprintf(out, "Definition %s : list stmtfact := [\n%s\n].\n\n", defname, strings.Join(facts, ";\n"))
}

var keysJSON map[string][]string

// formKeys: string literals used as request-parameter names inside a function
func formKeys(f *ast.File, fname string) []string {
	fn := funcDecl(f, fname)
	set := map[string]bool{}
	if fn == nil {
		return nil
	}
	ast.Inspect(fn.Body, func(n ast.Node) bool {
		switch x := n.(type) {
		case *ast.CallExpr:
			name := exprStr(x.Fun)
			if strings.HasSuffix(name, ".FormValue") || strings.HasSuffix(name, ".Form.Get") || strings.HasSuffix(name, ".PostFormValue") || strings.HasSuffix(name, ".Query().Get") || strings.HasSuffix(name, ".PostForm.Get") || strings.HasSuffix(name, ".Header.Get") {
				for _, a := range x.Args {
					if bl, ok := a.(*ast.BasicLit); ok && bl.Kind == token.STRING {
						v, _ := strconv.Unquote(bl.Value)
						set[name[strings.Index(name, ".")+1:]+":"+v] = true
					}
				}
			}
		case *ast.IndexExpr:
			if bl, ok := x.Index.(*ast.BasicLit); ok && bl.Kind == token.STRING {
				v, _ := strconv.Unquote(bl.Value)
				set["index:"+v] = true
			}
		}
		return true
	})
	var out []string
	for k := range set {
		out = append(out, k)
	}
	sort.Strings(out)
	return out
}

func genFacts(repo string) string {
	fset := token.NewFileSet()
	var out strings.Builder
	out.WriteString("(* GENERATED by go2v (facts mode) from pkg/provider/*.go -- do not edit *)\n")
	out.WriteString("From Saml Require Import Base.Bytes Idp.FactTypes.\nOpen Scope string_scope.\n\n")
	files := map[string]*ast.File{}
	for _, n := range []string{"sso.go", "login.go", "logout.go", "attribute_query.go", "response.go", "logout_response.go", "provider.go", "identityprovider.go", "template.go", "redirect.go", "post.go", "metadata.go", "probes.go", "endpoint.go"} {
		files[n] = parse(fset, repo, "pkg/provider/"+n)
	}
	files["xml.go"] = parse(fset, repo, "pkg/provider/xml/xml.go")
	var all []*ast.File
	for _, f := range files {
		all = append(all, f)
	}
	consts := stringConsts(all)
	names := []string{}
	for k := range consts {
		names = append(names, k)
	}
	sort.Strings(names)
	out.WriteString("(* string constants *)\n")
	for _, k := range names {
		fmt.Fprintf(&out, "Definition c_%s : bytes := b %s.\n", k, coqStr(consts[k]))
	}
	ints := intConsts(all)
	inames := []string{}
	for k := range ints {
		inames = append(inames, k)
	}
	sort.Strings(inames)
	for _, k := range inames {
		fmt.Fprintf(&out, "Definition ci_%s : Z := (%d)%%Z.\n", k, ints[k])
	}
	out.WriteString("\n")
	chainFacts(files["sso.go"], "ssoHandleFunc", "sso", consts, &out)
	chainFacts(files["logout.go"], "logoutHandleFunc", "logout", consts, &out)
	chainFacts(files["attribute_query.go"], "attributeQueryHandleFunc", "attrquery", consts, &out)
	keysJSON = map[string][]string{}
	for _, fk := range [][3]string{{"sso.go", "getAuthRequestFromRequest", "sso_form_keys"}, {"logout.go", "getLogoutRequestFromRequest", "logout_form_keys"},
		{"login.go", "callbackHandleFunc", "callback_form_keys"}, {"logout.go", "logoutHandleFunc", "logout_handler_keys"}, {"sso.go", "ssoHandleFunc", "sso_handler_keys"},
		{"attribute_query.go", "attributeQueryHandleFunc", "attrquery_handler_keys"}} {
		ks := formKeys(files[fk[0]], fk[1])
		keysJSON[fk[2]] = ks
		fmt.Fprintf(&out, "Definition %s : list string := %s.\n", fk[2], coqStrList(ks))
	}
	out.WriteString("\n")
	straightFacts(files["login.go"], "callbackHandleFunc", "callback_seq", consts, &out)
	straightFacts(files["login.go"], "loginResponse", "loginResponse_seq", consts, &out)
	straightFacts(files["response.go"], "sendBackResponse", "sendBackResponse_seq", consts, &out)
	straightFacts(files["response.go"], "createSignature", "createSignature_seq", consts, &out)
	straightFacts(files["logout_response.go"], "sendBackLogoutResponse", "sendBackLogoutResponse_seq", consts, &out)
	straightFacts(files["provider.go"], "GetMetadata", "providerGetMetadata_seq", consts, &out)
	straightFacts(files["metadata.go"], "metadataHandle", "metadataHandle_seq", consts, &out)
	straightFacts(files["identityprovider.go"], "certificateHandleFunc", "certificateHandle_seq", consts, &out)
	straightFacts(files["xml.go"], "InflateAndDecode", "inflateAndDecode_seq", consts, &out)
	straightFacts(files["identityprovider.go"], "getResponseCert", "getResponseCert_seq", consts, &out)
	straightFacts(files["provider.go"], "getMetadataCert", "getMetadataCert_seq", consts, &out)
	straightFacts(files["xml.go"], "DecodeAuthNRequest", "decodeAuthNRequest_seq", consts, &out)
	straightFacts(files["xml.go"], "DecodeLogoutRequest", "decodeLogoutRequest_seq", consts, &out)
	out.WriteString("(* composite-literal fields of the metadata builders, routes *)\n")
	pairList(&out, "idp_metadata_kv", kvFacts(funcDeclRecv(files["metadata.go"], "IdentityProviderConfig", "getMetadata"), "IdentityProviderConfig.getMetadata"))
	pairList(&out, "entity_metadata_kv", kvFacts(funcDeclRecv(files["metadata.go"], "Config", "getMetadata"), "Config.getMetadata"))
	pairList(&out, "router_calls", routerCalls(funcDecl(files["provider.go"], "CreateRouter")))
	pairList(&out, "idp_routes", routeLits(funcDecl(files["identityprovider.go"], "GetRoutes")))
	pairList(&out, "endpoint_defaults", kvFacts(funcDecl(files["identityprovider.go"], "endpointConfigToEndpoints"), "endpointConfigToEndpoints"))
	pairList(&out, "entity_id_expr", returnExprs(funcDeclRecv(files["identityprovider.go"], "IdentityProvider", "GetEntityID")))
	pairList(&out, "sso_response_kv", kvFacts(funcDecl(files["sso.go"], "ssoHandleFunc"), "ssoHandleFunc"))
	pairList(&out, "callback_response_kv", kvFacts(funcDecl(files["login.go"], "callbackHandleFunc"), "callbackHandleFunc"))
	pairList(&out, "logout_response_kv", kvFacts(funcDecl(files["logout.go"], "logoutHandleFunc"), "logoutHandleFunc"))
	pairList(&out, "attrquery_response_args", callArgs(funcDecl(files["attribute_query.go"], "attributeQueryHandleFunc"), "makeAttributeQueryResponse"))
	pairList(&out, "idp_getmetadata_calls", callArgsAll(funcDeclRecv(files["identityprovider.go"], "IdentityProvider", "GetMetadata")))
	pairList(&out, "newid_src", returnExprs(funcDecl(files["provider.go"], "NewID")))
	pairList(&out, "decodeAuthNRequest_calls", callArgsAll(funcDecl(files["xml.go"], "DecodeAuthNRequest")))
	pairList(&out, "decodeLogoutRequest_calls", callArgsAll(funcDecl(files["xml.go"], "DecodeLogoutRequest")))
	pairList(&out, "sso_decode_call", callArgs(funcDecl(files["sso.go"], "ssoHandleFunc"), "xml.DecodeAuthNRequest"))
	pairList(&out, "logout_decode_call", callArgs(funcDecl(files["logout.go"], "logoutHandleFunc"), "xml.DecodeLogoutRequest"))
	// where the Destination checks get their arguments from
	req := funcDecl(files["sso.go"], "checkRequestRequiredContent")
	pairList(&out, "sso_destination_call", callArgsThunk(req, "verifyRequestDestinationOfAuthRequest"))
	pairList(&out, "sso_required_locals", localDefs(req, []string{"idpMetadata", "authNRequest", "sp"}))
	pairList(&out, "sso_required_params", paramNames(req))
	pairList(&out, "sso_required_call", callArgsThunk(funcDecl(files["sso.go"], "ssoHandleFunc"), "checkRequestRequiredContent"))
	pairList(&out, "sso_time_call", callArgsThunk(req, "checkIfRequestTimeIsStillValid"))
	pairList(&out, "logout_time_call", callArgsThunk(funcDecl(files["logout.go"], "logoutHandleFunc"), "checkIfRequestTimeIsStillValid"))
	pairList(&out, "attrquery_destination_call", callArgsThunk(funcDecl(files["attribute_query.go"], "attributeQueryHandleFunc"), "verifyRequestDestinationOfAttrQuery"))
	pairList(&out, "endpoint_absolute_src", returnExprs(funcDeclRecv(files["endpoint.go"], "Endpoint", "Absolute")))
	pairList(&out, "endpoint_relative_src", returnExprs(funcDeclRecv(files["endpoint.go"], "Endpoint", "Relative")))
	return out.String()
}

func pairList(out *strings.Builder, name string, ps [][2]string) {
	var l []string
	for _, p := range ps {
		l = append(l, fmt.Sprintf("(%s, %s)", coqStr(p[0]), coqStr(p[1])))
	}
	fmt.Fprintf(out, "Definition %s : list (string * string) := [%s].\n", name, strings.Join(l, ";\n  "))
}

func funcDeclRecv(f *ast.File, recv, name string) *ast.FuncDecl {
	if f == nil {
		return nil
	}
	for _, d := range f.Decls {
		fn, ok := d.(*ast.FuncDecl)
		if !ok || fn.Name.Name != name || fn.Recv == nil || len(fn.Recv.List) == 0 {
			continue
		}
		if exprStr(fn.Recv.List[0].Type) == recv {
			return fn
		}
	}
	return nil
}

// kvFacts: every key: value pair of the composite literals in a function body, keys prefixed by the enclosing keys,
// values as source text; in source order
func kvFacts(fn *ast.FuncDecl, what string) [][2]string {
	if fn == nil {
		problem("%s not found", what)
		return nil
	}
	var out [][2]string
	var lit func(c *ast.CompositeLit, prefix string)
	unwrap := func(e ast.Expr) *ast.CompositeLit {
		if u, ok := e.(*ast.UnaryExpr); ok && u.Op == token.AND {
			e = u.X
		}
		c, _ := e.(*ast.CompositeLit)
		return c
	}
	lit = func(c *ast.CompositeLit, prefix string) {
		for _, el := range c.Elts {
			if kv, ok := el.(*ast.KeyValueExpr); ok {
				k := prefix + exprStr(kv.Key)
				if inner := unwrap(kv.Value); inner != nil {
					lit(inner, k+"/")
				} else {
					out = append(out, [2]string{k, types.ExprString(kv.Value)})
				}
			} else if inner := unwrap(el); inner != nil {
				lit(inner, prefix)
			} else {
				out = append(out, [2]string{prefix + "_", types.ExprString(el)})
			}
		}
	}
	seen := map[*ast.CompositeLit]bool{}
	ast.Inspect(fn.Body, func(n ast.Node) bool {
		c, ok := n.(*ast.CompositeLit)
		if !ok || seen[c] {
			return true
		}
		ast.Inspect(c, func(m ast.Node) bool {
			if cc, ok := m.(*ast.CompositeLit); ok {
				seen[cc] = true
			}
			return true
		})
		lit(c, "")
		return false
	})
	// plain assignments to fields (x.F = e) complete the picture
	ast.Inspect(fn.Body, func(n ast.Node) bool {
		if a, ok := n.(*ast.AssignStmt); ok && len(a.Lhs) == 1 && len(a.Rhs) == 1 {
			if _, isSel := a.Lhs[0].(*ast.SelectorExpr); isSel && unwrap(a.Rhs[0]) == nil {
				out = append(out, [2]string{"assign:" + types.ExprString(a.Lhs[0]), types.ExprString(a.Rhs[0])})
			}
		}
		return true
	})
	return out
}

// routerCalls: the (path, handler) arguments of every Handle / HandleFunc call, in order; a range loop over routes is
// ("range", <expression ranged over>)
func routerCalls(fn *ast.FuncDecl) [][2]string {
	if fn == nil {
		problem("CreateRouter not found")
		return nil
	}
	var out [][2]string
	ast.Inspect(fn.Body, func(n ast.Node) bool {
		switch x := n.(type) {
		case *ast.RangeStmt:
			out = append(out, [2]string{"range", types.ExprString(x.X)})
		case *ast.CallExpr:
			name := exprStr(x.Fun)
			if (strings.HasSuffix(name, ".HandleFunc") || strings.HasSuffix(name, ".Handle")) && len(x.Args) == 2 {
				out = append(out, [2]string{types.ExprString(x.Args[0]), types.ExprString(x.Args[1])})
			}
		}
		return true
	})
	return out
}

// routeLits: the {endpoint, handler} pairs of the route list literal returned by GetRoutes
func routeLits(fn *ast.FuncDecl) [][2]string {
	if fn == nil {
		problem("GetRoutes not found")
		return nil
	}
	var out [][2]string
	ast.Inspect(fn.Body, func(n ast.Node) bool {
		if c, ok := n.(*ast.CompositeLit); ok && len(c.Elts) == 2 {
			if _, kv := c.Elts[0].(*ast.KeyValueExpr); !kv {
				out = append(out, [2]string{types.ExprString(c.Elts[0]), types.ExprString(c.Elts[1])})
				return false
			}
		}
		return true
	})
	return out
}

// returnExprs: the source text of the function's statements, one pair per statement: ("if", cond) / ("return", expr)
func returnExprs(fn *ast.FuncDecl) [][2]string {
	if fn == nil {
		problem("function for returnExprs not found")
		return nil
	}
	var out [][2]string
	var walk func(l []ast.Stmt, prefix string)
	walk = func(l []ast.Stmt, prefix string) {
		for _, st := range l {
			switch x := st.(type) {
			case *ast.IfStmt:
				out = append(out, [2]string{prefix + "if", types.ExprString(x.Cond)})
				walk(x.Body.List, prefix+"then:")
			case *ast.ReturnStmt:
				var rs []string
				for _, r := range x.Results {
					rs = append(rs, types.ExprString(r))
				}
				out = append(out, [2]string{prefix + "return", strings.Join(rs, ", ")})
			default:
				out = append(out, [2]string{prefix + "other", "?"})
			}
		}
	}
	walk(fn.Body.List, "")
	return out
}

// callArgs: the arguments (source text) of the first call of the named function inside fn
func callArgs(fn *ast.FuncDecl, callee string) [][2]string {
	if fn == nil {
		problem("function for callArgs(%s) not found", callee)
		return nil
	}
	var out [][2]string
	ast.Inspect(fn.Body, func(n ast.Node) bool {
		if c, ok := n.(*ast.CallExpr); ok && out == nil && exprStr(c.Fun) == callee {
			for i, a := range c.Args {
				out = append(out, [2]string{fmt.Sprintf("arg%d", i), types.ExprString(a)})
			}
		}
		return true
	})
	if out == nil {
		problem("no call of %s", callee)
	}
	return out
}

// callArgsAll: every call in the function as (callee, full source text), in order
func callArgsAll(fn *ast.FuncDecl) [][2]string {
	if fn == nil {
		problem("function for callArgsAll not found")
		return nil
	}
	var out [][2]string
	ast.Inspect(fn.Body, func(n ast.Node) bool {
		if c, ok := n.(*ast.CallExpr); ok {
			out = append(out, [2]string{exprStr(c.Fun), types.ExprString(c)})
		}
		return true
	})
	return out
}

// callArgsThunk: like callArgs, but an argument that is a function literal with the single statement `return X` is
// rendered as "thunk:X".
func callArgsThunk(fn *ast.FuncDecl, callee string) [][2]string {
	if fn == nil {
		problem("function for callArgsThunk(%s) not found", callee)
		return nil
	}
	var out [][2]string
	n := 0
	ast.Inspect(fn.Body, func(nd ast.Node) bool {
		if c, ok := nd.(*ast.CallExpr); ok && exprStr(c.Fun) == callee {
			n++
			if n > 1 {
				return true
			}
			for i, a := range c.Args {
				txt := types.ExprString(a)
				if fl, ok := a.(*ast.FuncLit); ok {
					txt = "funclit"
					if len(fl.Body.List) == 1 {
						if r, ok := fl.Body.List[0].(*ast.ReturnStmt); ok && len(r.Results) == 1 {
							txt = "thunk:" + types.ExprString(r.Results[0])
						}
					}
				}
				out = append(out, [2]string{fmt.Sprintf("arg%d", i), txt})
			}
		}
		return true
	})
	if n != 1 {
		problem("%d calls of %s (expected exactly one)", n, callee)
	}
	return out
}

// localDefs: for each name, every `name := rhs` / `name = rhs` in the function (closures included), in order
func localDefs(fn *ast.FuncDecl, names []string) [][2]string {
	if fn == nil {
		problem("function for localDefs not found")
		return nil
	}
	want := map[string]bool{}
	for _, n := range names {
		want[n] = true
	}
	var out [][2]string
	ast.Inspect(fn.Body, func(nd ast.Node) bool {
		if a, ok := nd.(*ast.AssignStmt); ok && len(a.Lhs) == len(a.Rhs) {
			for i, l := range a.Lhs {
				if id, ok := l.(*ast.Ident); ok && want[id.Name] {
					out = append(out, [2]string{id.Name, types.ExprString(a.Rhs[i])})
				}
			}
		} else if ok {
			for _, l := range a.Lhs {
				if id, ok := l.(*ast.Ident); ok && want[id.Name] {
					out = append(out, [2]string{id.Name, "multi:" + types.ExprString(a.Rhs[0])})
				}
			}
		}
		return true
	})
	return out
}

func paramNames(fn *ast.FuncDecl) [][2]string {
	if fn == nil {
		problem("function for paramNames not found")
		return nil
	}
	var out [][2]string
	i := 0
	for _, f := range fn.Type.Params.List {
		for _, n := range f.Names {
			out = append(out, [2]string{fmt.Sprintf("param%d", i), n.Name})
			i++
		}
	}
	return out
}
