#!/usr/bin/env python3
"""Regenerates MANIFEST.json from the table below (kept in one place so it is always valid)."""
import json, os
ROOT = os.path.dirname(os.path.abspath(__file__))
BASE = "cd /repo && GOFLAGS=-mod=mod GOPROXY=off go test -vet=off -count=1 -timeout 25m ./..."
NOTE = ("Trusted: Coq 8.16.1 kernel and vm_compute (no native_compute); no axioms (every Print Assumptions is 'Closed under the global "
        "context'); the go2v translator; the Go harness/oracle; Go toolchain and third-party libraries. See DESIGN.md section 7.")
SOURCE_COMMITS = ["05f9ccb verif hooks: export template rendering behind the 'verif' build tag",
                  "10a19d1 verif hooks: export the two Destination checks behind the 'verif' build tag",
                  "0a01504 verif hooks: export the validity-window check and the signature / certificate deciders behind the 'verif' build tag"]
CLAIMED = {
 "C14": dict(ref="5 C14", technique="Rocq/Coq proof of the bounded read loop + allocation measurement on the implementation (partial by nature)",
   text="C14_bounded / _independent_of_ratio: for every stream of chunks the LimitReader/ReadAll loop materialises at most cap+1 bytes and rejects exactly the streams longer than cap; C14_structure ties cap and "
        "the use of io.LimitReader to xml.go (facts). PARTIAL: allocation is a runtime fact - the harness measures TotalAlloc around InflateAndDecode and around SSO / logout requests for payloads inflating to "
        "1 MiB .. 128 MiB (thorough 1 GiB) with padding in comments, text, attributes or after the root, and compares accept/reject and returned length with the model."),
 "C19": dict(ref="5 C19", technique="Rocq/Coq proof about go2v-generated dynamicIssuer and a model of ValidateIssuer over url.Parse components + in-Coq correspondence",
   text="C19_static (accept implies host, https or http-when-insecure, no ? or # anywhere in the string), C19_dynamic (about the Gallina go2v regenerates from context.go), C19_derived and "
        "C19_host_selection hold for all strings / header results; url.Parse and the Forwarded-header parser are oracles whose results the harness supplies. ValidateIssuer, NewProvider and the entityID "
        "served for generated Host / Forwarded headers are compared with the model; F-19b (path characters inside a forwarded host) is a known finding."),
 "C10": dict(ref="5 C10", technique="Rocq/Coq proof (per-endpoint fail-closed corollaries of the endpoint models) + exhaustive fault enumeration on the implementation",
   text="C10_callback/_sso/_attrquery/_logout/_metadata/_probes: for every endpoint model, a reply with Success / user data / signed metadata implies that every storage and key operation the request "
        "needed succeeded, and a failed persist leaves nothing persisted (all inputs). The harness records the operations of a fault-free request per endpoint and injects every (operation, occurrence, kind) "
        "singly (thorough: pairs) - a finite, completely enumerated space - checking the fail-closed oracle; metadata/certificate/readiness replies are also compared with the Coq model.",
   category="proof"),
 "C11": dict(ref="5 C11", technique="Rocq/Coq proof over a router / metadata model interpreted from source expressions extracted by go2v and the generated Endpoint functions + configuration-sweep correspondence",
   text="C11_from_source (routes, advertised locations, entity-ID / flag / certificate expressions are what the current source says), C11_entity_id, C11_routes (under pairwise distinct route paths every path-configured "
        "advertised location = issuer without trailing slash + a route served by the corresponding handler), C11_external, C11_first_match (collisions: first registration wins), C11_want_signed (advertised true => no request "
        "accepted without verified signature, all inputs). Tie: configuration sweep x hosts: handler answering each route and the served entityID / locations vs the model, plus independent oracles (advertised location "
        "reaches its handler, Issuer = entityID, certificate endpoint = KeyDescriptor = key verifying an assertion, flag vs behaviour). gorilla/mux is modelled as exact first match on the path only."),
 "C12": dict(ref="5 C12", technique="Rocq/Coq proof by symbolic execution of the chain go2v extracts from attribute_query.go + in-Coq correspondence",
   text="C12_answered: for all queries, metadata, user records and key states, an answer with user data implies registered issuer, verified signature value, certificate match when required, "
        "Destination absent or the advertised attribute service, successful user lookup and signing, and the answer is exactly (query ID, requester as audience, user's NameID, filtered attributes); "
        "C12_filter characterises the filter as a set. Real handler vs model on 22 mutation classes and an independent set-based oracle."),
 "C17": dict(ref="5 C17", technique="Rocq/Coq proof over the template literals go2v extracts + byte-for-byte in-Coq correspondence of rendered pages",
   text="C17_extract_* / _values_* / _no_breakout_* / _no_script_url hold for ALL substituted byte strings; the page model is derived from the template constants regenerated from template.go "
        "(shape lemmas by vm_compute). The model page is compared byte for byte with the page produced by the provider's own template objects for every byte value in every position, hostile "
        "strings and long values; an independent HTML tokenizer checks structure and values; CR handling is the known finding F-17a."),
 "C13": dict(ref="5 C13", technique="Rocq/Coq proof by symbolic execution of the chain go2v extracts from logout.go + in-Coq correspondence",
   text="logout_table (complete decision table of logoutHandleFunc for all requests, metadata and instants) is re-proved on the extracted chain on every run; C13_success_iff, _echo, _target follow, "
        "C13_parameters_read pins the set of request parameters the handler reads. Generated logout requests (21 mutation classes x transports x 0-2 SLO entries) run against the real handler "
        "and are compared with the model and an independent oracle."),
 "C01": dict(ref="5 C01", technique="Rocq/Coq proof by symbolic execution of the statement sequence go2v extracts from login.go + history induction + in-Coq correspondence over storage histories",
   text="callback_table (the complete decision table of callbackHandleFunc/loginResponse, for all requests and storage answers) is re-proved on the extracted sequence on every run; "
        "C01_success_only_if_done, _no_userinfo_before_done, _no_panic follow; C01_histories is an induction over arbitrary operation lists. Generated histories (1-5 sessions, faults, "
        "id placements) run against the real handler, decoded with a generic XML walk, checked by an oracle and compared field by field with the model."),
 "C03": dict(ref="5 C03", technique="Rocq/Coq proof (decision table + codec round-trip theorems) + field-level in-Coq correspondence",
   text="C03_fields: every field of a Success reply is a function of the stored request, the user record and the registered entity ID (all inputs); C03_attributes characterises the attribute "
        "statement; C03_wire_* are the XML / query / HTML-attribute round trips. The harness compares InResponseTo (both places), Destination, Recipient, Issuer, Audience, NameID, the attribute "
        "statement and RelayState of real replies with the storage record, and ID freshness/format; instants are bracketed by the harness, not modelled."),
 "C02": dict(ref="5 C02", technique="Rocq/Coq proof (canonical-target invariant over the extracted chain) + in-Coq correspondence",
   text="C02_sso_reply_target / _target_registered / _persisted_pair / _target_function: for every chain and every request, any URL-delivered reply and the persisted pair are "
        "the (Location, Binding) of one ACS entry registered for the SP storage returned for the Issuer; independent Go oracle on form action / Location / Destination / CreateAuthRequest arguments. "
        "Callback and logout targets are covered by the C01/C03/C13 models."),
 "C04": dict(ref="5 C04", technique="Rocq/Coq proof about a model of the signer's and a conformant verifier's digest inputs and of the Redirect octets (generated BuildRedirectQuery) + in-Coq correspondence tied to emitted DigestValues + independent verifiers",
   text="C04_enveloped (digest inputs agree on every tree without C14N-escaped characters), C04_enveloped_refuted (they differ as soon as one occurs: F-04b, known), C04_redirect (the octets a verifier rebuilds from the sent URL are the "
        "signed ones, all inputs; F-04a fixed), C04_success_signature (which delivery carries which signature, all inputs), C04_never_unsigned_refuted (F-04c, known). Tie: each signed element of real artefacts goes to Coq with the "
        "signer digest input whose hash equals the emitted DigestValue and with goxmldsig's canonical form; goxmldsig validates every enveloped signature, the Bindings 3.4.4.1 procedure every redirect URL. SHA / RSA and goxmldsig's reference processing are not modelled."),
 "C05": dict(ref="5 C05", technique="Rocq/Coq proof over the extracted chain with verification oracles + in-Coq correspondence against a simulated signing SP",
   text="C05_signatures / _persisted / _required_forms: an accepted request had the verification oracle answer positively on exactly (SAMLRequest, RelayState, SigAlg, Signature) resp. the posted document, "
        "and those values are what is persisted; required is recognised for true and 1. Two refutation witnesses (enveloped signature over Redirect, detached signature in a POST form) are proved and "
        "listed as known findings F-05b/F-05c. Cryptography and goxmldsig are oracles."),
 "C06": dict(ref="5 C06", technique="Rocq/Coq proof over the extracted chain + one correspondence stream per violated condition",
   text="C06_accept_implies holds for every chain containing the six validation steps and all inputs; C06_window characterises the validity window incl. the boundary now = instant that "
        "tests cannot hit. Decoding is an oracle (codec: C18). The Go oracle re-evaluates the conditions on the submitted bytes with a generic strict XML walk."),
 "C07": dict(ref="5 C07", technique="Rocq/Coq proof of acceptance (liveness) for the three endpoint models by symbolic execution of the extracted chains + refutation witnesses for the wire glue + conformance-generator correspondence",
   text="C07_authn_accepts / _logout_accepts / _attrquery_accepts: every request meeting the spelled-out conditions is accepted, for all inputs and storage answers; C07_redirect_octets_canonical / _refuted and "
        "C07_attrquery_signed_refuted model the glue that loses conformant requests (known findings F-07a, F-07e; F-07b fixed). Tie: generator over binding x signing x percent-encoding style x requirement (full grid) and random "
        "serialisation / optional-part / precision / KeyInfo / certificate-wrapping choices; every AuthnRequest also runs through the Coq SSO model; logout and attribute-query conformance by oracle. 'Conformant' is the generator's "
        "reading of the SAML bindings, not a schema validator."),
 "C08": dict(ref="5 C08", technique="Rocq/Coq proof over the checker chain extracted by go2v (facts mode) + in-Coq model/implementation correspondence",
   text="C08_one_outcome / C08_no_panic hold for every chain satisfying decidable wf8 / wf_order and for all requests, metadata and storage answers; "
        "wf8 sso_steps = true is re-proved by vm_compute on the chain go2v extracts from sso.go on every run. The model is run inside Coq on the abstract inputs of "
        "generated requests and must reproduce reply class, status, target, RelayState, InResponseTo and CreateAuthRequest arguments of the real handler; "
        "an independent Go oracle counts persists and messages per request."),
 "C09": dict(ref="5 C09", technique="Rocq/Coq proof that the Panicked outcome of each endpoint model is unreachable + exhaustive structural-edit harness with panic recovery + in-Coq correspondence (SSO)",
   text="C09_sso / _callback / _logout / _attrquery: each endpoint model returns a distinguished Panicked outcome where the Go code would dereference an unset pointer, and it is proved unreachable "
        "for every request and storage answer on the chains go2v extracts. Panics inside encoding/xml, etree, goxmldsig, x509 and the SigAlg type assertions are outside the models: the harness "
        "enumerates every single (thorough: every pairwise) structural edit of full AuthnRequest / LogoutRequest / AttributeQuery / SP-metadata documents, SigAlg x key type, routes x methods, "
        "storage faults and byte mutations and recovers panics around every endpoint and NewServiceProvider. partial: no coverage-guided fuzzing of the third-party decoders."),
 "C18": dict(ref="5 C18", technique="Rocq/Coq proof of the escape / lex-after-marshal / base64 / codec laws + byte-for-byte in-Coq correspondence of real IdP documents with the printer model",
   text="C18_escape_roundtrip / _escape_any / _no_markup (EscapeText model), C18_document / _single_wellformed / _structure / _structure_any_data (a byte-level lexer inverts the printer for every tree; "
        "arbitrary data incl. invalid UTF-8 is replaced by U+FFFD and never restructures), C18_base64, C18_codec_roundtrip (under inflate(deflate b) = b and |b| <= cap: the 10 MiB cap of C14 bounds the round trip), "
        "C18_unknown_encoding, C18_codec_source (switch facts). Tie: every message kind the endpoints emit with hostile data, and Marshal on 7 message types, must equal the Coq print of their raw token tree; "
        "generic-parser and library-decoder oracles compare the values; codec functions run against the model with compress/flate as oracle. partial: the struct-to-tree mapping of encoding/xml and compress/flate are not modelled."),
 "C15": dict(ref="5 C15", technique="Rocq/Coq proof of isolation for every schedule over a free-monad interleaving model instantiated with the callback model + race-detector harness with marker, alone-vs-concurrent and in-Coq callback correspondence oracles",
   text="partial: C15_isolation / _non_interference / _ids_distinct hold for every schedule and any number of threads of read-only programs over atomic storage operations; C15_callback_program shows the "
        "callback model IS such a program (result = model reply, operations = model call list, which C01 ties to the real storage log); C15_concurrent_callbacks, and the locality theorems _callback_local / _logout_local / _sso_local / _attrquery_local: each reply is the model's "
        "reply on the records its own request names only. Freedom from Go data races and distinctness of random UUIDs cannot be theorems about a Gallina model: the harness runs 4..64 (thorough 256) goroutines on one provider under "
        "-race and checks every reply against the reply alone, against all other sessions' markers, and the ID multiset. The isolation theorem with creations (SSO) is proved in Conc/Interleave.v but the SSO model is not yet instantiated as a program."),
 "C16": dict(ref="5 C16", technique="Rocq/Coq proof about go2v-generated Gallina of GetAcsUrlAndBindingForResponse + exhaustive correspondence",
   text="C16_bridge/_refines/_deterministic/_member are proved for all lists about the Gallina function go2v regenerates from sso.go on every run; "
        "the generated function is evaluated inside Coq on sampled and malformed inputs against the exported Go function; every list up to length 3 "
        "(thorough 4) over the property's alphabets runs against an independent Go oracle of the documented rule."),
 "C20": dict(ref="5 C20", technique="Rocq/Coq proof about go2v-generated Gallina of checker.go + in-Coq trace correspondence",
   text="Theorems C20_sem/_prefix/_iff/_trace/_once/_no_later about the definitions go2v regenerates from checker.go on every run "
        "(any chain length, any closures); tie: the generated evaluator is executed inside Coq (vm_compute) on instrumented chains "
        "and compared event for event with the real checker; exhaustive chains up to length 4 (thorough 5) run against an independent Go reference."),
}
# additions after the coverage audit (DESIGN.md section 0.9): appended to the texts above
EXTRA = {
 "C01": "Added: C01_one_reply (exactly one reply; a non-Success reply is HTTP 500 or one of four non-Success status codes), C01_failed_response_content (from the builder source: a failed response has no assertion content). C01_failed_refines_model (the failed Response document abstracts to the CFailed message of the callback model; no assertion).",
 "C02": "Added: the service-provider record of every case is checked against the registered metadata document (sprec_of_doc: model of Unmarshal + projection; consumer services in document order); C02_accepted_record (an accepted request hands exactly one record to the storage: non-empty registered consumer URL, supported binding, the request's own RelayState / ID) and C02_end_to_end (a callback for a record storing those values delivers to that URL by that binding). C02_end_to_end_document: composition with the builder programs -- whatever the callback answers for a record the SSO handler handed over, the document built for that answer carries that request ID and that registered consumer URL (Destination / Recipient).",
 "C03": "Added: C03_built_response / C03_built_attributes (the response document's fields, from the builder programs go2v translates from response.go / attributes.go), C03_delivery_from_source, C03_schema (struct tags vs the SAML schemas). The C18 correspondence rebuilds every real reply from those builders. C03_built_attributes_any_custom / C03_attribute_statement_any_custom: by induction over the custom attributes, GetSAML and the attribute statement of the assertion in the successful Response are exactly the non-empty standard attributes followed by one attribute per custom attribute, for any number of them; C03_attribute_statement_refines_model: that statement abstracts field by field to the hand-written model attrs_of u the handler theorems use; C03_response_refines_model: the whole Success document abstracts to the abstract message of C03_fields (request ID, Destination / Recipient, audience, NameID, attributes), for every stored request and user.",
 "C04": "Added: C04_redirect_url (the octets a verifier rebuilds from consumer URL + separator + query are the signed ones unless the consumer URL's own query names a signed parameter) and its refutation C04_redirect_url_refuted (F-04d, reproduced on the implementation, known), C04_signature_kind_from_source.",
 "C05": "Added: C05_keyinfo_registered (a KeyInfo the signature carries must contain a certificate registered for the provider). C05_necessity_from_source / C05_certificate_check_from_source: the deciding functions of post.go / redirect.go / sso.go (when a signature or a certificate has to be checked, and the certificate check with its three nested loops), translated by go2v with pointers as options (Gen/Nec.v), equal the model conditions the signature theorems assume; executed against the Go functions through a verif hook in C11 run (KNec).",
 "C09": "Added: every SSO request of the structural-edit streams carries its document tree; Coq checks that the model of Unmarshal + projection (authn_of_doc) yields the abstract request the harness derived from the handler's own decoder.",
 "C06": "Added: C06_request_view / C06_wrong_root_refused / C06_trailing_content_refused / C06_unknown_content_ignored (decode = InflateAndDecode + Unmarshal model + projection; checked against the real decoder on every SSO case), C06_encoding / C06_unknown_encoding_refused (decode oracle opened to InflateAndDecode + parser, form read off the source by C06_decode_from_source), C06_schema. C06_time_check_from_source / C06_time_arguments_from_source: the validity-window check of time.go translated by go2v (clock and time.Parse as oracles) equals time_valid on absent / unparsable / parsed instants; executed against the Go function through a verif hook (KTime in the C11 run).",
 "C07": "Added: C07_canonical_document_decodes (the decode model -- Unmarshal over the generated schema + projection, checked against the handler's decoder on every generated request -- is live on the canonical serialisation for all values).",
 "C08": "Added: C08_single_write, C08_terminal, C08_prechecks (delivery, terminal switch and pre-chain checks derived from the statement facts of sendBackResponse / ssoHandleFunc). C08_failure_refines_model (the failure reply of the SSO model is what the makeFailedResponse document abstracts to).",
 "C10": "Added: C10_response_key / C10_metadata_key / C10_key_guards_order (which answers of the key getters are accepted, from the guard statements of getResponseCert / getMetadataCert); the correspondence derives cert_ok / mkey_ok from the injected answer shape.",
 "C11": "Added: C11_metadata_document (the metadata document from the translated builders of metadata.go / identityprovider.go: entityID, flag, key descriptors, locations, for every configuration); every metadata document of the configuration sweep is rebuilt from source + schema and compared with the served one (KMetaDoc); C11_unsigned_accepted_otherwise (the converse of the flag clause); C11_schema (metadata struct tags vs the SAML metadata schema). Advertised = checked: C11_destination_checks_from_source (the two Destination check functions, translated by go2v, for every descriptor and request), C11_checked_value_from_source (the checks receive the role descriptor p.GetMetadata returned), C11_checked_is_advertised (a request passes exactly when it names no Destination or the advertised location), C11_accepted_destination; the Go functions run against the generated Gallina through verif hooks (KDest) and, per configuration, requests addressed to the advertised / other locations are accepted / refused accordingly. C11_document_is_router_model (the built document's locations and entityID are the router model's advertised list and entity ID) and C11_advertised_request_path (Core/UrlPath.v: the path component of an advertised location is the issuer's path prefix followed by the handler's route; net/url vs url_path on every advertised location, KUrl). C11_flag_enforced_from_source (on the translated deciders: with the advertised flag true a signature check is necessary for every request of the matching binding; with neither flag true exactly when the request carries a signature).",
 "C12": "Added: the decode oracle as a function of the request body (aquery_of_doc: model of Unmarshal + projection), checked against DecodeAttributeQuery on every case; C12_built_response (the answer document's fields from the builder source), C12_schema, C12_answered_destination (an answered query named no Destination or the advertised AttributeService location); requested attributes with empty / absent Name (which designate nothing) are part of the generated queries. C12_filter_from_source (the filtering statement of the translated program, executed symbolically for all attribute and request lists by nested induction) and C12_answer_refines_model (the whole answer program: the attribute statement abstracts to filter_attrs requested (attrs_of u), the am_attrs of C12_answered, for every user and request list); C12_answer_message_refines_model (the whole amsg). C12_signature_guards_from_source (the translated signaturePostProvided / certificateCheckNecessary / checkCertificate are the guards of C12_answered). C12_end_to_end_document (whenever the handler model answers with user data, the document built from the values the handler passes abstracts to exactly that answer).",
 "C13": "Added: the decode oracle as a function of the request document (lreq_of_doc), checked against DecodeLogoutRequest on every case; C13_built_response, C13_delivery_from_source, C13_codec, C13_schema. C13_response_refines_model (the LogoutResponse document abstracts to the lmsg of the logout model). C13_time_check_from_source (the translated time check with the logout handler arguments). C13_end_to_end_document (a posted reply goes to the first registered SingleLogoutService location and the built LogoutResponse carries it as Destination), C13_failure_refines_model.",
 "C14": "Added: C14_oversized_not_accepted / C14_oversized_decode_fails (an oversized DEFLATE payload is never accepted by the SSO handler, with decode = InflateAndDecode + parser).",
 "C15": "Added: C15_sso_program / C15_concurrent_sso (the SSO handler as a program over atomic storage operations; N concurrent SSO requests under every schedule are answered as alone on the initial storage and never share a stored request), C15_id_legal (NewID() values are legal xs:ID), C15_callbacks_among_sso (callbacks for requests that existed before the run are isolated among concurrently creating SSO threads).",
 "C16": "Added: registration keeps the consumer services as written and in document order (sprec_of_doc, checked in the SSO / logout / attribute-query correspondences); C16_member without hypothesis; C16_rule_any_metadata (exact rule for arbitrary registered metadata, entries with empty Location included).",
 "C17": "Added: C17_only_safe_schemes (any scheme other than http / https / mailto yields the fail-safe action).",
 "C18": "Added: C18_struct_document / C18_schema_names / C18_raw_xml_fields over a schema-driven model of encoding/xml's Marshal (Xml/Schema.v over the struct tags go2v copies into Gen/Schema.v); correspondence KStruct (values of random shape, byte for byte) KBuilt (every reply of the flows rebuilt from the translated builders + schema) and KUnm (the library decoders against a model of Unmarshal over the same schema); C18_roundtrip_logout_response / _failed_response / _success_response (built documents decode back, through both models, to the field values put in, for all strings).",
 "C20": "Added: C20_repeat (n evaluations of one chain value: n times the same verdict and events), C20_handlers_use_checker (the handler models' chain evaluation is the generated checker's).",
}
for _k, _v in EXTRA.items():
    CLAIMED[_k]["text"] = CLAIMED[_k]["text"] + " " + _v

def main():
    props = [json.loads(l) for l in open(os.path.join(ROOT, "properties.jsonl")) if l.strip()]
    checks, na = [], []
    for p in props:
        pid = p["id"]
        if pid in CLAIMED:
            c = CLAIMED[pid]
            checks.append({
              "property_id": pid,
              "quick_cmd": "bin/check %s --tier quick" % pid,
              "thorough_cmd": "bin/check %s --tier thorough" % pid,
              "evidence_file": "/verif/evidence/%s.json" % pid,
              "replay_cmd_template": "bin/check %s --replay {path}" % pid,
              "engine": "coq-model+go-harness",
              "level_claimed": {"category": "proof", "text": c["text"], "design_ref": "DESIGN.md section " + c["ref"]},
              "level_note": c.get("note", NOTE),
              "technique": c["technique"],
            })
        else:
            na.append({"property_id": pid, "reason": "check not built yet in this session (planned: DESIGN.md section 5 %s); not a limit of the technique" % pid})
    m = {
      "version": 1,
      "setup_cmd": "python3 bin/check --build-only",
      "hooks": {"guard": "verif", "enable": "go build -tags verif (harness module with replace github.com/zitadel/saml => /repo)",
                "baseline_off_cmd": BASE, "source_commits": SOURCE_COMMITS, "add_only": True},
      "engines": [{"name": "coq-model+go-harness", "path": "bin/check", "serves_properties": sorted(CLAIMED),
                   "kind_free_text": "Coq 8.16.1 development (coq/) regenerated in part from /repo by tools/go2v; Go harness (harness/) drives the real code and emits cases evaluated inside Coq"}],
      "checks": checks,
      "notes": "All checks share one incremental build (go2v -> coq make -> go build). Known findings: known_findings.json.",
      "not_applicable": na,
    }
    json.dump(m, open(os.path.join(ROOT, "MANIFEST.json"), "w"), indent=1)
if __name__ == "__main__":
    main()
