// facts-mode spike: extract the checker-chain skeleton of a handler from the Go AST.
package main

import (
	"fmt"
	"go/ast"
	"go/parser"
	"go/token"
	"os"
	"sort"
	"strings"
)

func callees(n ast.Node) []string {
	set := map[string]bool{}
	ast.Inspect(n, func(x ast.Node) bool {
		if c, ok := x.(*ast.CallExpr); ok {
			switch f := c.Fun.(type) {
			case *ast.Ident:
				set[f.Name] = true
			case *ast.SelectorExpr:
				set[exprStr(f)] = true
			}
		}
		return true
	})
	var out []string
	for k := range set {
		if strings.HasPrefix(k, "fmt.") || strings.HasPrefix(k, "logging.") || k == "err.Error" || strings.HasSuffix(k, ".Error") && strings.HasPrefix(k, "fmt") {
			continue
		}
		out = append(out, k)
	}
	sort.Strings(out)
	return out
}
func exprStr(e ast.Expr) string {
	switch x := e.(type) {
	case *ast.Ident:
		return x.Name
	case *ast.SelectorExpr:
		return exprStr(x.X) + "." + x.Sel.Name
	case *ast.CallExpr:
		return exprStr(x.Fun) + "()"
	}
	return "?"
}
func idents(n ast.Node, prefix string) []string {
	set := map[string]bool{}
	ast.Inspect(n, func(x ast.Node) bool {
		if id, ok := x.(*ast.Ident); ok && strings.HasPrefix(id.Name, prefix) {
			set[id.Name] = true
		}
		return true
	})
	var out []string
	for k := range set {
		out = append(out, k)
	}
	sort.Strings(out)
	return out
}
func assigned(n ast.Node) []string {
	set := map[string]bool{}
	ast.Inspect(n, func(x ast.Node) bool {
		if a, ok := x.(*ast.AssignStmt); ok {
			for _, l := range a.Lhs {
				if s, ok := l.(*ast.SelectorExpr); ok {
					set[exprStr(s)] = true
				}
			}
		}
		return true
	})
	var out []string
	for k := range set {
		out = append(out, k)
	}
	sort.Strings(out)
	return out
}

func main() {
	fset := token.NewFileSet()
	for _, spec := range [][2]string{{"sso.go", "ssoHandleFunc"}, {"logout.go", "logoutHandleFunc"}, {"attribute_query.go", "attributeQueryHandleFunc"}} {
		f, err := parser.ParseFile(fset, os.Args[1]+"/pkg/provider/"+spec[0], nil, 0)
		if err != nil {
			panic(err)
		}
		for _, d := range f.Decls {
			fn, ok := d.(*ast.FuncDecl)
			if !ok || fn.Name.Name != spec[1] {
				continue
			}
			fmt.Printf("(* %s *)\nDefinition %s_steps : list stepfact := [\n", spec[0], spec[1])
			afterCheck := false
			for _, st := range fn.Body.List {
				if es, ok := st.(*ast.ExprStmt); ok {
					if c, ok := es.X.(*ast.CallExpr); ok {
						if s, ok := c.Fun.(*ast.SelectorExpr); ok && exprStr(s.X) == "checkerInstance" {
							kind := s.Sel.Name
							last := c.Args[len(c.Args)-1]
							logicArgs := c.Args
							fail := "FNone"
							if kind != "WithValueStep" {
								logicArgs = c.Args[:len(c.Args)-1]
								cs := callees(last)
								st := idents(last, "StatusCode")
								switch {
								case contains(cs, "response.sendBackResponse") && contains(cs, "response.makeFailedResponse") && len(st) == 1:
									fail = "FSaml " + st[0]
								case contains(cs, "response.sendBackLogoutResponse") && len(st) == 1:
									fail = "FSamlLogout " + st[0]
								case contains(cs, "http.Error"):
									fail = "FHttp " + strings.Join(idents(last, "Status"), "+")
								default:
									fail = "FUnknown (* " + strings.Join(cs, ",") + " *)"
								}
							}
							var tag []string
							var lits []string
							var writes []string
							for _, a := range logicArgs {
								tag = append(tag, callees(a)...)
								writes = append(writes, assigned(a)...)
								if bl, ok := a.(*ast.BasicLit); ok {
									lits = append(lits, bl.Value)
								}
							}
							fmt.Printf("  {| sk := K%s; st := T [%s] %s; writes := [%s]; sf := %s |};\n", strings.TrimPrefix(kind, "With"), quote(tag), strings.Join(lits, " "), quote(writes), fail)
							continue
						}
					}
				}
				if is, ok := st.(*ast.IfStmt); ok && strings.Contains(exprStr(is.Cond), "CheckFailed") {
					afterCheck = true
					fmt.Printf("].\n(* terminal, after CheckFailed: *)\n")
					continue
				}
				if afterCheck {
					switch x := st.(type) {
					case *ast.SwitchStmt:
						for _, cc := range x.Body.List {
							cl := cc.(*ast.CaseClause)
							var cs []string
							for _, e := range cl.List {
								cs = append(cs, exprStr(e))
							}
							fmt.Printf("(*   case [%s] -> calls %v  status %v *)\n", strings.Join(cs, ","), callees(cl), idents(cl, "StatusCode"))
						}
					default:
						if cs := callees(st); len(cs) > 0 {
							fmt.Printf("(*   %v status %v *)\n", cs, idents(st, "StatusCode"))
						}
					}
				} else if cs := callees(st); len(cs) > 0 {
					if _, isAssign := st.(*ast.AssignStmt); isAssign || true {
						fmt.Printf("(* pre-chain: %T calls %v *)\n", st, cs)
					}
				}
			}
			fmt.Println()
		}
	}
}
func contains(l []string, s string) bool {
	for _, x := range l {
		if x == s {
			return true
		}
	}
	return false
}
func quote(l []string) string {
	var o []string
	for _, x := range l {
		o = append(o, `"`+x+`"`)
	}
	return strings.Join(o, "; ")
}
