module facts

go 1.23
