(* DESIGN-PHASE PROTOTYPE — evidence for DESIGN.md §4 decision (2) and §5 C15, not part of the verification framework.
   coqc Free.v (<1 s), closed under the global context. *)
(* Prototype: handlers as free-monad programs over storage operations.
   (1) monad-polymorphic CheckFailed (as go2v emits it) instantiated at the free monad commutes with interpretation;
   (2) interleaving semantics; disjoint-footprint programs do not influence each other (isolation, every schedule). *)
From Coq Require Import List Bool Arith Lia.
Import ListNotations.

(* ---------- generic, monad-polymorphic chain runner (shape of Gen.checker.CheckFailed) ---------- *)
Section Poly.
  Variable M : Type -> Type.
  Variable ret : forall A, A -> M A.
  Variable bind : forall A B, M A -> (A -> M B) -> M B.
  Fixpoint check_failed (c : list (M bool)) : M bool :=
    match c with [] => ret _ false | s :: r => bind _ _ s (fun f => if f then ret _ true else check_failed r) end.
End Poly.

(* ---------- storage: a keyed map of nat -> nat, operations Get k / Put k v ---------- *)
Definition store := nat -> option nat.
Definition upd (s : store) (k v : nat) : store := fun k' => if Nat.eqb k' k then Some v else s k'.
Inductive sop := Get (k : nat) | Put (k v : nat).
Definition answer (o : sop) : Type := match o with Get _ => option nat | Put _ _ => unit end.
Definition key_of (o : sop) := match o with Get k => k | Put k _ => k end.
Definition exec (o : sop) (s : store) : answer o * store :=
  match o with Get k => (s k, s) | Put k v => (tt, upd s k v) end.

(* ---------- free monad ---------- *)
Inductive prog (A : Type) := Ret (a : A) | Op (o : sop) (k : answer o -> prog A).
Arguments Ret {A}. Arguments Op {A}.
Fixpoint pbind {A B} (m : prog A) (f : A -> prog B) : prog B :=
  match m with Ret a => f a | Op o k => Op o (fun x => pbind (k x) f) end.
Fixpoint interp {A} (m : prog A) (s : store) : A * store :=
  match m with Ret a => (a, s) | Op o k => let '(x, s') := exec o s in interp (k x) s' end.

Definition St (A : Type) := store -> A * store.
Definition sret {A} (a : A) : St A := fun s => (a, s).
Definition sbind {A B} (m : St A) (f : A -> St B) : St B := fun s => let '(a, s') := m s in f a s'.

Lemma interp_bind {A B} (m : prog A) (f : A -> prog B) s :
  interp (pbind m f) s = let '(a, s') := interp m s in interp (f a) s'.
Proof. revert s; induction m as [a|o k IH]; intro s; cbn [pbind interp]; [reflexivity|]. destruct (exec o s) as [x s']. apply IH. Qed.

(* (1) the polymorphic runner at the free monad, interpreted = the runner at the state monad over interpreted steps *)
Theorem check_failed_interp (c : list (prog bool)) s :
  interp (check_failed prog (@Ret) (@pbind) c) s = check_failed St (@sret) (@sbind) (map interp c) s.
Proof.
  revert s; induction c as [|p c IH]; intro s; cbn [check_failed map]; [reflexivity|].
  rewrite interp_bind. unfold sbind. destruct (interp p s) as [f s']. destruct f; [reflexivity|apply IH].
Qed.

(* ---------- (2) interleaving ---------- *)
(* a thread is a program; a pool maps thread index -> current program; schedule = list of indices *)
Definition pool (A : Type) := list (prog A).
Definition step_thread {A} (p : prog A) (s : store) : prog A * store :=
  match p with Ret a => (Ret a, s) | Op o k => let '(x, s') := exec o s in (k x, s') end.
Fixpoint set_nth {X} (l : list X) (i : nat) (x : X) : list X :=
  match l, i with [], _ => [] | _ :: r, O => x :: r | y :: r, S j => y :: set_nth r j x end.
Fixpoint run_sched {A} (sched : list nat) (ps : pool A) (s : store) : pool A * store :=
  match sched with [] => (ps, s)
  | i :: r => match nth_error ps i with
              | Some p => let '(p', s') := step_thread p s in run_sched r (set_nth ps i p') s'
              | None => run_sched r ps s end end.

(* footprint: every operation a program can ever issue (whatever the answers) uses a key satisfying P *)
Fixpoint touches_only {A} (P : nat -> Prop) (p : prog A) : Prop :=
  match p with Ret _ => True | Op o k => P (key_of o) /\ forall x, touches_only P (k x) end.
Definition agree (P : nat -> Prop) (s1 s2 : store) := forall k, P k -> s1 k = s2 k.
Lemma agree_refl P s : agree P s s. Proof. intros ? ?; reflexivity. Qed.

Lemma exec_agree (P : nat -> Prop) o s1 s2 : P (key_of o) -> agree P s1 s2 ->
  exists x t1 t2, exec o s1 = (x, t1) /\ exec o s2 = (x, t2) /\ agree P t1 t2.
Proof. intros Hk Ha. destruct o as [k|k v]; cbn in *.
  - rewrite (Ha k Hk). eauto 6.
  - exists tt, (upd s1 k v), (upd s2 k v). repeat split. intros k' Hk'. unfold upd. destruct (Nat.eqb k' k); auto. Qed.
Lemma exec_frame (P Q : nat -> Prop) o s : Q (key_of o) -> (forall k, P k -> Q k -> False) -> agree P (snd (exec o s)) s.
Proof. intros Hq Hd. destruct o as [k|k v]; cbn in *; intros k' Hp; [reflexivity|]. unfold upd. destruct (Nat.eqb_spec k' k); [subst; exfalso; eauto|reflexivity]. Qed.

(* thread-local view: a program only sees the part of the store inside its footprint *)
Lemma interp_agree {A} (P : nat -> Prop) (p : prog A) : touches_only P p -> forall s1 s2, agree P s1 s2 ->
  fst (interp p s1) = fst (interp p s2).
Proof. induction p as [a|o k IH]; intros Ht s1 s2 Ha; cbn [interp]; [reflexivity|]. destruct Ht as [Hk Hrest].
  destruct (exec_agree P o s1 s2 Hk Ha) as (x & t1 & t2 & -> & -> & Ha'). apply IH; auto. Qed.

Definition remaining_result {A} (p : prog A) (s : store) := fst (interp p s).

(* ISOLATION, two threads with disjoint footprints: for EVERY schedule, at every point, what thread 0 will
   answer is what it answers when run alone on the initial store. *)
Theorem isolation_two {A} (P Q : nat -> Prop) (Hd : forall k, P k -> Q k -> False) :
  forall sched (p q : prog A) s, touches_only P p -> touches_only Q q ->
  exists p' q' s', run_sched sched [p; q] s = ([p'; q'], s') /\ remaining_result p' s' = remaining_result p s.
Proof.
  induction sched as [|i sched IH]; intros p q s Hp Hq; cbn [run_sched].
  - eauto.
  - destruct i as [|[|i]]; cbn [nth_error].
    + (* thread 0 moves *)
      destruct p as [a|o k]; cbn [step_thread set_nth].
      * apply IH; auto.
      * destruct Hp as [Hk Hrest]. destruct (exec o s) as [x s1] eqn:E. cbn [set_nth].
        destruct (IH (k x) q s1 (Hrest x) Hq) as (p' & q' & s' & -> & R). exists p', q', s'. split; [reflexivity|].
        rewrite R. unfold remaining_result. cbn [interp]. now rewrite E.
    + (* thread 1 moves: frame *)
      destruct q as [a|o k]; cbn [step_thread set_nth].
      * apply IH; auto.
      * destruct Hq as [Hk Hrest]. pose proof (exec_frame P Q o s Hk Hd) as Hf. destruct (exec o s) as [x s1]. cbn [snd set_nth] in *.
        destruct (IH p (k x) s1 Hp (Hrest x)) as (p' & q' & s' & -> & R). exists p', q', s'. split; [reflexivity|].
        rewrite R. unfold remaining_result. apply (interp_agree P p Hp). exact Hf.
    + (* no such thread *)
      replace (nth_error (@nil (prog A)) i) with (@None (prog A)) by (destruct i; reflexivity). apply IH; auto.
Qed.
Print Assumptions check_failed_interp. Print Assumptions isolation_two.
