(* DESIGN-PHASE PROTOTYPE — evidence for DESIGN.md §3.3/§5, not part of the verification framework.
   Compiles stand-alone with coqc 8.16.1 (`coqc Acs.v`), closed under the global context.
   Superseded by coq/ once the framework exists. *)
From Coq Require Import String Ascii List Bool ZArith Lia.
Import ListNotations.
Definition bytes := list ascii.
Definition b (s : string) : bytes := list_ascii_of_string s.
Fixpoint beq (x y : bytes) : bool := match x, y with [], [] => true | a :: x', c :: y' => Ascii.eqb a c && beq x' y' | _, _ => false end.
Lemma beq_spec x y : reflect (x = y) (beq x y).
Proof. revert y; induction x as [|a x IH]; destruct y as [|c y]; simpl; try (constructor; congruence).
  destruct (Ascii.eqb_spec a c); simpl; [|constructor; congruence]. destruct (IH y); constructor; congruence. Qed.

(* ---- Base/Loops.v ---- *)
Inductive ctl (S : Type) := Continue (s : S) | Break (s : S).
Arguments Continue {S}. Arguments Break {S}.
Fixpoint range_break {T S} (xs : list T) (s : S) (body : T -> S -> ctl S) : S :=
  match xs with [] => s | x :: r => match body x s with Continue s' => range_break r s' body | Break s' => s' end end.

(* ---- what go2v would emit (hand-written here) ---- *)
Record IndexedEndpointType := { Index : bytes; IsDefault : bytes; Binding : bytes; Location : bytes }.
Section Gen.
Variable atoi : bytes -> Z.   (* Base/GoPrims.v in the real thing *)
Definition GetAcs (acs : list IndexedEndpointType) (requestProtocolBinding : bytes) : bytes * bytes :=
  (* state after block 0: (acsUrl, protocolBinding) *)
  let st0 := (b "", b "") in
  let st1 := range_break acs st0 (fun acs0 st =>
     if beq (Binding acs0) requestProtocolBinding then Break (Location acs0, Binding acs0) else Continue st) in
  let st2 :=
    if beq (fst st1) (b "") then
      (* state: (isDefaultFound, acsUrl, protocolBinding) *)
      let st3 := range_break acs (false, fst st1, snd st1)
         (fun acs0 st => if beq (IsDefault acs0) (b "true") then Break (true, Location acs0, Binding acs0) else Continue st) in
      if negb (fst (fst st3)) then
        (* state: (index, acsUrl, protocolBinding) *)
        let st4 := range_break acs (0%Z, snd (fst st3), snd st3)
          (fun acs0 st =>
             let i := atoi (Index acs0) in
             if (fst (fst st) =? 0)%Z || (i <? fst (fst st))%Z then Continue (i, Location acs0, Binding acs0) else Continue st) in
        (snd (fst st4), snd st4)
      else (snd (fst st3), snd st3)
    else st1 in
  st2.

(* ---- spec (C16) ---- *)
Definition pair_of (o : option IndexedEndpointType) := match o with Some e => (Location e, Binding e) | None => (b "", b "") end.
Fixpoint argmin_first (l : list IndexedEndpointType) (best : option IndexedEndpointType) :=
  match l with [] => best | e :: r =>
    match best with None => argmin_first r (Some e)
    | Some m => if (atoi (Index e) <? atoi (Index m))%Z then argmin_first r (Some e) else argmin_first r best end end.
Definition select_spec (is_true : bytes -> bool) (l : list IndexedEndpointType) (req : bytes) :=
  match find (fun e => beq (Binding e) req) l with Some e => Some e | None =>
  match find (fun e => is_true (IsDefault e)) l with Some e => Some e | None => argmin_first l None end end.

(* generic loop lemmas *)
Lemma range_break_find {S} (l : list IndexedEndpointType) (p : IndexedEndpointType -> bool) (f : IndexedEndpointType -> S) (s : S) :
  range_break l s (fun e s => if p e then Break (f e) else Continue s) = match find p l with Some e => f e | None => s end.
Proof. induction l as [|e l IH]; simpl; [reflexivity|]. destruct (p e); [reflexivity|apply IH]. Qed.

Definition wf (l : list IndexedEndpointType) := Forall (fun e => Location e <> b "" /\ (0 < atoi (Index e))%Z) l.

Lemma min_loop l : forall m, wf l -> (0 < atoi (Index m))%Z ->
  let st := range_break l (atoi (Index m), Location m, Binding m) (fun acs0 st =>
             let i := atoi (Index acs0) in
             if (fst (fst st) =? 0)%Z || (i <? fst (fst st))%Z then Continue (i, Location acs0, Binding acs0) else Continue st) in
  (snd (fst st), snd st) = pair_of (argmin_first l (Some m)).
Proof.
  induction l as [|e l IH]; intros m Hwf Hpos; cbn [range_break argmin_first]; [reflexivity|].
  inversion Hwf as [|? ? [Hl He] Hwf']; subst. cbn [fst snd].
  destruct (Z.eqb_spec (atoi (Index m)) 0); [lia|]. cbn [orb].
  destruct (Z.ltb_spec (atoi (Index e)) (atoi (Index m))); apply IH; auto.
Qed.

Theorem C16_partial l req : wf l -> Forall (fun e => IsDefault e <> b "1") l ->
  GetAcs l req = pair_of (select_spec (fun s => beq s (b "true") || beq s (b "1")) l req).
Proof.
  intros Hwf Hd. unfold GetAcs, select_spec.
  rewrite (range_break_find l (fun e => beq (Binding e) req) (fun e => (Location e, Binding e))).
  destruct (find (fun e => beq (Binding e) req) l) as [e|] eqn:Hf.
  - apply find_some in Hf as [Hin _]. unfold wf in Hwf. rewrite Forall_forall in Hwf. destruct (Hwf _ Hin) as [Hl _].
    cbn [fst]. destruct (beq_spec (Location e) (b "")); [contradiction|reflexivity].
  - cbn [fst snd]. replace (beq (b "") (b "")) with true by reflexivity.
    rewrite (range_break_find l (fun e => beq (IsDefault e) (b "true")) (fun e => (true, Location e, Binding e))).
    assert (Hfind : find (fun e => beq (IsDefault e) (b "true") || beq (IsDefault e) (b "1")) l = find (fun e => beq (IsDefault e) (b "true")) l).
    { clear -Hd. induction l as [|e l IH]; cbn [find]; [reflexivity|]. inversion Hd as [|? ? Hne Hd']; subst.
      destruct (beq_spec (IsDefault e) (b "1")) as [E|_]; [contradiction|].
      rewrite orb_false_r. destruct (beq (IsDefault e) (b "true")); auto. }
    rewrite Hfind. clear Hf Hfind. destruct (find (fun e => beq (IsDefault e) (b "true")) l) as [d|]; [reflexivity|]. cbn [negb fst snd].
    destruct l as [|e l]; [reflexivity|]. inversion Hwf as [|? ? [Hl He] Hwf']; subst.
    cbn [range_break fst snd Z.eqb orb argmin_first].
    exact (min_loop l e Hwf' He).
Qed.
End Gen.
Print Assumptions C16_partial.

(* refutation witness for the full statement, by computation *)
Definition atoi1 (s : bytes) : Z := match s with [c] => Z.of_nat (nat_of_ascii c) - 48 | _ => 0 end.
Example C16_refuted : exists l req, GetAcs atoi1 l req <> pair_of (select_spec atoi1 (fun s => beq s (b "true") || beq s (b "1")) l req).
Proof. exists [ {| Index := b "0"; IsDefault := b ""; Binding := b "A"; Location := b "l0" |};
                {| Index := b "1"; IsDefault := b ""; Binding := b "B"; Location := b "l1" |} ], (b "").
  vm_compute. discriminate. Qed.
