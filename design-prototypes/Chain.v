(* DESIGN-PHASE PROTOTYPE — evidence for DESIGN.md §3.3(b)/§5 C08, not part of the verification framework.
   coqc Chain.v (1 s), closed under the global context. *)
(* Prototype: handler theorems parametric in the extracted chain (facts mode).
   C08 ("one request, one outcome") for ANY chain satisfying a decidable well-formedness predicate. *)
From Coq Require Import List Bool Arith Lia.
Import ListNotations.

(* ---- what Gen/Facts.v provides (shape) ---- *)
Inductive kind := KLogic | KCondLogic | KValueNotEmpty | KCondValueNotEmpty | KValueStep.
Inductive tag := TParseForm | TReqNotEmpty | TSigIfSigAlg | TDecode | TLookupSP | TCertCheck | TVerifyRedirect | TVerifyPost
               | TSelectAcs | TAcsNotEmpty | TBindingNotEmpty | TRequiredContent | TPersist | TUnknown.
Inductive fail := FSaml | FHttp | FNone.
Record stepfact := { sk : kind; st : tag; sf : fail }.
Definition tag_eqb (a b : tag) : bool := match a, b with
 | TParseForm, TParseForm | TReqNotEmpty, TReqNotEmpty | TSigIfSigAlg, TSigIfSigAlg | TDecode, TDecode | TLookupSP, TLookupSP
 | TCertCheck, TCertCheck | TVerifyRedirect, TVerifyRedirect | TVerifyPost, TVerifyPost | TSelectAcs, TSelectAcs
 | TAcsNotEmpty, TAcsNotEmpty | TBindingNotEmpty, TBindingNotEmpty | TRequiredContent, TRequiredContent | TPersist, TPersist => true
 | _, _ => false end.

(* ---- world: handler-local state H, number of persisted records, replies written ---- *)
Section Model.
Variable H : Type.
Record world := { wh : H; created : nat; out : nat (* number of reply messages written *) }.
Definition M (A : Type) := world -> A * world.

(* leaf semantics of each tag: may change H only; TPersist may create (at most) one record.  *)
Variable cond_of : tag -> H -> bool.                 (* condition closure (conditional kinds)      *)
Variable logic_of : tag -> H -> bool * H.            (* (failed?, new H) for every non-persist tag *)
Variable persist : H -> option H.                    (* storage.CreateAuthRequest: None = error    *)

Definition run_logic (t : tag) : M bool := fun w =>
  if tag_eqb t TPersist then
    match persist (wh w) with Some h => (false, {| wh := h; created := S (created w); out := out w |}) | None => (true, w) end
  else let '(f, h) := logic_of t (wh w) in (f, {| wh := h; created := created w; out := out w |}).
Definition send (f : fail) : M unit := fun w =>
  (tt, match f with FNone => w | _ => {| wh := wh w; created := created w; out := S (out w) |} end).

(* the checker constructors (as generated from checker.go, specialised to this M) *)
Definition step_of (s : stepfact) : M bool := fun w =>
  let go := (let '(f, w1) := run_logic (st s) w in if f then let '(_, w2) := send (sf s) w1 in (true, w2) else (false, w1)) in
  match sk s with
  | KLogic | KValueNotEmpty => go
  | KCondLogic | KCondValueNotEmpty => if cond_of (st s) (wh w) then go else (false, w)
  | KValueStep => let '(_, w1) := run_logic (st s) w in (false, w1)
  end.
Fixpoint run (c : list stepfact) : M bool :=
  match c with [] => fun w => (false, w) | s :: r => fun w => let '(f, w') := step_of s w in if f then (true, w') else run r w' end.

(* ---- decidable well-formedness of a chain (C08 part) ---- *)
Definition step_wf8 (s : stepfact) : bool :=
  negb (tag_eqb (st s) TPersist) && negb (tag_eqb (st s) TUnknown) &&
  match sk s, sf s with KValueStep, _ => true | _, FNone => false | _, _ => true end.
Definition wf8 (c : list stepfact) : bool :=
  match rev c with
  | last :: init => tag_eqb (st last) TPersist && (match sk last, sf last with KLogic, FSaml => true | KLogic, FHttp => true | _, _ => false end) && forallb step_wf8 (rev init)
  | [] => false end.

Definition inv (w0 w : world) := created w = created w0 /\ out w = out w0.
Lemma step_ok s w0 w : step_wf8 s = true -> inv w0 w ->
  match step_of s w with (false, w') => inv w0 w' | (true, w') => created w' = created w0 /\ out w' = S (out w0) end.
Proof.
  unfold step_wf8, inv. intros Hwf [Hc Ho]. apply andb_prop in Hwf as [Hwf Hk]. apply andb_prop in Hwf as [Hp _].
  apply negb_true_iff in Hp. unfold step_of, run_logic, send. rewrite Hp.
  destruct (sk s) eqn:Ek; destruct (sf s) eqn:Ef; try discriminate;
  repeat (match goal with |- context [cond_of ?t ?h] => destruct (cond_of t h) end);
  destruct (logic_of (st s) (wh w)) as [f h]; destruct f; cbn; auto.
Qed.
Lemma run_ok c : forall w0 w, forallb step_wf8 c = true -> inv w0 w ->
  match run c w with (false, w') => inv w0 w' | (true, w') => created w' = created w0 /\ out w' = S (out w0) end.
Proof.
  induction c as [|s c IH]; intros w0 w Hwf Hi; cbn [run]; [exact Hi|].
  cbn [forallb] in Hwf. apply andb_prop in Hwf as [Hs Hc].
  pose proof (step_ok s w0 w Hs Hi) as Hstep. destruct (step_of s w) as [f w']. destruct f; [exact Hstep|]. apply IH; auto.
Qed.
Lemma run_app c1 c2 w : run (c1 ++ c2) w = let '(f, w') := run c1 w in if f then (true, w') else run c2 w'.
Proof. revert w; induction c1 as [|s c1 IH]; intro w; cbn [app run]; [reflexivity|]. destruct (step_of s w) as [f w']. destruct f; [reflexivity|apply IH]. Qed.

(* ---- the chain theorem: any well-formed chain either fails with exactly one reply and no record,
        or succeeds with exactly one record and no reply yet ---- *)
Theorem chain_one_outcome c w : wf8 c = true ->
  match run c w with
  | (true, w')  => created w' = created w /\ out w' = S (out w)
  | (false, w') => created w' = S (created w) /\ out w' = out w
  end.
Proof.
  unfold wf8. intro Hwf. destruct (rev c) as [|last init] eqn:Er; [discriminate|].
  assert (Ec : c = rev init ++ [last]) by (rewrite <- (rev_involutive c), Er; reflexivity). subst c. clear Er.
  apply andb_prop in Hwf as [Hwf Hinit]. apply andb_prop in Hwf as [Hp Hk].
  rewrite run_app. pose proof (run_ok (rev init) w w Hinit (conj eq_refl eq_refl)) as Hpre.
  destruct (run (rev init) w) as [f w1]. destruct f; [exact Hpre|]. destruct Hpre as [Hc Ho].
  cbn [run]. unfold step_of, run_logic, send. rewrite Hp.
  destruct (sk last); try discriminate. destruct (sf last); try discriminate;
  (destruct (persist (wh w1)); cbn; rewrite ?Hc, ?Ho; auto).
Qed.

(* ---- terminal action of ssoHandleFunc and the C08 statement ---- *)
Variable supported : H -> bool.   (* ProtocolBinding in {POST, Redirect} *)
Definition handle (c : list stepfact) (w : world) : world :=
  let '(f, w') := run c w in
  if f then w' else {| wh := wh w'; created := created w'; out := S (out w') |} (* login redirect, or the 'unsupported binding' reply *).
Definition login_redirect (c : list stepfact) (w : world) : bool := let '(f, w') := run c w in negb f && supported (wh w').

(* exactly one message is always written; it is the login redirect iff a record was created AND the binding is supported.
   C08 proper needs: record created -> login redirect.  That is exactly what fails on the pinned tree. *)
Theorem C08_partial c w : wf8 c = true -> out w = 0 -> created w = 0 ->
  let w' := handle c w in out w' = 1 /\ (created w' = 0 \/ created w' = 1) /\
  (created w' = 1 -> supported (wh (snd (run c w))) = true -> login_redirect c w = true).
Proof.
  intros Hwf Ho Hc. unfold handle, login_redirect. pose proof (chain_one_outcome c w Hwf) as Hch.
  destruct (run c w) as [f w1]. destruct f; cbn [snd negb andb]; destruct Hch as [H1 H2]; cbn; rewrite ?H1, ?H2, ?Ho, ?Hc; intuition (try discriminate; auto).
Qed.
End Model.

(* ---- the current tree's chain, as extracted; wf8 holds by computation ---- *)
Definition sso_steps : list stepfact := [
  {| sk := KLogic; st := TParseForm; sf := FSaml |}; {| sk := KValueNotEmpty; st := TReqNotEmpty; sf := FSaml |};
  {| sk := KCondValueNotEmpty; st := TSigIfSigAlg; sf := FSaml |}; {| sk := KLogic; st := TDecode; sf := FSaml |};
  {| sk := KLogic; st := TLookupSP; sf := FSaml |}; {| sk := KCondLogic; st := TCertCheck; sf := FSaml |};
  {| sk := KCondLogic; st := TVerifyRedirect; sf := FSaml |}; {| sk := KCondLogic; st := TVerifyPost; sf := FSaml |};
  {| sk := KValueStep; st := TSelectAcs; sf := FNone |}; {| sk := KValueNotEmpty; st := TAcsNotEmpty; sf := FSaml |};
  {| sk := KValueNotEmpty; st := TBindingNotEmpty; sf := FSaml |}; {| sk := KLogic; st := TRequiredContent; sf := FSaml |};
  {| sk := KLogic; st := TPersist; sf := FSaml |} ].
Lemma current_chain_wf8 : wf8 sso_steps = true. Proof. vm_compute. reflexivity. Qed.
(* a mutant: persistence moved before content validation -> the obligation fails *)
Example mutant_not_wf : wf8 (firstn 11 sso_steps ++ [nth 12 sso_steps (nth 0 sso_steps (nth 0 sso_steps {| sk := KLogic; st := TUnknown; sf := FNone |})); nth 11 sso_steps {| sk := KLogic; st := TUnknown; sf := FNone |}]) = false.
Proof. vm_compute. reflexivity. Qed.
Print Assumptions C08_partial. Print Assumptions chain_one_outcome.
