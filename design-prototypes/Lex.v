(* DESIGN-PHASE PROTOTYPE — evidence for DESIGN.md §3.3/§5, not part of the verification framework.
   Compiles stand-alone with coqc 8.16.1 (`coqc Lex.v`), closed under the global context.
   Superseded by coq/ once the framework exists. *)
From Coq Require Import String Ascii List Bool Lia.
Import ListNotations.
Definition bytes := list ascii.
Definition b (s : string) : bytes := list_ascii_of_string s.
Open Scope char_scope.

(* ---------- escaping as Go's encoding/xml (ASCII part) ---------- *)
Definition esc1 (c : ascii) : bytes :=
  if Ascii.eqb c "&" then b "&amp;" else if Ascii.eqb c "<" then b "&lt;" else
  if Ascii.eqb c ">" then b "&gt;" else if Ascii.eqb c """" then b "&#34;" else
  if Ascii.eqb c "'" then b "&#39;" else if Ascii.eqb c "009" then b "&#x9;" else
  if Ascii.eqb c "010" then b "&#xA;" else if Ascii.eqb c "013" then b "&#xD;" else [c].
Definition esc (s : bytes) : bytes := flat_map esc1 s.

(* ---------- trees and Go-style marshalling ---------- *)
Inductive xml := El (name : bytes) (attrs : list (bytes * bytes)) (kids : content)
with content := Text (s : bytes) | Kids (l : list xml).
Definition m_attr (a : bytes * bytes) : bytes := [" "] ++ fst a ++ ["="; """"] ++ esc (snd a) ++ [""""].
Fixpoint marshal (t : xml) : bytes :=
  match t with El n attrs k =>
    ["<"] ++ n ++ flat_map m_attr attrs ++ [">"] ++
    (match k with Text s => esc s | Kids l => (fix go l := match l with [] => [] | x :: r => marshal x ++ go r end) l end)
    ++ ["<"; "/"] ++ n ++ [">"] end.

Inductive tok := TOpen (n : bytes) (attrs : list (bytes * bytes)) | TText (s : bytes) | TClose (n : bytes).
Fixpoint tokens (t : xml) : list tok :=
  match t with El n attrs k =>
    TOpen n attrs ::
    (match k with Text s => (match s with [] => [] | _ => [TText s] end)
     | Kids l => (fix go l := match l with [] => [] | x :: r => tokens x ++ go r end) l end)
    ++ [TClose n] end.

(* ---------- lexer: one byte at a time, no fuel ---------- *)
Definition ent_table : list (bytes * ascii) :=
  [(b "amp", "&"); (b "lt", "<"); (b "gt", ">"); (b "#34", """"); (b "#39", "'"); (b "#x9", "009"); (b "#xA", "010"); (b "#xD", "013")].
Fixpoint beq (x y : bytes) : bool := match x, y with [], [] => true | a :: x', c :: y' => Ascii.eqb a c && beq x' y' | _, _ => false end.
Fixpoint lookup_ent (l : list (bytes * ascii)) (e : bytes) : option ascii :=
  match l with [] => None | (k, c) :: r => if beq k e then Some c else lookup_ent r e end.

Inductive st :=
 | SText (acc : bytes) | STextEnt (acc ent : bytes)
 | SLt | SOpenName (n : bytes) | SAttrs (n : bytes) (at_ : list (bytes * bytes))
 | SAttrName (n : bytes) (at_ : list (bytes * bytes)) (an : bytes)
 | SAttrEq (n : bytes) (at_ : list (bytes * bytes)) (an : bytes)
 | SAttrVal (n : bytes) (at_ : list (bytes * bytes)) (an acc : bytes)
 | SAttrValEnt (n : bytes) (at_ : list (bytes * bytes)) (an acc ent : bytes)
 | SCloseName (n : bytes) | SFail.
(* accumulators are kept reversed *)
Definition flush (acc : bytes) (out : list tok) := match acc with [] => out | _ => TText (rev acc) :: out end.
Definition step (so : st * list tok) (c : ascii) : st * list tok :=
  let '(s, out) := so in
  match s with
  | SText acc => if Ascii.eqb c "<" then (SLt, flush acc out) else if Ascii.eqb c "&" then (STextEnt acc [], out) else (SText (c :: acc), out)
  | STextEnt acc e => if Ascii.eqb c ";" then match lookup_ent ent_table (rev e) with Some d => (SText (d :: acc), out) | None => (SFail, out) end else (STextEnt acc (c :: e), out)
  | SLt => if Ascii.eqb c "/" then (SCloseName [], out) else (SOpenName [c], out)
  | SOpenName n => if Ascii.eqb c " " then (SAttrName (rev n) [] [], out) else if Ascii.eqb c ">" then (SText [], TOpen (rev n) [] :: out) else (SOpenName (c :: n), out)
  | SAttrs n at_ => if Ascii.eqb c " " then (SAttrName n at_ [], out) else if Ascii.eqb c ">" then (SText [], TOpen n (rev at_) :: out) else (SFail, out)
  | SAttrName n at_ an => if Ascii.eqb c "=" then (SAttrEq n at_ (rev an), out) else (SAttrName n at_ (c :: an), out)
  | SAttrEq n at_ an => if Ascii.eqb c """" then (SAttrVal n at_ an [], out) else (SFail, out)
  | SAttrVal n at_ an acc => if Ascii.eqb c """" then (SAttrs n ((an, rev acc) :: at_), out) else if Ascii.eqb c "&" then (SAttrValEnt n at_ an acc [], out) else (SAttrVal n at_ an (c :: acc), out)
  | SAttrValEnt n at_ an acc e => if Ascii.eqb c ";" then match lookup_ent ent_table (rev e) with Some d => (SAttrVal n at_ an (d :: acc), out) | None => (SFail, out) end else (SAttrValEnt n at_ an acc (c :: e), out)
  | SCloseName n => if Ascii.eqb c ">" then (SText [], TClose (rev n) :: out) else (SCloseName (c :: n), out)
  | SFail => (SFail, out)
  end.
Definition run (so : st * list tok) (s : bytes) := fold_left step s so.
Lemma run_app so x y : run so (x ++ y) = run (run so x) y. Proof. apply fold_left_app. Qed.
Definition lex (s : bytes) : option (list tok) := match run (SText [], []) s with (SText [], out) => Some (rev out) | _ => None end.

(* ---------- well-formed names ---------- *)
Definition name_char (c : ascii) : bool := negb (Ascii.eqb c " " || Ascii.eqb c ">" || Ascii.eqb c "=" || Ascii.eqb c "/" || Ascii.eqb c "<" || Ascii.eqb c """").
Definition name_ok (n : bytes) := n <> [] /\ forallb name_char n = true.
Fixpoint wf (t : xml) : Prop :=
  match t with El n attrs k => name_ok n /\ Forall (fun a => name_ok (fst a)) attrs /\
    match k with Text _ => True | Kids l => (fix go l := match l with [] => True | x :: r => wf x /\ go r end) l end end.

(* ---------- fragment lemmas ---------- *)
Lemma run_esc1_val n at_ an acc out c : run (SAttrVal n at_ an acc, out) (esc1 c) = (SAttrVal n at_ an (c :: acc), out).
Proof. unfold esc1. repeat match goal with |- context [Ascii.eqb c ?x] => destruct (Ascii.eqb_spec c x) as [->|?]; [reflexivity|] end.
  cbn [run fold_left step]. destruct (Ascii.eqb_spec c """"); [congruence|]. destruct (Ascii.eqb_spec c "&"); [congruence|]. reflexivity. Qed.
Lemma run_esc_val s : forall n at_ an acc out, run (SAttrVal n at_ an acc, out) (esc s) = (SAttrVal n at_ an (rev s ++ acc), out).
Proof. induction s as [|c s IH]; intros; [reflexivity|]. unfold esc in *. cbn [flat_map]. rewrite run_app, run_esc1_val, IH. cbn [rev]. now rewrite <- app_assoc. Qed.
Lemma run_esc1_text acc out c : run (SText acc, out) (esc1 c) = (SText (c :: acc), out).
Proof. unfold esc1. repeat match goal with |- context [Ascii.eqb c ?x] => destruct (Ascii.eqb_spec c x) as [->|?]; [reflexivity|] end.
  cbn [run fold_left step]. destruct (Ascii.eqb_spec c "<"); [congruence|]. destruct (Ascii.eqb_spec c "&"); [congruence|]. reflexivity. Qed.
Lemma run_esc_text s : forall acc out, run (SText acc, out) (esc s) = (SText (rev s ++ acc), out).
Proof. induction s as [|c s IH]; intros; [reflexivity|]. unfold esc in *. cbn [flat_map]. rewrite run_app, run_esc1_text, IH. cbn [rev]. now rewrite <- app_assoc. Qed.

Lemma name_char_inv c : name_char c = true -> c <> " " /\ c <> ">" /\ c <> "=" /\ c <> "/" /\ c <> "<" /\ c <> """".
Proof. unfold name_char. rewrite negb_true_iff, !orb_false_iff. repeat rewrite Ascii.eqb_neq. tauto. Qed.
Ltac nc H := apply name_char_inv in H; destruct H as (?&?&?&?&?&?).
Ltac neqb := repeat match goal with |- context [Ascii.eqb ?c ?x] => destruct (Ascii.eqb_spec c x); [congruence|] end.
Lemma run_open_name n : forall acc out, forallb name_char n = true -> run (SOpenName acc, out) n = (SOpenName (rev n ++ acc), out).
Proof. induction n as [|c n IH]; intros acc out H; [reflexivity|]. cbn [forallb] in H. apply andb_prop in H as [Hc H]. nc Hc.
  cbn [run fold_left step]. neqb. fold (run (SOpenName (c :: acc), out) n). rewrite IH by auto. cbn [rev]. now rewrite <- app_assoc. Qed.
Lemma run_close_name n : forall acc out, forallb name_char n = true -> run (SCloseName acc, out) n = (SCloseName (rev n ++ acc), out).
Proof. induction n as [|c n IH]; intros acc out H; [reflexivity|]. cbn [forallb] in H. apply andb_prop in H as [Hc H]. nc Hc.
  cbn [run fold_left step]. neqb. fold (run (SCloseName (c :: acc), out) n). rewrite IH by auto. cbn [rev]. now rewrite <- app_assoc. Qed.
Lemma run_attr_name n at_ an : forall acc out, forallb name_char an = true -> run (SAttrName n at_ acc, out) an = (SAttrName n at_ (rev an ++ acc), out).
Proof. induction an as [|c an IH]; intros acc out H; [reflexivity|]. cbn [forallb] in H. apply andb_prop in H as [Hc H]. nc Hc.
  cbn [run fold_left step]. neqb. fold (run (SAttrName n at_ (c :: acc), out) an). rewrite IH by auto. cbn [rev]. now rewrite <- app_assoc. Qed.

Lemma run1 so c rest : run so (c :: rest) = run (step so c) rest. Proof. reflexivity. Qed.
Ltac norm := repeat first [rewrite <- app_assoc | progress cbn [app]].
Ltac r1 := norm; rewrite run1; cbn [step Ascii.eqb Bool.eqb].
Lemma run_attr_body n at_ out a rest : name_ok (fst a) ->
  run (SAttrName n at_ [], out) (fst a ++ "=" :: """" :: esc (snd a) ++ """" :: rest) = run (SAttrs n (a :: at_), out) rest.
Proof. destruct a as [an v]. intros [Hne Hok]. cbn [fst snd].
  rewrite run_app, run_attr_name by auto. rewrite app_nil_r. r1. r1. rewrite rev_involutive.
  rewrite run_app, run_esc_val. r1. now rewrite app_nil_r, rev_involutive. Qed.
Lemma run_attrs n attrs : forall at_ out rest, Forall (fun a => name_ok (fst a)) attrs ->
  run (SAttrs n at_, out) (flat_map m_attr attrs ++ rest) = run (SAttrs n (rev attrs ++ at_), out) rest.
Proof. induction attrs as [|a attrs IH]; intros at_ out rest H; [reflexivity|]. inversion H; subst. cbn [flat_map]. unfold m_attr at 1.
  r1. rewrite run_attr_body, IH by auto. cbn [rev]. now rewrite <- app_assoc. Qed.
(* from the element name: either ">" directly or a first attribute *)
Lemma run_open n attrs out rest : name_ok n -> Forall (fun a => name_ok (fst a)) attrs ->
  run (SLt, out) (n ++ flat_map m_attr attrs ++ ">" :: rest) = run (SText [], TOpen n attrs :: out) rest.
Proof. intros [Hne Hok] Hat. destruct n as [|c0 n]; [congruence|]. cbn [forallb] in Hok. apply andb_prop in Hok as [Hc0 Hok]. nc Hc0.
  cbn [app]. rewrite run1. cbn [step]. neqb.
  rewrite run_app, run_open_name by auto.
  assert (Hn : rev (rev n ++ [c0]) = c0 :: n) by (rewrite rev_app_distr, rev_involutive; reflexivity).
  destruct attrs as [|a attrs].
  - cbn [flat_map]. r1. now rewrite Hn.
  - cbn [flat_map]. unfold m_attr at 1. r1. rewrite Hn.
    inversion Hat; subst. rewrite run_attr_body by auto. rewrite run_attrs by auto. r1.
    rewrite ?app_nil_r. cbn [rev]. now rewrite ?rev_app_distr, ?rev_involutive. Qed.
Lemma run_close n out rest : forallb name_char n = true -> run (SLt, out) ("/" :: n ++ ">" :: rest) = run (SText [], TClose n :: out) rest.
Proof. intro H. r1. rewrite run_app, run_close_name by auto. r1. now rewrite app_nil_r, rev_involutive. Qed.

(* ---------- main theorem ---------- *)
Fixpoint size (t : xml) : nat := match t with El _ _ k => S (match k with Text _ => 0 | Kids l => (fix go l := match l with [] => 0 | x :: r => size x + go r end) l end) end.
Lemma lex_marshal_gen : forall k t, size t <= k -> wf t -> forall out rest, run (SText [], out) (marshal t ++ rest) = run (SText [], rev (tokens t) ++ out) rest.
Proof.
  induction k as [|k IHk]; intros t Hs Hwf out rest; destruct t as [n attrs kids]; cbn [size] in Hs; [lia|].
  cbn [wf] in Hwf. destruct Hwf as (Hn & Hattrs & Hkids). pose proof Hn as [Hne Hok].
  cbn [marshal tokens]. r1. cbn [flush].
  rewrite run_open by auto.
  destruct kids as [s|l].
  - (* text *) rewrite run_app, run_esc_text, app_nil_r. r1. rewrite run_close by auto.
    destruct s as [|c s]; cbn [rev app flush]; [reflexivity|].
    assert (F : forall acc o, acc <> [] -> flush acc o = TText (rev acc) :: o) by (intros [|] ? ?; [congruence|reflexivity]).
    rewrite F by (intro E; apply app_eq_nil in E as [_ E]; discriminate).
    rewrite rev_app_distr, rev_involutive. reflexivity.
  - (* children *)
    assert (Hl : forall o, run (SText [], o) ((fix go l := match l with [] => [] | x :: r => marshal x ++ go r end) l ++ "<" :: "/" :: n ++ ">" :: rest)
                 = run (SText [], rev ((fix go l := match l with [] => [] | x :: r => tokens x ++ go r end) l) ++ o) ("<" :: "/" :: n ++ ">" :: rest)).
    { clear Hattrs. induction l as [|x l IHl]; intro o; [reflexivity|].
      destruct Hkids as [Hx Hl]. rewrite <- app_assoc, IHk by (auto; lia). rewrite IHl by (auto; lia). now rewrite rev_app_distr, <- app_assoc. }
    rewrite Hl. r1. cbn [flush]. rewrite run_close by auto.
    f_equal. f_equal. cbn [rev]. rewrite rev_app_distr. cbn [rev app]. now rewrite <- app_assoc.
Qed.
Theorem lex_marshal t : wf t -> lex (marshal t) = Some (tokens t).
Proof. intro H. unfold lex. rewrite <- (app_nil_r (marshal t)), (lex_marshal_gen (size t) t (le_n _) H [] []). cbn [run fold_left]. now rewrite app_nil_r, rev_involutive. Qed.
Print Assumptions lex_marshal.
