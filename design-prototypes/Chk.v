(* DESIGN-PHASE PROTOTYPE — evidence for DESIGN.md §3.3/§5, not part of the verification framework.
   Compiles stand-alone with coqc 8.16.1 (`coqc Chk.v`), closed under the global context.
   Superseded by coq/ once the framework exists. *)
From Coq Require Import List Bool Lia.
Import ListNotations.
Section Checker.
Variable W : Type.                      (* world: trace + whatever the closures touch *)
Definition M (A : Type) := W -> A * W.
Definition ret {A} (a : A) : M A := fun w => (a, w).
Definition bind {A B} (m : M A) (f : A -> M B) : M B := fun w => let '(a, w') := m w in f a w'.
Notation "x <- m ;; k" := (bind m (fun x => k)) (at level 61, m at next level, right associativity).
Notation "m ;;; k" := (bind m (fun _ => k)) (at level 61, right associativity).

(* Base/Loops.v: for-range with early return *)
Inductive ctlr (R : Type) := Next | Return (r : R).
Arguments Next {R}. Arguments Return {R}.
Fixpoint range_ret {T R} (xs : list T) (body : T -> M (ctlr R)) (after : M R) : M R :=
  match xs with [] => after | x :: r => c <- body x ;; match c with Next => range_ret r body after | Return v => ret v end end.

(* ---- as go2v would emit checker.go ---- *)
Definition step := M bool.
Definition Checker := list step.
Definition CheckFailed (c : Checker) : M bool :=
  range_ret c (fun step => f <- step ;; if f then ret (Return true) else ret Next) (ret false).
Variable log : M unit.
Definition addStep (c : Checker) (f : step) : Checker := c ++ [f].
Definition WithLogicStep (c : Checker) (logic : M bool (* err <> nil *)) (errorFunc : M unit) : Checker :=
  addStep c (e <- logic ;; if e then log ;;; errorFunc ;;; ret true else ret false).
Definition WithConditionalLogicStep (c : Checker) (cond : M bool) (logic : M bool) (errorFunc : M unit) : Checker :=
  addStep c (cd <- cond ;; if cd then (e <- logic ;; if e then log ;;; errorFunc ;;; ret true else ret false) else ret false).
Definition WithValueStep (c : Checker) (logic : M unit) : Checker := addStep c (logic ;;; ret false).

(* ---- reference semantics and theorems (C20) ---- *)
Fixpoint run (c : Checker) : M bool :=
  match c with [] => ret false | s :: r => fun w => let '(f, w') := s w in if f then (true, w') else run r w' end.
Lemma CheckFailed_run c w : CheckFailed c w = run c w.
Proof. revert w; induction c as [|s c IH]; intro w; [reflexivity|].
  unfold CheckFailed in *. cbn [range_ret run]. unfold bind, ret in *. destruct (s w) as [f w']. destruct f; [reflexivity|apply IH]. Qed.

(* first failing step: everything after it is irrelevant *)
Theorem C20_independent_of_tail c1 s c2 c2' w w1 w2 :
  run c1 w = (false, w1) -> s w1 = (true, w2) ->
  CheckFailed (c1 ++ s :: c2) w = (true, w2) /\ CheckFailed (c1 ++ s :: c2') w = (true, w2).
Proof.
  rewrite !CheckFailed_run. revert w. induction c1 as [|t c1 IH]; intros w H1 Hs; cbn [app run] in *.
  - inversion H1; subst. rewrite Hs. auto.
  - destruct (t w) as [f w']. destruct f; [discriminate|]. apply IH; auto.
Qed.
Theorem C20_iff c w : fst (CheckFailed c w) = true <-> exists c1 s c2 w1 w2, c = c1 ++ s :: c2 /\ run c1 w = (false, w1) /\ s w1 = (true, w2).
Proof.
  rewrite CheckFailed_run. revert w. induction c as [|s c IH]; intro w; cbn [run].
  - split; [discriminate|]. intros (c1 & s & c2 & ? & ? & E & _). destruct c1; discriminate.
  - destruct (s w) as [f w'] eqn:Es. destruct f; cbn [fst].
    + split; [|reflexivity]. intros _. exists [], s, c, w, w'. auto.
    + rewrite IH. split.
      * intros (c1 & s' & c2 & w1 & w2 & -> & H1 & H2). exists (s :: c1), s', c2, w1, w2. cbn [app run]. rewrite Es. auto.
      * intros (c1 & s' & c2 & w1 & w2 & E & H1 & H2). destruct c1 as [|t c1]; cbn [app] in E; inversion E; subst.
        -- cbn [run] in H1. inversion H1; subst. rewrite Es in H2. discriminate.
        -- cbn [run] in H1. rewrite Es in H1. exists c1, s', c2, w1, w2. auto.
Qed.
End Checker.
Print Assumptions C20_independent_of_tail. Print Assumptions C20_iff.
