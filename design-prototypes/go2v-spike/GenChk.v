Require Import Prelude.
From Coq Require Import String Ascii List Bool ZArith.
Import ListNotations.
Section Mon.
Variable M : Type -> Type.
Variable ret : forall {A}, A -> M A.
Variable bind : forall {A B}, M A -> (A -> M B) -> M B.
Arguments ret {A}. Arguments bind {A B}.
Notation "x <- m ;; k" := (bind m (fun x => k)) (at level 61, m at next level, right associativity).
Variable log : M unit.
Definition seqc {S R} (m : M (ctl S R)) (k : S -> M (ctl S R)) : M (ctl S R) :=
  r <- m ;; match r with Normal s => k s | Brk s => ret (Brk s) | Ret v => ret (Ret v) end.
Fixpoint range_ctl {T S R} (xs : list T) (st : S) (body : T -> S -> M (ctl S R)) : M (ctl S R) :=
  match xs with [] => ret (Normal st) | x :: r => c <- body x st ;; match c with Normal s => range_ctl r s body | Brk s => ret (Normal s) | Ret v => ret (Ret v) end end.
(* ---- step_WithValueNotEmptyCheck ---- *)
Record step_WithValueNotEmptyCheck_st := { step_WithValueNotEmptyCheck_dummy : unit }.
Definition step_WithValueNotEmptyCheck (valueName : bytes) (value : (M bytes)) (errorFunc : (M unit)) : M bool :=
 let st := {| step_WithValueNotEmptyCheck_dummy := tt |} in
 r <- (seqc (c <- (x <- value ;; y <- (ret (b "")) ;; ret (beq x y)) ;; if c then
 (seqc (_x <- (_a0 <- (ret (b "empty value %s")) ;; _a1 <- (ret valueName) ;; log) ;; ret (Normal st)) (fun st =>
 (seqc (_x <- errorFunc ;; ret (Normal st)) (fun st =>
 (v <- (ret true) ;; ret (Ret v))))))
 else (ret (Normal st))) (fun st =>
 (v <- (ret false) ;; ret (Ret v)))) ;;
 ret (match r with Ret v => v | _ => false end).

(* ---- step_WithValuesNotEmptyCheck ---- *)
Record step_WithValuesNotEmptyCheck_st := { step_WithValuesNotEmptyCheck_dummy : unit }.
Definition step_WithValuesNotEmptyCheck (values : (M (list bytes))) (errorFunc : (M unit)) : M bool :=
 let st := {| step_WithValuesNotEmptyCheck_dummy := tt |} in
 r <- (seqc (xs <- values ;; range_ctl xs st (fun value st =>
 (c <- (x <- (ret value) ;; y <- (ret (b "")) ;; ret (beq x y)) ;; if c then
 (seqc (_x <- (_a0 <- (ret (b "empty value")) ;; log) ;; ret (Normal st)) (fun st =>
 (seqc (_x <- errorFunc ;; ret (Normal st)) (fun st =>
 (v <- (ret true) ;; ret (Ret v))))))
 else (ret (Normal st))))) (fun st =>
 (v <- (ret false) ;; ret (Ret v)))) ;;
 ret (match r with Ret v => v | _ => false end).

(* ---- step_WithValueLengthCheck ---- *)
Record step_WithValueLengthCheck_st := { step_WithValueLengthCheck_dummy : unit }.
Definition step_WithValueLengthCheck (valueName : bytes) (value : (M bytes)) (minlength : Z) (maxlength : Z) (errorFunc : (M unit)) : M bool :=
 let st := {| step_WithValueLengthCheck_dummy := tt |} in
 r <- (seqc (c <- (x <- (x <- (x <- (ret minlength) ;; y <- (ret 0%Z) ;; ret (Z.ltb y x)) ;; if x then (x <- (x <- value ;; ret (Z.of_nat (length x))) ;; y <- (ret minlength) ;; ret (Z.ltb x y)) else ret false) ;; if x then ret true else (x <- (x <- (ret maxlength) ;; y <- (ret 0%Z) ;; ret (Z.ltb y x)) ;; if x then (x <- (x <- value ;; ret (Z.of_nat (length x))) ;; y <- (ret maxlength) ;; ret (Z.ltb y x)) else ret false)) ;; if c then
 (seqc (_x <- (_a0 <- (ret (b "error with value length %s")) ;; _a1 <- (ret valueName) ;; log) ;; ret (Normal st)) (fun st =>
 (seqc (_x <- errorFunc ;; ret (Normal st)) (fun st =>
 (v <- (ret true) ;; ret (Ret v))))))
 else (ret (Normal st))) (fun st =>
 (v <- (ret false) ;; ret (Ret v)))) ;;
 ret (match r with Ret v => v | _ => false end).

(* ---- step_WithValueEqualsCheck ---- *)
Record step_WithValueEqualsCheck_st := { step_WithValueEqualsCheck_dummy : unit }.
Definition step_WithValueEqualsCheck (valueName : bytes) (value : (M bytes)) (equal : (M bytes)) (errorFunc : (M unit)) : M bool :=
 let st := {| step_WithValueEqualsCheck_dummy := tt |} in
 r <- (seqc (c <- (x <- value ;; y <- equal ;; ret (negb (beq x y))) ;; if c then
 (seqc (_x <- (_a0 <- (ret (b "value not equal %s: %s, %s")) ;; _a1 <- (ret valueName) ;; _a2 <- value ;; _a3 <- equal ;; log) ;; ret (Normal st)) (fun st =>
 (seqc (_x <- errorFunc ;; ret (Normal st)) (fun st =>
 (v <- (ret true) ;; ret (Ret v))))))
 else (ret (Normal st))) (fun st =>
 (v <- (ret false) ;; ret (Ret v)))) ;;
 ret (match r with Ret v => v | _ => false end).

(* ---- step_WithConditionalValueNotEmpty ---- *)
Record step_WithConditionalValueNotEmpty_st := { step_WithConditionalValueNotEmpty_dummy : unit }.
Definition step_WithConditionalValueNotEmpty (cond : (M bool)) (valueName : bytes) (value : (M bytes)) (errorFunc : (M unit)) : M bool :=
 let st := {| step_WithConditionalValueNotEmpty_dummy := tt |} in
 r <- (seqc (c <- cond ;; if c then
 (c <- (x <- value ;; y <- (ret (b "")) ;; ret (beq x y)) ;; if c then
 (seqc (_x <- (_a0 <- (ret (b "empty value %s")) ;; _a1 <- (ret valueName) ;; log) ;; ret (Normal st)) (fun st =>
 (seqc (_x <- errorFunc ;; ret (Normal st)) (fun st =>
 (v <- (ret true) ;; ret (Ret v))))))
 else (ret (Normal st)))
 else (ret (Normal st))) (fun st =>
 (v <- (ret false) ;; ret (Ret v)))) ;;
 ret (match r with Ret v => v | _ => false end).

(* ---- step_WithConditionalLogicStep ---- *)
Record step_WithConditionalLogicStep_st := { step_WithConditionalLogicStep_dummy : unit }.
Definition step_WithConditionalLogicStep (cond : (M bool)) (logic : (M goerr)) (errorFunc : (M unit)) : M bool :=
 let st := {| step_WithConditionalLogicStep_dummy := tt |} in
 r <- (seqc (c <- cond ;; if c then
 (err <- logic ;;
 (c <- (x <- (ret err) ;; ret (negb (goerr_is_nil x))) ;; if c then
 (seqc (_x <- (_a0 <- (ret err) ;; log) ;; ret (Normal st)) (fun st =>
 (seqc (_x <- errorFunc ;; ret (Normal st)) (fun st =>
 (v <- (ret true) ;; ret (Ret v))))))
 else (ret (Normal st))))
 else (ret (Normal st))) (fun st =>
 (v <- (ret false) ;; ret (Ret v)))) ;;
 ret (match r with Ret v => v | _ => false end).

(* ---- step_WithLogicStep ---- *)
Record step_WithLogicStep_st := { step_WithLogicStep_dummy : unit }.
Definition step_WithLogicStep (logic : (M goerr)) (errorFunc : (M unit)) : M bool :=
 let st := {| step_WithLogicStep_dummy := tt |} in
 r <- (seqc (err <- logic ;;
 (c <- (x <- (ret err) ;; ret (negb (goerr_is_nil x))) ;; if c then
 (seqc (_x <- (_a0 <- (ret err) ;; log) ;; ret (Normal st)) (fun st =>
 (seqc (_x <- errorFunc ;; ret (Normal st)) (fun st =>
 (v <- (ret true) ;; ret (Ret v))))))
 else (ret (Normal st)))) (fun st =>
 (v <- (ret false) ;; ret (Ret v)))) ;;
 ret (match r with Ret v => v | _ => false end).

(* ---- step_WithValueStep ---- *)
Record step_WithValueStep_st := { step_WithValueStep_dummy : unit }.
Definition step_WithValueStep (logic : (M unit)) : M bool :=
 let st := {| step_WithValueStep_dummy := tt |} in
 r <- (seqc (_x <- logic ;; ret (Normal st)) (fun st =>
 (v <- (ret false) ;; ret (Ret v)))) ;;
 ret (match r with Ret v => v | _ => false end).

(* constructors found in checker.go: WithConditionalLogicStep, WithConditionalValueNotEmpty, WithLogicStep, WithValueEqualsCheck, WithValueLengthCheck, WithValueNotEmptyCheck, WithValueStep, WithValuesNotEmptyCheck *)
(* CheckFailed body has 2 statements *)

End Mon.
Check step_WithValueLengthCheck. Check step_WithConditionalLogicStep.
