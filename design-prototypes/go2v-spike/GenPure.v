Require Import Prelude.
From Coq Require Import String Ascii List Bool ZArith.
Import ListNotations.
(* identity monad instance for pure functions *)
Definition M (A : Type) := A.
Definition ret {A} (a : A) : M A := a.
Definition bind {A B} (m : M A) (f : A -> M B) : M B := f m.
Notation "x <- m ;; k" := (bind m (fun x => k)) (at level 61, m at next level, right associativity).
Definition log : M unit := tt.
Definition seqc {S R} (m : M (ctl S R)) (k : S -> M (ctl S R)) : M (ctl S R) :=
  r <- m ;; match r with Normal s => k s | Brk s => ret (Brk s) | Ret v => ret (Ret v) end.
Fixpoint range_ctl {T S R} (xs : list T) (st : S) (body : T -> S -> M (ctl S R)) : M (ctl S R) :=
  match xs with [] => ret (Normal st) | x :: r => c <- body x st ;; match c with Normal s => range_ctl r s body | Brk s => ret (Normal s) | Ret v => ret (Ret v) end end.
Record IndexedEndpointType := { Index : bytes; IsDefault : bytes; Binding : bytes; Location : bytes; ResponseLocation : bytes }.

(* ---- GetAcsUrlAndBindingForResponse ---- *)
Record g_st := { g_acsUrl : bytes; g_protocolBinding : bytes; g_isDefaultFound : bool; g_index : Z }.
Definition g_set_acsUrl (v : bytes) (st : g_st) : g_st := {| g_acsUrl := v; g_protocolBinding := g_protocolBinding st; g_isDefaultFound := g_isDefaultFound st; g_index := g_index st |}.
Definition g_set_protocolBinding (v : bytes) (st : g_st) : g_st := {| g_acsUrl := g_acsUrl st; g_protocolBinding := v; g_isDefaultFound := g_isDefaultFound st; g_index := g_index st |}.
Definition g_set_isDefaultFound (v : bool) (st : g_st) : g_st := {| g_acsUrl := g_acsUrl st; g_protocolBinding := g_protocolBinding st; g_isDefaultFound := v; g_index := g_index st |}.
Definition g_set_index (v : Z) (st : g_st) : g_st := {| g_acsUrl := g_acsUrl st; g_protocolBinding := g_protocolBinding st; g_isDefaultFound := g_isDefaultFound st; g_index := v |}.
Definition GetAcsUrlAndBindingForResponse (acs : (list IndexedEndpointType)) (requestProtocolBinding : bytes) : M (bytes * bytes) :=
 let st := {| g_acsUrl := (b ""); g_protocolBinding := (b ""); g_isDefaultFound := false; g_index := 0%Z |} in
 r <- (seqc (v0 <- (ret (b "")) ;; (let st := g_set_acsUrl v0 st in (ret (Normal st)))) (fun st =>
 (seqc (v0 <- (ret (b "")) ;; (let st := g_set_protocolBinding v0 st in (ret (Normal st)))) (fun st =>
 (seqc (xs <- (ret acs) ;; range_ctl xs st (fun acs_1 st =>
 (c <- (x <- (x <- (ret acs_1) ;; ret (Binding x)) ;; y <- (ret requestProtocolBinding) ;; ret (beq x y)) ;; if c then
 (seqc (v0 <- (x <- (ret acs_1) ;; ret (Location x)) ;; (let st := g_set_acsUrl v0 st in (ret (Normal st)))) (fun st =>
 (seqc (v0 <- (x <- (ret acs_1) ;; ret (Binding x)) ;; (let st := g_set_protocolBinding v0 st in (ret (Normal st)))) (fun st =>
 (ret (Brk st))))))
 else (ret (Normal st))))) (fun st =>
 (seqc (c <- (x <- (ret (g_acsUrl st)) ;; y <- (ret (b "")) ;; ret (beq x y)) ;; if c then
 (seqc (v0 <- (ret false) ;; (let st := g_set_isDefaultFound v0 st in (ret (Normal st)))) (fun st =>
 (seqc (xs <- (ret acs) ;; range_ctl xs st (fun acs_2 st =>
 (c <- (x <- (x <- (ret acs_2) ;; ret (IsDefault x)) ;; y <- (ret (b "true")) ;; ret (beq x y)) ;; if c then
 (seqc (v0 <- (ret true) ;; (let st := g_set_isDefaultFound v0 st in (ret (Normal st)))) (fun st =>
 (seqc (v0 <- (x <- (ret acs_2) ;; ret (Location x)) ;; (let st := g_set_acsUrl v0 st in (ret (Normal st)))) (fun st =>
 (seqc (v0 <- (x <- (ret acs_2) ;; ret (Binding x)) ;; (let st := g_set_protocolBinding v0 st in (ret (Normal st)))) (fun st =>
 (ret (Brk st))))))))
 else (ret (Normal st))))) (fun st =>
 (c <- (x <- (ret (g_isDefaultFound st)) ;; ret (negb x)) ;; if c then
 (seqc (v0 <- (ret 0%Z) ;; (let st := g_set_index v0 st in (ret (Normal st)))) (fun st =>
 (xs <- (ret acs) ;; range_ctl xs st (fun acs_3 st =>
 (i <- (a0 <- (x <- (ret acs_3) ;; ret (Index x)) ;; ret (go_atoi a0)) ;;
 (c <- (x <- (x <- (ret (g_index st)) ;; y <- (ret 0%Z) ;; ret (Z.eqb x y)) ;; if x then ret true else (x <- (ret i) ;; y <- (ret (g_index st)) ;; ret (Z.ltb x y))) ;; if c then
 (seqc (v0 <- (x <- (ret acs_3) ;; ret (Location x)) ;; (let st := g_set_acsUrl v0 st in (ret (Normal st)))) (fun st =>
 (seqc (v0 <- (x <- (ret acs_3) ;; ret (Binding x)) ;; (let st := g_set_protocolBinding v0 st in (ret (Normal st)))) (fun st =>
 (v0 <- (ret i) ;; (let st := g_set_index v0 st in (ret (Normal st))))))))
 else (ret (Normal st))))))))
 else (ret (Normal st)))))))
 else (ret (Normal st))) (fun st =>
 (v1 <- (ret (g_acsUrl st)) ;; v2 <- (ret (g_protocolBinding st)) ;; ret (Ret (v1, v2))))))))))) ;;
 ret (match r with Ret v => v | _ => (b "", b "") end).


Definition e idx def bnd loc := {| Index := b idx; IsDefault := b def; Binding := b bnd; Location := b loc; ResponseLocation := [] |}.
Eval vm_compute in (GetAcsUrlAndBindingForResponse [e "0" "" "A" "l0"; e "1" "" "B" "l1"] (b "")).

(* ---- bridge to the readable functional form ---- *)
Definition find_pair (p : IndexedEndpointType -> bool) l := option_map (fun x => (Location x, Binding x)) (find p l).
Fixpoint minloop (l : list IndexedEndpointType) (idx : Z) (u p : bytes) : bytes * bytes :=
  match l with [] => (u, p) | x :: r => let i := go_atoi (Index x) in
     if (idx =? 0)%Z || (i <? idx)%Z then minloop r i (Location x) (Binding x) else minloop r idx u p end.
Definition GetAcs_fun (acs : list IndexedEndpointType) (req : bytes) : bytes * bytes :=
  let r1 := match find_pair (fun x => beq (Binding x) req) acs with Some r => r | None => (b "", b "") end in
  if beq (fst r1) (b "") then
    match find_pair (fun x => beq (IsDefault x) (b "true")) acs with Some r => r | None => minloop acs 0 (fst r1) (snd r1) end
  else r1.

Lemma range_ctl_ext {T S R} (f g : T -> S -> M (ctl S R)) l : (forall x st, f x st = g x st) -> forall st, range_ctl l st f = range_ctl l st g.
Proof. intro H. induction l as [|x l IH]; intro st; cbn [range_ctl]; [reflexivity|]. unfold bind. rewrite H. destruct (g x st); auto. Qed.
Lemma loop_find (p : IndexedEndpointType -> bool) (upd : IndexedEndpointType -> g_st -> g_st) l : forall st,
  range_ctl (R := bytes * bytes) l st (fun x st => if p x then Brk (upd x st) else Normal st) = Normal (match find p l with Some x => upd x st | None => st end).
Proof. induction l as [|x l IH]; intro st; cbn [range_ctl find]; unfold bind, ret; [reflexivity|]. destruct (p x); [reflexivity|apply IH]. Qed.
Definition min_body (x : IndexedEndpointType) (st : g_st) : M (ctl g_st (bytes * bytes)) :=
  if (g_index st =? 0)%Z || (go_atoi (Index x) <? g_index st)%Z then Normal (g_set_index (go_atoi (Index x)) (g_set_protocolBinding (Binding x) (g_set_acsUrl (Location x) st))) else Normal st.
Lemma loop_min l : forall st, exists st', range_ctl l st min_body = Normal st'
  /\ (g_acsUrl st', g_protocolBinding st') = minloop l (g_index st) (g_acsUrl st) (g_protocolBinding st).
Proof. induction l as [|x l IH]; intro st; cbn [range_ctl minloop]; unfold bind, ret.
  - eexists; split; reflexivity.
  - unfold min_body at 1. cbv zeta. destruct ((g_index st =? 0)%Z || (go_atoi (Index x) <? g_index st)%Z).
    + destruct (IH (g_set_index (go_atoi (Index x)) (g_set_protocolBinding (Binding x) (g_set_acsUrl (Location x) st)))) as (st' & E & H). exists st'. split; [exact E|exact H].
    + apply IH. Qed.

Ltac body_eq := intros; cbv beta iota zeta delta [bind ret seqc min_body orb andb negb];
  repeat match goal with |- context [if ?c then _ else _] => lazymatch c with context [if _ then _ else _] => fail | _ => destruct c end end; reflexivity.
Ltac projs := cbn [g_acsUrl g_protocolBinding g_isDefaultFound g_index g_set_acsUrl g_set_protocolBinding g_set_isDefaultFound g_set_index fst snd option_map negb].
Ltac projs_in H := cbn [g_acsUrl g_protocolBinding g_isDefaultFound g_index g_set_acsUrl g_set_protocolBinding g_set_isDefaultFound g_set_index fst snd option_map negb] in H.
Theorem bridge acs req : GetAcsUrlAndBindingForResponse acs req = GetAcs_fun acs req.
Proof.
  unfold GetAcsUrlAndBindingForResponse, GetAcs_fun, find_pair.
  set (upd1 := fun (x : IndexedEndpointType) st => g_set_protocolBinding (Binding x) (g_set_acsUrl (Location x) st)).
  set (upd2 := fun (y : IndexedEndpointType) st => g_set_protocolBinding (Binding y) (g_set_acsUrl (Location y) (g_set_isDefaultFound true st))).
  cbv beta iota zeta delta [bind ret seqc].
  erewrite (range_ctl_ext _ (fun x st => if beq (Binding x) req then Brk (upd1 x st) else Normal st)) by body_eq.
  rewrite loop_find.
  assert (Second : forall st0 : g_st,
     match (if negb (g_isDefaultFound st0) then range_ctl (R := bytes * bytes) acs (g_set_index 0 st0) min_body else Normal st0) with
     | Normal s => (g_acsUrl s, g_protocolBinding s) | Brk s => (g_acsUrl s, g_protocolBinding s) | Ret v => v end
     = if g_isDefaultFound st0 then (g_acsUrl st0, g_protocolBinding st0) else minloop acs 0 (g_acsUrl st0) (g_protocolBinding st0)).
  { intro st0. destruct (g_isDefaultFound st0); cbn [negb]; [reflexivity|].
    destruct (loop_min acs (g_set_index 0 st0)) as (st' & -> & H). projs. exact H. }
  destruct (find (fun x => beq (Binding x) req) acs) as [x|]; unfold upd1; projs.
  - destruct (beq (Location x) (b "")); [|reflexivity].
    erewrite (range_ctl_ext _ (fun y st => if beq (IsDefault y) (b "true") then Brk (upd2 y st) else Normal st)) by body_eq.
    rewrite loop_find. destruct (find (fun x0 => beq (IsDefault x0) (b "true")) acs) as [y|]; unfold upd2; projs; [reflexivity|].
    erewrite (range_ctl_ext _ min_body) by body_eq.
    match goal with |- context [range_ctl acs ?s min_body] => destruct (loop_min acs s) as (st' & -> & H) end. projs. projs_in H. now rewrite H.
  - replace (beq (b "") (b "")) with true by reflexivity.
    erewrite (range_ctl_ext _ (fun y st => if beq (IsDefault y) (b "true") then Brk (upd2 y st) else Normal st)) by body_eq.
    rewrite loop_find. destruct (find (fun x0 => beq (IsDefault x0) (b "true")) acs) as [y|]; unfold upd2; projs; [reflexivity|].
    erewrite (range_ctl_ext _ min_body) by body_eq.
    match goal with |- context [range_ctl acs ?s min_body] => destruct (loop_min acs s) as (st' & -> & H) end. projs. projs_in H. now rewrite H.
Qed.
Print Assumptions bridge.
