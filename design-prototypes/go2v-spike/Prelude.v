From Coq Require Import String Ascii List Bool ZArith Lia.
Import ListNotations.
Definition bytes := list ascii.
Definition b (s : string) : bytes := list_ascii_of_string s.
Fixpoint beq (x y : bytes) : bool := match x, y with [], [] => true | a :: x', c :: y' => Ascii.eqb a c && beq x' y' | _, _ => false end.
Definition goerr := option bytes.
Definition goerr_is_nil (e : goerr) := match e with None => true | Some _ => false end.
Inductive ctl (S R : Type) := Normal (s : S) | Brk (s : S) | Ret (r : R).
Arguments Normal {S R}. Arguments Brk {S R}. Arguments Ret {S R}.
(* atoi for decimal strings; anything else -> 0 (strconv.Atoi error value) *)
Definition digit (c : ascii) : option Z := let n := Z.of_nat (nat_of_ascii c) in if ((48 <=? n) && (n <=? 57))%Z then Some (n - 48)%Z else None.
Fixpoint atoi_acc (s : bytes) (acc : Z) : option Z := match s with [] => Some acc | c :: r => match digit c with Some d => atoi_acc r (acc * 10 + d)%Z | None => None end end.
Definition go_atoi (s : bytes) : Z := match s with [] => 0%Z | _ => match atoi_acc s 0 with Some v => v | None => 0%Z end end.
