(** C04: the digest input of the signer (github.com/amdonov/xmlsig canonical.go, v0.1.0) and of a conformant verifier
    (Exclusive XML Canonicalization 1.0 without comments) on the trees of Xml/Tree.v -- the documents Go's marshaller prints
    for the library's structs: every namespace is a default namespace declared on the element that uses it, attributes
    are unqualified.

    signer   : re-tokenises Go's output with encoding/xml and writes '<' local-name, the default-namespace declaration
               when it differs from the enclosing element's, the attributes sorted, '>' ... and writes attribute values and
               character data DECODED and RAW (no escaping);
    verifier : the same element / namespace / attribute-order rules (the default namespace is visibly utilised by the
               element and rendered unless the nearest output ancestor rendered the same value; unqualified attributes
               sort by local name), with the escaping the standard prescribes: text & < > CR, attribute values & < double-quote TAB LF CR.
    Hence the two agree exactly on documents without those characters. *)
From Saml Require Import Base.Bytes Xml.Tree.
From Coq Require Import Sorting.Sorted Sorting.Mergesort Orders.
Open Scope char_scope.

(** * escaping of the standard *)
Definition esc_text_char (c : ascii) : bytes :=
  if Ascii.eqb c "&" then b "&amp;" else if Ascii.eqb c "<" then b "&lt;" else if Ascii.eqb c ">" then b "&gt;"
  else if Ascii.eqb c "013" then b "&#xD;" else [c].
Definition esc_attr_char (c : ascii) : bytes :=
  if Ascii.eqb c "&" then b "&amp;" else if Ascii.eqb c "<" then b "&lt;" else if Ascii.eqb c """" then b "&quot;"
  else if Ascii.eqb c "009" then b "&#x9;" else if Ascii.eqb c "010" then b "&#xA;" else if Ascii.eqb c "013" then b "&#xD;" else [c].
Definition c14n_text (s : bytes) : bytes := flat_map esc_text_char s.
Definition c14n_attr (s : bytes) : bytes := flat_map esc_attr_char s.
Definition text_special (c : ascii) : bool := Ascii.eqb c "&" || Ascii.eqb c "<" || Ascii.eqb c ">" || Ascii.eqb c "013".
Definition attr_special (c : ascii) : bool :=
  Ascii.eqb c "&" || Ascii.eqb c "<" || Ascii.eqb c """" || Ascii.eqb c "009" || Ascii.eqb c "010" || Ascii.eqb c "013".

Ltac all_chars c := destruct c as [[] [] [] [] [] [] [] []]; vm_compute; intros; try reflexivity; try discriminate; try lia.
Lemma esc_text_char_plain c : text_special c = false -> esc_text_char c = [c].
Proof. all_chars c. Qed.
Lemma esc_text_char_special c : text_special c = true -> 2 <= length (esc_text_char c).
Proof. all_chars c. Qed.
Lemma esc_attr_char_plain c : attr_special c = false -> esc_attr_char c = [c].
Proof. all_chars c. Qed.
Lemma esc_attr_char_special c : attr_special c = true -> 2 <= length (esc_attr_char c).
Proof. all_chars c. Qed.

Lemma c14n_text_len s : length s <= length (c14n_text s) /\ (length (c14n_text s) = length s <-> existsb text_special s = false).
Proof.
  induction s as [|c s [IH1 IH2]]; cbn [c14n_text flat_map existsb length]; [split; [lia|tauto]|].
  rewrite app_length. fold (c14n_text s). destruct (text_special c) eqn:E; cbn [orb].
  - pose proof (esc_text_char_special c E). split; [lia|]. split; [lia|discriminate].
  - rewrite (esc_text_char_plain c E). cbn [length]. split; [lia|]. rewrite <- IH2. lia.
Qed.
Lemma c14n_attr_len s : length s <= length (c14n_attr s) /\ (length (c14n_attr s) = length s <-> existsb attr_special s = false).
Proof.
  induction s as [|c s [IH1 IH2]]; cbn [c14n_attr flat_map existsb length]; [split; [lia|tauto]|].
  rewrite app_length. fold (c14n_attr s). destruct (attr_special c) eqn:E; cbn [orb].
  - pose proof (esc_attr_char_special c E). split; [lia|]. split; [lia|discriminate].
  - rewrite (esc_attr_char_plain c E). cbn [length]. split; [lia|]. rewrite <- IH2. lia.
Qed.
Lemma c14n_text_plain s : existsb text_special s = false -> c14n_text s = s.
Proof. induction s as [|c s IH]; cbn [c14n_text flat_map existsb]; [reflexivity|]. intro H. apply Bool.orb_false_iff in H as [H1 H2]. rewrite (esc_text_char_plain c H1). cbn [app]. f_equal. now apply IH. Qed.
Lemma c14n_attr_plain s : existsb attr_special s = false -> c14n_attr s = s.
Proof. induction s as [|c s IH]; cbn [c14n_attr flat_map existsb]; [reflexivity|]. intro H. apply Bool.orb_false_iff in H as [H1 H2]. rewrite (esc_attr_char_plain c H1). cbn [app]. f_equal. now apply IH. Qed.

(** * the two canonical forms, parametrised by the escaping of values; [sorted] is the attribute list in canonical order
    (both sort unqualified attributes by name: the order is a function of the keys, the same for both) *)
Section Canon.
Variable sort_attrs : list (bytes * bytes) -> list (bytes * bytes).
Variable esc_a esc_t : bytes -> bytes.
Definition c_attr (a : bytes * bytes) : bytes := " " :: fst a ++ "=" :: """" :: esc_a (snd a) ++ [""""].
Definition c_ns (parent ns : option bytes) : bytes :=
  match ns with
  | Some u => if match parent with Some p => beq p u | None => false end then [] else b " xmlns=""" ++ esc_a u ++ b """"
  | None => [] end.
Fixpoint canon (parent : option bytes) (t : xml) : bytes :=
  match t with
  | El n ns attrs k =>
      let here := match ns with Some _ => ns | None => parent end in
      "<" :: n ++ c_ns parent ns ++ flat_map c_attr (sort_attrs attrs) ++ ">" ::
      match k with Text s => esc_t s | Kids l => flat_map (canon here) l end ++ "<" :: "/" :: n ++ [">"]
  end.
End Canon.

Definition signer_canon sort_attrs := canon sort_attrs (fun s => s) (fun s => s).
Definition exc_c14n sort_attrs := canon sort_attrs c14n_attr c14n_text.

(** no character that the standard escapes, anywhere in the data *)
Fixpoint no_special (t : xml) : bool :=
  match t with
  | El _ ns attrs k =>
      match ns with Some u => negb (existsb attr_special u) | None => true end &&
      forallb (fun a => negb (existsb attr_special (snd a))) attrs &&
      match k with Text s => negb (existsb text_special s) | Kids l => forallb no_special l end
  end.

Section Agree.
Variable sort_attrs : list (bytes * bytes) -> list (bytes * bytes).
Hypothesis sort_perm : forall l a, In a (sort_attrs l) <-> In a l.
Hypothesis sort_len : forall l, length (sort_attrs l) = length l.

Lemma c_attr_len_le a : length (c_attr (fun s => s) a) <= length (c_attr c14n_attr a).
Proof. unfold c_attr. repeat (rewrite ?app_length; cbn [length]). pose proof (proj1 (c14n_attr_len (snd a))). lia. Qed.
Lemma c_ns_len_le p ns : length (c_ns (fun s => s) p ns) <= length (c_ns c14n_attr p ns).
Proof. unfold c_ns. destruct ns as [u|]; [|lia]. destruct (match p with Some p0 => beq p0 u | None => false end); [lia|]. repeat (rewrite ?app_length; cbn [length]). pose proof (proj1 (c14n_attr_len u)). lia. Qed.

Lemma flat_len_le {A} (f g : A -> bytes) l : (forall x, In x l -> length (f x) <= length (g x)) -> length (flat_map f l) <= length (flat_map g l).
Proof. induction l as [|x l IH]; intro H; cbn [flat_map]; [lia|]. rewrite !app_length. pose proof (H x (or_introl eq_refl)). assert (length (flat_map f l) <= length (flat_map g l)) by (apply IH; intros; apply H; now right). lia. Qed.
Lemma flat_len_eq {A} (f g : A -> bytes) l : (forall x, In x l -> length (f x) <= length (g x)) ->
  length (flat_map f l) = length (flat_map g l) -> forall x, In x l -> length (f x) = length (g x).
Proof.
  induction l as [|y l IH]; intros H E x Hx; [destruct Hx|]. cbn [flat_map] in E. rewrite !app_length in E.
  pose proof (H y (or_introl eq_refl)). assert (L : length (flat_map f l) <= length (flat_map g l)) by (apply flat_len_le; intros; apply H; now right).
  destruct Hx as [<-|Hx]; [lia|]. apply IH; [intros; apply H; now right|lia|exact Hx].
Qed.

Theorem canon_len_le : forall t p, length (signer_canon sort_attrs p t) <= length (exc_c14n sort_attrs p t).
Proof.
  induction t as [n ns attrs s|n ns attrs l IH] using xml_ind'; intro p; unfold signer_canon, exc_c14n; cbn [canon]; repeat (rewrite ?app_length; cbn [length]).
  - pose proof (c_ns_len_le p ns). pose proof (flat_len_le (c_attr (fun s => s)) (c_attr c14n_attr) (sort_attrs attrs) (fun a _ => c_attr_len_le a)).
    pose proof (proj1 (c14n_text_len s)). lia.
  - pose proof (c_ns_len_le p ns). pose proof (flat_len_le (c_attr (fun s => s)) (c_attr c14n_attr) (sort_attrs attrs) (fun a _ => c_attr_len_le a)).
    set (here := match ns with Some _ => ns | None => p end).
    assert (L : length (flat_map (canon sort_attrs (fun s => s) (fun s => s) here) l) <= length (flat_map (canon sort_attrs c14n_attr c14n_text here) l)).
    { apply flat_len_le. intros x Hx. rewrite Forall_forall in IH. apply (IH x Hx here). }
    lia.
Qed.

(** agreement on special-free documents *)
Theorem canon_agree : forall t p, no_special t = true -> signer_canon sort_attrs p t = exc_c14n sort_attrs p t.
Proof.
  induction t as [n ns attrs s|n ns attrs l IH] using xml_ind'; intros p H; cbn [no_special] in H;
    apply andb_prop in H as [H Hk]; apply andb_prop in H as [Hns Ha]; unfold signer_canon, exc_c14n; cbn [canon].
  - assert (E1 : c_ns (fun s => s) p ns = c_ns c14n_attr p ns).
    { unfold c_ns. destruct ns as [u|]; [|reflexivity]. apply Bool.negb_true_iff in Hns. now rewrite (c14n_attr_plain u Hns). }
    assert (E2 : flat_map (c_attr (fun s => s)) (sort_attrs attrs) = flat_map (c_attr c14n_attr) (sort_attrs attrs)).
    { assert (G : forall l0, (forall a, In a l0 -> In a attrs) -> flat_map (c_attr (fun s => s)) l0 = flat_map (c_attr c14n_attr) l0).
      { induction l0 as [|a l0 IHl]; intro Hin; [reflexivity|]. cbn [flat_map]. rewrite IHl by (intros; apply Hin; now right). f_equal.
        rewrite forallb_forall in Ha. pose proof (Ha a (Hin a (or_introl eq_refl))) as Hx. apply Bool.negb_true_iff in Hx. unfold c_attr. cbn [snd fst]. now rewrite (c14n_attr_plain (snd a) Hx). }
      apply G. intros a Hi. now apply sort_perm. }
    apply Bool.negb_true_iff in Hk. now rewrite E1, E2, (c14n_text_plain s Hk).
  - assert (E1 : c_ns (fun s => s) p ns = c_ns c14n_attr p ns).
    { unfold c_ns. destruct ns as [u|]; [|reflexivity]. apply Bool.negb_true_iff in Hns. now rewrite (c14n_attr_plain u Hns). }
    assert (E2 : flat_map (c_attr (fun s => s)) (sort_attrs attrs) = flat_map (c_attr c14n_attr) (sort_attrs attrs)).
    { assert (G : forall l0, (forall a, In a l0 -> In a attrs) -> flat_map (c_attr (fun s => s)) l0 = flat_map (c_attr c14n_attr) l0).
      { induction l0 as [|a l0 IHl]; intro Hin; [reflexivity|]. cbn [flat_map]. rewrite IHl by (intros; apply Hin; now right). f_equal.
        rewrite forallb_forall in Ha. pose proof (Ha a (Hin a (or_introl eq_refl))) as Hx. apply Bool.negb_true_iff in Hx. unfold c_attr. cbn [snd fst]. now rewrite (c14n_attr_plain (snd a) Hx). }
      apply G. intros a Hi. now apply sort_perm. }
    set (here := match ns with Some _ => ns | None => p end).
    assert (E3 : flat_map (canon sort_attrs (fun s => s) (fun s => s) here) l = flat_map (canon sort_attrs c14n_attr c14n_text here) l).
    { clear E1 E2. induction l as [|x l IHl]; [reflexivity|]. inversion IH as [|? ? Hx IH']; subst. cbn [forallb] in Hk. apply andb_prop in Hk as [K1 K2].
      cbn [flat_map]. rewrite (IHl IH' K2). f_equal. exact (Hx here K1). }
    now rewrite E1, E2, E3.
Qed.

(** the converse: one escaped character anywhere in the data makes the verifier's input strictly longer than the signer's *)
Fixpoint data_plain (t : xml) : bool :=
  match t with
  | El _ _ attrs k => forallb (fun a => negb (existsb attr_special (snd a))) attrs &&
                      match k with Text s => negb (existsb text_special s) | Kids l => forallb data_plain l end
  end.
Lemma flat_len_lt {A} (f g : A -> bytes) l x : (forall y, In y l -> length (f y) <= length (g y)) -> In x l -> length (f x) < length (g x) ->
  length (flat_map f l) < length (flat_map g l).
Proof.
  induction l as [|y l IH]; intros H Hx Hlt; [destruct Hx|]. cbn [flat_map]. rewrite !app_length.
  pose proof (H y (or_introl eq_refl)). assert (L : length (flat_map f l) <= length (flat_map g l)) by (apply flat_len_le; intros; apply H; now right).
  destruct Hx as [->|Hx]; [lia|]. assert (length (flat_map f l) < length (flat_map g l)) by (apply IH; [intros; apply H; now right|exact Hx|exact Hlt]). lia.
Qed.
Lemma forallb_false_ex {A} (p : A -> bool) l : forallb p l = false -> exists x, In x l /\ p x = false.
Proof. induction l as [|y l IH]; cbn [forallb]; [discriminate|]. destruct (p y) eqn:E; cbn [andb]; [intro H; destruct (IH H) as (x & Hx & Px); exists x; split; [now right|exact Px]|intros _; exists y; split; [now left|exact E]]. Qed.

Theorem canon_len_lt : forall t p, data_plain t = false -> length (signer_canon sort_attrs p t) < length (exc_c14n sort_attrs p t).
Proof.
  induction t as [n ns attrs s|n ns attrs l IH] using xml_ind'; intros p H; cbn [data_plain] in H; unfold signer_canon, exc_c14n; cbn [canon]; repeat (rewrite ?app_length; cbn [length]).
  - pose proof (c_ns_len_le p ns) as Hn.
    pose proof (flat_len_le (c_attr (fun s => s)) (c_attr c14n_attr) (sort_attrs attrs) (fun a _ => c_attr_len_le a)) as Ha.
    pose proof (c14n_text_len s) as [Ht1 Ht2].
    apply Bool.andb_false_iff in H as [H|H].
    + apply forallb_false_ex in H as (a & Hin & Pa). apply Bool.negb_false_iff in Pa.
      assert (length (flat_map (c_attr (fun s => s)) (sort_attrs attrs)) < length (flat_map (c_attr c14n_attr) (sort_attrs attrs))).
      { apply (flat_len_lt _ _ _ a); [intros; apply c_attr_len_le|now apply sort_perm|].
        unfold c_attr. cbv beta. repeat (rewrite ?app_length; cbn [length]). pose proof (c14n_attr_len (snd a)) as [A1 A2].
        assert (length (c14n_attr (snd a)) <> length (snd a)) by (intro E; apply A2 in E; congruence). unfold bytes in *. lia. }
      lia.
    + apply Bool.negb_false_iff in H. assert (length (c14n_text s) <> length s) by (intro E; apply Ht2 in E; congruence). lia.
  - pose proof (c_ns_len_le p ns) as Hn.
    pose proof (flat_len_le (c_attr (fun s => s)) (c_attr c14n_attr) (sort_attrs attrs) (fun a _ => c_attr_len_le a)) as Ha.
    set (here := match ns with Some _ => ns | None => p end).
    assert (L : length (flat_map (canon sort_attrs (fun s => s) (fun s => s) here) l) <= length (flat_map (canon sort_attrs c14n_attr c14n_text here) l)).
    { apply flat_len_le. intros x Hx. apply (canon_len_le x here). }
    apply Bool.andb_false_iff in H as [H|H].
    + apply forallb_false_ex in H as (a & Hin & Pa). apply Bool.negb_false_iff in Pa.
      assert (length (flat_map (c_attr (fun s => s)) (sort_attrs attrs)) < length (flat_map (c_attr c14n_attr) (sort_attrs attrs))).
      { apply (flat_len_lt _ _ _ a); [intros; apply c_attr_len_le|now apply sort_perm|].
        unfold c_attr. cbv beta. repeat (rewrite ?app_length; cbn [length]). pose proof (c14n_attr_len (snd a)) as [A1 A2].
        assert (length (c14n_attr (snd a)) <> length (snd a)) by (intro E; apply A2 in E; congruence). unfold bytes in *. lia. }
      lia.
    + apply forallb_false_ex in H as (x & Hin & Px). rewrite Forall_forall in IH.
      assert (length (flat_map (canon sort_attrs (fun s => s) (fun s => s) here) l) < length (flat_map (canon sort_attrs c14n_attr c14n_text here) l)).
      { apply (flat_len_lt _ _ _ x); [intros y _; apply (canon_len_le y here)|exact Hin|apply (IH x Hin here Px)]. }
      lia.
Qed.
Corollary canon_differ t p : data_plain t = false -> signer_canon sort_attrs p t <> exc_c14n sort_attrs p t.
Proof. intros H E. pose proof (canon_len_lt t p H). rewrite E in *. lia. Qed.
End Agree.

(** * the attribute order both use for unqualified attributes: byte-wise by name (insertion sort) *)
Fixpoint bleb (x y : bytes) : bool :=
  match x, y with
  | [], _ => true
  | _ :: _, [] => false
  | c :: x', d :: y' => if (N_of_ascii c <? N_of_ascii d)%N then true else if (N_of_ascii d <? N_of_ascii c)%N then false else bleb x' y'
  end.
Fixpoint insert_attr (a : bytes * bytes) (l : list (bytes * bytes)) : list (bytes * bytes) :=
  match l with [] => [a] | x :: r => if bleb (fst a) (fst x) then a :: l else x :: insert_attr a r end.
Fixpoint isort (l : list (bytes * bytes)) : list (bytes * bytes) :=
  match l with [] => [] | a :: r => insert_attr a (isort r) end.
Lemma insert_in a l x : In x (insert_attr a l) <-> x = a \/ In x l.
Proof.
  induction l as [|y l IH]; cbn [insert_attr In]; [intuition congruence|]. destruct (bleb (fst a) (fst y)); cbn [In]; [intuition congruence|].
  rewrite IH. intuition congruence.
Qed.
Lemma isort_perm l a : In a (isort l) <-> In a l.
Proof. induction l as [|y l IH]; cbn [isort In]; [tauto|]. rewrite insert_in, IH. intuition congruence. Qed.
Lemma insert_len a l : length (insert_attr a l) = S (length l).
Proof. induction l as [|y l IH]; cbn [insert_attr length]; [reflexivity|]. destruct (bleb _ _); cbn [length]; [reflexivity|now rewrite IH]. Qed.
Lemma isort_len l : length (isort l) = length l.
Proof. induction l as [|y l IH]; cbn [isort length]; [reflexivity|]. now rewrite insert_len, IH. Qed.

Definition signer_digest_input (t : xml) : bytes := signer_canon isort None t.
Definition verifier_digest_input (t : xml) : bytes := exc_c14n isort None t.
Theorem digest_inputs_agree t : no_special t = true -> signer_digest_input t = verifier_digest_input t.
Proof. intro H. unfold signer_digest_input, verifier_digest_input. apply canon_agree; [exact isort_perm|exact H]. Qed.
Theorem digest_inputs_differ t : data_plain t = false -> signer_digest_input t <> verifier_digest_input t.
Proof. intro H. unfold signer_digest_input, verifier_digest_input. apply canon_differ; [exact isort_perm|exact isort_len|exact H]. Qed.
