(** Arbitrary data (illegal characters, invalid UTF-8 included) cannot restructure a marshalled document:
    marshal t = marshal (san_tree t), where san_tree replaces every illegal rune by U+FFFD and is well formed. *)
From Saml Require Import Base.Bytes Codec.Utf8 Codec.XmlEscape Codec.Sanitize Xml.Tree Xml.Lex.

Definition san_attrs (l : list (bytes * bytes)) : list (bytes * bytes) := map (fun a => (fst a, sanitize (snd a))) l.
Fixpoint san_tree (t : xml) : xml :=
  match t with
  | El n ns attrs k => El n (option_map sanitize ns) (san_attrs attrs)
                         (match k with Text s => Text (sanitize s) | Kids l => Kids (map san_tree l) end)
  end.
(** element names and attribute keys come from struct tags, not from data *)
Fixpoint names_okb (t : xml) : bool :=
  match t with
  | El n _ attrs k => name_okb n && forallb (fun a => name_okb (fst a)) attrs &&
                      match k with Text _ => true | Kids l => forallb names_okb l end
  end.

Lemma m_attr_san a : m_attr (fst a, sanitize (snd a)) = m_attr a.
Proof. unfold m_attr. cbn [fst snd]. now rewrite escape_sanitize. Qed.
Lemma m_attrs_san l : flat_map m_attr (san_attrs l) = flat_map m_attr l.
Proof. unfold san_attrs. induction l as [|a l IH]; [reflexivity|]. cbn [map flat_map]. now rewrite m_attr_san, IH. Qed.
Lemma m_ns_san ns : m_ns (option_map sanitize ns) = m_ns ns.
Proof. destruct ns; cbn [option_map m_ns]; [now rewrite escape_sanitize|reflexivity]. Qed.

Theorem marshal_san : forall t, marshal (san_tree t) = marshal t.
Proof.
  induction t as [n ns attrs s|n ns attrs l IH] using xml_ind'; cbn [san_tree marshal].
  - now rewrite m_ns_san, m_attrs_san, escape_sanitize.
  - rewrite m_ns_san, m_attrs_san.
    assert (E : flat_map marshal (map san_tree l) = flat_map marshal l).
    { induction l as [|x l IHl]; [reflexivity|]. inversion IH as [|? ? Hx IH']; subst. cbn [map flat_map]. now rewrite Hx, IHl. }
    now rewrite E.
Qed.

Theorem san_wf : forall t, names_okb t = true -> wf (san_tree t).
Proof.
  induction t as [n ns attrs s|n ns attrs l IH] using xml_ind'; intro H; cbn [names_okb] in H;
    apply andb_prop in H as [H Hk]; apply andb_prop in H as [Hn Ha]; unfold wf; cbn [san_tree wfb]; rewrite Hn; cbn [andb].
  - assert (A : ns_okb (option_map sanitize ns) = true) by (destruct ns; [apply sanitize_legal|reflexivity]). rewrite A. cbn [andb].
    assert (B : forallb attr_okb (san_attrs attrs) = true).
    { unfold san_attrs. clear -Ha. induction attrs as [|a r IHr]; [reflexivity|]. cbn [forallb map] in *. apply andb_prop in Ha as [H1 H2].
      unfold attr_okb at 1. cbn [fst snd]. now rewrite H1, sanitize_legal, IHr. }
    rewrite B. apply sanitize_legal.
  - assert (A : ns_okb (option_map sanitize ns) = true) by (destruct ns; [apply sanitize_legal|reflexivity]). rewrite A. cbn [andb].
    assert (B : forallb attr_okb (san_attrs attrs) = true).
    { unfold san_attrs. clear -Ha. induction attrs as [|a r IHr]; [reflexivity|]. cbn [forallb map] in *. apply andb_prop in Ha as [H1 H2].
      unfold attr_okb at 1. cbn [fst snd]. now rewrite H1, sanitize_legal, IHr. }
    rewrite B. cbn [andb]. clear A B Ha Hn.
    induction l as [|x l IHl]; [reflexivity|]. inversion IH as [|? ? Hx IH']; subst. cbn [forallb map] in *. apply andb_prop in Hk as [H1 H2].
    rewrite (Hx H1). now apply IHl.
Qed.

Theorem shape_san : forall t, shape (san_tree t) = shape t.
Proof.
  induction t as [n ns attrs s|n ns attrs l IH] using xml_ind'; cbn [san_tree shape].
  - f_equal; [now destruct ns|]. unfold erase_attrs, san_attrs. now rewrite map_map.
  - f_equal; [now destruct ns| |].
    + unfold erase_attrs, san_attrs. now rewrite map_map.
    + f_equal. induction l as [|x l IHl]; [reflexivity|]. inversion IH as [|? ? Hx IH']; subst. cbn [map]. now rewrite Hx, IHl.
Qed.

(** whatever the data, the marshalled bytes lex to the tokens of the sanitised tree, whose structure is that of the shape *)
Theorem data_cannot_restructure : forall t, names_okb t = true ->
  lex (marshal t) = Some (tokens (san_tree t)) /\
  skeleton (tokens (san_tree t)) = skeleton (tokens (shape t)).
Proof.
  intros t H. split.
  - rewrite <- marshal_san. apply lex_marshal, san_wf, H.
  - now rewrite <- (skeleton_tokens_shape (san_tree t)), shape_san.
Qed.
