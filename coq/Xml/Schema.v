(** encoding/xml's Marshal on struct values, driven by the struct tags of the library's XML model types.

    [Xml/Tree.v] models the printer on trees; this file models the step before it, which [Properties/C18.v] used to
    list as not modelled: how a Go struct value becomes a tree ([typeinfo.go]: tag parsing, name defaults, XMLName;
    [marshal.go]: marshalValue, marshalStruct, marshalAttr, omitempty, nil pointers, slices).  The schema is not
    written here: go2v regenerates [Gen/Schema.v] from the Go source on every run, and nothing of the tag semantics
    lives in the translator (it copies field names, type expressions and raw tag strings).

    Supported subset = what the library's types use: string / bool / integer fields and named aliases of them,
    pointers, slices, nested structs, attr / chardata / any / omitempty / innerxml (innerxml only with empty content:
    raw XML is not data the IdP puts into a message).  Anything else (a>b paths, comment, cdata, name-spaced
    attributes, embedded structs, Marshaler implementations -- go2v refuses methods on model types) yields [None]. *)
From Saml Require Import Base.Bytes Xml.Tree Xml.Lex Xml.SanTree Xml.SchemaTypes.
Local Open Scope string_scope.
Local Open Scope list_scope.

(** * struct tags (typeinfo.go: structFieldInfo) *)
Fixpoint cut_sp (s : string) : option (string * string) :=
  match s with
  | EmptyString => None
  | String a r => if Ascii.eqb a " " then Some (EmptyString, r)
                  else match cut_sp r with Some (x, y) => Some (String a x, y) | None => None end
  end.
Fixpoint split_on (c : ascii) (s : string) : list string :=
  match s with
  | EmptyString => [EmptyString]
  | String a r => match split_on c r with
                  | h :: t => if Ascii.eqb a c then EmptyString :: h :: t else String a h :: t
                  | [] => []
                  end
  end.
Fixpoint has_char (c : ascii) (s : string) : bool :=
  match s with EmptyString => false | String a r => Ascii.eqb a c || has_char c r end.

Inductive fmode := MElem | MAttr | MCharData | MInner | MAny.
Record finfo := { fi_ns : string; fi_name : string; fi_mode : fmode; fi_omit : bool }.

Definition sin (x : string) (l : list string) : bool := existsb (String.eqb x) l.

(** name space, name, mode, omitempty of a tag; [None]: encoding/xml rejects the tag, or it is outside the subset *)
Definition parse_tag (is_xmlname : bool) (tag : string) : option (string * string * fmode * bool) :=
  let '(ns, t) := match cut_sp tag with Some p => p | None => (EmptyString, tag) end in
  match split_on "," t with
  | [] => None
  | [nm] => if has_char ">" nm then None else if String.eqb ns "" || negb (String.eqb nm "") then Some (ns, nm, MElem, false) else None
  | nm :: flags =>
      let omit := sin "omitempty" flags in
      let modes := (if sin "attr" flags then [MAttr] else []) ++ (if sin "chardata" flags then [MCharData] else []) ++
                   (if sin "innerxml" flags then [MInner] else []) ++ (if sin "any" flags then [MAny] else []) in
      if sin "cdata" flags || sin "comment" flags || has_char ">" nm then None else
      match modes with
      | [] => if String.eqb ns "" || negb (String.eqb nm "") then Some (ns, nm, MElem, omit) else None
      | [m] =>
          let named_ok := match m with MAttr => true | _ => String.eqb nm "" end in
          let omit_ok := match m with MAttr | MAny => true | _ => negb omit end in
          if negb is_xmlname && named_ok && omit_ok && (String.eqb ns "" || negb (String.eqb nm "")) then Some (ns, nm, m, omit) else None
      | _ => None
      end
  end.

(** * types *)
Fixpoint lookup (sch : schema) (n : string) : option sdef :=
  match sch with [] => None | (k, d) :: r => if String.eqb k n then Some d else lookup r n end.

Definition tag_of (f : gfield) : string := match g_tag f with Some t => t | None => EmptyString end.
Definition is_xmlname_field (f : gfield) : bool := String.eqb (g_name f) "XMLName".

(** typeinfo.go lookupXMLName: the XMLName tag of the struct behind [t], when it names an element *)
Fixpoint deref (t : ftype) : ftype := match t with TPtr t' => deref t' | _ => t end.
Definition xmlname_tag (fs : list gfield) : option (string * string) :=
  match find is_xmlname_field fs with
  | Some f => match parse_tag true (tag_of f) with Some (ns, nm, _, _) => Some (ns, nm) | None => None end
  | None => None
  end.
Definition lookup_xmlname (sch : schema) (t : ftype) : option (string * string) :=
  match deref t with
  | TNamed n => match lookup sch n with
                | Some (SStruct fs) => match xmlname_tag fs with Some (ns, nm) => if String.eqb nm "" then None else Some (ns, nm) | None => None end
                | _ => None
                end
  | _ => None
  end.

(** [Some None]: the field is not marshalled (tag "-"); [None]: invalid *)
Definition field_info (sch : schema) (f : gfield) : option (option finfo) :=
  if String.eqb (tag_of f) "-" then Some None else
  match parse_tag false (tag_of f) with
  | None => None
  | Some (ns, nm, m, omit) =>
      if String.eqb nm "" then
        match lookup_xmlname sch (g_type f) with
        | Some (xns, xn) => Some (Some {| fi_ns := xns; fi_name := xn; fi_mode := m; fi_omit := omit |})
        | None => Some (Some {| fi_ns := ns; fi_name := g_name f; fi_mode := m; fi_omit := omit |})
        end
      else
        let conflict := match m, lookup_xmlname sch (g_type f) with
                        | (MElem | MAny), Some (_, xn) => negb (String.eqb xn nm)
                        | _, _ => false end in
        if conflict then None else Some (Some {| fi_ns := ns; fi_name := nm; fi_mode := m; fi_omit := omit |})
  end.

(** * values *)
Inductive gval :=
| VStr (s : bytes)                    (* string, or a named string type *)
| VScalar (text : bytes) (zero : bool) (* bool / integer: strconv's text, and whether it is the zero value *)
| VName (space local : bytes)          (* xml.Name *)
| VNil                                 (* nil pointer *)
| VPtr (v : gval)
| VList (l : list gval)                (* slice (nil = empty) *)
| VStruct (fs : list gval).            (* exported fields in declaration order *)

(** marshal.go isEmptyValue *)
Definition is_empty_val (v : gval) : bool :=
  match v with
  | VStr s => is_empty s
  | VScalar _ z => z
  | VNil => true
  | VList l => match l with [] => true | _ => false end
  | VPtr _ | VStruct _ | VName _ _ => false
  end.

Definition ns_opt (ns : string) : option bytes := if String.eqb ns "" then None else Some (b ns).
Definition omit_of (fi : option finfo) : bool := match fi with Some f => fi_omit f | None => false end.

Fixpoint short_name (s : string) : string :=
  match s with
  | EmptyString => EmptyString
  | String a r => if has_char "." r then short_name r else if Ascii.eqb a "." then r else s
  end.

(** marshalAttr on one attribute value: nil pointers are skipped, slices repeat the attribute *)
Fixpoint attr_vals (fuel : nat) (v : gval) : option (list bytes) :=
  match fuel with 0 => None | S k =>
  match v with
  | VStr s => Some [s]
  | VScalar s _ => Some [s]
  | VNil => Some []
  | VPtr v' => attr_vals k v'
  | VList l => (fix go (l : list gval) : option (list bytes) :=
                  match l with
                  | [] => Some []
                  | x :: r => match attr_vals k x, go r with Some a, Some c => Some (a ++ c) | _, _ => None end
                  end) l
  | VName _ _ | VStruct _ => None
  end end.

Section Struct.
  Variable sch : schema.
  (** marshalValue for a field value: check-omitempty flag, type, field info, does the parent have a name space *)
  Variable rec : bool -> ftype -> option finfo -> bool -> gval -> option (list xml).

  (** attributes and content of a struct, field by field (marshalValue's attribute loop, marshalStruct) *)
  Fixpoint fields_out (fs : list gfield) (vs : list gval) (child_pns : bool)
    : option (list (bytes * bytes) * bool * bytes * list xml) :=   (* attrs, has chardata field, text, kids *)
    match fs, vs with
    | [], [] => Some ([], false, [], [])
    | f :: fr, v :: vr =>
        match fields_out fr vr child_pns with
        | None => None
        | Some (attrs, hascd, text, kids) =>
            if is_xmlname_field f then Some (attrs, hascd, text, kids) else
            match field_info sch f with
            | None => None
            | Some None => Some (attrs, hascd, text, kids)
            | Some (Some fi) =>
                match fi_mode fi with
                | MAttr =>
                    if negb (String.eqb (fi_ns fi) "") then None else
                    if fi_omit fi && is_empty_val v then Some (attrs, hascd, text, kids) else
                    match attr_vals 8 v with
                    | Some xs => Some (map (fun x => (b (fi_name fi), x)) xs ++ attrs, hascd, text, kids)
                    | None => None
                    end
                | MCharData => match v with VStr s => Some (attrs, true, match text with [] => s | _ => s ++ text end, kids) | _ => None end
                | MInner => match v with VStr [] => Some (attrs, hascd, text, kids) | _ => None end
                | MElem | MAny =>
                    match rec true (g_type f) (Some fi) child_pns v with
                    | Some ts => Some (attrs, hascd, text, ts ++ kids)
                    | None => None
                    end
                end
            end
        end
    | _, _ => None
    end.

  Definition xmlname_value (fs : list gfield) (vs : list gval) : option (bytes * bytes) :=
    (fix go (fs : list gfield) (vs : list gval) : option (bytes * bytes) :=
       match fs, vs with
       | f :: fr, v :: vr => if is_xmlname_field f then match v with VName sp lc => Some (sp, lc) | _ => None end else go fr vr
       | _, _ => None
       end) fs vs.

  (** marshalValue on a struct: the start element's name, attributes, the xmlns="" rule, content *)
  Definition mstruct (tyname : string) (fs : list gfield) (fi : option finfo) (pns : bool) (vs : list gval) : option (list xml) :=
    let has_xn := existsb is_xmlname_field fs in
    match (if has_xn then match xmlname_tag fs, xmlname_value fs vs with
                          | Some (xns, xn), Some (sp, lc) => Some (xns, xn, sp, lc)
                          | _, _ => None end
           else Some (EmptyString, EmptyString, [], [])) with
    | None => None
    | Some (xns, xn, sp, lc) =>
        (* 1. XMLName tag, else XMLName value; 2. the field's name; 3. the type's name *)
        let '(ns1, n1) := if negb (String.eqb xn "") then (b xns, b xn) else if negb (is_empty lc) then (sp, lc) else ([], []) in
        let '(ns2, n2) := if is_empty n1 then match fi with Some f => (b (fi_ns f), b (fi_name f)) | None => ([], []) end else (ns1, n1) in
        let '(ns3, n3) := if is_empty n2 then ([], b (short_name tyname)) else (ns2, n2) in
        match fields_out fs vs (negb (is_empty ns3)) with
        | None => None
        | Some (attrs, hascd, text, kids) =>
            let attrs' := if has_xn && is_empty ns3 && String.eqb xns "" && String.eqb xn "" && pns
                          then attrs ++ [(b "xmlns", [])] else attrs in
            let nso := if is_empty ns3 then None else Some ns3 in
            match kids, (hascd || negb (is_empty text)) with
            | [], true => Some [El n3 nso attrs' (Text text)]
            | _, false => Some [El n3 nso attrs' (Kids kids)]
            | _ :: _, true => None      (* mixed content: outside Xml.Tree *)
            end
        end
    end.
End Struct.

Definition simple_el (fi : option finfo) (s : bytes) : option (list xml) :=
  match fi with
  | Some f => Some [El (b (fi_name f)) (ns_opt (fi_ns f)) [] (Text s)]
  | None => None
  end.

(** marshal.go marshalValue *)
Fixpoint mv (fuel : nat) (sch : schema) (check : bool) (t : ftype) (fi : option finfo) (pns : bool) (v : gval) {struct fuel}
  : option (list xml) :=
  match fuel with 0 => None | S k =>
  if check && omit_of fi && is_empty_val v then Some [] else
  match t, v with
  | TPtr _, VNil => Some []
  | TPtr t', VPtr v' => mv k sch false t' fi pns v'
  | TSlice t', VList l =>
      (fix go (l : list gval) : option (list xml) :=
         match l with
         | [] => Some []
         | x :: r => match mv k sch true t' fi pns x, go r with Some a, Some c => Some (a ++ c) | _, _ => None end
         end) l
  | TNamed n, _ =>
      match lookup sch n with
      | Some (SAlias t') => match t' with TNamed _ => None | _ => mv k sch false t' fi pns v end
      | Some (SStruct fs) => match v with VStruct vs => mstruct sch (mv k sch) n fs fi pns vs | _ => None end
      | None => None
      end
  | TStr, VStr s => simple_el fi s
  | TBool, VScalar s _ => simple_el fi s
  | TInt, VScalar s _ => simple_el fi s
  | TUint, VScalar s _ => simple_el fi s
  | _, _ => None
  end end.

Definition fuel0 : nat := 64.
(** Encoder.Encode(v) for a value of the named struct type (or a pointer to one) *)
Definition marshal_root_f (fuel : nat) (sch : schema) (tyname : string) (v : gval) : option xml :=
  match mv fuel sch true (TNamed tyname) None false (match v with VPtr v' => v' | _ => v end) with
  | Some [t] => Some t
  | _ => None
  end.
Definition marshal_root (sch : schema) (tyname : string) (v : gval) : option xml := marshal_root_f fuel0 sch tyname v.
Definition marshal_struct_doc (sch : schema) (tyname : string) (v : gval) : option bytes :=
  option_map marshal_doc (marshal_root sch tyname v).
Definition marshal_struct (sch : schema) (tyname : string) (v : gval) : option bytes :=
  option_map marshal (marshal_root sch tyname v).

(** * Element and attribute names come from the schema, never from data *)
Definition str_name_ok (s : string) : bool := name_okb (b s).
Definition struct_names_ok (sch : schema) (n : string) (fs : list gfield) : bool :=
  str_name_ok (short_name n) &&
  match xmlname_tag fs with Some (_, xn) => String.eqb xn "" || str_name_ok xn | None => true end &&
  forallb (fun f => match field_info sch f with Some (Some fi) => str_name_ok (fi_name fi) | _ => true end) fs.
Definition schema_names_ok (sch : schema) : bool :=
  forallb (fun d => match snd d with SStruct fs => struct_names_ok sch (fst d) fs | SAlias _ => true end) sch.

Fixpoint vnames_ok (v : gval) : bool :=
  match v with
  | VName _ lc => is_empty lc || name_okb lc
  | VPtr v' => vnames_ok v'
  | VList l => forallb vnames_ok l
  | VStruct l => forallb vnames_ok l
  | VStr _ | VScalar _ _ | VNil => true
  end.

Definition fi_ok (fi : option finfo) : Prop := match fi with Some f => str_name_ok (fi_name f) = true | None => True end.
Definition all_ok (ts : list xml) : Prop := forallb names_okb ts = true.

Lemma all_ok_app a c : all_ok a -> all_ok c -> all_ok (a ++ c).
Proof. unfold all_ok. intros. rewrite forallb_app. now rewrite H, H0. Qed.

Lemma lookup_in sch n d : lookup sch n = Some d -> In (n, d) sch.
Proof.
  induction sch as [|[k e] r IH]; cbn [lookup]; [discriminate|].
  destruct (String.eqb k n) eqn:E; [|intro H; right; auto].
  intros [= ->]. apply String.eqb_eq in E. subst. now left.
Qed.

Section Names.
  Variable sch : schema.
  Hypothesis Hsch : schema_names_ok sch = true.
  Variable rec : bool -> ftype -> option finfo -> bool -> gval -> option (list xml).
  Hypothesis Hrec : forall c t fi pns v ts, fi_ok fi -> vnames_ok v = true -> rec c t fi pns v = Some ts -> all_ok ts.

  Lemma fields_out_ok fs : forall vs cp attrs hascd text kids,
    forallb (fun f => match field_info sch f with Some (Some fi) => str_name_ok (fi_name fi) | _ => true end) fs = true ->
    forallb vnames_ok vs = true ->
    fields_out sch rec fs vs cp = Some (attrs, hascd, text, kids) ->
    forallb (fun a => name_okb (fst a)) attrs = true /\ all_ok kids.
  Proof.
    induction fs as [|f fr IH]; intros vs cp attrs hascd text kids Hf Hv H.
    - destruct vs; [|discriminate]. inversion H; subst. split; reflexivity.
    - destruct vs as [|v vr]; [discriminate|]. cbn [fields_out] in H. cbn [forallb] in Hf, Hv.
      apply andb_prop in Hf as [Hf1 Hf2]. apply andb_prop in Hv as [Hv1 Hv2].
      destruct (fields_out sch rec fr vr cp) as [[[[a0 h0] t0] k0]|] eqn:E; [|discriminate].
      destruct (IH _ _ _ _ _ _ Hf2 Hv2 E) as [A0 K0].
      destruct (is_xmlname_field f); [inversion H; subst; auto|].
      destruct (field_info sch f) as [[fi|]|]; [| inversion H; subst; auto | discriminate].
      destruct (fi_mode fi).
      + destruct (rec true (g_type f) (Some fi) cp v) as [ts|] eqn:R; [|discriminate]. inversion H; subst.
        split; [exact A0|]. apply all_ok_app; [|exact K0]. exact (Hrec true (g_type f) (Some fi) cp v ts Hf1 Hv1 R).
      + destruct (negb (String.eqb (fi_ns fi) "")); [discriminate|].
        destruct (fi_omit fi && is_empty_val v); [inversion H; subst; auto|].
        destruct (attr_vals 8 v) as [xs|]; [|discriminate]. inversion H; subst. split; [|exact K0].
        rewrite forallb_app, A0, andb_true_r. clear -Hf1. unfold str_name_ok in Hf1. induction xs as [|x xs IHx]; [reflexivity|]. cbn [map forallb fst]. now rewrite Hf1, IHx.
      + destruct v; try discriminate. inversion H; subst. auto.
      + destruct v as [s| | | | | |]; try discriminate. destruct s; [|discriminate]. inversion H; subst. auto.
      + destruct (rec true (g_type f) (Some fi) cp v) as [ts|] eqn:R; [|discriminate]. inversion H; subst.
        split; [exact A0|]. apply all_ok_app; [|exact K0]. exact (Hrec true (g_type f) (Some fi) cp v ts Hf1 Hv1 R).
  Qed.

  Lemma xmlname_value_ok fs : forall vs sp lc, forallb vnames_ok vs = true -> xmlname_value fs vs = Some (sp, lc) -> is_empty lc || name_okb lc = true.
  Proof.
    induction fs as [|f fr IH]; intros vs sp lc Hv H; [discriminate|]. destruct vs as [|v vr]; [discriminate|].
    cbn [forallb] in Hv. apply andb_prop in Hv as [Hv1 Hv2]. cbn in H.
    destruct (is_xmlname_field f).
    - destruct v; try discriminate. inversion H; subst. exact Hv1.
    - exact (IH _ _ _ Hv2 H).
  Qed.

  Lemma mstruct_ok n fs fi pns vs ts :
    struct_names_ok sch n fs = true -> fi_ok fi -> forallb vnames_ok vs = true ->
    mstruct sch rec n fs fi pns vs = Some ts -> all_ok ts.
  Proof.
    unfold struct_names_ok, mstruct. intros Hs Hfi Hv H.
    apply andb_prop in Hs as [Hs Hfs]. apply andb_prop in Hs as [Hty Hxn].
    set (hx := existsb is_xmlname_field fs) in *.
    destruct (if hx then match xmlname_tag fs, xmlname_value fs vs with Some (xns, xn), Some (sp, lc) => Some (xns, xn, sp, lc) | _, _ => None end
              else Some (EmptyString, EmptyString, [], [])) as [[[[xns xn] sp] lc]|] eqn:EX; [|discriminate].
    assert (Hxn' : String.eqb xn "" || str_name_ok xn = true).
    { destruct hx; [|inversion EX; subst; reflexivity].
      destruct (xmlname_tag fs) as [[a c]|]; [|discriminate]. destruct (xmlname_value fs vs) as [[p q]|]; [|discriminate].
      inversion EX; subst. exact Hxn. }
    assert (Hlc : is_empty lc || name_okb lc = true).
    { destruct hx; [|inversion EX; subst; reflexivity].
      destruct (xmlname_tag fs) as [[a c]|]; [|discriminate]. destruct (xmlname_value fs vs) as [[p q]|] eqn:EV; [|discriminate].
      inversion EX; subst. eapply xmlname_value_ok; eauto. }
    destruct (if negb (String.eqb xn "") then (b xns, b xn) else if negb (is_empty lc) then (sp, lc) else ([], [])) as [ns1 n1] eqn:E1.
    assert (H1 : is_empty n1 || name_okb n1 = true).
    { destruct (String.eqb xn "") eqn:Ex; cbn [negb] in E1.
      - destruct (is_empty lc) eqn:El; cbn [negb] in E1; inversion E1; subst; [reflexivity|rewrite El; exact Hlc].
      - inversion E1; subst. cbn [orb] in Hxn'. unfold str_name_ok in Hxn'. now rewrite Hxn', orb_true_r. }
    destruct (if is_empty n1 then match fi with Some f => (b (fi_ns f), b (fi_name f)) | None => ([], []) end else (ns1, n1)) as [ns2 n2] eqn:E2.
    assert (H2 : is_empty n2 || name_okb n2 = true).
    { destruct (is_empty n1) eqn:En.
      - destruct fi as [f|]; inversion E2; subst; [|reflexivity]. cbn in Hfi. unfold str_name_ok in Hfi. now rewrite Hfi, orb_true_r.
      - inversion E2; subst. rewrite En. exact H1. }
    destruct (if is_empty n2 then ([], b (short_name n)) else (ns2, n2)) as [ns3 n3] eqn:E3.
    assert (H3 : name_okb n3 = true).
    { destruct (is_empty n2) eqn:En; inversion E3; subst; [exact Hty|exact H2]. }
    destruct (fields_out sch rec fs vs (negb (is_empty ns3))) as [[[[attrs hascd] text] kids]|] eqn:EF; [|discriminate].
    destruct (fields_out_ok _ _ _ _ _ _ _ Hfs Hv EF) as [HA HK].
    set (attrs' := if hx && is_empty ns3 && String.eqb xns "" && String.eqb xn "" && pns then attrs ++ [(b "xmlns", [])] else attrs) in *.
    assert (HA' : forallb (fun a => name_okb (fst a)) attrs' = true).
    { unfold attrs'. destruct (hx && is_empty ns3 && String.eqb xns "" && String.eqb xn "" && pns); [|exact HA].
      rewrite forallb_app, HA. reflexivity. }
    unfold all_ok.
    destruct kids as [|k0 kr]; destruct (hascd || negb (is_empty text)); inversion H; subst; cbn [forallb names_okb]; rewrite H3, HA'; cbn [andb]; try reflexivity.
    - rewrite andb_true_r. exact HK.
  Qed.
End Names.

Theorem mv_names_ok sch : schema_names_ok sch = true ->
  forall fuel check t fi pns v ts, fi_ok fi -> vnames_ok v = true -> mv fuel sch check t fi pns v = Some ts -> all_ok ts.
Proof.
  intro Hsch. induction fuel as [|k IH]; intros check t fi pns v ts Hfi Hv H; [discriminate|].
  cbn [mv] in H. destruct (check && omit_of fi && is_empty_val v); [inversion H; reflexivity|].
  destruct t as [| | | | |n|t'|t'].
  - destruct v; try discriminate. destruct fi as [f|]; [|discriminate]. inversion H; subst. unfold all_ok. cbn. cbn in Hfi. unfold str_name_ok in Hfi. now rewrite Hfi.
  - destruct v; try discriminate. destruct fi as [f|]; [|discriminate]. inversion H; subst. unfold all_ok. cbn. cbn in Hfi. unfold str_name_ok in Hfi. now rewrite Hfi.
  - destruct v; try discriminate. destruct fi as [f|]; [|discriminate]. inversion H; subst. unfold all_ok. cbn. cbn in Hfi. unfold str_name_ok in Hfi. now rewrite Hfi.
  - destruct v; try discriminate. destruct fi as [f|]; [|discriminate]. inversion H; subst. unfold all_ok. cbn. cbn in Hfi. unfold str_name_ok in Hfi. now rewrite Hfi.
  - destruct v; discriminate.
  - destruct (lookup sch n) as [[fs|t']|] eqn:EL; [| |discriminate].
    + destruct v as [| | | | | |vs]; try discriminate.
      eapply (mstruct_ok sch (mv k sch)); [| |exact Hfi|exact Hv|exact H].
      * intros c t0 fi0 pns0 v0 ts0 A B C. exact (IH _ _ _ _ _ _ A B C).
      * apply lookup_in in EL. unfold schema_names_ok in Hsch. rewrite forallb_forall in Hsch. exact (Hsch _ EL).
    + destruct t'; try discriminate; exact (IH _ _ _ _ _ _ Hfi Hv H).
  - destruct v; try discriminate; [inversion H; reflexivity|]. cbn [vnames_ok] in Hv. exact (IH _ _ _ _ _ _ Hfi Hv H).
  - destruct v as [| | | | |l|]; try discriminate. cbn [vnames_ok] in Hv.
    revert ts H. induction l as [|x r IHl]; intros ts H; [inversion H; reflexivity|].
    cbn [forallb] in Hv. apply andb_prop in Hv as [Hx Hr].
    destruct (mv k sch true t' fi pns x) as [a|] eqn:EA; [|discriminate].
    match type of H with match ?g with _ => _ end = _ => destruct g as [c|] eqn:EC; [|discriminate] end.
    inversion H; subst. apply all_ok_app; [exact (IH _ _ _ _ _ _ Hfi Hx EA)|exact (IHl Hr _ eq_refl)].
Qed.

(** whatever the data in a value of a model type, the document Marshal prints for it lexes to the tokens of the
    sanitised tree, and its element structure is that of the shape of the tree *)
Lemma root_f_names_ok fuel sch ty v t :
  schema_names_ok sch = true -> vnames_ok v = true -> marshal_root_f fuel sch ty v = Some t -> names_okb t = true.
Proof.
  intros Hs Hv H. unfold marshal_root_f in H.
  destruct (mv fuel sch true (TNamed ty) None false match v with VPtr v' => v' | _ => v end) as [ts|] eqn:E; [|discriminate].
  destruct ts as [|t0 [|]]; try discriminate. inversion H; subst.
  assert (A : all_ok [t]).
  { refine (mv_names_ok sch Hs fuel true (TNamed ty) None false (match v with VPtr v' => v' | _ => v end) [t] I _ E). destruct v; exact Hv. }
  unfold all_ok in A. cbn [forallb] in A. now rewrite andb_true_r in A.
Qed.

Theorem struct_data_cannot_restructure fuel sch ty v t :
  schema_names_ok sch = true -> vnames_ok v = true -> marshal_root_f fuel sch ty v = Some t ->
  lex (marshal t) = Some (tokens (san_tree t)) /\ skeleton (tokens (san_tree t)) = skeleton (tokens (shape t)).
Proof. intros Hs Hv H. apply data_cannot_restructure. exact (root_f_names_ok _ _ _ _ _ Hs Hv H). Qed.

(** * facts about a schema that other properties rely on *)
(** the fields written as raw XML *)
Definition raw_xml_fields (sch : schema) : list (string * string) :=
  flat_map (fun d => match snd d with
                     | SStruct fs => flat_map (fun f => match field_info sch f with
                                                        | Some (Some fi) => match fi_mode fi with MInner => [(fst d, g_name f)] | _ => [] end
                                                        | _ => [] end) fs
                     | SAlias _ => [] end) sch.
(** every tag is one encoding/xml accepts and this model covers *)
Definition schema_tags_ok (sch : schema) : bool :=
  forallb (fun d => match snd d with
                    | SStruct fs => forallb (fun f => if is_xmlname_field f then match parse_tag true (tag_of f) with Some _ => true | None => false end
                                                      else match field_info sch f with Some _ => true | None => false end) fs
                    | SAlias t => match t with TNamed _ => false | _ => true end end) sch.
(** the named field of the named struct is an XML attribute with the given name *)
Definition is_attr_field (sch : schema) (ty field xmlname : string) : bool :=
  match lookup sch ty with
  | Some (SStruct fs) => match find (fun f => String.eqb (g_name f) field) fs with
                         | Some f => match field_info sch f with
                                     | Some (Some fi) => match fi_mode fi with MAttr => String.eqb (fi_name fi) xmlname && String.eqb (fi_ns fi) "" | _ => false end
                                     | _ => false end
                         | None => false end
  | _ => false
  end.
Definition is_elem_field (sch : schema) (ty field xmlns xmlname : string) : bool :=
  match lookup sch ty with
  | Some (SStruct fs) => match find (fun f => String.eqb (g_name f) field) fs with
                         | Some f => match field_info sch f with
                                     | Some (Some fi) => match fi_mode fi with MElem => String.eqb (fi_name fi) xmlname && String.eqb (fi_ns fi) xmlns | _ => false end
                                     | _ => false end
                         | None => false end
  | _ => false
  end.
