(** Marshal then Unmarshal, at the level of struct values: the documents the IdP builds decode back -- through the models of
    both directions over the generated schema -- to the field values that were put in.

    [resolve] is the name-space resolution Go's tokenizer performs on the printer's language (default name spaces only:
    an element is in the name space of its own xmlns attribute or else of the nearest enclosing one; attributes are
    unqualified; the xmlns pseudo-attribute itself is reported as an attribute named xmlns). *)
From Saml Require Import Base.Bytes Xml.Tree Xml.SchemaTypes Xml.Schema Idp.BuilderTypes Idp.Builder Xml.Unmarshal.

Fixpoint resolve (inherited : bytes) (t : xml) : rnode :=
  match t with
  | El n ns attrs k =>
      let own := match ns with Some u => u | None => match find (fun a => beq (fst a) (b "xmlns")) attrs with Some a => snd a | None => inherited end end in
      RElem own n (map (fun a => ([], fst a, snd a)) (all_attrs ns attrs))
        (match k with
         | Text s => if is_empty s then [] else [RText s]
         | Kids l => map (resolve own) l
         end)
  end.

(** what Unmarshal adds to a value on the way back: the element names in the XMLName fields; everything else must be equal.
    [same_modulo_names] compares two generic values ignoring xml.Name fields *)
Fixpoint same_modulo_names (x y : gval) : bool :=
  match x, y with
  | VName _ _, VName _ _ => true
  | VStr a, VStr c => beq a c
  | VScalar a z, VScalar c w => beq a c && Bool.eqb z w
  | VNil, VNil => true
  | VPtr a, VPtr c => same_modulo_names a c
  | VList l, VList m | VStruct l, VStruct m =>
      (fix go (l m : list gval) : bool := match l, m with [] , [] => true | a :: r, c :: s => same_modulo_names a c && go r s | _, _ => false end) l m
  | _, _ => false
  end.

Definition roundtrips (sch : schema) (ty : string) (g : gval) : bool :=
  match marshal_root sch ty g with
  | Some t => match unmarshal_root sch ty (resolve [] t) with Some g' => same_modulo_names g g' | None => false end
  | None => false
  end.

(** the same as a proposition (equality of the strings, not a boolean test: usable with symbolic strings) *)
Fixpoint sameP (x y : gval) : Prop :=
  match x, y with
  | VName _ _, VName _ _ => True
  | VStr a, VStr c => a = c
  | VScalar a z, VScalar c w => a = c /\ z = w
  | VNil, VNil => True
  | VPtr a, VPtr c => sameP a c
  | VList l, VList m | VStruct l, VStruct m =>
      (fix go (l m : list gval) : Prop := match l, m with [], [] => True | a :: r, c :: s => sameP a c /\ go r s | _, _ => False end) l m
  | _, _ => False
  end.
Definition roundtripsP (sch : schema) (ty : string) (g : gval) : Prop :=
  match marshal_root sch ty g with
  | Some t => match unmarshal_root sch ty (resolve [] t) with Some g' => sameP g g' | None => False end
  | None => False
  end.
