(** A lexer for the XML that [Xml.Tree.marshal] prints, and the inversion theorem
    [lex (marshal t) = Some (tokens t)].

    The lexer is a state machine that reads one byte at a time ([step]), folded over the input
    ([run]); there is no fuel.  Accumulators are kept reversed.  References in character data and
    in attribute values are decoded by [Codec.XmlEscape.resolve xml_char_ok], i.e. by the very
    decoder of [xml_unescape] / [unesc]: the five predefined entities and decimal / hexadecimal
    character references that denote an XML Char ([run_unesc_text] and [run_unesc_val] state that
    the two machines agree).  The eight references escapeText writes are among them.

    The sub-language: start tags with double-quoted attributes separated by exactly one space, end
    tags, character data.  Everything else ('<?', '<!', single quotes, '/>' ...) makes the lexer
    fail; a '<' inside an attribute value or inside a reference makes it fail as well (as in Go's
    strict decoder).  The lexer does not match end tags with start tags: that is the reader's job;
    the token list is flat. *)
From Saml Require Import Base.Bytes Codec.Utf8 Codec.XmlEscape Xml.Tree.
Open Scope char_scope.
Open Scope nat_scope.

(** * Tokens *)

Inductive tok :=
| TOpen (n : bytes) (attrs : list (bytes * bytes))
| TText (s : bytes)
| TClose (n : bytes).

Definition text_tok (s : bytes) : list tok := match s with [] => [] | _ :: _ => [TText s] end.

(** the tokens of a tree: values and texts as they are in the tree (not escaped); the name space
    declaration is the first attribute *)
Fixpoint tokens (t : xml) : list tok :=
  match t with
  | El n ns attrs k =>
      TOpen n (all_attrs ns attrs) ::
      match k with
      | Text s => text_tok s
      | Kids l => flat_map tokens l
      end ++ [TClose n]
  end.

Definition t_content (k : content) : list tok :=
  match k with Text s => text_tok s | Kids l => flat_map tokens l end.

Lemma tokens_El n ns attrs k :
  tokens (El n ns attrs k) = TOpen n (all_attrs ns attrs) :: t_content k ++ [TClose n].
Proof. destruct k; reflexivity. Qed.

(** * The lexer *)

Definition name_char (c : ascii) : bool :=
  negb (Ascii.eqb c " " || Ascii.eqb c ">" || Ascii.eqb c "=" || Ascii.eqb c "/" ||
        Ascii.eqb c "<" || Ascii.eqb c """").

Inductive st :=
| SText (acc : bytes)                                    (* in character data *)
| STextEnt (acc ent : bytes)                             (* ... after '&' *)
| SLt                                                    (* after '<' *)
| SOpenName (n : bytes)                                  (* in the name of a start tag *)
| SAttrs (n : bytes) (at_ : list (bytes * bytes))        (* after the closing quote of a value *)
| SAttrName (n : bytes) (at_ : list (bytes * bytes)) (an : bytes)
| SAttrEq (n : bytes) (at_ : list (bytes * bytes)) (an : bytes)      (* after '=' *)
| SAttrVal (n : bytes) (at_ : list (bytes * bytes)) (an acc : bytes) (* inside the quotes *)
| SAttrValEnt (n : bytes) (at_ : list (bytes * bytes)) (an acc ent : bytes)
| SCloseName (n : bytes)                                 (* after '</' *)
| SFail.

Definition flush (acc : bytes) (out : list tok) : list tok :=
  match acc with [] => out | _ :: _ => TText (rev acc) :: out end.

(** [n], [at_], [an] once complete are in reading order; [acc], [ent], and [n] / [an] while being
    read are reversed; [out] is reversed *)
Definition step (so : st * list tok) (c : ascii) : st * list tok :=
  let '(s, out) := so in
  match s with
  | SText acc =>
      if Ascii.eqb c "&" then (STextEnt acc [], out)
      else if Ascii.eqb c "<" then (SLt, flush acc out)
      else (SText (c :: acc), out)
  | STextEnt acc e =>
      if Ascii.eqb c ";" then
        match resolve xml_char_ok (rev e) with
        | Some d => (SText (rev d ++ acc), out)
        | None => (SFail, out)
        end
      else (STextEnt acc (c :: e), out)
  | SLt =>
      if Ascii.eqb c "/" then (SCloseName [], out)
      else if name_char c then (SOpenName [c], out)
      else (SFail, out)
  | SOpenName n =>
      if Ascii.eqb c " " then (SAttrName (rev n) [] [], out)
      else if Ascii.eqb c ">" then (SText [], TOpen (rev n) [] :: out)
      else if name_char c then (SOpenName (c :: n), out)
      else (SFail, out)
  | SAttrs n at_ =>
      if Ascii.eqb c " " then (SAttrName n at_ [], out)
      else if Ascii.eqb c ">" then (SText [], TOpen n (rev at_) :: out)
      else (SFail, out)
  | SAttrName n at_ an =>
      if Ascii.eqb c "=" then
        match an with
        | [] => (SFail, out)
        | _ :: _ => (SAttrEq n at_ (rev an), out)
        end
      else if name_char c then (SAttrName n at_ (c :: an), out)
      else (SFail, out)
  | SAttrEq n at_ an =>
      if Ascii.eqb c """" then (SAttrVal n at_ an [], out) else (SFail, out)
  | SAttrVal n at_ an acc =>
      if Ascii.eqb c """" then (SAttrs n ((an, rev acc) :: at_), out)
      else if Ascii.eqb c "&" then (SAttrValEnt n at_ an acc [], out)
      else if Ascii.eqb c "<" then (SFail, out)
      else (SAttrVal n at_ an (c :: acc), out)
  | SAttrValEnt n at_ an acc e =>
      if Ascii.eqb c ";" then
        match resolve xml_char_ok (rev e) with
        | Some d => (SAttrVal n at_ an (rev d ++ acc), out)
        | None => (SFail, out)
        end
      else (SAttrValEnt n at_ an acc (c :: e), out)
  | SCloseName n =>
      if Ascii.eqb c ">" then
        match n with
        | [] => (SFail, out)
        | _ :: _ => (SText [], TClose (rev n) :: out)
        end
      else if name_char c then (SCloseName (c :: n), out)
      else (SFail, out)
  | SFail => (SFail, out)
  end.

Definition run (so : st * list tok) (s : bytes) : st * list tok := fold_left step s so.

Definition st0 : st := SText [].

Definition lex (s : bytes) : option (list tok) :=
  match run (st0, []) s with
  | (SText [], out) => Some (rev out)
  | _ => None
  end.

(** documents start with the fixed header *)
Definition lex_doc (s : bytes) : option (list tok) :=
  if has_prefix s xml_header then lex (drop_prefix s xml_header) else None.

Lemma run_app so x y : run so (x ++ y) = run (run so x) y.
Proof. apply fold_left_app. Qed.
Lemma run1 so c rest : run so (c :: rest) = run (step so c) rest.
Proof. reflexivity. Qed.
Lemma run_nil so : run so [] = so.
Proof. reflexivity. Qed.

Lemma run_fail s : forall out, run (SFail, out) s = (SFail, out).
Proof. induction s as [|c s IH]; intros out; [reflexivity|]. rewrite run1. cbn [step]. apply IH. Qed.

(** * Well-formed trees *)

Definition name_okb (n : bytes) : bool := negb (is_empty n) && forallb name_char n.
Definition attr_okb (a : bytes * bytes) : bool := name_okb (fst a) && legal_xml (snd a).
Definition ns_okb (ns : option bytes) : bool := match ns with Some u => legal_xml u | None => true end.

Fixpoint wfb (t : xml) : bool :=
  match t with
  | El n ns attrs k =>
      name_okb n && ns_okb ns && forallb attr_okb attrs &&
      match k with Text s => legal_xml s | Kids l => forallb wfb l end
  end.

Definition name_ok (n : bytes) : Prop := n <> [] /\ forallb name_char n = true.
Definition attr_ok (a : bytes * bytes) : Prop := name_ok (fst a) /\ legal_xml (snd a) = true.

(** names and attribute keys are non-empty and free of space, '>', '=', '/', '<' and the double quote; every
    attribute value, name space URI and text is valid UTF-8 made of XML Chars *)
Definition wf (t : xml) : Prop := wfb t = true.

Lemma forallb_Forall {A} (p : A -> bool) l : forallb p l = true <-> Forall (fun x => p x = true) l.
Proof.
  induction l as [|x l IH]; cbn [forallb]; [split; constructor|].
  rewrite andb_true_iff, IH. split.
  - intros [H1 H2]. now constructor.
  - intros H. inversion H; subst. now split.
Qed.

Lemma name_okb_ok n : name_okb n = true <-> name_ok n.
Proof.
  unfold name_okb, name_ok. rewrite andb_true_iff, negb_true_iff.
  destruct n; cbn [is_empty]; split; intros [H1 H2]; try discriminate; try congruence; split; auto; congruence.
Qed.

Lemma attr_okb_ok a : attr_okb a = true <-> attr_ok a.
Proof. unfold attr_okb, attr_ok. now rewrite andb_true_iff, name_okb_ok. Qed.

Lemma xmlns_key_ok : name_ok xmlns_key.
Proof. split; [discriminate|reflexivity]. Qed.

Lemma wf_El n ns attrs k :
  wf (El n ns attrs k) <->
  name_ok n /\ Forall attr_ok (all_attrs ns attrs) /\
  match k with Text s => legal_xml s = true | Kids l => Forall wf l end.
Proof.
  unfold wf. cbn [wfb]. rewrite !andb_true_iff, name_okb_ok, forallb_Forall.
  assert (A : ns_okb ns = true /\ Forall (fun x => attr_okb x = true) attrs <->
              Forall attr_ok (all_attrs ns attrs)).
  { unfold all_attrs. rewrite Forall_app.
    assert (F : forall l, Forall (fun x => attr_okb x = true) l <-> Forall attr_ok l).
    { intros l. split; apply Forall_impl; intros a; apply attr_okb_ok. }
    rewrite F. destruct ns as [u|]; cbn [ns_okb ns_attr].
    - split.
      + intros [H1 H2]. split; [|exact H2]. constructor; [|constructor]. split; [apply xmlns_key_ok|exact H1].
      + intros [H1 H2]. split; [|exact H2]. inversion H1 as [|? ? [_ H] _]; subst. exact H.
    - split; [intros [_ H]; split; [constructor|exact H]|intros [_ H]; split; [reflexivity|exact H]]. }
  assert (B : (match k with Text s => legal_xml s | Kids l => forallb wfb l end) = true <->
              match k with Text s => legal_xml s = true | Kids l => Forall (fun x => wfb x = true) l end).
  { destruct k; [reflexivity|apply forallb_Forall]. }
  rewrite B. clear B. destruct k; tauto.
Qed.

(** * Fragment lemmas *)

(** ** character data and attribute values: the machine decodes as [unesc] does *)

Definition text_st (ref : option bytes) (acc : bytes) : st :=
  match ref with None => SText acc | Some e => STextEnt acc e end.

Lemma run_unesc_text : forall s ref t acc out,
  unesc xml_char_ok ref s = Some t ->
  run (text_st ref acc, out) s = (SText (rev t ++ acc), out).
Proof.
  induction s as [|c s IH]; intros ref t acc out H.
  - destruct ref; cbn [unesc] in H; [discriminate H|]. injection H as <-. reflexivity.
  - rewrite run1. destruct ref as [e|]; cbn [unesc] in H; cbn [text_st step].
    + destruct (Ascii.eqb c ";").
      * destruct (resolve xml_char_ok (rev e)) as [d|]; [|discriminate H].
        destruct (unesc xml_char_ok None s) as [t'|] eqn:U; cbn [option_map] in H; [|discriminate H].
        injection H as <-.
        pose proof (IH None t' (rev d ++ acc) out U) as R. cbn [text_st] in R. rewrite R.
        now rewrite rev_app_distr, <- app_assoc.
      * exact (IH (Some (c :: e)) t acc out H).
    + destruct (Ascii.eqb c "&").
      * exact (IH (Some []) t acc out H).
      * destruct (Ascii.eqb c "<"); [discriminate H|].
        destruct (unesc xml_char_ok None s) as [t'|] eqn:U; cbn [option_map] in H; [|discriminate H].
        injection H as <-.
        pose proof (IH None t' (c :: acc) out U) as R. cbn [text_st] in R. rewrite R.
        cbn [app rev]. now rewrite <- app_assoc.
Qed.

Definition val_st (n : bytes) (at_ : list (bytes * bytes)) (an : bytes) (ref : option bytes) (acc : bytes) : st :=
  match ref with None => SAttrVal n at_ an acc | Some e => SAttrValEnt n at_ an acc e end.

Definition no_quote (c : ascii) : bool := negb (Ascii.eqb c """").

Lemma run_unesc_val n at_ an : forall s ref t acc out,
  forallb no_quote s = true ->
  unesc xml_char_ok ref s = Some t ->
  run (val_st n at_ an ref acc, out) s = (SAttrVal n at_ an (rev t ++ acc), out).
Proof.
  induction s as [|c s IH]; intros ref t acc out Q H.
  - destruct ref; cbn [unesc] in H; [discriminate H|]. injection H as <-. reflexivity.
  - cbn [forallb] in Q. apply andb_prop in Q as [Qc Q]. unfold no_quote in Qc. apply negb_true_iff in Qc.
    rewrite run1. destruct ref as [e|]; cbn [unesc] in H; cbn [val_st step].
    + destruct (Ascii.eqb c ";").
      * destruct (resolve xml_char_ok (rev e)) as [d|]; [|discriminate H].
        destruct (unesc xml_char_ok None s) as [t'|] eqn:U; cbn [option_map] in H; [|discriminate H].
        injection H as <-.
        pose proof (IH None t' (rev d ++ acc) out Q U) as R. cbn [val_st] in R. rewrite R.
        now rewrite rev_app_distr, <- app_assoc.
      * exact (IH (Some (c :: e)) t acc out Q H).
    + rewrite Qc. destruct (Ascii.eqb c "&").
      * exact (IH (Some []) t acc out Q H).
      * destruct (Ascii.eqb c "<"); [discriminate H|].
        destruct (unesc xml_char_ok None s) as [t'|] eqn:U; cbn [option_map] in H; [|discriminate H].
        injection H as <-.
        pose proof (IH None t' (c :: acc) out Q U) as R. cbn [val_st] in R. rewrite R.
        cbn [app rev]. now rewrite <- app_assoc.
Qed.

Lemma xml_escape_no_quote s : forallb no_quote (xml_escape s) = true.
Proof.
  pose proof (xml_escape_no_markup s) as H. revert H. apply forallb_imp.
  intros c Hc. apply andb_prop in Hc as [Hc _]. apply andb_prop in Hc as [_ Hc]. exact Hc.
Qed.

Lemma run_esc_text s acc out :
  legal_xml s = true -> run (SText acc, out) (xml_escape s) = (SText (rev s ++ acc), out).
Proof. intros L. apply (run_unesc_text _ None). now apply xml_unescape_escape. Qed.

Lemma run_esc_val n at_ an s acc out :
  legal_xml s = true ->
  run (SAttrVal n at_ an acc, out) (xml_escape s) = (SAttrVal n at_ an (rev s ++ acc), out).
Proof.
  intros L. apply (run_unesc_val n at_ an _ None); [apply xml_escape_no_quote|].
  now apply xml_unescape_escape.
Qed.

(** ** names *)

Lemma name_char_inv c :
  name_char c = true -> c <> " " /\ c <> ">" /\ c <> "=" /\ c <> "/" /\ c <> "<" /\ c <> """".
Proof. unfold name_char. rewrite negb_true_iff, !orb_false_iff. repeat rewrite Ascii.eqb_neq. tauto. Qed.

Ltac nc H := let H' := fresh in pose proof H as H'; apply name_char_inv in H'; destruct H' as (?&?&?&?&?&?).
Ltac neqb := repeat match goal with |- context [Ascii.eqb ?c ?x] => destruct (Ascii.eqb_spec c x); [congruence|] end.

Lemma step_open_name n out c :
  name_char c = true -> step (SOpenName n, out) c = (SOpenName (c :: n), out).
Proof. intros H. nc H. cbn [step]. neqb. now rewrite H. Qed.
Lemma step_close_name n out c :
  name_char c = true -> step (SCloseName n, out) c = (SCloseName (c :: n), out).
Proof. intros H. nc H. cbn [step]. neqb. now rewrite H. Qed.
Lemma step_attr_name n at_ an out c :
  name_char c = true -> step (SAttrName n at_ an, out) c = (SAttrName n at_ (c :: an), out).
Proof. intros H. nc H. cbn [step]. neqb. now rewrite H. Qed.
Lemma step_lt_name out c :
  name_char c = true -> step (SLt, out) c = (SOpenName [c], out).
Proof. intros H. nc H. cbn [step]. neqb. now rewrite H. Qed.
Lemma step_attr_eq n at_ an out :
  an <> [] -> step (SAttrName n at_ an, out) "=" = (SAttrEq n at_ (rev an), out).
Proof. destruct an; [congruence|reflexivity]. Qed.
Lemma step_close_gt n out :
  n <> [] -> step (SCloseName n, out) ">" = (SText [], TClose (rev n) :: out).
Proof. destruct n; [congruence|reflexivity]. Qed.

Lemma run_open_name n : forall acc out,
  forallb name_char n = true -> run (SOpenName acc, out) n = (SOpenName (rev n ++ acc), out).
Proof.
  induction n as [|c n IH]; intros acc out H; [reflexivity|].
  cbn [forallb] in H. apply andb_prop in H as [Hc H].
  rewrite run1, step_open_name, IH by assumption. cbn [rev]. now rewrite <- app_assoc.
Qed.
Lemma run_close_name n : forall acc out,
  forallb name_char n = true -> run (SCloseName acc, out) n = (SCloseName (rev n ++ acc), out).
Proof.
  induction n as [|c n IH]; intros acc out H; [reflexivity|].
  cbn [forallb] in H. apply andb_prop in H as [Hc H].
  rewrite run1, step_close_name, IH by assumption. cbn [rev]. now rewrite <- app_assoc.
Qed.
Lemma run_attr_name n at_ an : forall acc out,
  forallb name_char an = true -> run (SAttrName n at_ acc, out) an = (SAttrName n at_ (rev an ++ acc), out).
Proof.
  induction an as [|c an IH]; intros acc out H; [reflexivity|].
  cbn [forallb] in H. apply andb_prop in H as [Hc H].
  rewrite run1, step_attr_name, IH by assumption. cbn [rev]. now rewrite <- app_assoc.
Qed.

Lemma rev_not_nil {A} (l : list A) : l <> [] -> rev l <> [].
Proof. intros H E. apply H. rewrite <- (rev_involutive l), E. reflexivity. Qed.

(** ** tags *)

Ltac norm := repeat first [rewrite <- app_assoc | progress cbn [app]].
Ltac r1 := norm; rewrite run1; cbn [step Ascii.eqb Bool.eqb].

Lemma run_attr_body n at_ out a rest :
  attr_ok a ->
  run (SAttrName n at_ [], out) (fst a ++ "=" :: """" :: xml_escape (snd a) ++ """" :: rest) =
  run (SAttrs n (a :: at_), out) rest.
Proof.
  destruct a as [an v]. intros [[Hne Hok] Hv]. cbn [fst snd] in *.
  rewrite run_app, run_attr_name by assumption. rewrite app_nil_r.
  rewrite run1, step_attr_eq by (now apply rev_not_nil). rewrite rev_involutive.
  r1. rewrite run_app, run_esc_val by assumption. r1.
  now rewrite app_nil_r, rev_involutive.
Qed.

Lemma run_attrs n attrs : forall at_ out rest,
  Forall attr_ok attrs ->
  run (SAttrs n at_, out) (flat_map m_attr attrs ++ rest) = run (SAttrs n (rev attrs ++ at_), out) rest.
Proof.
  induction attrs as [|a attrs IH]; intros at_ out rest H; [reflexivity|].
  inversion H; subst. cbn [flat_map]. unfold m_attr at 1.
  r1. rewrite run_attr_body, IH by assumption. cbn [rev]. now rewrite <- app_assoc.
Qed.

(** from the first byte of the element name to the '>' of the start tag *)
Lemma run_open n attrs out rest :
  name_ok n -> Forall attr_ok attrs ->
  run (SLt, out) (n ++ flat_map m_attr attrs ++ ">" :: rest) = run (SText [], TOpen n attrs :: out) rest.
Proof.
  intros [Hne Hok] Hat. destruct n as [|c0 n]; [congruence|].
  cbn [forallb] in Hok. apply andb_prop in Hok as [Hc0 Hok].
  cbn [app]. rewrite run1, step_lt_name by assumption.
  rewrite run_app, run_open_name by assumption.
  assert (Hn : rev (rev n ++ [c0]) = c0 :: n) by (rewrite rev_app_distr, rev_involutive; reflexivity).
  destruct attrs as [|a attrs].
  - cbn [flat_map]. r1. now rewrite Hn.
  - cbn [flat_map]. unfold m_attr at 1. r1. rewrite Hn.
    inversion Hat; subst. rewrite run_attr_body by assumption. rewrite run_attrs by assumption. r1.
    rewrite ?app_nil_r. cbn [rev]. now rewrite ?rev_app_distr, ?rev_involutive.
Qed.

Lemma run_close n out rest :
  name_ok n -> run (SLt, out) ("/" :: n ++ ">" :: rest) = run (SText [], TClose n :: out) rest.
Proof.
  intros [Hne Hok]. r1. rewrite run_app, run_close_name by assumption.
  rewrite run1, app_nil_r, step_close_gt by (now apply rev_not_nil). now rewrite rev_involutive.
Qed.

Lemma flush_text s out : flush (rev s ++ []) out = rev (text_tok s) ++ out.
Proof.
  rewrite app_nil_r. destruct s as [|c s]; [reflexivity|].
  unfold flush. destruct (rev (c :: s)) eqn:E.
  - exfalso. revert E. apply rev_not_nil. discriminate.
  - rewrite <- E, rev_involutive. reflexivity.
Qed.

(** * The inversion theorem *)

(** continuation form: lexing the marshalled tree, whatever follows, is the same as having its
    tokens on the output and going on with what follows *)
Theorem lex_marshal_k : forall t, wf t -> forall out rest,
  run (st0, out) (marshal t ++ rest) = run (st0, rev (tokens t) ++ out) rest.
Proof.
  unfold st0.
  induction t as [n ns attrs s|n ns attrs l IH] using xml_ind'; intros Hwf out rest;
    apply wf_El in Hwf as (Hn & Hattrs & Hk); rewrite marshal_El, tokens_El; cbn [m_content t_content].
  - r1. cbn [flush]. rewrite run_open by assumption.
    rewrite run_app, run_esc_text by assumption. r1.
    rewrite run_close by assumption. rewrite flush_text.
    f_equal. f_equal. cbn [rev]. rewrite rev_app_distr. cbn [rev app]. now rewrite <- app_assoc.
  - r1. cbn [flush]. rewrite run_open by assumption.
    assert (Hl : forall o r,
      run (SText [], o) (flat_map marshal l ++ r) = run (SText [], rev (flat_map tokens l) ++ o) r).
    { clear Hattrs Hn. induction l as [|x l IHl]; intros o r; [reflexivity|].
      inversion IH as [|? ? Hx IH']; subst. inversion Hk as [|? ? Wx Wl]; subst.
      cbn [flat_map]. rewrite <- app_assoc, (Hx Wx), (IHl IH' Wl).
      now rewrite rev_app_distr, <- app_assoc. }
    rewrite Hl. r1. cbn [flush]. rewrite run_close by assumption.
    f_equal. f_equal. cbn [rev]. rewrite rev_app_distr. cbn [rev app]. now rewrite <- app_assoc.
Qed.

Theorem lex_marshal : forall t, wf t -> lex (marshal t) = Some (tokens t).
Proof.
  intros t H. unfold lex.
  rewrite <- (app_nil_r (marshal t)), (lex_marshal_k t H [] []), run_nil, app_nil_r.
  unfold st0. now rewrite rev_involutive.
Qed.

Theorem lex_marshal_doc : forall t, wf t -> lex_doc (marshal_doc t) = Some (tokens t).
Proof.
  intros t H. unfold lex_doc, marshal_doc.
  rewrite has_prefix_app, drop_prefix_app. now apply lex_marshal.
Qed.

(** two trees with the same bytes have the same tokens *)
Corollary marshal_tokens_inj t1 t2 : wf t1 -> wf t2 -> marshal t1 = marshal t2 -> tokens t1 = tokens t2.
Proof.
  intros H1 H2 E. apply lex_marshal in H1, H2. rewrite E in H1. congruence.
Qed.

(** * Data cannot restructure the document *)

Definition erase_attrs (l : list (bytes * bytes)) : list (bytes * bytes) :=
  map (fun a => (fst a, @nil ascii)) l.

(** the token list without its data: attribute values erased, character data dropped *)
Fixpoint skeleton (l : list tok) : list tok :=
  match l with
  | [] => []
  | TOpen n a :: r => TOpen n (erase_attrs a) :: skeleton r
  | TText _ :: r => skeleton r
  | TClose n :: r => TClose n :: skeleton r
  end.

(** the tree without its data: names, attribute keys, presence of a name space declaration and
    nesting stay; every value, name space URI and text becomes [] *)
Fixpoint shape (t : xml) : xml :=
  match t with
  | El n ns attrs k =>
      El n (option_map (fun _ => @nil ascii) ns) (erase_attrs attrs)
         (match k with Text _ => Text [] | Kids l => Kids (map shape l) end)
  end.

Lemma skeleton_app x y : skeleton (x ++ y) = skeleton x ++ skeleton y.
Proof.
  induction x as [|[n a|s|n] x IH]; cbn [app skeleton]; [reflexivity| | |]; now rewrite ?IH.
Qed.

Lemma erase_attrs_idem l : erase_attrs (erase_attrs l) = erase_attrs l.
Proof. unfold erase_attrs. rewrite map_map. reflexivity. Qed.

Lemma erase_all_attrs ns attrs :
  erase_attrs (all_attrs (option_map (fun _ => @nil ascii) ns) (erase_attrs attrs)) =
  erase_attrs (all_attrs ns attrs).
Proof.
  unfold all_attrs, erase_attrs. rewrite !map_app, map_map.
  destruct ns; reflexivity.
Qed.

Lemma skeleton_text_tok s : skeleton (text_tok s) = [].
Proof. destruct s; reflexivity. Qed.

Theorem skeleton_tokens_shape : forall t, skeleton (tokens (shape t)) = skeleton (tokens t).
Proof.
  induction t as [n ns attrs s|n ns attrs l IH] using xml_ind'.
  - cbn [shape]. rewrite !tokens_El. cbn [t_content skeleton].
    now rewrite !skeleton_app, !skeleton_text_tok, erase_all_attrs.
  - cbn [shape]. rewrite !tokens_El. cbn [t_content skeleton].
    rewrite !skeleton_app, erase_all_attrs. do 2 f_equal.
    induction IH as [|x l Hx _ IHl]; [reflexivity|].
    cbn [map flat_map]. now rewrite !skeleton_app, Hx, IHl.
Qed.

Corollary shape_skeleton t1 t2 : shape t1 = shape t2 -> skeleton (tokens t1) = skeleton (tokens t2).
Proof. intros E. now rewrite <- (skeleton_tokens_shape t1), <- (skeleton_tokens_shape t2), E. Qed.

Theorem skeleton_lex_marshal : forall t, wf t ->
  option_map skeleton (lex (marshal t)) = Some (skeleton (tokens t)).
Proof. intros t H. now rewrite lex_marshal. Qed.

(** what the lexer sees of the structure of a marshalled tree is a function of the shape alone *)
Theorem skeleton_lex_shape : forall t, wf t ->
  option_map skeleton (lex (marshal t)) = Some (skeleton (tokens (shape t))).
Proof. intros t H. now rewrite skeleton_lex_marshal, skeleton_tokens_shape. Qed.

Theorem structure_independent_of_data : forall t1 t2,
  wf t1 -> wf t2 -> shape t1 = shape t2 ->
  option_map skeleton (lex (marshal t1)) = option_map skeleton (lex (marshal t2)).
Proof.
  intros t1 t2 H1 H2 E. rewrite !skeleton_lex_marshal by assumption. f_equal. now apply shape_skeleton.
Qed.

(** the shape is itself a well-formed tree *)
Lemma erase_attrs_ok l : Forall attr_ok l -> Forall attr_ok (erase_attrs l).
Proof.
  unfold erase_attrs. intros H. apply Forall_map. revert H. apply Forall_impl.
  intros a [H _]. split; [exact H|reflexivity].
Qed.

Lemma shape_wf : forall t, wf t -> wf (shape t).
Proof.
  induction t as [n ns attrs s|n ns attrs l IH] using xml_ind'; intros H;
    apply wf_El in H as (Hn & Ha & Hk); cbn [shape]; apply wf_El; (split; [exact Hn|]); split.
  - unfold all_attrs in *. apply Forall_app in Ha as [Ha1 Ha2]. apply Forall_app. split.
    + destruct ns; cbn [option_map ns_attr] in *; [|constructor].
      inversion Ha1 as [|? ? [K _] _]; subst. constructor; [|constructor]. split; [exact K|reflexivity].
    + now apply erase_attrs_ok.
  - reflexivity.
  - unfold all_attrs in *. apply Forall_app in Ha as [Ha1 Ha2]. apply Forall_app. split.
    + destruct ns; cbn [option_map ns_attr] in *; [|constructor].
      inversion Ha1 as [|? ? [K _] _]; subst. constructor; [|constructor]. split; [exact K|reflexivity].
    + now apply erase_attrs_ok.
  - apply Forall_map. induction IH as [|x l Hx _ IHl]; [constructor|].
    inversion Hk; subst. constructor; auto.
Qed.

(** * Examples *)

Example ex_wf : wf ex_tree.
Proof. vm_compute. reflexivity. Qed.

Example ex_lex :
  lex (b "<Response xmlns=""urn:p"" ID=""a&#34;&lt;&amp;"" Version=""2.0""><Issuer xmlns=""urn:a"">a&amp;b</Issuer><Status></Status></Response>") =
  Some [ TOpen (b "Response") [(b "xmlns", b "urn:p"); (b "ID", b "a""<&"); (b "Version", b "2.0")];
         TOpen (b "Issuer") [(b "xmlns", b "urn:a")]; TText (b "a&b"); TClose (b "Issuer");
         TOpen (b "Status") []; TClose (b "Status");
         TClose (b "Response") ].
Proof. vm_compute. reflexivity. Qed.

Example ex_lex_marshal : lex (marshal ex_tree) = Some (tokens ex_tree).
Proof. vm_compute. reflexivity. Qed.

Example ex_skeleton :
  option_map skeleton (lex (marshal ex_tree)) =
  Some [ TOpen (b "Response") [(b "xmlns", []); (b "ID", []); (b "Version", [])];
         TOpen (b "Issuer") [(b "xmlns", [])]; TClose (b "Issuer");
         TOpen (b "Status") []; TClose (b "Status");
         TClose (b "Response") ].
Proof. vm_compute. reflexivity. Qed.

(** numeric references and the two entities escapeText does not write are decoded as well *)
Example ex_lex_refs : lex (b "<a k=""&quot;&#x41;"">&apos;&#66;&#xe9;</a>") =
  Some [TOpen (b "a") [(b "k", b """A")]; TText (b "'B" ++ hx "c3a9"); TClose (b "a")].
Proof. vm_compute. reflexivity. Qed.

(** rejected inputs *)
Example ex_lex_bad1 : lex (b "<a>&nbsp;</a>") = None. Proof. vm_compute. reflexivity. Qed.
Example ex_lex_bad2 : lex (b "<a k=""<""></a>") = None. Proof. vm_compute. reflexivity. Qed.
Example ex_lex_bad3 : lex (b "<a k='v'></a>") = None. Proof. vm_compute. reflexivity. Qed.
Example ex_lex_bad4 : lex (b "<a></a") = None. Proof. vm_compute. reflexivity. Qed.
Example ex_lex_bad5 : lex (b "<a/>") = None. Proof. vm_compute. reflexivity. Qed.
Example ex_lex_bad6 : lex (b "<></>") = None. Proof. vm_compute. reflexivity. Qed.
Example ex_lex_bad7 : lex (b "<a>&#0;</a>") = None. Proof. vm_compute. reflexivity. Qed.
Example ex_lex_bad8 : lex (b "<a =""v""></a>") = None. Proof. vm_compute. reflexivity. Qed.

(** a value that tries to close its attribute and its element changes no structure *)
Example ex_injection :
  option_map skeleton
    (lex (marshal (El (b "A") None [(b "k", b """><B></B><A k=""")] (Text (b "</A><C>"))))) =
  option_map skeleton (lex (marshal (El (b "A") None [(b "k", b "v")] (Text [])))).
Proof. vm_compute. reflexivity. Qed.

Print Assumptions lex_marshal_k.
Print Assumptions lex_marshal.
Print Assumptions lex_marshal_doc.
Print Assumptions skeleton_tokens_shape.
Print Assumptions skeleton_lex_marshal.
Print Assumptions structure_independent_of_data.
Print Assumptions shape_wf.
