(** The token list of a tree is one balanced element: a single well-formed document. *)
From Saml Require Import Base.Bytes Xml.Tree Xml.Lex.

Fixpoint bal (l : list tok) (stk : list bytes) : option (list bytes) :=
  match l with
  | [] => Some stk
  | TOpen n _ :: r => bal r (n :: stk)
  | TText _ :: r => bal r stk
  | TClose n :: r => match stk with m :: s => if beq m n then bal r s else None | [] => None end
  end.

Lemma bal_app x : forall y s, bal (x ++ y) s = match bal x s with Some s' => bal y s' | None => None end.
Proof.
  induction x as [|t x IH]; intros y s; cbn [app bal]; [reflexivity|].
  destruct t as [n a|u|n]; [apply IH|apply IH|].
  destruct s as [|m s]; [reflexivity|]. destruct (beq m n); [apply IH|reflexivity].
Qed.

Lemma bal_text s stk : bal (text_tok s) stk = Some stk.
Proof. destruct s; reflexivity. Qed.

Theorem bal_tokens : forall t stk, bal (tokens t) stk = Some stk.
Proof.
  induction t as [n ns attrs s|n ns attrs l IH] using xml_ind'; intro stk; rewrite tokens_El; cbn [bal t_content].
  - rewrite bal_app, bal_text. cbn [bal]. now rewrite beq_refl.
  - rewrite bal_app.
    assert (H : forall st, bal (flat_map tokens l) st = Some st).
    { induction l as [|x l IHl]; intro st; [reflexivity|]. inversion IH as [|? ? Hx IH']; subst.
      cbn [flat_map]. rewrite bal_app, Hx. now apply IHl. }
    rewrite H. cbn [bal]. now rewrite beq_refl.
Qed.

(** exactly one root: the first token opens it, the last closes it, and the stack is empty only at the very end *)
Theorem single_root t : exists n a mid, tokens t = TOpen n a :: mid ++ [TClose n] /\ forall stk, bal mid (n :: stk) = Some (n :: stk).
Proof.
  destruct t as [n ns attrs k]. exists n, (all_attrs ns attrs), (t_content k). split; [apply tokens_El|].
  intro stk. destruct k as [s|l]; cbn [t_content]; [apply bal_text|].
  induction l as [|x l IHl]; [reflexivity|]. cbn [flat_map]. now rewrite bal_app, bal_tokens.
Qed.
