(** encoding/xml's Unmarshal into the library's XML model types, driven by the same generated schema as Xml/Schema.v
    (read.go: unmarshal, unmarshalPath, unmarshalAttr, copyValue).  Input: the element tree with names already resolved
    to (name space, local name) -- tokenising and prefix resolution are Go's decoder, an oracle; output: the generic value.

    Covered: XMLName checks, attributes (first-come over all attribute fields that match), child elements (first element
    field, in declaration order, whose name matches and whose tag names no or the same name space; else the first ",any"
    field; else skipped), character data into the chardata field or a simple value, pointers allocated on demand, slices
    appended, a repeated element merging into the same struct.  Not covered ([None]): innerxml fields that are reached,
    numbers in other than plain decimal form. *)
From Saml Require Import Base.Bytes Xml.SchemaTypes Xml.Schema Idp.BuilderTypes Idp.Builder.
Local Open Scope string_scope.
Local Open Scope list_scope.

Inductive rnode :=
| RText (s : bytes)
| RElem (space local : bytes) (attrs : list (bytes * bytes * bytes)) (kids : list rnode).   (* attrs: space, local, value *)

Fixpoint set_nth_g (l : list gval) (i : nat) (v : gval) : list gval :=
  match l, i with
  | [], _ => []
  | _ :: r, 0 => v :: r
  | x :: r, S k => x :: set_nth_g r k v
  end.

(** strings.TrimSpace on ASCII blanks, strconv.ParseBool *)
Definition is_blank (c : ascii) : bool := let n := nat_of_ascii c in (Nat.eqb n 32 || Nat.eqb n 9 || Nat.eqb n 10 || Nat.eqb n 13)%bool.
Fixpoint ltrim (s : bytes) : bytes := match s with c :: r => if is_blank c then ltrim r else s | [] => [] end.
Definition trim (s : bytes) : bytes := rev (ltrim (rev (ltrim s))).
Definition parse_bool (s : bytes) : option bool :=
  if existsb (beq s) [b "1"; b "t"; b "T"; b "TRUE"; b "true"; b "True"] then Some true
  else if existsb (beq s) [b "0"; b "f"; b "F"; b "FALSE"; b "false"; b "False"] then Some false else None.
Definition is_digit_c (c : ascii) : bool := let n := nat_of_ascii c in (Nat.leb 48 n && Nat.leb n 57)%bool.
(** strconv.ParseInt / ParseUint (base 10, 64 bits) and FormatInt / FormatUint *)
Definition z_of_digits (s : bytes) : Z := fold_left (fun acc c => (acc * 10 + Z.of_nat (nat_of_ascii c - 48))%Z) s 0%Z.
Fixpoint digits_of_pos (fuel : nat) (z : Z) (acc : bytes) : bytes :=
  match fuel with 0 => acc | S k =>
  if (z <? 10)%Z then ascii_of_nat (48 + Z.to_nat z) :: acc
  else digits_of_pos k (z / 10)%Z (ascii_of_nat (48 + Z.to_nat (z mod 10)) :: acc) end.
Definition text_of_z (z : Z) : bytes := if (z <? 0)%Z then "-"%char :: digits_of_pos 25 (- z) [] else digits_of_pos 25 z [].
Definition parse_int (signed : bool) (s : bytes) : option Z :=
  let '(neg, ds) := match s with
                    | c :: r => if Ascii.eqb c "-" then (true, r) else if Ascii.eqb c "+" then (false, r) else (false, s)
                    | [] => (false, []) end in
  if is_empty ds || negb (forallb is_digit_c ds) || Nat.ltb 40 (length ds) then None else
  let z := if neg then (- z_of_digits ds)%Z else z_of_digits ds in
  if signed then (if (z <? - 9223372036854775808)%Z || (9223372036854775807 <? z)%Z then None else Some z)
  else (if neg && negb (Z.eqb z 0) then None else if (18446744073709551615 <? z)%Z then None else
        (* ParseUint refuses a sign altogether *)
        match s with c :: _ => if Ascii.eqb c "-" || Ascii.eqb c "+" then None else Some z | [] => None end).

(** copyValue for the simple kinds *)
Definition copy_simple (sch : schema) (t : ftype) (data : bytes) : option gval :=
  match t with
  | TStr => Some (VStr data)
  | TBool => if is_empty data then Some (VScalar (b "false") true)
             else match parse_bool (trim data) with Some v => Some (VScalar (b (if v then "true" else "false")) (negb v)) | None => None end
  | TInt => if is_empty data then Some (VScalar (b "0") true)
            else match parse_int true (trim data) with Some z => Some (VScalar (text_of_z z) (Z.eqb z 0)) | None => None end
  | TUint => if is_empty data then Some (VScalar (b "0") true)
             else match parse_int false (trim data) with Some z => Some (VScalar (text_of_z z) (Z.eqb z 0)) | None => None end
  | _ => None
  end.

Definition base_type (sch : schema) (t : ftype) : ftype :=
  match t with TNamed n => match lookup sch n with Some (SAlias t') => t' | _ => t end | _ => t end.

(** unmarshalAttr *)
Fixpoint um_attr (fuel : nat) (sch : schema) (t : ftype) (cur : gval) (value : bytes) : option gval :=
  match fuel with 0 => None | S k =>
  match base_type sch t, cur with
  | TPtr t', VNil => match zero_val 20 sch t' with Some z => match um_attr k sch t' z value with Some v => Some (VPtr v) | None => None end | None => None end
  | TPtr t', VPtr v0 => match um_attr k sch t' v0 value with Some v => Some (VPtr v) | None => None end
  | TSlice t', VList l => match zero_val 20 sch t' with Some z => match um_attr k sch t' z value with Some v => Some (VList (l ++ [v])) | None => None end | None => None end
  | (TStr | TBool | TInt | TUint) as t0, _ => copy_simple sch t0 value
  | _, _ => None
  end end.

Definition name_matches (fi : finfo) (space local : bytes) : bool :=
  beq (b (fi_name fi)) local && (String.eqb (fi_ns fi) "" || beq (b (fi_ns fi)) space).

Definition infos (sch : schema) (fs : list gfield) : option (list (option finfo)) :=
  (fix go (fs : list gfield) : option (list (option finfo)) :=
     match fs with
     | [] => Some []
     | f :: r => match (if is_xmlname_field f then Some None else field_info sch f), go r with
                 | Some i, Some is => Some (i :: is) | _, _ => None end
     end) fs.

(** index of the first field satisfying p *)
Fixpoint find_idx {A} (p : A -> bool) (l : list A) (i : nat) : option nat :=
  match l with [] => None | x :: r => if p x then Some i else find_idx p r (S i) end.
Definition mode_is (m : fmode) (o : option finfo) : bool :=
  match o with Some fi => match fi_mode fi, m with MAttr, MAttr | MCharData, MCharData | MInner, MInner | MAny, MAny | MElem, MElem => true | _, _ => false end | None => false end.
Definition elem_field_for (space local : bytes) (o : option finfo) : bool :=
  match o with Some fi => match fi_mode fi with MElem | MAny => name_matches fi space local | _ => false end | None => false end.

(** the character data directly inside an element, concatenated (a single text child is returned as it is) *)
Fixpoint direct_text (kids : list rnode) : bytes :=
  match kids with
  | [] => []
  | RText s :: r => match r with [] => s | _ => s ++ direct_text r end
  | RElem _ _ _ _ :: r => direct_text r
  end.

Section Struct.
  Variable sch : schema.
  (** unmarshal of one element into the current value of a field of the given type *)
  Variable rec : ftype -> gval -> bytes -> bytes -> list (bytes * bytes * bytes) -> list rnode -> option gval.

  (** the XMLName tag of the struct against the start element *)
  Definition xmlname_ok (fs : list gfield) (space local : bytes) : bool :=
    match find_idx is_xmlname_field fs 0, xmlname_tag fs with
    | Some _, Some (xns, xn) => (String.eqb xn "" || beq (b xn) local) && (String.eqb xns "" || beq (b xns) space)
    | Some _, None => false
    | None, _ => true
    end.

  (** attributes, in document order; every attribute field that matches is set *)
  Definition set_attr (is : list (option finfo)) (fs : list gfield) (acc : option (list gval)) (a : bytes * bytes * bytes) : option (list gval) :=
    let '(asp, alc, av) := a in
    (fix go (is : list (option finfo)) (fs : list gfield) (i : nat) (acc : option (list gval)) : option (list gval) :=
       match is, fs, acc with
       | o :: ir, f :: fr, Some vs1 =>
           if mode_is MAttr o && match o with Some fi => name_matches fi asp alc | None => false end
           then match nth_error vs1 i with
                | Some c0 => match um_attr 8 sch (g_type f) c0 av with Some v => go ir fr (S i) (Some (set_nth_g vs1 i v)) | None => None end
                | None => None end
           else go ir fr (S i) acc
       | _, _, _ => acc
       end) is fs 0 acc.

  (** children in document order: the first element field whose name matches, else the first ",any" field, else skipped *)
  Definition set_child (is : list (option finfo)) (fs : list gfield) (acc : option (list gval)) (nd : rnode) : option (list gval) :=
    match acc, nd with
    | Some vs2, RElem sp lc at2 kd2 =>
        match (match find_idx (elem_field_for sp lc) is 0 with Some i => Some i | None => find_idx (mode_is MAny) is 0 end) with
        | Some i => match nth_error vs2 i, nth_error fs i with
                    | Some c0, Some f => match rec (g_type f) c0 sp lc at2 kd2 with Some v => Some (set_nth_g vs2 i v) | None => None end
                    | _, _ => None end
        | None => Some vs2
        end
    | _, _ => acc
    end.

  Definition um_struct (fs : list gfield) (vs : list gval) (space local : bytes) (attrs : list (bytes * bytes * bytes)) (kids : list rnode) : option gval :=
    match infos sch fs with
    | None => None
    | Some is =>
        (* raw inner XML: only an element without content is covered (the field stays empty) *)
        if existsb (mode_is MInner) is && match kids with [] => false | _ => true end then None else
        if negb (xmlname_ok fs space local) then None else
        let vs0 := match find_idx is_xmlname_field fs 0 with Some i => set_nth_g vs i (VName space local) | None => vs end in
        match fold_left (set_attr is fs) attrs (Some vs0) with
        | None => None
        | Some vs1 =>
            match fold_left (set_child is fs) kids (Some vs1) with
            | None => None
            | Some vs3 =>
                match find_idx (mode_is MCharData) is 0 with
                | Some i => match nth_error fs i with
                            | Some f => match copy_simple sch (base_type sch (g_type f)) (direct_text kids) with Some v => Some (VStruct (set_nth_g vs3 i v)) | None => None end
                            | None => None end
                | None => Some (VStruct vs3)
                end
            end
        end
    end.
End Struct.

Fixpoint um (fuel : nat) (sch : schema) (t : ftype) (cur : gval) (space local : bytes) (attrs : list (bytes * bytes * bytes)) (kids : list rnode) {struct fuel} : option gval :=
  match fuel with 0 => None | S k =>
  match base_type sch t, cur with
  | TPtr t', VNil => match zero_val 20 sch t' with Some z => match um k sch t' z space local attrs kids with Some v => Some (VPtr v) | None => None end | None => None end
  | TPtr t', VPtr v0 => match um k sch t' v0 space local attrs kids with Some v => Some (VPtr v) | None => None end
  | TSlice t', VList l => match zero_val 20 sch t' with Some z => match um k sch t' z space local attrs kids with Some v => Some (VList (l ++ [v])) | None => None end | None => None end
  | (TStr | TBool | TInt | TUint) as t0, _ => copy_simple sch t0 (direct_text kids)
  | TXMLName, _ => Some (VName space local)
  | TNamed n, VStruct vs =>
      match lookup sch n with
      | Some (SStruct fs) => um_struct sch (um k sch) fs vs space local attrs kids
      | _ => None
      end
  | _, _ => None
  end end.

(** a struct whose XMLName tag names another element (or name space) than the start element is refused *)
Lemma um_wrong_name k sch n fs vs space local attrs kids :
  base_type sch (TNamed n) = TNamed n -> lookup sch n = Some (SStruct fs) -> xmlname_ok fs space local = false ->
  um (S k) sch (TNamed n) (VStruct vs) space local attrs kids = None.
Proof.
  intros Hb Hl Hx. cbn [um]. rewrite Hb, Hl. unfold um_struct. destruct (infos sch fs); [|reflexivity].
  destruct (existsb (mode_is MInner) l && match kids with [] => false | _ => true end); [reflexivity|]. now rewrite Hx.
Qed.

(** xml.Unmarshal / unmarshalDocument of a document whose root element is given, into a zero value of the named type *)
Definition unmarshal_root (sch : schema) (ty : string) (root : rnode) : option gval :=
  match root, zero_val 20 sch (TNamed ty) with
  | RElem sp lc attrs kids, Some z => um 40 sch (TNamed ty) z sp lc attrs kids
  | _, _ => None
  end.

Fixpoint gval_eqb (x y : gval) : bool :=
  match x, y with
  | VStr a, VStr c => beq a c
  | VScalar a z, VScalar c w => beq a c && Bool.eqb z w
  | VName a1 a2, VName c1 c2 => beq a1 c1 && beq a2 c2
  | VNil, VNil => true
  | VPtr a, VPtr c => gval_eqb a c
  | VList l, VList m | VStruct l, VStruct m =>
      (fix go (l m : list gval) : bool := match l, m with [], [] => true | a :: r, c :: s => gval_eqb a c && go r s | _, _ => false end) l m
  | _, _ => false
  end.

(** * what the schema does not name is ignored *)
(** an attribute no attribute field of the struct matches leaves the value as it is ... *)
Definition attr_unmatched (is : list (option finfo)) (a : bytes * bytes * bytes) : bool :=
  let '(asp, alc, _) := a in
  forallb (fun o => negb (mode_is MAttr o && match o with Some fi => name_matches fi asp alc | None => false end)) is.
Lemma set_attr_unmatched sch is fs acc a : attr_unmatched is a = true -> set_attr sch is fs acc a = acc.
Proof.
  destruct a as [[asp alc] av]. unfold attr_unmatched, set_attr. intro H.
  match goal with |- ?f is fs 0 acc = acc =>
    assert (G : forall is0 fs0 i0 acc0,
              forallb (fun o => negb (mode_is MAttr o && match o with Some fi => name_matches fi asp alc | None => false end)) is0 = true ->
              f is0 fs0 i0 acc0 = acc0) end.
  { induction is0 as [|o ir IH]; intros fs0 i0 acc0 H0; [reflexivity|].
    cbn [forallb] in H0. apply andb_prop in H0 as [H1 H2]. apply negb_true_iff in H1.
    destruct fs0 as [|f fr]; [reflexivity|]. destruct acc0 as [vs1|]; [|reflexivity].
    rewrite H1. apply IH. exact H2. }
  apply G. exact H.
Qed.
(** ... and so does a child element that matches no element field when the struct has no ",any" field *)
Definition elem_unmatched (is : list (option finfo)) (space local : bytes) : bool :=
  forallb (fun o => negb (elem_field_for space local o)) is && forallb (fun o => negb (mode_is MAny o)) is.
Lemma find_idx_none {A} (p : A -> bool) l : forallb (fun x => negb (p x)) l = true -> forall i, find_idx p l i = None.
Proof.
  induction l as [|x r IH]; intros H i; [reflexivity|]. cbn [forallb] in H. apply andb_prop in H as [H1 H2].
  apply negb_true_iff in H1. cbn [find_idx]. rewrite H1. apply IH. exact H2.
Qed.
Lemma set_child_unmatched rec is fs acc sp lc at2 kd2 :
  elem_unmatched is sp lc = true -> set_child rec is fs acc (RElem sp lc at2 kd2) = acc.
Proof.
  unfold elem_unmatched, set_child. intro H. apply andb_prop in H as [H1 H2].
  destruct acc as [vs2|]; [|reflexivity].
  rewrite (find_idx_none _ _ H1 0), (find_idx_none _ _ H2 0). reflexivity.
Qed.

(** hence: appending unknown attributes and unknown child elements (for a struct without chardata and ",any" fields) to an
    element does not change what it is unmarshalled to *)
Theorem um_struct_ignores_unknown sch rec fs vs space local attrs kids extra_attrs extra_kids is :
  infos sch fs = Some is ->
  existsb (mode_is MInner) is = false -> find_idx (mode_is MCharData) is 0 = None ->
  forallb (attr_unmatched is) extra_attrs = true ->
  forallb (fun n => match n with RElem sp lc _ _ => elem_unmatched is sp lc | RText _ => true end) extra_kids = true ->
  um_struct sch rec fs vs space local (attrs ++ extra_attrs) (kids ++ extra_kids) = um_struct sch rec fs vs space local attrs kids.
Proof.
  intros Hi Hin Hcd Ha Hk. unfold um_struct. rewrite Hi, Hin. cbn [andb].
  destruct (negb (xmlname_ok fs space local)); [reflexivity|].
  assert (A : forall acc, fold_left (set_attr sch is fs) extra_attrs acc = acc).
  { induction extra_attrs as [|a r IH]; intro acc; [reflexivity|]. cbn [forallb] in Ha. apply andb_prop in Ha as [H1 H2].
    cbn [fold_left]. rewrite (set_attr_unmatched sch is fs acc a H1). apply IH. exact H2. }
  assert (K : forall acc, fold_left (set_child rec is fs) extra_kids acc = acc).
  { induction extra_kids as [|n r IH]; intro acc; [reflexivity|]. cbn [forallb] in Hk. apply andb_prop in Hk as [H1 H2].
    cbn [fold_left]. destruct n as [s|sp lc at2 kd2].
    - replace (set_child rec is fs acc (RText s)) with acc by (destruct acc; reflexivity). apply IH. exact H2.
    - rewrite (set_child_unmatched rec is fs acc sp lc at2 kd2 H1). apply IH. exact H2. }
  rewrite fold_left_app, A.
  destruct (fold_left (set_attr sch is fs) attrs _) as [vs1|]; [|reflexivity].
  rewrite fold_left_app, K.
  destruct (fold_left (set_child rec is fs) kids (Some vs1)) as [vs3|]; [|reflexivity].
  rewrite Hcd. reflexivity.
Qed.

Lemma um_struct_step k sch n fs vs space local attrs kids :
  base_type sch (TNamed n) = TNamed n -> lookup sch n = Some (SStruct fs) ->
  um (S k) sch (TNamed n) (VStruct vs) space local attrs kids = um_struct sch (um k sch) fs vs space local attrs kids.
Proof. intros Hb Hl. cbn [um]. now rewrite Hb, Hl. Qed.
