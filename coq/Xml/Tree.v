(** The XML documents Go's encoding/xml (Go 1.23) prints for the library's structs.

    Marshal's printer ([printer.marshalValue] / [writeStart] / [writeEnd] in encoding/xml/marshal.go)
    writes an element as
        '<' name  [' xmlns="' escape(uri) '"']  { ' ' key '="' escape(value) '"' }  '>'
        content
        '</' name '>'
    where the xmlns pseudo-attribute is printed first, on every element whose struct tag names a
    name space (the printer does not remember the name space of the parent), content is either
    escaped character data or the children one after the other, and an element without content is
    still written with a separate end tag.  Character data and attribute values go through
    [EscapeText] = [Codec.XmlEscape.xml_escape].  No indentation is produced ([Marshal], not
    [MarshalIndent]).

    Out of scope: prefixes (the library's structs produce none on output: every name space is
    written as a default name space), comments, processing instructions other than the fixed
    header of [marshal_doc], CDATA, mixed content. *)
From Saml Require Import Base.Bytes Codec.Utf8 Codec.XmlEscape.
Open Scope char_scope.
Open Scope nat_scope.

(** * Trees *)

Inductive xml :=
| El (name : bytes) (ns : option bytes) (attrs : list (bytes * bytes)) (kids : content)
with content :=
| Text (s : bytes)
| Kids (l : list xml).

Definition name_of (t : xml) : bytes := match t with El n _ _ _ => n end.
Definition ns_of (t : xml) : option bytes := match t with El _ u _ _ => u end.
Definition attrs_of (t : xml) : list (bytes * bytes) := match t with El _ _ a _ => a end.
Definition content_of (t : xml) : content := match t with El _ _ _ k => k end.
Definition kids_of (t : xml) : list xml := match content_of t with Kids l => l | Text _ => [] end.
Definition text_of (t : xml) : bytes := match content_of t with Text s => s | Kids _ => [] end.

(** ** Induction over the nested type *)

Section XmlInd.
  Variable P : xml -> Prop.
  Hypothesis Htext : forall n ns attrs s, P (El n ns attrs (Text s)).
  Hypothesis Hkids : forall n ns attrs l, Forall P l -> P (El n ns attrs (Kids l)).

  Fixpoint xml_ind' (t : xml) : P t :=
    match t with
    | El n ns attrs k =>
        match k return P (El n ns attrs k) with
        | Text s => Htext n ns attrs s
        | Kids l =>
            Hkids n ns attrs l
              ((fix go (l : list xml) : Forall P l :=
                  match l with
                  | [] => Forall_nil P
                  | x :: r => Forall_cons x (xml_ind' x) (go r)
                  end) l)
        end
    end.
End XmlInd.

(** size, for proofs that prefer a measure *)
Fixpoint size (t : xml) : nat :=
  match t with
  | El _ _ _ k => S (match k with Text _ => 0 | Kids l => list_sum (map size l) end)
  end.

Lemma size_pos t : 1 <= size t.
Proof. destruct t. cbn [size]. lia. Qed.

Lemma size_kid n ns attrs l x : In x l -> size x < size (El n ns attrs (Kids l)).
Proof.
  intros H. cbn [size]. induction l as [|y l IH]; [destruct H|].
  cbn [map]. change (list_sum (size y :: map size l)) with (size y + list_sum (map size l)).
  destruct H as [->|H]; [lia|]. apply IH in H. lia.
Qed.

Lemma xml_size_ind (P : xml -> Prop) :
  (forall t, (forall u, size u < size t -> P u) -> P t) -> forall t, P t.
Proof.
  intros H t. remember (size t) as k eqn:E. revert t E.
  induction k as [k IH] using lt_wf_ind. intros t ->.
  apply H. intros u L. exact (IH (size u) L u eq_refl).
Qed.

(** * Marshal *)

Definition xmlns_key : bytes := b "xmlns".

(** the attribute list as printed: the name space declaration first *)
Definition ns_attr (ns : option bytes) : list (bytes * bytes) :=
  match ns with Some u => [(xmlns_key, u)] | None => [] end.
Definition all_attrs (ns : option bytes) (attrs : list (bytes * bytes)) : list (bytes * bytes) :=
  ns_attr ns ++ attrs.
Definition all_attrs_of (t : xml) : list (bytes * bytes) := all_attrs (ns_of t) (attrs_of t).

Definition m_attr (a : bytes * bytes) : bytes :=
  " " :: fst a ++ "=" :: """" :: xml_escape (snd a) ++ [""""].

Definition m_ns (ns : option bytes) : bytes :=
  match ns with
  | Some u => b " xmlns=""" ++ xml_escape u ++ b """"
  | None => []
  end.

Fixpoint marshal (t : xml) : bytes :=
  match t with
  | El n ns attrs k =>
      "<" :: n ++ m_ns ns ++ flat_map m_attr attrs ++ ">" ::
      match k with
      | Text s => xml_escape s
      | Kids l => flat_map marshal l
      end ++ "<" :: "/" :: n ++ [">"]
  end.

Definition m_content (k : content) : bytes :=
  match k with Text s => xml_escape s | Kids l => flat_map marshal l end.

Definition newline : ascii := ascii_of_N 10.
Definition xml_header : bytes := b "<?xml version=""1.0"" encoding=""UTF-8""?>" ++ [newline].
Definition marshal_doc (t : xml) : bytes := xml_header ++ marshal t.

Lemma m_ns_attr ns : m_ns ns = flat_map m_attr (ns_attr ns).
Proof.
  destruct ns as [u|]; [|reflexivity].
  cbn [ns_attr flat_map m_ns]. unfold m_attr. cbn [fst snd]. rewrite app_nil_r.
  change (b " xmlns=""") with (" " :: xmlns_key ++ ["="; """"]).
  change (b """") with [""""].
  cbn [app]. rewrite <- app_assoc. reflexivity.
Qed.

Lemma m_ns_attrs ns attrs : m_ns ns ++ flat_map m_attr attrs = flat_map m_attr (all_attrs ns attrs).
Proof. unfold all_attrs. now rewrite flat_map_app, m_ns_attr. Qed.

(** the one unfolding used by proofs: every attribute, [xmlns] included, is printed alike *)
Lemma marshal_El n ns attrs k :
  marshal (El n ns attrs k) =
  "<" :: n ++ flat_map m_attr (all_attrs ns attrs) ++ ">" :: m_content k ++ "<" :: "/" :: n ++ [">"].
Proof.
  rewrite <- m_ns_attrs, <- app_assoc. destruct k; reflexivity.
Qed.

Lemma m_content_cons x l : m_content (Kids (x :: l)) = marshal x ++ m_content (Kids l).
Proof. reflexivity. Qed.

Lemma m_content_kids l : m_content (Kids l) = flat_map marshal l.
Proof. reflexivity. Qed.

(** * Projections used by the readers *)

Fixpoint assoc (k : bytes) (l : list (bytes * bytes)) : option bytes :=
  match l with
  | [] => None
  | a :: r => if beq (fst a) k then Some (snd a) else assoc k r
  end.

(** the value of the first attribute with key [k] (the xmlns declaration is not an attribute) *)
Definition attr_of (k : bytes) (t : xml) : option bytes := assoc k (attrs_of t).

Definition has_name (name : bytes) (x : xml) : bool := beq (name_of x) name.

(** first child element with that local name *)
Definition find_child (name : bytes) (t : xml) : option xml := find (has_name name) (kids_of t).

(** all child elements with that local name, in document order *)
Definition children_named (name : bytes) (t : xml) : list xml := filter (has_name name) (kids_of t).

Lemma assoc_In k l v : assoc k l = Some v -> In (k, v) l.
Proof.
  induction l as [|[k' v'] l IH]; cbn [assoc fst snd]; [discriminate|].
  destruct (beq k' k) eqn:E.
  - intros H. injection H as ->. apply beq_eq in E. subst. now left.
  - intros H. right. auto.
Qed.

Lemma assoc_None k l : assoc k l = None <-> ~ In k (map fst l).
Proof.
  induction l as [|[k' v'] l IH]; cbn [assoc fst snd map In]; [tauto|].
  destruct (beq k' k) eqn:E.
  - apply beq_eq in E. split; [discriminate|]. intros H. exfalso. apply H. now left.
  - apply beq_neq in E. rewrite IH. tauto.
Qed.

Lemma attr_of_In k t v : attr_of k t = Some v -> In (k, v) (attrs_of t).
Proof. apply assoc_In. Qed.

Lemma find_child_Some name t x :
  find_child name t = Some x -> In x (kids_of t) /\ name_of x = name.
Proof.
  unfold find_child. intros H. apply find_some in H as [H1 H2].
  split; [exact H1|]. now apply beq_eq.
Qed.

Lemma find_child_None name t :
  find_child name t = None -> forall x, In x (kids_of t) -> name_of x <> name.
Proof.
  unfold find_child. intros H x Hx. pose proof (find_none _ _ H x Hx) as E.
  now apply beq_neq.
Qed.

Lemma find_child_children name t : find_child name t = hd_error (children_named name t).
Proof.
  unfold find_child, children_named. induction (kids_of t) as [|x l IH]; [reflexivity|].
  cbn [find filter]. destruct (has_name name x); [reflexivity|exact IH].
Qed.

Lemma children_named_In name t x :
  In x (children_named name t) <-> In x (kids_of t) /\ name_of x = name.
Proof.
  unfold children_named. rewrite filter_In. unfold has_name. now rewrite beq_eq.
Qed.

Lemma find_child_size name t x : find_child name t = Some x -> size x < size t.
Proof.
  intros H. apply find_child_Some in H as [H _].
  destruct t as [n ns attrs [s|l]]; cbn [kids_of content_of] in H; [destruct H|].
  now apply size_kid.
Qed.

Lemma kids_of_text n ns attrs s : kids_of (El n ns attrs (Text s)) = [].
Proof. reflexivity. Qed.
Lemma kids_of_kids n ns attrs l : kids_of (El n ns attrs (Kids l)) = l.
Proof. reflexivity. Qed.
Lemma text_of_text n ns attrs s : text_of (El n ns attrs (Text s)) = s.
Proof. reflexivity. Qed.

(** * Examples (outputs compared by hand with xml.Marshal of Go 1.23) *)

Definition ex_tree : xml :=
  El (b "Response") (Some (b "urn:p")) [(b "ID", b "a""<&"); (b "Version", b "2.0")]
    (Kids [ El (b "Issuer") (Some (b "urn:a")) [] (Text (b "a&b"));
            El (b "Status") None [] (Kids []) ]).

Example ex_marshal :
  marshal ex_tree =
  b "<Response xmlns=""urn:p"" ID=""a&#34;&lt;&amp;"" Version=""2.0""><Issuer xmlns=""urn:a"">a&amp;b</Issuer><Status></Status></Response>".
Proof. vm_compute. reflexivity. Qed.

Example ex_marshal_doc :
  marshal_doc (El (b "A") None [] (Text [])) =
  b "<?xml version=""1.0"" encoding=""UTF-8""?>" ++ [newline] ++ b "<A></A>".
Proof. vm_compute. reflexivity. Qed.

Example ex_find : option_map text_of (find_child (b "Issuer") ex_tree) = Some (b "a&b").
Proof. vm_compute. reflexivity. Qed.
Example ex_find_none : find_child (b "Assertion") ex_tree = None.
Proof. vm_compute. reflexivity. Qed.
Example ex_attr : attr_of (b "ID") ex_tree = Some (b "a""<&").
Proof. vm_compute. reflexivity. Qed.
Example ex_attr_none : attr_of (b "xmlns") ex_tree = None.
Proof. vm_compute. reflexivity. Qed.
Example ex_children : map name_of (children_named (b "Status") ex_tree) = [b "Status"].
Proof. vm_compute. reflexivity. Qed.

Print Assumptions xml_ind'.
Print Assumptions xml_size_ind.
Print Assumptions marshal_El.
Print Assumptions find_child_Some.
Print Assumptions find_child_children.
