(** Types of the schema go2v (schema mode) extracts from pkg/provider/xml/*/models.go: per struct type its exported
    fields in declaration order, each with the Go type expression and the raw xml struct tag. *)
From Coq Require Import String List.
Inductive ftype := TStr | TBool | TInt | TUint | TXMLName | TNamed (n : string) | TPtr (t : ftype) | TSlice (t : ftype).
Record gfield := { g_name : string; g_type : ftype; g_tag : option string }.
Inductive sdef := SStruct (fs : list gfield) | SAlias (t : ftype).
Definition schema := list (string * sdef).
