(** The part of the SAML 2.0 schemas (saml-schema-protocol-2.0.xsd, saml-schema-assertion-2.0.xsd,
    saml-schema-metadata-2.0.xsd) that the IdP's handlers read from requests and registered metadata and write into
    replies, as a table: which Go field carries which XML attribute or element.  [saml_spec_conforms] checks the struct
    tags of the CURRENT source (Gen/Schema.v) against it, so the handler models may speak of "the Destination of the
    request" while the code reads a struct field: a tag that stops mapping the field to that attribute breaks the check. *)
From Saml Require Import Base.Bytes Xml.SchemaTypes Xml.Schema Gen.Schema.
Local Open Scope string_scope.

Definition ns_p := "urn:oasis:names:tc:SAML:2.0:protocol".
Definition ns_a := "urn:oasis:names:tc:SAML:2.0:assertion".
Definition ns_m := "urn:oasis:names:tc:SAML:2.0:metadata".

Inductive spec_item :=
| Root (ty ns name : string)                   (* the element the type is read from / written as *)
| Attr (ty field name : string)                (* an unqualified attribute *)
| Elem (ty field ns name : string)             (* a child element; ns = "" when the tag names none *)
| AnyKeep (ty field name : string).            (* a repeated child element named after the field, written even when its text is empty *)

Definition request_common (ty : string) : list spec_item :=
  [Attr ty "Id" "ID"; Attr ty "Version" "Version"; Attr ty "IssueInstant" "IssueInstant"; Attr ty "Destination" "Destination";
   Elem ty "Issuer" ns_a "Issuer"; Elem ty "Signature" "" "Signature"].
Definition response_common (ty : string) : list spec_item :=
  [Attr ty "Id" "ID"; Attr ty "InResponseTo" "InResponseTo"; Attr ty "Version" "Version"; Attr ty "IssueInstant" "IssueInstant";
   Attr ty "Destination" "Destination"; Elem ty "Issuer" ns_a "Issuer"; Elem ty "Signature" "" "Signature"; Elem ty "Status" "" "Status"].

Definition saml_spec : list spec_item :=
  (* requests *)
  [Root "samlp.AuthnRequestType" ns_p "AuthnRequest"] ++ request_common "samlp.AuthnRequestType" ++
  [Attr "samlp.AuthnRequestType" "ProtocolBinding" "ProtocolBinding";
   Attr "samlp.AuthnRequestType" "AssertionConsumerServiceURL" "AssertionConsumerServiceURL";
   Attr "samlp.AuthnRequestType" "AssertionConsumerServiceIndex" "AssertionConsumerServiceIndex";
   Elem "samlp.AuthnRequestType" "Conditions" "" "Conditions";
   Root "samlp.LogoutRequestType" ns_p "LogoutRequest"] ++ request_common "samlp.LogoutRequestType" ++
  [Attr "samlp.LogoutRequestType" "NotOnOrAfter" "NotOnOrAfter"; Elem "samlp.LogoutRequestType" "NameID" ns_a "NameID";
   Root "samlp.AttributeQueryType" ns_p "AttributeQuery"] ++ request_common "samlp.AttributeQueryType" ++
  [Elem "samlp.AttributeQueryType" "Subject" "" "Subject"; Elem "samlp.AttributeQueryType" "Attribute" "" "Attribute";
  (* replies *)
   Root "samlp.ResponseType" ns_p "Response"] ++ response_common "samlp.ResponseType" ++
  [Elem "samlp.ResponseType" "Assertion" "" "Assertion";
   Root "samlp.LogoutResponseType" ns_p "LogoutResponse"] ++ response_common "samlp.LogoutResponseType" ++
  [Root "samlp.StatusType" ns_p "Status"; Elem "samlp.StatusType" "StatusCode" "" "StatusCode"; Elem "samlp.StatusType" "StatusMessage" "" "StatusMessage";
   Root "samlp.StatusCodeType" ns_p "StatusCode"; Attr "samlp.StatusCodeType" "Value" "Value";
  (* assertions *)
   Root "saml.AssertionType" ns_a "Assertion"; Attr "saml.AssertionType" "Id" "ID"; Attr "saml.AssertionType" "Version" "Version";
   Attr "saml.AssertionType" "IssueInstant" "IssueInstant"; Elem "saml.AssertionType" "Issuer" ns_a "Issuer";
   Elem "saml.AssertionType" "Subject" "" "Subject"; Elem "saml.AssertionType" "Conditions" "" "Conditions";
   Elem "saml.AssertionType" "AttributeStatement" "" "AttributeStatement"; Elem "saml.AssertionType" "AuthnStatement" "" "AuthnStatement";
   Root "saml.SubjectType" ns_a "Subject"; Elem "saml.SubjectType" "NameID" ns_a "NameID"; Elem "saml.SubjectType" "SubjectConfirmation" "" "SubjectConfirmation";
   Root "saml.SubjectConfirmationType" ns_a "SubjectConfirmation"; Attr "saml.SubjectConfirmationType" "Method" "Method";
   Elem "saml.SubjectConfirmationType" "SubjectConfirmationData" "" "SubjectConfirmationData";
   Root "saml.SubjectConfirmationDataType" ns_a "SubjectConfirmationData"; Attr "saml.SubjectConfirmationDataType" "NotOnOrAfter" "NotOnOrAfter";
   Attr "saml.SubjectConfirmationDataType" "Recipient" "Recipient"; Attr "saml.SubjectConfirmationDataType" "InResponseTo" "InResponseTo";
   Attr "saml.SubjectConfirmationDataType" "Address" "Address";
   Root "saml.ConditionsType" ns_a "Conditions"; Attr "saml.ConditionsType" "NotBefore" "NotBefore"; Attr "saml.ConditionsType" "NotOnOrAfter" "NotOnOrAfter";
   Elem "saml.ConditionsType" "AudienceRestriction" "" "AudienceRestriction";
   Root "saml.AudienceRestrictionType" ns_a "AudienceRestriction";
   Root "saml.AttributeType" ns_a "Attribute"; Attr "saml.AttributeType" "Name" "Name"; Attr "saml.AttributeType" "NameFormat" "NameFormat";
   Attr "saml.AttributeType" "FriendlyName" "FriendlyName"; AnyKeep "saml.AttributeType" "AttributeValue" "AttributeValue";
   AnyKeep "saml.AudienceRestrictionType" "Audience" "Audience";
   Root "saml.AuthnStatementType" ns_a "AuthnStatement"; Attr "saml.AuthnStatementType" "AuthnInstant" "AuthnInstant"; Attr "saml.AuthnStatementType" "SessionIndex" "SessionIndex";
   Attr "saml.NameIDType" "Format" "Format";
  (* metadata *)
   Root "md.EntityDescriptorType" ns_m "EntityDescriptor"; Attr "md.EntityDescriptorType" "EntityID" "entityID";
   Elem "md.EntityDescriptorType" "IDPSSODescriptor" "" "IDPSSODescriptor"; Elem "md.EntityDescriptorType" "SPSSODescriptor" "" "SPSSODescriptor";
   Elem "md.EntityDescriptorType" "AttributeAuthorityDescriptor" "" "AttributeAuthorityDescriptor";
   Root "md.IDPSSODescriptorType" ns_m "IDPSSODescriptor"; Attr "md.IDPSSODescriptorType" "WantAuthnRequestsSigned" "WantAuthnRequestsSigned";
   Elem "md.IDPSSODescriptorType" "SingleSignOnService" ns_m "SingleSignOnService"; Elem "md.IDPSSODescriptorType" "SingleLogoutService" ns_m "SingleLogoutService";
   Elem "md.IDPSSODescriptorType" "KeyDescriptor" "" "KeyDescriptor";
   Root "md.SPSSODescriptorType" ns_m "SPSSODescriptor"; Attr "md.SPSSODescriptorType" "AuthnRequestsSigned" "AuthnRequestsSigned";
   Attr "md.SPSSODescriptorType" "WantAssertionsSigned" "WantAssertionsSigned";
   Elem "md.SPSSODescriptorType" "AssertionConsumerService" ns_m "AssertionConsumerService"; Elem "md.SPSSODescriptorType" "SingleLogoutService" ns_m "SingleLogoutService";
   Elem "md.SPSSODescriptorType" "KeyDescriptor" "" "KeyDescriptor";
   Attr "md.EndpointType" "Binding" "Binding"; Attr "md.EndpointType" "Location" "Location"; Attr "md.EndpointType" "ResponseLocation" "ResponseLocation";
   Attr "md.IndexedEndpointType" "Index" "index"; Attr "md.IndexedEndpointType" "IsDefault" "isDefault"; Attr "md.IndexedEndpointType" "Binding" "Binding";
   Attr "md.IndexedEndpointType" "Location" "Location";
   Root "md.KeyDescriptorType" ns_m "KeyDescriptor"; Attr "md.KeyDescriptorType" "Use" "use"].

Definition root_is (sch : schema) (ty ns name : string) : bool :=
  match lookup sch ty with
  | Some (SStruct fs) => match xmlname_tag fs with Some (xns, xn) => String.eqb xns ns && String.eqb xn name | None => false end
  | _ => false
  end.
Definition conforms (sch : schema) (i : spec_item) : bool :=
  match i with
  | Root ty ns name => root_is sch ty ns name
  | Attr ty f name => is_attr_field sch ty f name
  | Elem ty f ns name => is_elem_field sch ty f ns name
  | AnyKeep ty f name =>
      match lookup sch ty with
      | Some (SStruct fs) => match find (fun g => String.eqb (g_name g) f) fs with
                             | Some g => match field_info sch g with
                                         | Some (Some fi) => match fi_mode fi with MAny | MElem => String.eqb (fi_name fi) name && negb (fi_omit fi) | _ => false end
                                         | _ => false end
                             | None => false end
      | _ => false
      end
  end.

Theorem saml_spec_conforms : forallb (conforms xml_schema) saml_spec = true.
Proof. vm_compute. reflexivity. Qed.

(** non-vacuity: the table rejects a schema in which AttributeQuery's Destination is no longer an attribute *)
Example spec_rejects_element_destination :
  let broken := map (fun d => if String.eqb (fst d) "samlp.AttributeQueryType"
                              then (fst d, match snd d with
                                           | SStruct fs => SStruct (map (fun f => if String.eqb (g_name f) "Destination"
                                                                                  then {| g_name := g_name f; g_type := g_type f; g_tag := Some "Destination,omitempty" |} else f) fs)
                                           | x => x end)
                              else d) xml_schema in
  forallb (conforms broken) saml_spec = false.
Proof. vm_compute. reflexivity. Qed.
