(** The delivery, signature-kind and terminal functions of the handler models, derived from the statement facts go2v
    extracts from response.go / logout_response.go / sso.go.

    [Idp/Callback.v], [Idp/Sso.v] and [Idp/Logout.v] contain hand-written functions for what happens after the
    decision: [deliver] / [send_failed] (sendBackResponse), [sig_for] (createSignature), [lsend] (sendBackLogoutResponse)
    and [terminal] (the switch that ends ssoHandleFunc).  Here each of them is re-derived by an interpreter of the
    extracted statement sequence, and the theorems state that the hand-written function is what the interpreter
    yields for the CURRENT source, for every ACS URL, binding and state.  A change of the branch order, of a case label,
    of the early return for an empty URL, or a second write on some path changes the facts and breaks these theorems. *)
From Saml Require Import Base.Bytes Idp.FactTypes Gen.Facts Idp.Callback Idp.Sso Idp.Logout.
Local Open Scope string_scope.

Inductive dkind := DkBody | DkPost | DkRedirect | DkError.

(** ** recognisers *)
Definition cases_eqb (x y : list (list string * list string)) : bool :=
  list_eqb (fun p q => strs_eqb (fst p) (fst q) && strs_eqb (snd p) (snd q)) x y.

(** [respData, err := xml.Marshal(resp)] *)
Definition is_marshal (f : stmtfact) : bool :=
  stmtkind_eqb (sfk f) SAssign && strs_eqb (calls f) ["xml.Marshal"] && negb (returns f).
(** [if err != nil { r.ErrorFunc(err); return }] *)
Definition is_err_return (f : stmtfact) : bool :=
  stmtkind_eqb (sfk f) SIf && strs_eqb (conds f) ["cond:err!=nil"] && returns f &&
  cases_eqb (cases f) [(["body"], ["call:r.ErrorFunc"; "return"])].
(** [if <field> == "" { if err := xml.Write(w, respData); err != nil {...; return}; return }] *)
Definition is_empty_url_body (field : string) (f : stmtfact) : bool :=
  stmtkind_eqb (sfk f) SIf && strs_eqb (conds f) [("cond:" ++ field ++ "==""""")%string] && returns f &&
  cases_eqb (cases f) [(["body"], ["call:xml.Write"; "iferr-return"; "return"])].

(** what one case of the switch on the binding does: exactly one way of writing the reply *)
Definition case_kind (cs : list string) : option dkind :=
  let post := smem "r.PostTemplate.Execute" cs in
  let redir := smem "http.Redirect" cs in
  let body := smem "xml.Write" cs in
  if post && negb redir && negb body then Some DkPost
  else if redir && smem "BuildRedirectQuery" cs && smem "xml.DeflateAndBase64" cs && negb post && negb body then Some DkRedirect
  else if strs_eqb cs ["r.ErrorFunc"] then Some DkError
  else None.

(** Go's switch: the first case one of whose labels equals the value, else the default case, else nothing *)
Section Switch.
  Variable A : Type.
  Variable matches : string -> bool.
  Variable on_case : list string -> option A.
  Fixpoint first_match (cs : list (list string * list string)) : option (list string) :=
    match cs with
    | [] => None
    | (labels, body) :: r => if existsb matches labels then Some body else first_match r
    end.
  Definition default_case (cs : list (list string * list string)) : option (list string) :=
    match filter (fun c => match fst c with [] => true | _ => false end) cs with
    | [c] => Some (snd c)
    | _ => None
    end.
  Definition switch_on (cs : list (list string * list string)) : option A :=
    match first_match cs with
    | Some body => on_case body
    | None => match default_case cs with Some body => on_case body | None => None end
    end.
End Switch.

(** ** sendBackResponse *)
Definition deliver_shape (seq : list stmtfact) (acs_empty : bool) (matches : string -> bool) : option dkind :=
  match seq with
  | [s1; s2; s3; s4] =>
      if is_marshal s1 && is_err_return s2 && is_empty_url_body "r.AcsUrl" s3 &&
         stmtkind_eqb (sfk s4) SSwitch && strs_eqb (targets s4) ["r.ProtocolBinding"]
      then if acs_empty then Some DkBody else switch_on dkind matches case_kind (cases s4)
      else None
  | _ => None
  end.

Definition kind_of_creply (r : creply) : dkind :=
  match r with
  | CHttp _ => DkError
  | CSaml CBody _ => DkBody
  | CSaml (CPost _ _) _ => DkPost
  | CSaml (CRedirect _ _ _) _ => DkRedirect
  end.
Definition kind_of_reply (r : reply) : dkind :=
  match r with
  | RHttp _ | RLogin _ => DkError
  | RFail DBody _ => DkBody
  | RFail (DPost _ _) _ => DkPost
  | RFail (DRedirect _ _ _ _) _ => DkRedirect
  end.

Definition label_is (binding : bytes) (l : string) : bool := beq binding (b l).

Lemma deliver_shape_current : forall (mt : string -> bool) (e : bool),
  deliver_shape sendBackResponse_seq e mt =
  Some (if e then DkBody
        else if mt "urn:oasis:names:tc:SAML:2.0:bindings:HTTP-POST" then DkPost
        else if mt "urn:oasis:names:tc:SAML:2.0:bindings:HTTP-Redirect" then DkRedirect else DkError).
Proof.
  intros mt e. destruct e; [vm_compute; reflexivity|].
  vm_compute.
  destruct (mt _); [reflexivity|]. destruct (mt _); reflexivity.
Qed.

(** the callback model's [deliver] is the source's sendBackResponse, for every URL, binding, RelayState and message *)
Theorem deliver_from_source : forall acs binding relay m,
  deliver_shape sendBackResponse_seq (is_empty acs) (label_is binding) = Some (kind_of_creply (deliver acs binding relay m)).
Proof.
  intros acs binding relay m. rewrite deliver_shape_current. unfold deliver, label_is.
  change (b "urn:oasis:names:tc:SAML:2.0:bindings:HTTP-POST") with c_PostBinding.
  change (b "urn:oasis:names:tc:SAML:2.0:bindings:HTTP-Redirect") with c_RedirectBinding.
  destruct (is_empty acs); [reflexivity|].
  destruct (beq binding c_PostBinding); [reflexivity|].
  destruct (beq binding c_RedirectBinding); reflexivity.
Qed.

(** ... and so is the SSO model's [send_failed] *)
Theorem send_failed_from_source : forall entity_id status st,
  deliver_shape sendBackResponse_seq (is_empty (r_acs st)) (label_is (r_binding st)) = Some (kind_of_reply (send_failed entity_id status st)).
Proof.
  intros entity_id status st. rewrite deliver_shape_current. unfold send_failed, label_is.
  change (b "urn:oasis:names:tc:SAML:2.0:bindings:HTTP-POST") with c_PostBinding.
  change (b "urn:oasis:names:tc:SAML:2.0:bindings:HTTP-Redirect") with c_RedirectBinding.
  destruct (is_empty (r_acs st)); [reflexivity|].
  destruct (beq (r_binding st) c_PostBinding); [reflexivity|].
  destruct (beq (r_binding st) c_RedirectBinding); reflexivity.
Qed.

(** every path through sendBackResponse writes at most once: the empty-URL branch returns, each case of the switch
    has one writer, and nothing follows the switch *)
Theorem deliver_writes_once : forall e mt, exists k, deliver_shape sendBackResponse_seq e mt = Some k.
Proof. intros e mt. rewrite deliver_shape_current. eauto. Qed.

(** ** createSignature *)
Definition sig_case (cs : list string) : option sigkind :=
  if strs_eqb cs ["createPostSignature"] then Some SigEnveloped
  else if strs_eqb cs ["createRedirectSignature"] then Some SigDetached
  else None.
Definition sig_shape (seq : list stmtfact) (matches : string -> bool) : option sigkind :=
  match seq with
  | [s1; s2] =>
      if stmtkind_eqb (sfk s1) SSwitch && strs_eqb (targets s1) ["response.ProtocolBinding"] && stmtkind_eqb (sfk s2) SReturn
      then match first_match matches (cases s1) with
           | Some body => sig_case body
           | None => match default_case (cases s1) with Some _ => None | None => Some SigNone end   (* no default: nothing is signed *)
           end
      else None
  | _ => None
  end.

Lemma sig_shape_current : forall mt,
  sig_shape createSignature_seq mt =
  Some (if mt "urn:oasis:names:tc:SAML:2.0:bindings:HTTP-POST" then SigEnveloped
        else if mt "urn:oasis:names:tc:SAML:2.0:bindings:HTTP-Redirect" then SigDetached else SigNone).
Proof. intro mt. vm_compute. destruct (mt _); [reflexivity|]. destruct (mt _); reflexivity. Qed.

Theorem sig_for_from_source : forall binding, sig_shape createSignature_seq (label_is binding) = Some (sig_for binding).
Proof.
  intro binding. rewrite sig_shape_current. unfold sig_for, label_is.
  change (b "urn:oasis:names:tc:SAML:2.0:bindings:HTTP-POST") with c_PostBinding.
  change (b "urn:oasis:names:tc:SAML:2.0:bindings:HTTP-Redirect") with c_RedirectBinding.
  destruct (beq binding c_PostBinding); [reflexivity|]. destruct (beq binding c_RedirectBinding); reflexivity.
Qed.

(** ** sendBackLogoutResponse: body when no logout URL is known, else the POST form; never a redirect *)
Definition is_b64 (f : stmtfact) : bool :=
  stmtkind_eqb (sfk f) SAssign && strs_eqb (calls f) ["base64.StdEncoding.EncodeToString"] && negb (returns f).
Definition is_execute_logout (f : stmtfact) : bool :=
  stmtkind_eqb (sfk f) SIf && strs_eqb (conds f) ["r.LogoutTemplate.Execute"; "cond:err!=nil"] &&
  cases_eqb (cases f) [(["body"], ["call:r.ErrorFunc"; "return"])].
Definition ldeliver_shape (seq : list stmtfact) (url_empty : bool) : option dkind :=
  match seq with
  | [s1; s2; s3; s4; s5] =>
      if is_marshal s1 && is_err_return s2 && is_empty_url_body "r.LogoutURL" s3 && is_b64 s4 && is_execute_logout s5
      then Some (if url_empty then DkBody else DkPost)
      else None
  | _ => None
  end.
Definition kind_of_lreply (r : lreply) : dkind :=
  match r with LBody _ => DkBody | LPost _ _ _ => DkPost | LHttp _ => DkError end.

Theorem lsend_from_source : forall entity_id status s,
  ldeliver_shape sendBackLogoutResponse_seq (is_empty (g_url s)) = Some (kind_of_lreply (lsend entity_id status s)).
Proof.
  intros entity_id status s. unfold lsend. destruct (is_empty (g_url s)); vm_compute; reflexivity.
Qed.

(** ** the switch that ends ssoHandleFunc: login redirect for the two supported bindings, else an UnsupportedBinding reply *)
Inductive tkind := TkLogin | TkUnsupported.
Definition terminal_case (cs : list string) : option tkind :=
  if smem "http.Redirect" cs && smem "sp.LoginURL" cs && smem "authRequest.GetID" cs && negb (smem "response.sendBackResponse" cs) then Some TkLogin
  else if smem "response.sendBackResponse" cs && smem "response.makeFailedResponse" cs &&
          smem "status:urn:oasis:names:tc:SAML:2.0:status:UnsupportedBinding" cs && negb (smem "http.Redirect" cs) then Some TkUnsupported
  else None.
Definition terminal_shape (seq : list stmtfact) (matches : string -> bool) : option tkind :=
  match seq with
  | [s1; s2] =>
      if stmtkind_eqb (sfk s1) SSwitch && strs_eqb (targets s1) ["response.ProtocolBinding"] && stmtkind_eqb (sfk s2) SReturn
      then switch_on tkind matches terminal_case (cases s1)
      else None
  | _ => None
  end.

Lemma terminal_shape_current : forall mt,
  terminal_shape sso_post mt =
  Some (if mt "urn:oasis:names:tc:SAML:2.0:bindings:HTTP-Redirect" || mt "urn:oasis:names:tc:SAML:2.0:bindings:HTTP-POST" then TkLogin else TkUnsupported).
Proof. intro mt. vm_compute. destruct (mt _); [reflexivity|]. destruct (mt _); reflexivity. Qed.

Theorem terminal_from_source : forall entity_id st id, l_created st = Some id ->
  terminal_shape sso_post (label_is (r_binding st)) =
  Some (match terminal entity_id st with [RLogin _] => TkLogin | _ => TkUnsupported end) /\
  (terminal entity_id st = [RLogin id] \/ terminal entity_id st = [send_failed entity_id c_StatusCodeUnsupportedBinding st]).
Proof.
  intros entity_id st id Hc. rewrite terminal_shape_current. unfold terminal, binding_supported, label_is. rewrite Hc.
  change (b "urn:oasis:names:tc:SAML:2.0:bindings:HTTP-POST") with c_PostBinding.
  change (b "urn:oasis:names:tc:SAML:2.0:bindings:HTTP-Redirect") with c_RedirectBinding.
  destruct (beq (r_binding st) c_RedirectBinding) eqn:E1; destruct (beq (r_binding st) c_PostBinding) eqn:E2; cbn [orb];
    split; try reflexivity; auto.
  all: unfold send_failed; destruct (is_empty (r_acs st)); try reflexivity; rewrite ?E1, ?E2; reflexivity.
Qed.

(** ** the statements before the chains: a failing GetMetadata answers with http.Error and returns *)
Definition is_getmetadata (f : stmtfact) : bool :=
  stmtkind_eqb (sfk f) SAssign && strs_eqb (calls f) ["p.GetMetadata"] && smem "err" (targets f) && negb (returns f).
Definition is_http_err_return (f : stmtfact) : bool :=
  stmtkind_eqb (sfk f) SIf && strs_eqb (conds f) ["cond:err!=nil"] && returns f &&
  cases_eqb (cases f) [(["body"], ["call:http.Error"; "return"])].
Fixpoint precheck_ok (seq : list stmtfact) : bool :=
  match seq with
  | s1 :: ((s2 :: _) as r) => (is_getmetadata s1 && is_http_err_return s2) || (negb (is_getmetadata s1) && negb (returns s1) && precheck_ok r)
  | _ => false
  end.
Theorem prechecks_from_source : precheck_ok sso_pre = true /\ precheck_ok attrquery_pre = true.
Proof. split; vm_compute; reflexivity. Qed.

(** non-vacuity: mutants of the facts are rejected *)
Example deliver_shape_rejects_swapped_cases :
  let swap f := {| sfk := sfk f; targets := targets f; conds := conds f; calls := calls f; returns := returns f; cases := rev (cases f) |} in
  deliver_shape (firstn 3 sendBackResponse_seq ++ map swap (skipn 3 sendBackResponse_seq)) false (fun l => String.eqb l "urn:oasis:names:tc:SAML:2.0:bindings:HTTP-POST")
  = Some DkPost /\
  deliver_shape (firstn 2 sendBackResponse_seq ++ skipn 3 sendBackResponse_seq) true (fun _ => false) = None.
Proof. split; vm_compute; reflexivity. Qed.
