(** Attributes.GetSAML for ANY number of custom attributes, from the source of attributes.go (builder program in
    Gen/Builders.v): the six standard attributes that are not empty, in the fixed order, followed by one attribute per custom
    attribute, in the order the map is ranged over (Go leaves that order open; the model takes it as the order of the list of
    pairs).  The loop of [BRange] consumes no fuel per element, so the statement is proved by induction on the list. *)
From Saml Require Import Base.Bytes Idp.BuilderTypes Idp.Builder Gen.Builders Idp.BuiltDoc.
From Coq Require Import List String. Import ListNotations.
Local Open Scope string_scope.
Local Open Scope list_scope.

(** a custom attribute: name, friendly name, name format, values *)
Definition dcustom := (bytes * bytes * bytes * list bytes)%type.
Definition custom_dpair (c : dcustom) : dval :=
  let '(n, f, nf, vs) := c in
  DObj "pair" [("k", DStr n); ("v", DObj "provider.CustomAttribute" [("FriendlyName", DStr f); ("NameFormat", DStr nf); ("AttributeValue", DList (map DStr vs))])].
Definition custom_dattr (c : dcustom) : dval :=
  let '(n, f, nf, vs) := c in
  DObj "saml.AttributeType" [("Name", DStr n); ("FriendlyName", DStr f); ("NameFormat", DStr nf); ("AttributeValue", DList (map DStr vs))].

Definition getsaml_body : list bstmt :=
  Eval vm_compute in match find_fun builders "GetSAML" with Some f => bf_body f | None => [] end.
Definition loop_body : list bstmt :=
  Eval vm_compute in match nth_error getsaml_body 7 with Some (BRange _ _ _ body) => body | _ => [] end.

Lemma unpair_pair a c : unpair (DObj "pair" [("k", a); ("v", c)]) = (a, c).
Proof. reflexivity. Qed.

Section G.
Variable o : string -> option dval.
Notation run_st := (run_st builders o).
Notation exec := (exec builders o).

Lemma call_getsaml k rec fr : call builders o k "GetSAML" (Some rec) [] fr = run builders o k [("a", rec)] fr getsaml_body.
Proof. reflexivity. Qed.

Lemma run_unfold k e fr body : run builders o (S k) e fr body =
  match run_st k {| s_env := e; s_fresh := fr |} body with Some (RRet v f) => Some (v, f) | _ => None end.
Proof. reflexivity. Qed.
Lemma run_st_cons k s i r : run_st (S k) s (i :: r) =
  match exec k s i with Some (RNext s') => run_st k s' r | Some (RRet v f) => Some (RRet v f) | None => None end.
Proof. reflexivity. Qed.

Definition st_of (rec : dval) (acc : list dval) (fr : list bytes) : st := {| s_env := [("a", rec); ("attrs", DList acc)]; s_fresh := fr |}.
Definition st_in (rec : dval) (acc : list dval) (n a : dval) (fr : list bytes) : st :=
  {| s_env := [("a", rec); ("attrs", DList acc); ("name", n); ("attr", a)]; s_fresh := fr |}.

(** one standard attribute: appended iff its value is not empty *)
Definition field_of (j : nat) : string := nth j ["email"; "surname"; "givenName"; "fullName"; "username"; "userID"] "".
Definition name_of (j : nat) : string := nth j ["Email"; "SurName"; "FirstName"; "FullName"; "UserName"; "UserID"] "".
Definition rec_of (e f g s u n : bytes) (cs : list dval) := attributes_rec e f g s u n cs.

Lemma step_let k e f g s u n cs fr :
  exec (S (S (S (S (S (S (S (S (S (S (S (S (S (S (S (S (S (S (S (S (S (S (S (S (S (S (S (S (k))))))))))))))))))))))))))))) {| s_env := [("a", rec_of e f g s u n cs)]; s_fresh := fr |} (nth 0 getsaml_body (BReturn BNil)) = Some (RNext (st_of (rec_of e f g s u n cs) [] fr)).
Proof. vm_compute. reflexivity. Qed.

Lemma step_std1 k e f g s u n cs acc fr :
  exec (S (S (S (S (S (S (S (S (S (S (S (S (S (S (S (S (S (S (S (S (S (S (S (S (S (S (S (k)))))))))))))))))))))))))))) (st_of (rec_of e f g s u n cs) acc fr) (nth 1 getsaml_body (BReturn BNil)) = Some (RNext (st_of (rec_of e f g s u n cs) (acc ++ std_attr "Email" e) fr)).
Proof. destruct e; [rewrite app_nil_r|]; vm_compute; reflexivity. Qed.
Lemma step_std2 k e f g s u n cs acc fr :
  exec (S (S (S (S (S (S (S (S (S (S (S (S (S (S (S (S (S (S (S (S (S (S (S (S (S (S (k))))))))))))))))))))))))))) (st_of (rec_of e f g s u n cs) acc fr) (nth 2 getsaml_body (BReturn BNil)) = Some (RNext (st_of (rec_of e f g s u n cs) (acc ++ std_attr "SurName" s) fr)).
Proof. destruct s; [rewrite app_nil_r|]; vm_compute; reflexivity. Qed.
Lemma step_std3 k e f g s u n cs acc fr :
  exec (S (S (S (S (S (S (S (S (S (S (S (S (S (S (S (S (S (S (S (S (S (S (S (S (S (k)))))))))))))))))))))))))) (st_of (rec_of e f g s u n cs) acc fr) (nth 3 getsaml_body (BReturn BNil)) = Some (RNext (st_of (rec_of e f g s u n cs) (acc ++ std_attr "FirstName" g) fr)).
Proof. destruct g; [rewrite app_nil_r|]; vm_compute; reflexivity. Qed.
Lemma step_std4 k e f g s u n cs acc fr :
  exec (S (S (S (S (S (S (S (S (S (S (S (S (S (S (S (S (S (S (S (S (S (S (S (S (k))))))))))))))))))))))))) (st_of (rec_of e f g s u n cs) acc fr) (nth 4 getsaml_body (BReturn BNil)) = Some (RNext (st_of (rec_of e f g s u n cs) (acc ++ std_attr "FullName" f) fr)).
Proof. destruct f; [rewrite app_nil_r|]; vm_compute; reflexivity. Qed.
Lemma step_std5 k e f g s u n cs acc fr :
  exec (S (S (S (S (S (S (S (S (S (S (S (S (S (S (S (S (S (S (S (S (S (S (S (k)))))))))))))))))))))))) (st_of (rec_of e f g s u n cs) acc fr) (nth 5 getsaml_body (BReturn BNil)) = Some (RNext (st_of (rec_of e f g s u n cs) (acc ++ std_attr "UserName" n) fr)).
Proof. destruct n; [rewrite app_nil_r|]; vm_compute; reflexivity. Qed.
Lemma step_std6 k e f g s u n cs acc fr :
  exec (S (S (S (S (S (S (S (S (S (S (S (S (S (S (S (S (S (S (S (S (S (S (k))))))))))))))))))))))) (st_of (rec_of e f g s u n cs) acc fr) (nth 6 getsaml_body (BReturn BNil)) = Some (RNext (st_of (rec_of e f g s u n cs) (acc ++ std_attr "UserID" u) fr)).
Proof. destruct u; [rewrite app_nil_r|]; vm_compute; reflexivity. Qed.

(** the loop statement: its list is the record's customAttributes, its body is run with the fuel of the statement *)
Lemma step_range k e f g s u n cs acc fr :
  exec (S (S (S (S (S (S (S (S (S (S (S (S (S (S (S (S (S (S (S (S (S (k)))))))))))))))))))))) (st_of (rec_of e f g s u n cs) acc fr) (nth 7 getsaml_body (BReturn BNil)) =
  range_loop (fun s' => run_st (S (S (S (S (S (S (S (S (S (S (S (S (S (S (S (S (S (S (S (S (k))))))))))))))))))))) s' loop_body) "name" "attr" cs (st_of (rec_of e f g s u n cs) acc fr).
Proof. reflexivity. Qed.

(** one iteration, from a state in which the loop variables are not yet / already defined *)
Lemma body_first k rec acc fr c :
  run_st (S (S (S (S (S (S (S (S (S (S (S (S (S (S (S (S (S (S (S (S (k))))))))))))))))))))) {| s_env := env_set (env_set (s_env (st_of rec acc fr)) "name" (DStr (fst (fst (fst c))))) "attr"
                           (DObj "provider.CustomAttribute" [("FriendlyName", DStr (snd (fst (fst c)))); ("NameFormat", DStr (snd (fst c))); ("AttributeValue", DList (map DStr (snd c)))]);
                s_fresh := fr |} loop_body
  = Some (RNext (st_in rec (acc ++ [custom_dattr c]) (DStr (fst (fst (fst c))))
                   (DObj "provider.CustomAttribute" [("FriendlyName", DStr (snd (fst (fst c)))); ("NameFormat", DStr (snd (fst c))); ("AttributeValue", DList (map DStr (snd c)))]) fr)).
Proof. destruct c as [[[n0 f0] nf0] vs0]. vm_compute. reflexivity. Qed.
Lemma body_next k rec acc fr n1 a1 c :
  run_st (S (S (S (S (S (S (S (S (S (S (S (S (S (S (S (S (S (S (S (S (k))))))))))))))))))))) {| s_env := env_set (env_set (s_env (st_in rec acc n1 a1 fr)) "name" (DStr (fst (fst (fst c))))) "attr"
                           (DObj "provider.CustomAttribute" [("FriendlyName", DStr (snd (fst (fst c)))); ("NameFormat", DStr (snd (fst c))); ("AttributeValue", DList (map DStr (snd c)))]);
                s_fresh := fr |} loop_body
  = Some (RNext (st_in rec (acc ++ [custom_dattr c]) (DStr (fst (fst (fst c))))
                   (DObj "provider.CustomAttribute" [("FriendlyName", DStr (snd (fst (fst c)))); ("NameFormat", DStr (snd (fst c))); ("AttributeValue", DList (map DStr (snd c)))]) fr)).
Proof. destruct c as [[[n0 f0] nf0] vs0]. vm_compute. reflexivity. Qed.

Lemma loop_next k rec fr cs : forall acc n1 a1,
  exists n2 a2, range_loop (fun s' => run_st (S (S (S (S (S (S (S (S (S (S (S (S (S (S (S (S (S (S (S (S (k))))))))))))))))))))) s' loop_body) "name" "attr" (map custom_dpair cs) (st_in rec acc n1 a1 fr)
                = Some (RNext (st_in rec (acc ++ map custom_dattr cs) n2 a2 fr)).
Proof.
  induction cs as [|c cs IH]; intros acc n1 a1.
  - exists n1, a1. cbn [map range_loop]. now rewrite app_nil_r.
  - cbn [map range_loop]. destruct c as [[[n0 f0] nf0] vs0]. cbn [custom_dpair]. rewrite unpair_pair.
    pose proof (body_next k rec acc fr n1 a1 (n0, f0, nf0, vs0)) as B. cbn [fst snd] in B.
    cbn [s_fresh st_in]. cbn [s_fresh st_in] in B. rewrite B.
    destruct (IH (acc ++ [custom_dattr (n0, f0, nf0, vs0)]) (DStr n0)
                (DObj "provider.CustomAttribute" [("FriendlyName", DStr f0); ("NameFormat", DStr nf0); ("AttributeValue", DList (map DStr vs0))])) as (n2 & a2 & E).
    exists n2, a2. rewrite E. now rewrite <- app_assoc.
Qed.
Lemma loop_all k rec fr cs acc :
  exists s', range_loop (fun s' => run_st (S (S (S (S (S (S (S (S (S (S (S (S (S (S (S (S (S (S (S (S (k))))))))))))))))))))) s' loop_body) "name" "attr" (map custom_dpair cs) (st_of rec acc fr) = Some (RNext s') /\
             env_get (s_env s') "attrs" = Some (DList (acc ++ map custom_dattr cs)) /\ s_fresh s' = fr.
Proof.
  destruct cs as [|c cs].
  - exists (st_of rec acc fr). cbn [map range_loop]. rewrite app_nil_r. repeat split.
  - cbn [map range_loop]. destruct c as [[[n0 f0] nf0] vs0]. cbn [custom_dpair]. rewrite unpair_pair.
    pose proof (body_first k rec acc fr (n0, f0, nf0, vs0)) as B. cbn [fst snd] in B.
    cbn [s_fresh st_of]. cbn [s_fresh st_of] in B. rewrite B.
    destruct (loop_next k rec fr cs (acc ++ [custom_dattr (n0, f0, nf0, vs0)]) (DStr n0)
                (DObj "provider.CustomAttribute" [("FriendlyName", DStr f0); ("NameFormat", DStr nf0); ("AttributeValue", DList (map DStr vs0))])) as (n2 & a2 & E).
    eexists. split; [exact E|]. cbn. rewrite <- app_assoc. repeat split.
Qed.

Lemma step_ret k s' d : env_get (s_env s') "attrs" = Some d ->
  exec (S (S (S (S (S (S (S (S (S (S (S (S (S (S (S (S (S (S (S (S (k))))))))))))))))))))) s' (nth 8 getsaml_body (BReturn BNil)) = Some (RRet d (s_fresh s')).
Proof. intro H. change (nth 8 getsaml_body (BReturn BNil)) with (BReturn (BVar "attrs")). cbn. rewrite H. reflexivity. Qed.

Lemma body_split : getsaml_body = map (fun j => nth j getsaml_body (BReturn BNil)) [0; 1; 2; 3; 4; 5; 6; 7; 8].
Proof. reflexivity. Qed.
End G.

Theorem getsaml_fuel o k e f g s u n (cs : list dcustom) fr :
  call builders o (S (S (S (S (S (S (S (S (S (S (S (S (S (S (S (S (S (S (S (S (S (S (S (S (S (S (S (S (S (S (k))))))))))))))))))))))))))))))) "GetSAML" (Some (attributes_rec e f g s u n (map custom_dpair cs))) [] fr =
  Some (DList (std_attr "Email" e ++ std_attr "SurName" s ++ std_attr "FirstName" g ++ std_attr "FullName" f ++
               std_attr "UserName" n ++ std_attr "UserID" u ++ map custom_dattr cs), fr).
Proof.
  rewrite call_getsaml, run_unfold, body_split. cbn [map].
  fold (rec_of e f g s u n (map custom_dpair cs)).
  rewrite run_st_cons, step_let.
  rewrite run_st_cons, step_std1.
  rewrite run_st_cons, step_std2.
  rewrite run_st_cons, step_std3.
  rewrite run_st_cons, step_std4.
  rewrite run_st_cons, step_std5.
  rewrite run_st_cons, step_std6.
  rewrite run_st_cons, step_range.
  destruct (loop_all o k (rec_of e f g s u n (map custom_dpair cs)) fr cs
              ((((((([] ++ std_attr "Email" e) ++ std_attr "SurName" s) ++ std_attr "FirstName" g) ++ std_attr "FullName" f) ++ std_attr "UserName" n) ++ std_attr "UserID" u)))
    as (s' & E & Ha & Hf).
  rewrite E. rewrite run_st_cons. rewrite (step_ret _ _ _ _ Ha). rewrite Hf.
  cbn [app]. now rewrite <- !app_assoc.
Qed.

(** with the fuel the correspondence and the other theorems use *)
Theorem getsaml_any e f g s u n (cs : list dcustom) fr issue until :
  built_value "GetSAML" (Some (attributes_rec e f g s u n (map custom_dpair cs))) [] fr issue until =
  Some (DList (std_attr "Email" e ++ std_attr "SurName" s ++ std_attr "FirstName" g ++ std_attr "FullName" f ++
               std_attr "UserName" n ++ std_attr "UserID" u ++ map custom_dattr cs), fr).
Proof. exact (getsaml_fuel (clock issue until) 370 e f g s u n cs fr). Qed.

(** exactly the user's attributes: an element of the result is one of the non-empty standard attributes or the attribute made
    of one of the custom attributes; nothing else, and each custom attribute once per entry, in order *)
Corollary getsaml_members e f g s u n (cs : list dcustom) fr issue until :
  exists l, built_value "GetSAML" (Some (attributes_rec e f g s u n (map custom_dpair cs))) [] fr issue until = Some (DList l, fr) /\
    (forall x, In x l <-> In x (std_attr "Email" e ++ std_attr "SurName" s ++ std_attr "FirstName" g ++ std_attr "FullName" f ++ std_attr "UserName" n ++ std_attr "UserID" u)
                          \/ exists c, In c cs /\ x = custom_dattr c) /\
    skipn (List.length l - List.length cs) l = map custom_dattr cs.
Proof.
  eexists. split; [apply getsaml_any|]. split.
  - intro x. rewrite !app_assoc. rewrite in_app_iff, in_map_iff. rewrite <- !app_assoc.
    split; intros [H|H]; auto; right; destruct H as (c & A & B); exists c; auto.
  - rewrite !app_assoc. rewrite app_length, map_length.
    replace (_ + List.length cs - List.length cs) with (List.length (((((std_attr "Email" e ++ std_attr "SurName" s) ++ std_attr "FirstName" g) ++ std_attr "FullName" f) ++ std_attr "UserName" n) ++ std_attr "UserID" u))
      by (rewrite PeanoNat.Nat.add_sub; reflexivity).
    rewrite skipn_app, PeanoNat.Nat.sub_diag, skipn_all. reflexivity.
Qed.

Example getsaml_two_custom :
  built_value "GetSAML" (Some (attributes_rec (b "a@b") [] [] [] [] (b "u") (map custom_dpair [(b "groups", b "G", [], [b "x"; b "y"]); (b "role", [], b "urn:f", [])]))) [] [] [] [] =
  Some (DList (std_attr "Email" (b "a@b") ++ std_attr "UserName" (b "u") ++ [custom_dattr (b "groups", b "G", [], [b "x"; b "y"]); custom_dattr (b "role", [], b "urn:f", [])]), []).
Proof. vm_compute. reflexivity. Qed.
