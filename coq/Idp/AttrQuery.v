(** Model of attributeQueryHandleFunc (pkg/provider/attribute_query.go, response.go:makeAttributeQueryResponse)
    over the chain go2v extracts ([Gen.Facts.attrquery_steps]). *)
From Saml Require Import Base.Bytes Idp.FactTypes Gen.Facts Idp.Sso Idp.Callback Core.Attrs.

Record aquery := { aq_id : bytes; aq_issuer : option bytes; aq_nameid : option bytes; aq_destination : bytes;
                   aq_attrs : list (bytes * bytes)   (* requested (Name, NameFormat) *); aq_signature : option sig_info }.
Record amsg := { am_in_response_to : bytes; am_issuer : bytes; am_audience : bytes; am_nameid : bytes; am_attrs : list attr }.
Inductive areply := ASoap (m : amsg) | AHttp (code : Z).

Inductive atag := ATReadBody | ATDecode | ATLookupSP | ATCertCheck | ATVerifySig | ATDestination | ATUserinfo | ATSign | ATUnknown.
Open Scope string_scope.
Definition atag_of (f : stepfact) : atag :=
  let is cs k := strs_eqb (callees f) cs && strs_eqb (lits f) [] && strs_eqb (consts f) [] && strs_eqb (writes f) [] && kind_eqb (sk f) k in
  if is ["ioutil.ReadAll"] KLogicStep then ATReadBody
  else if is ["xml.DecodeAttributeQuery"] KLogicStep then ATDecode
  else if is ["p.GetServiceProvider"] KLogicStep then ATLookupSP
  else if is ["certificateCheckNecessary"; "checkCertificate"] KConditionalLogicStep then ATCertCheck
  else if is ["signaturePostProvided"; "verifyPostSignature"] KConditionalLogicStep then ATVerifySig
  else if is ["verifyRequestDestinationOfAttrQuery"] KLogicStep then ATDestination
  else if is ["makeAttributeQueryResponse"; "p.GetEntityID"; "p.storage.SetUserinfoWithLoginName"; "sp.GetEntityID"] KLogicStep then ATUserinfo
  else if is ["createPostSignature"; "getResponseCert"] KLogicStep then ATSign
  else ATUnknown.
Close Scope string_scope.

(** makeAttributeQueryResponse: the user's attributes whose (Name, NameFormat) matches a requested attribute -- once
    per matching request entry --, all of them when nothing was requested *)
Definition filter_attrs (requested : list (bytes * bytes)) (l : list attr) : list attr :=
  match requested with
  | [] => l
  | _ => flat_map (fun a => flat_map (fun q => if beq (at_name a) (fst q) && beq (at_format a) (snd q) then [a] else []) requested) l
  end.

Record astate := { q_query : option aquery; q_sp : option sp_rec; q_resp : option amsg }.
Definition a0 : astate := {| q_query := None; q_sp := None; q_resp := None |}.
Inductive ares := APass (s : astate) | AFail | APanic.

Section AttrQuery.
Variable decode : option aquery.                          (* xml.DecodeAttributeQuery on the body; None = error *)
Variable lookup : bytes -> option sp_rec.
Variable verify_sig : sp_rec -> bool.                      (* verifyPostSignature on the raw body *)
Variable attr_locs : list bytes.                           (* AttributeService locations of the AttributeAuthorityDescriptor *)
Variable userinfo : bytes -> option user.                  (* storage.SetUserinfoWithLoginName *)
Variable cert_ok1 cert_ok2 sign_ok : bool.                 (* getResponseCert before the chain / in the signing step; createPostSignature *)
Variable entity_id : bytes.

Definition sig_provided (s : option sig_info) : bool := match s with Some g => negb (is_empty (sg_value g)) | None => false end.
Definition cert_necessary (s : option sig_info) (sp : sp_rec) : bool :=
  match s with Some g => match sg_keyinfo g with Some _ => negb (Nat.eqb (length (sp_keydescs sp)) 0) | None => false end | None => false end.
Definition cert_matches (s : option sig_info) (sp : sp_rec) : bool :=
  if Nat.eqb (length (sp_keydescs sp)) 0 then false else
  match s with
  | Some g => match sg_keyinfo g with
              | Some cs => if Nat.eqb (length cs) 0 then false else existsb (fun kd => existsb (fun c => bmem c cs) kd) (sp_keydescs sp)
              | None => false end
  | None => false end.

Definition astep (t : atag) (s : astate) : ares :=
  match t with
  | ATReadBody => APass s
  | ATDecode => match decode with
                | Some q => match aq_issuer q, aq_nameid q with
                            | Some _, Some _ => APass {| q_query := Some q; q_sp := q_sp s; q_resp := q_resp s |}
                            | _, _ => AFail end
                | None => AFail end
  | ATLookupSP => match q_query s with
                  | Some q => match aq_issuer q with
                              | Some i => match lookup i with Some sp => APass {| q_query := q_query s; q_sp := Some sp; q_resp := q_resp s |} | None => AFail end
                              | None => APanic end
                  | None => APanic end
  | ATCertCheck => match q_query s, q_sp s with
                   | Some q, Some sp => if cert_necessary (aq_signature q) sp then (if cert_matches (aq_signature q) sp then APass s else AFail) else APass s
                   | _, _ => APanic end
  | ATVerifySig => match q_query s, q_sp s with
                   | Some q, Some sp => if sig_provided (aq_signature q) then (if verify_sig sp then APass s else AFail) else APass s
                   | Some q, None => if sig_provided (aq_signature q) then APanic else APass s
                   | None, _ => APanic end
  | ATDestination => match q_query s with
                     | Some q => if is_empty (aq_destination q) || bmem (aq_destination q) attr_locs then APass s else AFail
                     | None => APanic end
  | ATUserinfo => match q_query s, q_sp s with
                  | Some q, Some sp =>
                      match aq_nameid q with
                      | Some n => match userinfo n with
                                  | Some u => APass {| q_query := q_query s; q_sp := q_sp s;
                                       q_resp := Some {| am_in_response_to := aq_id q; am_issuer := entity_id; am_audience := sp_entity sp;
                                                         am_nameid := nameid_of u; am_attrs := filter_attrs (aq_attrs q) (attrs_of u) |} |}
                                  | None => AFail end
                      | None => APanic end
                  | _, _ => APanic end
  | ATSign => match q_resp s with
              | Some _ => if cert_ok2 && sign_ok then APass s else AFail
              | None => if cert_ok2 then APanic else AFail end
  | ATUnknown => APanic
  end.

Inductive aoutcome := ADone (out : list areply) | APanicked.
Fixpoint arun (c : list stepfact) (s : astate) : aoutcome :=
  match c with
  | [] => match q_resp s with Some m => ADone [ASoap m] | None => APanicked end
  | f :: r => match astep (atag_of f) s with
              | APass s' => arun r s'
              | AFail => match sf f with FHttp code => ADone [AHttp code] | _ => ADone [] end
              | APanic => APanicked
              end
  end.
Definition attrquery_handler (c : list stepfact) : aoutcome :=
  if negb cert_ok1 then ADone [AHttp 500] else arun c a0.
End AttrQuery.
