(** From the decoded AuthnRequest struct to the record the SSO model works on: which fields of samlp.AuthnRequestType the
    handler reads, by name (positions come from the generated schema).  Composed with Xml/Unmarshal.v this gives the
    [decode] oracle of the SSO model as a function of the request DOCUMENT (its resolved element tree):
    [authn_of_doc]; the harness checks that function against what the handler's own decoder produced, on every request
    of the SSO streams. *)
From Saml Require Import Base.Bytes Xml.SchemaTypes Xml.Schema Gen.Schema Idp.BuilderTypes Idp.Builder Xml.Unmarshal Idp.Sso.
Local Open Scope string_scope.

(** the field of a struct value, by Go field name *)
Definition field (sch : schema) (ty : string) (v : gval) (name : string) : option gval :=
  match lookup sch ty, v with
  | Some (SStruct fs), VStruct vs =>
      match find_idx (fun f => String.eqb (g_name f) name) fs 0 with Some i => nth_error vs i | None => None end
  | _, _ => None
  end.
Definition str_field (sch : schema) (ty : string) (v : gval) (name : string) : option bytes :=
  match field sch ty v name with Some (VStr s) => Some s | _ => None end.
(** a pointer field: None when nil *)
Definition ptr_field (sch : schema) (ty : string) (v : gval) (name : string) : option (option gval) :=
  match field sch ty v name with Some VNil => Some None | Some (VPtr x) => Some (Some x) | _ => None end.

(** the certificate text the models compare: without white space (checkCertificate compares modulo white space) *)
Definition cert_text (s : bytes) : bytes := filter (fun c => negb (is_blank c || Nat.eqb (nat_of_ascii c) 11 || Nat.eqb (nat_of_ascii c) 12)) s.

Definition sig_of (sch : schema) (g : gval) : option sig_info :=
  match field sch "xml_dsig.SignatureType" g "SignatureValue", ptr_field sch "xml_dsig.SignatureType" g "KeyInfo" with
  | Some sv, Some ki =>
      match str_field sch "xml_dsig.SignatureValueType" sv "Text" with
      | Some value =>
          match ki with
          | None => Some {| sg_keyinfo := None; sg_value := value |}
          | Some k => match field sch "xml_dsig.KeyInfoType" k "X509Data" with
                      | Some (VList xs) =>
                          match (fix go (xs : list gval) : option (list bytes) :=
                                   match xs with
                                   | [] => Some []
                                   | x :: r => match str_field sch "xml_dsig.X509DataType" x "X509Certificate", go r with
                                               | Some c, Some cs => Some (cert_text c :: cs) | _, _ => None end
                                   end) xs with
                          | Some cs => Some {| sg_keyinfo := Some cs; sg_value := value |}
                          | None => None end
                      | _ => None end
          end
      | None => None
      end
  | _, _ => None
  end.

Definition authn_of (sch : schema) (g : gval) : option authn :=
  let ty := "samlp.AuthnRequestType" in
  match str_field sch ty g "Id", str_field sch ty g "Version", str_field sch ty g "Destination", str_field sch ty g "ProtocolBinding",
        ptr_field sch ty g "Issuer", ptr_field sch ty g "Conditions", ptr_field sch ty g "Signature" with
  | Some id, Some ver, Some dst, Some bnd, Some iss, Some cnd, Some sg =>
      match (match iss with None => Some None | Some i => match str_field sch "saml.NameIDType" i "Text" with Some t => Some (Some t) | None => None end end),
            (match cnd with None => Some None
                          | Some c => match str_field sch "saml.ConditionsType" c "NotBefore", str_field sch "saml.ConditionsType" c "NotOnOrAfter" with
                                      | Some nb, Some noa => Some (Some (nb, noa)) | _, _ => None end end),
            (match sg with None => Some None | Some s => match sig_of sch s with Some x => Some (Some x) | None => None end end) with
      | Some issuer, Some conds, Some sig =>
          Some {| a_id := id; a_version := ver; a_destination := dst; a_binding := bnd; a_issuer := issuer; a_conditions := conds; a_signature := sig |}
      | _, _, _ => None
      end
  | _, _, _, _, _, _, _ => None
  end.

(** DecodeAuthNRequest on the inflated payload, as a function of its element tree: unmarshalDocument + the projection *)
Definition authn_of_doc (trailing : bool) (doc : rnode) : option authn :=
  if trailing then None else
  match unmarshal_root xml_schema "samlp.AuthnRequestType" doc with
  | Some g => authn_of xml_schema g
  | None => None
  end.

Definition sig_eqb (x y : sig_info) : bool :=
  option_eqb (list_eqb beq) (sg_keyinfo x) (sg_keyinfo y) && beq (sg_value x) (sg_value y).
Definition authn_eqb (x y : authn) : bool :=
  beq (a_id x) (a_id y) && beq (a_version x) (a_version y) && beq (a_destination x) (a_destination y) && beq (a_binding x) (a_binding y) &&
  option_eqb beq (a_issuer x) (a_issuer y) &&
  option_eqb (fun p q => beq (fst p) (fst q) && beq (snd p) (snd q)) (a_conditions x) (a_conditions y) &&
  option_eqb sig_eqb (a_signature x) (a_signature y).

(** * what the projection reads (for every decoded value) *)
(** The handler's view of a request is determined by seven fields of the decoded struct; everything else the document may
    contain (Extensions, Subject, NameIDPolicy, Scoping, unknown elements and attributes, AssertionConsumerServiceURL /
    Index ...) cannot influence the SSO model: two decoded values that agree on those fields give the same record *)
Theorem authn_of_depends_on sch g1 g2 :
  let ty := "samlp.AuthnRequestType" in
  (forall n, In n ["Id"; "Version"; "Destination"; "ProtocolBinding"; "Issuer"; "Conditions"; "Signature"] -> field sch ty g1 n = field sch ty g2 n) ->
  authn_of sch g1 = authn_of sch g2.
Proof.
  intros ty H. unfold authn_of, str_field, ptr_field. fold ty.
  rewrite (H "Id") by (cbn; auto 10). rewrite (H "Version") by (cbn; auto 10). rewrite (H "Destination") by (cbn; auto 10).
  rewrite (H "ProtocolBinding") by (cbn; auto 10). rewrite (H "Issuer") by (cbn; auto 10). rewrite (H "Conditions") by (cbn; auto 10).
  rewrite (H "Signature") by (cbn; auto 10). reflexivity.
Qed.

(** a document whose root is not an AuthnRequest in the protocol name space is refused, whatever it contains; so is any
    document followed by further content *)
Definition areq_fields : list gfield :=
  Eval vm_compute in match lookup xml_schema "samlp.AuthnRequestType" with Some (SStruct fs) => fs | _ => [] end.
Lemma areq_lookup : lookup xml_schema "samlp.AuthnRequestType" = Some (SStruct areq_fields).
Proof. vm_compute. reflexivity. Qed.
Lemma areq_zero : exists vs, zero_val 20 xml_schema (TNamed "samlp.AuthnRequestType") = Some (VStruct vs).
Proof. eexists. vm_compute. reflexivity. Qed.
Lemma areq_xmlname : xmlname_tag areq_fields = Some ("urn:oasis:names:tc:SAML:2.0:protocol", "AuthnRequest") /\ find_idx is_xmlname_field areq_fields 0 = Some 0.
Proof. split; vm_compute; reflexivity. Qed.

Theorem wrong_root_refused sp lc attrs kids :
  (lc <> b "AuthnRequest" \/ sp <> b "urn:oasis:names:tc:SAML:2.0:protocol") -> authn_of_doc false (RElem sp lc attrs kids) = None.
Proof.
  intro H. unfold authn_of_doc, unmarshal_root. destruct areq_zero as [vs Ez]. rewrite Ez.
  destruct areq_xmlname as [Etag Eidx].
  rewrite (um_wrong_name 39 xml_schema "samlp.AuthnRequestType" areq_fields vs sp lc attrs kids); [reflexivity| |exact areq_lookup|].
  - unfold base_type. now rewrite areq_lookup.
  - unfold xmlname_ok. rewrite Eidx, Etag. cbn [String.eqb orb]. destruct H as [H|H].
    + assert (E : beq (b "AuthnRequest") lc = false) by (apply beq_neq; congruence). now rewrite E.
    + assert (E : beq (b "urn:oasis:names:tc:SAML:2.0:protocol") sp = false) by (apply beq_neq; congruence). rewrite E. apply andb_false_r.
Qed.
Theorem trailing_content_refused doc : authn_of_doc true doc = None.
Proof. reflexivity. Qed.

(** non-vacuity: a request with prefixes, an unknown element and a repeated Issuer; the handler sees the LAST Issuer text
    (a repeated element is unmarshalled into the same field again) *)
Example authn_of_doc_example :
  let p := b "urn:oasis:names:tc:SAML:2.0:protocol" in let a := b "urn:oasis:names:tc:SAML:2.0:assertion" in
  option_map (fun r => (a_id r, a_destination r, a_issuer r))
    (authn_of_doc false (RElem p (b "AuthnRequest") [(b "xmlns", b "samlp", p); ([], b "ID", b "_1"); ([], b "Version", b "2.0"); ([], b "Destination", b "https://idp/SSO"); ([], b "Unknown", b "x")]
       [RText (b " "); RElem a (b "Issuer") [] [RText (b "first")]; RElem (b "urn:x") (b "other") [] [RText (b "ignored")]; RElem a (b "Issuer") [] [RText (b "second")]]))
  = Some (b "_1", b "https://idp/SSO", Some (b "second")).
Proof. vm_compute. reflexivity. Qed.

(** decoding is live on the canonical serialisation: a request consisting of the root with ID, Version, IssueInstant,
    Destination and ProtocolBinding attributes (in any name-space-prefix spelling: names arrive resolved) and an Issuer child,
    with any values, decodes to the record holding exactly those values *)
Theorem canonical_document_decodes id ver instant dest binding issuer :
  let p := b "urn:oasis:names:tc:SAML:2.0:protocol" in let a := b "urn:oasis:names:tc:SAML:2.0:assertion" in
  authn_of_doc false (RElem p (b "AuthnRequest")
     [(b "xmlns", b "samlp", p); (b "xmlns", b "saml", a); ([], b "ID", id); ([], b "Version", ver); ([], b "IssueInstant", instant);
      ([], b "Destination", dest); ([], b "ProtocolBinding", binding)]
     [RElem a (b "Issuer") [] [RText issuer]])
  = Some {| a_id := id; a_version := ver; a_destination := dest; a_binding := binding; a_issuer := Some issuer; a_conditions := None; a_signature := None |}.
Proof. vm_compute. reflexivity. Qed.

(** * what the schema does not name cannot influence the handler
    Attributes and child elements of the root that match no field of samlp.AuthnRequestType (extension attributes, elements
    from other vocabularies, anything an attacker may add at the end of the attribute list / content) leave the decoded
    request, hence everything the SSO model does, unchanged *)
Definition areq_infos : list (option finfo) :=
  Eval vm_compute in match infos xml_schema areq_fields with Some l => l | None => [] end.
Lemma areq_infos_ok : infos xml_schema areq_fields = Some areq_infos.
Proof. vm_compute. reflexivity. Qed.
Lemma areq_shape : existsb (mode_is MInner) areq_infos = false /\ find_idx (mode_is MCharData) areq_infos 0 = None.
Proof. split; vm_compute; reflexivity. Qed.

Theorem unknown_content_ignored sp lc attrs kids extra_attrs extra_kids :
  forallb (attr_unmatched areq_infos) extra_attrs = true ->
  forallb (fun n => match n with RElem s l _ _ => elem_unmatched areq_infos s l | RText _ => true end) extra_kids = true ->
  authn_of_doc false (RElem sp lc (attrs ++ extra_attrs) (kids ++ extra_kids)) = authn_of_doc false (RElem sp lc attrs kids).
Proof.
  intros Ha Hk. unfold authn_of_doc, unmarshal_root. destruct areq_zero as [vs Ez]. rewrite Ez.
  assert (Hb : base_type xml_schema (TNamed "samlp.AuthnRequestType") = TNamed "samlp.AuthnRequestType") by (unfold base_type; now rewrite areq_lookup).
  rewrite !(um_struct_step 39 xml_schema "samlp.AuthnRequestType" areq_fields vs sp lc _ _ Hb areq_lookup).
  destruct areq_shape as [Hin Hcd].
  now rewrite (um_struct_ignores_unknown xml_schema (um 39 xml_schema) areq_fields vs sp lc attrs kids extra_attrs extra_kids areq_infos areq_infos_ok Hin Hcd Ha Hk).
Qed.

Example unknown_content_example :
  (* a field whose tag names no name space matches that local name in ANY name space: this attribute IS read *)
  attr_unmatched areq_infos (b "urn:ext", b "Destination", b "https://evil/") = false /\
  attr_unmatched areq_infos ([], b "destination", b "https://evil/") = true /\
  attr_unmatched areq_infos (b "xmlns", b "x", b "urn:x") = true /\
  elem_unmatched areq_infos (b "urn:x") (b "Evil") = true /\
  (* the Issuer field names the assertion name space: an Issuer element of another vocabulary is ignored ... *)
  elem_unmatched areq_infos (b "urn:x") (b "Issuer") = true /\
  (* ... while Subject (tag without name space) would be read from any vocabulary *)
  elem_unmatched areq_infos (b "urn:x") (b "Subject") = false.
Proof. repeat split; vm_compute; reflexivity. Qed.
