(** C11: routes, advertised locations and entity ID of a provider, interpreted from the expressions go2v extracts
    (router_calls, idp_routes, idp_metadata_kv, entity_metadata_kv, entity_id_expr, *_response_kv) over the generated
    Endpoint functions of Gen.Pure (Endpoint_Relative, Endpoint_Absolute). *)
From Saml Require Import Base.Bytes Idp.FactTypes Gen.Facts Gen.Pure.
From Coq Require Import String.
Open Scope string_scope.

Record rcfg := { c_metadata : Endpoint; c_cert : Endpoint; c_callback : Endpoint; c_sso : Endpoint; c_slo : Endpoint; c_attr : Endpoint }.
Inductive handler := HHealth | HReady | HMetadata | HCert | HCallback | HSSO | HSLO | HAttr.
Definition handler_eqb (x y : handler) : bool :=
  match x, y with HHealth, HHealth | HReady, HReady | HMetadata, HMetadata | HCert, HCert | HCallback, HCallback | HSSO, HSSO | HSLO, HSLO | HAttr, HAttr => true | _, _ => false end.

(** the configuration: an endpoint left unset takes the default path (endpointConfigToEndpoints, NewProvider) *)
Record rconf := { k_metadata : option Endpoint; k_cert : option Endpoint; k_callback : option Endpoint; k_sso : option Endpoint; k_slo : option Endpoint; k_attr : option Endpoint }.
Definition dflt (path : bytes) (o : option Endpoint) : Endpoint := match o with Some e => e | None => {| Endpoint_path := path; Endpoint_url := [] |} end.
Definition effective (k : rconf) : rcfg :=
  {| c_metadata := dflt c_DefaultMetadataEndpoint (k_metadata k); c_cert := dflt c_DefaultCertificateEndpoint (k_cert k);
     c_callback := dflt c_DefaultCallbackEndpoint (k_callback k); c_sso := dflt c_DefaultSingleSignOnEndpoint (k_sso k);
     c_slo := dflt c_DefaultSingleLogOutEndpoint (k_slo k); c_attr := dflt c_DefaultAttributeEndpoint (k_attr k) |}.
Definition defaults_ok : bool :=
  list_eqb (fun x y => String.eqb (fst x) (fst y) && String.eqb (snd x) (snd y)) endpoint_defaults
   [("certificateEndpoint", "NewEndpoint(DefaultCertificateEndpoint)"); ("callbackEndpoint", "NewEndpoint(DefaultCallbackEndpoint)");
    ("singleSignOnEndpoint", "NewEndpoint(DefaultSingleSignOnEndpoint)"); ("singleLogoutEndpoint", "NewEndpoint(DefaultSingleLogOutEndpoint)");
    ("attributeEndpoint", "NewEndpoint(DefaultAttributeEndpoint)"); ("assign:endpoints.certificateEndpoint", "*conf.Certificate");
    ("assign:endpoints.callbackEndpoint", "*conf.Callback"); ("assign:endpoints.singleSignOnEndpoint", "*conf.SingleSignOn");
    ("assign:endpoints.singleLogoutEndpoint", "*conf.SingleLogOut"); ("assign:endpoints.attributeEndpoint", "*conf.Attribute")].

Section Cfg.
Variable cfg : rcfg.

Definition ep_of (s : string) : option Endpoint :=
  if String.eqb s "p.metadataEndpoint" then Some (c_metadata cfg)
  else if String.eqb s "p.endpoints.certificateEndpoint" || String.eqb s "endpoints.certificateEndpoint" then Some (c_cert cfg)
  else if String.eqb s "p.endpoints.callbackEndpoint" || String.eqb s "endpoints.callbackEndpoint" then Some (c_callback cfg)
  else if String.eqb s "p.endpoints.singleSignOnEndpoint" || String.eqb s "endpoints.singleSignOnEndpoint" then Some (c_sso cfg)
  else if String.eqb s "p.endpoints.singleLogoutEndpoint" || String.eqb s "endpoints.singleLogoutEndpoint" then Some (c_slo cfg)
  else if String.eqb s "p.endpoints.attributeEndpoint" || String.eqb s "endpoints.attributeEndpoint" then Some (c_attr cfg)
  else None.
Fixpoint strip_suffix_rev (suf s : list Ascii.ascii) : option (list Ascii.ascii) :=
  match suf, s with
  | [], _ => Some s
  | c :: suf', d :: s' => if Ascii.eqb c d then strip_suffix_rev suf' s' else None
  | _ :: _, [] => None
  end.
Definition strip_suffix (suf s : string) : option string :=
  match strip_suffix_rev (rev (list_ascii_of_string suf)) (rev (list_ascii_of_string s)) with
  | Some r => Some (string_of_list_ascii (rev r)) | None => None end.

(** a route path expression *)
Definition path_of (s : string) : option bytes :=
  if String.eqb s "healthEndpoint" then Some c_healthEndpoint
  else if String.eqb s "readinessEndpoint" then Some c_readinessEndpoint
  else match strip_suffix ".Relative()" s with
       | Some e => option_map Endpoint_Relative (ep_of e)
       | None => None end.
Definition handler_of (s : string) : option handler :=
  if String.eqb s "healthHandler" then Some HHealth else if String.eqb s "readyHandler(p.Probes())" then Some HReady
  else if String.eqb s "p.metadataHandle" then Some HMetadata else if String.eqb s "p.certificateHandleFunc" then Some HCert
  else if String.eqb s "p.callbackHandleFunc" then Some HCallback else if String.eqb s "p.ssoHandleFunc" then Some HSSO
  else if String.eqb s "p.logoutHandleFunc" then Some HSLO else if String.eqb s "p.attributeQueryHandleFunc" then Some HAttr else None.

(** CreateRouter: the registrations in order, the range over GetRoutes() spliced in *)
Fixpoint expand (calls : list (string * string)) : list (string * string) :=
  match calls with
  | [] => []
  | (a, b0) :: r =>
      if String.eqb a "range" then
        (if String.eqb b0 "p.identityProvider.GetRoutes()" then idp_routes else [("?", "?")]) ++
        match r with (x, y) :: r' => if String.eqb x "route.Endpoint" && String.eqb y "route.HandleFunc" then expand r' else ("?", "?") :: expand r | [] => [] end
      else (a, b0) :: expand r
  end.
Fixpoint interp_routes (l : list (string * string)) : option (list (bytes * handler)) :=
  match l with
  | [] => Some []
  | (a, b0) :: r => match path_of a, handler_of b0, interp_routes r with Some p, Some h, Some t => Some ((p, h) :: t) | _, _, _ => None end
  end.
Definition routes_opt : option (list (bytes * handler)) := interp_routes (expand router_calls).
(** what the current source registers *)
Definition routes : list (bytes * handler) :=
  [(c_healthEndpoint, HHealth); (c_readinessEndpoint, HReady); (Endpoint_Relative (c_metadata cfg), HMetadata); (Endpoint_Relative (c_cert cfg), HCert);
   (Endpoint_Relative (c_callback cfg), HCallback); (Endpoint_Relative (c_sso cfg), HSSO); (Endpoint_Relative (c_slo cfg), HSLO); (Endpoint_Relative (c_attr cfg), HAttr)].
Lemma routes_from_source : routes_opt = Some routes.
Proof. reflexivity. Qed.

(** gorilla/mux: the first registered route whose path equals the request path *)
Fixpoint lookup (p : bytes) (l : list (bytes * handler)) : option handler :=
  match l with [] => None | (q, h) :: r => if beq q p then Some h else lookup p r end.

(** getMetadata: the advertised locations *)
Variable issuer : bytes.
Inductive service := SvcSSO | SvcSLO | SvcAttr.
Definition svc_of_key (k : string) : option service :=
  if String.eqb k "SingleSignOnService/Location" then Some SvcSSO else if String.eqb k "SingleLogoutService/Location" then Some SvcSLO
  else if String.eqb k "AttributeService/Location" then Some SvcAttr else None.
Definition loc_of (s : string) : option bytes :=
  match strip_suffix ".Absolute(issuer)" s with Some e => option_map (fun x => Endpoint_Absolute x issuer) (ep_of e) | None => None end.
Fixpoint interp_adv (l : list (string * string)) : option (list (service * bytes)) :=
  match l with
  | [] => Some []
  | (k, v) :: r => match svc_of_key k with
                   | Some s => match loc_of v, interp_adv r with Some u, Some t => Some ((s, u) :: t) | _, _ => None end
                   | None => interp_adv r end
  end.
Definition advertised_opt := interp_adv idp_metadata_kv.
Definition advertised : list (service * bytes) :=
  [(SvcSSO, Endpoint_Absolute (c_sso cfg) issuer); (SvcSSO, Endpoint_Absolute (c_sso cfg) issuer);
   (SvcSLO, Endpoint_Absolute (c_slo cfg) issuer); (SvcSLO, Endpoint_Absolute (c_slo cfg) issuer); (SvcAttr, Endpoint_Absolute (c_attr cfg) issuer)].
Lemma advertised_from_source : advertised_opt = Some advertised.
Proof. reflexivity. Qed.
Definition endpoint_of (s : service) : Endpoint := match s with SvcSSO => c_sso cfg | SvcSLO => c_slo cfg | SvcAttr => c_attr cfg end.
Definition handler_for (s : service) : handler := match s with SvcSSO => HSSO | SvcSLO => HSLO | SvcAttr => HAttr end.

(** entity ID of the metadata document and Issuer of every protocol message: the same expression *)
Fixpoint kv_get (k : string) (l : list (string * string)) : option string :=
  match l with [] => None | (a, v) :: r => if String.eqb a k then Some v else kv_get k r end.
Definition entity_id : bytes := Endpoint_Absolute (c_metadata cfg) issuer.
Definition entity_id_sources_ok : bool :=
  match kv_get "return" entity_id_expr, kv_get "EntityID" entity_metadata_kv, kv_get "Issuer" sso_response_kv, kv_get "Issuer" callback_response_kv,
        kv_get "Issuer" logout_response_kv, kv_get "arg1" attrquery_response_args with
  | Some e, Some m, Some s, Some c, Some l, Some a =>
      String.eqb e "p.metadataEndpoint.Absolute(IssuerFromContext(ctx))" && String.eqb m "md.EntityIDType(idp.GetEntityID(ctx))" &&
      String.eqb s "p.GetEntityID(r.Context())" && String.eqb c "p.GetEntityID(r.Context())" && String.eqb l "p.GetEntityID(r.Context())" && String.eqb a "p.GetEntityID(r.Context())"
  | _, _, _, _, _, _ => false end.
(** the advertised flag is the configured string; the certificate in both descriptors, served by the certificate endpoint and
    used for signing comes from the one getter *)
Definition flag_source_ok : bool := match kv_get "WantAuthnRequestsSigned" idp_metadata_kv with Some v => String.eqb v "p.WantAuthRequestsSigned" | None => false end.
Definition cert_source_ok : bool :=
  match kv_get "KeyInfo/X509Data/X509Certificate" idp_metadata_kv, kv_get "getResponseCert" idp_getmetadata_calls, kv_get "p.conf.getMetadata" idp_getmetadata_calls with
  | Some v, Some g, Some m => String.eqb v "base64.StdEncoding.EncodeToString(idpCertData)" && String.eqb g "getResponseCert(ctx, p.storage)" &&
                              String.eqb m "p.conf.getMetadata(p.GetEntityID(ctx), IssuerFromContext(ctx), cert, p.TimeFormat)"
  | _, _, _ => false end.
End Cfg.
Close Scope string_scope.

Lemma sources_ok : entity_id_sources_ok = true /\ flag_source_ok = true /\ cert_source_ok = true /\ defaults_ok = true.
Proof. repeat split; vm_compute; reflexivity. Qed.

(** * theorems *)
Lemma lookup_in p h : forall l, NoDup (map fst l) -> In (p, h) l -> lookup p l = Some h.
Proof.
  induction l as [|[q g] r IH]; intros Hn Hi; [destruct Hi|]. cbn [lookup]. cbn [map fst] in Hn. inversion Hn as [|? ? Hnot Hr]; subst.
  destruct Hi as [E|Hi].
  - inversion E; subst. now rewrite beq_refl.
  - destruct (beq q p) eqn:Eq; [|now apply IH]. apply beq_eq in Eq. subst q. exfalso. apply Hnot. apply in_map_iff. exists (p, h). split; [reflexivity|exact Hi].
Qed.

(** the generated Endpoint functions, in closed form *)
Lemma relative_formula e : Endpoint_Relative e = b "/" ++ go_trim_prefix (Endpoint_path e) (b "/").
Proof. unfold Endpoint_Relative, relativeEndpoint. cbv beta iota zeta delta [bind ret]. reflexivity. Qed.
Lemma absolute_formula e host : Endpoint_Absolute e host =
  if negb (beq (Endpoint_url e) []) then Endpoint_url e else go_trim_suffix host (b "/") ++ Endpoint_Relative e.
Proof.
  rewrite relative_formula. unfold Endpoint_Absolute, absoluteEndpoint, relativeEndpoint. cbv beta iota zeta delta [bind ret Loops.seqc].
  change (b "") with (@nil Ascii.ascii). destruct (negb (beq (Endpoint_url e) [])); reflexivity.
Qed.

(** every advertised, path-configured location is the issuer (without trailing slash) followed by a route this provider
    serves with the corresponding handler -- provided the eight route paths are pairwise distinct *)
Theorem advertised_routes cfg issuer : NoDup (map fst (routes cfg)) ->
  forall s u, In (s, u) (advertised cfg issuer) -> Endpoint_url (endpoint_of cfg s) = [] ->
    u = go_trim_suffix issuer (b "/") ++ Endpoint_Relative (endpoint_of cfg s) /\
    lookup (Endpoint_Relative (endpoint_of cfg s)) (routes cfg) = Some (handler_for s).
Proof.
  intros Hn s u Hin Hu. unfold advertised in Hin. cbn [In] in Hin.
  assert (E : u = Endpoint_Absolute (endpoint_of cfg s) issuer).
  { destruct Hin as [H|[H|[H|[H|[H|[]]]]]]; inversion H; subst; reflexivity. }
  split.
  - rewrite E, absolute_formula, Hu. reflexivity.
  - apply lookup_in; [exact Hn|]. unfold routes. destruct s; cbn [endpoint_of handler_for In]; auto 10.
Qed.
(** an externally configured URL is advertised verbatim *)
Theorem advertised_external cfg issuer s u : In (s, u) (advertised cfg issuer) -> Endpoint_url (endpoint_of cfg s) <> [] -> u = Endpoint_url (endpoint_of cfg s).
Proof.
  intros Hin Hu. unfold advertised in Hin. cbn [In] in Hin.
  assert (E : u = Endpoint_Absolute (endpoint_of cfg s) issuer).
  { destruct Hin as [H|[H|[H|[H|[H|[]]]]]]; inversion H; subst; reflexivity. }
  rewrite E, absolute_formula. destruct (Endpoint_url (endpoint_of cfg s)); [contradiction|reflexivity].
Qed.
(** with a colliding configuration the first registration wins: the metadata path shadows every endpoint, /healthz and /ready shadow all *)
Theorem lookup_first cfg p : lookup p (routes cfg) =
  if beq c_healthEndpoint p then Some HHealth else if beq c_readinessEndpoint p then Some HReady
  else if beq (Endpoint_Relative (c_metadata cfg)) p then Some HMetadata else if beq (Endpoint_Relative (c_cert cfg)) p then Some HCert
  else if beq (Endpoint_Relative (c_callback cfg)) p then Some HCallback else if beq (Endpoint_Relative (c_sso cfg)) p then Some HSSO
  else if beq (Endpoint_Relative (c_slo cfg)) p then Some HSLO else if beq (Endpoint_Relative (c_attr cfg)) p then Some HAttr else None.
Proof. reflexivity. Qed.
