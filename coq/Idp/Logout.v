(** Model of logoutHandleFunc (pkg/provider/logout.go, logout_response.go) over the chain go2v extracts
    ([Gen.Facts.logout_steps]) and the parameter names it reads ([logout_form_keys]). *)
From Saml Require Import Base.Bytes Idp.FactTypes Gen.Facts Idp.Sso.

Record lform := { lf_req : bytes; lf_enc : bytes; lf_relay : bytes }.
Record lreq := { lq_id : bytes; lq_issue_instant : bytes; lq_not_on_or_after : bytes; lq_issuer : option bytes; lq_has_nameid : bool }.
Record lmsg := { lm_status : bytes; lm_in_response_to : bytes; lm_issuer : bytes; lm_destination : bytes }.
Inductive lreply := LBody (m : lmsg) | LPost (url relay : bytes) (m : lmsg) | LHttp (code : Z).

Inductive ltag := LTParseForm | LTDecode | LTTime | LTLookupSP | LTSelectSLO | LTUnknown.
Open Scope string_scope.
Definition ltag_of (f : stepfact) : ltag :=
  let is cs ws k := strs_eqb (callees f) cs && strs_eqb (lits f) [] && strs_eqb (consts f) [] && strs_eqb (writes f) ws && kind_eqb (sk f) k in
  if is ["getLogoutRequestFromRequest"] ["response.RelayState"] KLogicStep then LTParseForm
  else if is ["xml.DecodeLogoutRequest"] ["response.RelayState"; "response.RequestID"] KLogicStep then LTDecode
  else if is ["checkIfRequestTimeIsStillValid"] [] KLogicStep then LTTime
  else if is ["p.GetServiceProvider"] [] KLogicStep then LTLookupSP
  else if is [] ["response.LogoutURL"] KValueStep then LTSelectSLO
  else LTUnknown.
(** the only request parameters the handler reads *)
Definition expected_logout_keys : list string := ["Form.Get:RelayState"; "Form.Get:SAMLEncoding"; "Form.Get:SAMLRequest"; "index:SAMLRequest"].
Close Scope string_scope.

Record lstate := { g_form : option lform; g_req : option lreq; g_sp : option sp_rec; g_relay : bytes; g_reqid : bytes; g_url : bytes }.
Definition g0 : lstate := {| g_form := None; g_req := None; g_sp := None; g_relay := []; g_reqid := []; g_url := [] |}.
Inductive lres := GPass (s : lstate) | GFail | GPanic.

Section Logout.
Variable e_form : option lform.                         (* getLogoutRequestFromRequest; None = ParseForm error *)
Variable decode : bytes -> bytes -> option lreq.         (* xml.DecodeLogoutRequest encoding message *)
Variable lookup : bytes -> option sp_rec.                (* storage.GetEntityByID *)
Variable instant_of : bytes -> instant.                  (* time.Parse p.TimeFormat *)
Variable now : Z.
Variable entity_id : bytes.

Definition lstep (t : ltag) (s : lstate) : lres :=
  match t with
  | LTParseForm => match e_form with
                   | Some f => GPass {| g_form := Some f; g_req := g_req s; g_sp := g_sp s; g_relay := lf_relay f; g_reqid := g_reqid s; g_url := g_url s |}
                   | None => GFail end
  | LTDecode => match g_form s with
                | Some f => match decode (lf_enc f) (lf_req f) with
                            | Some q => GPass {| g_form := g_form s; g_req := Some q; g_sp := g_sp s; g_relay := lf_relay f; g_reqid := lq_id q; g_url := g_url s |}
                            | None => GFail end
                | None => GPanic end
  | LTTime => match g_req s with
              | Some q => if time_valid now (instant_of (lq_issue_instant q)) (instant_of (lq_not_on_or_after q)) then GPass s else GFail
              | None => GPanic end
  | LTLookupSP => match g_req s with
                  | Some q => match lq_issuer q with
                              | Some i => match lookup i with
                                          | Some sp => GPass {| g_form := g_form s; g_req := g_req s; g_sp := Some sp; g_relay := g_relay s; g_reqid := g_reqid s; g_url := g_url s |}
                                          | None => GFail end
                              | None => GFail end
                  | None => GPanic end
  | LTSelectSLO => match g_sp s with
                   | Some sp => GPass {| g_form := g_form s; g_req := g_req s; g_sp := g_sp s; g_relay := g_relay s; g_reqid := g_reqid s;
                                         g_url := match sp_slo sp with u :: _ => u | [] => g_url s end |}
                   | None => GPanic end
  | LTUnknown => GPanic
  end.

(** sendBackLogoutResponse(makeLogoutResponse(status)) *)
Definition lsend (status : bytes) (s : lstate) : lreply :=
  let m := {| lm_status := status; lm_in_response_to := g_reqid s; lm_issuer := entity_id; lm_destination := g_url s |} in
  if is_empty (g_url s) then LBody m else LPost (g_url s) (g_relay s) m.

Inductive loutcome := LDone (s : lstate) (out : list lreply) | LPanicked.

Fixpoint lrun (c : list stepfact) (s : lstate) : loutcome :=
  match c with
  | [] => LDone s [lsend c_StatusCodeSuccess s]
  | f :: r => match lstep (ltag_of f) s with
              | GPass s' => lrun r s'
              | GFail => match sf f with
                         | FSamlLogout st => LDone s [lsend st s]
                         | FHttp c => LDone s [LHttp c]
                         | _ => LDone s [] end
              | GPanic => LPanicked
              end
  end.
Definition logout_handler (c : list stepfact) : loutcome := lrun c g0.
End Logout.
