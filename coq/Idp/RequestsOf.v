(** The decoded LogoutRequest and AttributeQuery as the records the logout and attribute-query models work on, and the
    corresponding [decode] oracles as functions of the request document (cf. Idp/AuthnOf.v for the AuthnRequest). *)
From Saml Require Import Base.Bytes Xml.SchemaTypes Xml.Schema Gen.Schema Idp.BuilderTypes Idp.Builder Xml.Unmarshal Idp.Sso Idp.Callback Idp.Logout Idp.AttrQuery Idp.AuthnOf.
Local Open Scope string_scope.

Definition lreq_of (sch : schema) (g : gval) : option lreq :=
  let ty := "samlp.LogoutRequestType" in
  match str_field sch ty g "Id", str_field sch ty g "IssueInstant", str_field sch ty g "NotOnOrAfter", ptr_field sch ty g "Issuer", ptr_field sch ty g "NameID" with
  | Some id, Some ii, Some noa, Some iss, Some nid =>
      match (match iss with None => Some None | Some i => match str_field sch "saml.NameIDType" i "Text" with Some t => Some (Some t) | None => None end end) with
      | Some issuer => Some {| lq_id := id; lq_issue_instant := ii; lq_not_on_or_after := noa; lq_issuer := issuer;
                               lq_has_nameid := match nid with Some _ => true | None => false end |}
      | None => None
      end
  | _, _, _, _, _ => None
  end.
(** DecodeLogoutRequest on the inflated payload *)
Definition lreq_of_doc (trailing : bool) (doc : rnode) : option lreq :=
  if trailing then None else
  match unmarshal_root xml_schema "samlp.LogoutRequestType" doc with Some g => lreq_of xml_schema g | None => None end.

Definition aquery_of (sch : schema) (g : gval) : option aquery :=
  let ty := "samlp.AttributeQueryType" in
  match str_field sch ty g "Id", ptr_field sch ty g "Issuer", field sch ty g "Subject", str_field sch ty g "Destination", field sch ty g "Attribute", ptr_field sch ty g "Signature" with
  | Some id, Some iss, Some subj, Some dst, Some (VList attrs), Some sg =>
      match (match iss with None => Some None | Some i => match str_field sch "saml.NameIDType" i "Text" with Some t => Some (Some t) | None => None end end),
            (match ptr_field sch "saml.SubjectType" subj "NameID" with
             | Some None => Some None
             | Some (Some n) => match str_field sch "saml.NameIDType" n "Text" with Some t => Some (Some t) | None => None end
             | None => None end),
            ((fix go (l : list gval) : option (list (bytes * bytes)) :=
                match l with
                | [] => Some []
                | a :: r => match str_field sch "saml.AttributeType" a "Name", str_field sch "saml.AttributeType" a "NameFormat", go r with
                            | Some n, Some f, Some rest => Some ((n, f) :: rest) | _, _, _ => None end
                end) attrs),
            (match sg with None => Some None | Some s => match sig_of sch s with Some x => Some (Some x) | None => None end end) with
      | Some issuer, Some nameid, Some ras, Some sig =>
          Some {| aq_id := id; aq_issuer := issuer; aq_nameid := nameid; aq_destination := dst; aq_attrs := ras; aq_signature := sig |}
      | _, _, _, _ => None
      end
  | _, _, _, _, _, _ => None
  end.
(** DecodeAttributeQuery on the request body: the SOAP envelope's Body's AttributeQuery (nil when there is none) *)
Definition aquery_of_doc (trailing : bool) (doc : rnode) : option aquery :=
  if trailing then None else
  match unmarshal_root xml_schema "soap.AttributeQueryEnvelope" doc with
  | Some env => match field xml_schema "soap.AttributeQueryEnvelope" env "Body" with
                | Some body => match ptr_field xml_schema "soap.AttributeQueryBody" body "AttributeQuery" with
                               | Some (Some q) => aquery_of xml_schema q
                               | _ => None end
                | None => None end
  | None => None
  end.

Definition lreq_eqb (x y : lreq) : bool :=
  beq (lq_id x) (lq_id y) && beq (lq_issue_instant x) (lq_issue_instant y) && beq (lq_not_on_or_after x) (lq_not_on_or_after y) &&
  option_eqb beq (lq_issuer x) (lq_issuer y) && Bool.eqb (lq_has_nameid x) (lq_has_nameid y).
Definition aquery_eqb (x y : aquery) : bool :=
  beq (aq_id x) (aq_id y) && option_eqb beq (aq_issuer x) (aq_issuer y) && option_eqb beq (aq_nameid x) (aq_nameid y) && beq (aq_destination x) (aq_destination y) &&
  list_eqb (fun p q => beq (fst p) (fst q) && beq (snd p) (snd q)) (aq_attrs x) (aq_attrs y) && option_eqb sig_eqb (aq_signature x) (aq_signature y).

Theorem lreq_trailing_refused doc : lreq_of_doc true doc = None.
Proof. reflexivity. Qed.
Theorem aquery_trailing_refused doc : aquery_of_doc true doc = None.
Proof. reflexivity. Qed.
