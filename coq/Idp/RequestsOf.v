(** The decoded LogoutRequest and AttributeQuery as the records the logout and attribute-query models work on, and the
    corresponding [decode] oracles as functions of the request document (cf. Idp/AuthnOf.v for the AuthnRequest). *)
From Saml Require Import Base.Bytes Xml.SchemaTypes Xml.Schema Gen.Schema Idp.BuilderTypes Idp.Builder Xml.Unmarshal Idp.Sso Idp.Callback Idp.Logout Idp.AttrQuery Idp.AuthnOf.
Local Open Scope string_scope.

Definition lreq_of (sch : schema) (g : gval) : option lreq :=
  let ty := "samlp.LogoutRequestType" in
  match str_field sch ty g "Id", str_field sch ty g "IssueInstant", str_field sch ty g "NotOnOrAfter", ptr_field sch ty g "Issuer", ptr_field sch ty g "NameID" with
  | Some id, Some ii, Some noa, Some iss, Some nid =>
      match (match iss with None => Some None | Some i => match str_field sch "saml.NameIDType" i "Text" with Some t => Some (Some t) | None => None end end) with
      | Some issuer => Some {| lq_id := id; lq_issue_instant := ii; lq_not_on_or_after := noa; lq_issuer := issuer;
                               lq_has_nameid := match nid with Some _ => true | None => false end |}
      | None => None
      end
  | _, _, _, _, _ => None
  end.
(** DecodeLogoutRequest on the inflated payload *)
Definition lreq_of_doc (trailing : bool) (doc : rnode) : option lreq :=
  if trailing then None else
  match unmarshal_root xml_schema "samlp.LogoutRequestType" doc with Some g => lreq_of xml_schema g | None => None end.

Definition aquery_of (sch : schema) (g : gval) : option aquery :=
  let ty := "samlp.AttributeQueryType" in
  match str_field sch ty g "Id", ptr_field sch ty g "Issuer", field sch ty g "Subject", str_field sch ty g "Destination", field sch ty g "Attribute", ptr_field sch ty g "Signature" with
  | Some id, Some iss, Some subj, Some dst, Some (VList attrs), Some sg =>
      match (match iss with None => Some None | Some i => match str_field sch "saml.NameIDType" i "Text" with Some t => Some (Some t) | None => None end end),
            (match ptr_field sch "saml.SubjectType" subj "NameID" with
             | Some None => Some None
             | Some (Some n) => match str_field sch "saml.NameIDType" n "Text" with Some t => Some (Some t) | None => None end
             | None => None end),
            ((fix go (l : list gval) : option (list (bytes * bytes)) :=
                match l with
                | [] => Some []
                | a :: r => match str_field sch "saml.AttributeType" a "Name", str_field sch "saml.AttributeType" a "NameFormat", go r with
                            | Some n, Some f, Some rest => Some ((n, f) :: rest) | _, _, _ => None end
                end) attrs),
            (match sg with None => Some None | Some s => match sig_of sch s with Some x => Some (Some x) | None => None end end) with
      | Some issuer, Some nameid, Some ras, Some sig =>
          Some {| aq_id := id; aq_issuer := issuer; aq_nameid := nameid; aq_destination := dst; aq_attrs := ras; aq_signature := sig |}
      | _, _, _, _ => None
      end
  | _, _, _, _, _, _ => None
  end.
(** DecodeAttributeQuery on the request body: the SOAP envelope's Body's AttributeQuery (nil when there is none) *)
Definition aquery_of_doc (trailing : bool) (doc : rnode) : option aquery :=
  if trailing then None else
  match unmarshal_root xml_schema "soap.AttributeQueryEnvelope" doc with
  | Some env => match field xml_schema "soap.AttributeQueryEnvelope" env "Body" with
                | Some body => match ptr_field xml_schema "soap.AttributeQueryBody" body "AttributeQuery" with
                               | Some (Some q) => aquery_of xml_schema q
                               | _ => None end
                | None => None end
  | None => None
  end.

Definition lreq_eqb (x y : lreq) : bool :=
  beq (lq_id x) (lq_id y) && beq (lq_issue_instant x) (lq_issue_instant y) && beq (lq_not_on_or_after x) (lq_not_on_or_after y) &&
  option_eqb beq (lq_issuer x) (lq_issuer y) && Bool.eqb (lq_has_nameid x) (lq_has_nameid y).
Definition aquery_eqb (x y : aquery) : bool :=
  beq (aq_id x) (aq_id y) && option_eqb beq (aq_issuer x) (aq_issuer y) && option_eqb beq (aq_nameid x) (aq_nameid y) && beq (aq_destination x) (aq_destination y) &&
  list_eqb (fun p q => beq (fst p) (fst q) && beq (snd p) (snd q)) (aq_attrs x) (aq_attrs y) && option_eqb sig_eqb (aq_signature x) (aq_signature y).

Theorem lreq_trailing_refused doc : lreq_of_doc true doc = None.
Proof. reflexivity. Qed.
Theorem aquery_trailing_refused doc : aquery_of_doc true doc = None.
Proof. reflexivity. Qed.

(** * registration: the service-provider record of the models from the registered metadata DOCUMENT
    NewServiceProvider = ParseMetadataXmlIntoStruct (Unmarshal into md.EntityDescriptorType) and nothing else that touches
    the endpoints: the consumer services (in document order, with index / isDefault / binding / location as written), the
    logout locations, the key descriptors and the AuthnRequestsSigned flag the handler models use are exactly the
    document's.  Checked against the library's ServiceProvider on every case that involves one. *)
From Saml Require Import Gen.Pure.

Definition strs_of (sch : schema) (ty : string) (names : list string) (g : gval) : option (list bytes) :=
  (fix go (ns : list string) : option (list bytes) :=
     match ns with
     | [] => Some []
     | n :: r => match str_field sch ty g n, go r with Some s, Some ss => Some (s :: ss) | _, _ => None end
     end) names.
Definition map_opt {A B} (f : A -> option B) (l : list A) : option (list B) :=
  (fix go (l : list A) : option (list B) :=
     match l with [] => Some [] | x :: r => match f x, go r with Some y, Some ys => Some (y :: ys) | _, _ => None end end) l.

Definition acs_of (sch : schema) (e : gval) : option IndexedEndpointType :=
  match strs_of sch "md.IndexedEndpointType" ["Index"; "IsDefault"; "Binding"; "Location"; "ResponseLocation"] e with
  | Some [i; d; bnd; l; r] => Some {| IndexedEndpointType_Index := i; IndexedEndpointType_IsDefault := d; IndexedEndpointType_Binding := bnd;
                                      IndexedEndpointType_Location := l; IndexedEndpointType_ResponseLocation := r |}
  | _ => None
  end.
Definition keydesc_of (sch : schema) (kd : gval) : option (list bytes) :=
  match field sch "md.KeyDescriptorType" kd "KeyInfo" with
  | Some ki => match field sch "xml_dsig.KeyInfoType" ki "X509Data" with
               | Some (VList xs) => map_opt (fun x => option_map cert_text (str_field sch "xml_dsig.X509DataType" x "X509Certificate")) xs
               | _ => None end
  | None => None
  end.
Definition sprec_of (sch : schema) (app : bytes) (g : gval) : option sp_rec :=
  match str_field sch "md.EntityDescriptorType" g "EntityID", ptr_field sch "md.EntityDescriptorType" g "SPSSODescriptor" with
  | Some ent, Some (Some d) =>
      let ty := "md.SPSSODescriptorType" in
      match str_field sch ty d "AuthnRequestsSigned", field sch ty d "KeyDescriptor", field sch ty d "AssertionConsumerService", field sch ty d "SingleLogoutService" with
      | Some signed, Some (VList kds), Some (VList acs), Some (VList slo) =>
          match map_opt (keydesc_of sch) kds, map_opt (acs_of sch) acs, map_opt (fun e => str_field sch "md.EndpointType" e "Location") slo with
          | Some k, Some a, Some s => Some {| sp_id := app; sp_entity := ent; sp_authn_signed := signed; sp_keydescs := k; sp_acs := a; sp_slo := s |}
          | _, _, _ => None
          end
      | _, _, _, _ => None
      end
  | _, _ => None
  end.
Definition sprec_of_doc (app : bytes) (doc : rnode) : option sp_rec :=
  match unmarshal_root xml_schema "md.EntityDescriptorType" doc with Some g => sprec_of xml_schema app g | None => None end.

Definition ep_eqb (x y : IndexedEndpointType) : bool :=
  beq (IndexedEndpointType_Index x) (IndexedEndpointType_Index y) && beq (IndexedEndpointType_IsDefault x) (IndexedEndpointType_IsDefault y) &&
  beq (IndexedEndpointType_Binding x) (IndexedEndpointType_Binding y) && beq (IndexedEndpointType_Location x) (IndexedEndpointType_Location y) &&
  beq (IndexedEndpointType_ResponseLocation x) (IndexedEndpointType_ResponseLocation y).
Definition sprec_eqb (x y : sp_rec) : bool :=
  beq (sp_id x) (sp_id y) && beq (sp_entity x) (sp_entity y) && beq (sp_authn_signed x) (sp_authn_signed y) &&
  list_eqb (list_eqb beq) (sp_keydescs x) (sp_keydescs y) && list_eqb ep_eqb (sp_acs x) (sp_acs y) && list_eqb beq (sp_slo x) (sp_slo y).
(** the provider record of a case against the registered document *)
Definition sp_doc_ok (sp : option sp_rec) (doc : option rnode) : bool :=
  match sp, doc with
  | Some s, Some d => option_eqb sprec_eqb (sprec_of_doc (sp_id s) d) (Some s)
  | _, _ => true
  end.

(** registration keeps the consumer services in document order: the i-th AssertionConsumerService child of the
    SPSSODescriptor is the i-th entry the selection function sees *)
Example sprec_of_doc_example :
  let m := b "urn:oasis:names:tc:SAML:2.0:metadata" in
  let acs i bnd loc := RElem m (b "AssertionConsumerService") [([], b "Binding", b bnd); ([], b "Location", b loc); ([], b "index", b i)] [] in
  option_map (fun s => (sp_entity s, map IndexedEndpointType_Location (sp_acs s), map IndexedEndpointType_Index (sp_acs s), sp_slo s))
    (sprec_of_doc (b "app") (RElem m (b "EntityDescriptor") [([], b "entityID", b "https://sp")]
       [RElem m (b "SPSSODescriptor") [] [acs "9" "B" "second-by-index-first-in-document"; acs "1" "A" "l1";
                                          RElem m (b "SingleLogoutService") [([], b "Binding", b "X"); ([], b "Location", b "slo1"); ([], b "ResponseLocation", b "other")] []]]))
  = Some (b "https://sp", [b "second-by-index-first-in-document"; b "l1"], [b "9"; b "1"], [b "slo1"]).
Proof. vm_compute. reflexivity. Qed.
