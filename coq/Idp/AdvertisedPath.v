(** Advertised locations as request paths (C11). *)
From Saml Require Import Base.Bytes Gen.Pure Idp.Router Core.UrlPath.
From Coq Require Import List Ascii Bool. Import ListNotations.

(** * advertised locations as request paths
    For an issuer of the form scheme "://" host prefix (prefix: the issuer's own path, possibly empty; a trailing "/" of the
    issuer is dropped by Absolute), the path a request for an advertised, path-configured location presents is the prefix
    followed by the route of the corresponding handler; with an issuer that has no path of its own it IS that route.  (A
    deployment whose issuer has a path must strip it before the provider's router: the router serves Relative() paths.) *)
Theorem advertised_url_path cfg issuer scheme host prefix :
  NoDup (map fst (routes cfg)) ->
  go_trim_suffix issuer (b "/") = scheme ++ b "://" ++ host ++ prefix ->
  none_of [":"%char] scheme = true -> none_of ["/"%char; "?"%char; "#"%char] host = true ->
  (prefix = [] \/ exists r, prefix = "/"%char :: r) -> none_of ["?"%char; "#"%char] prefix = true ->
  forall s u, In (s, u) (advertised cfg issuer) -> Endpoint_url (endpoint_of cfg s) = [] ->
    none_of ["?"%char; "#"%char] (Endpoint_Relative (endpoint_of cfg s)) = true ->
    url_path u = prefix ++ Endpoint_Relative (endpoint_of cfg s) /\
    lookup (Endpoint_Relative (endpoint_of cfg s)) (routes cfg) = Some (handler_for s) /\
    (prefix = [] -> lookup (url_path u) (routes cfg) = Some (handler_for s)).
Proof.
  intros Hn Hi Hs Hh Hp Hq s u Hin Hu Hr.
  destruct (advertised_routes cfg issuer Hn s u Hin Hu) as [Eu El].
  assert (P : url_path u = prefix ++ Endpoint_Relative (endpoint_of cfg s)).
  { rewrite Eu, Hi. rewrite <- !app_assoc. apply url_path_of; try assumption.
    - destruct Hp as [->|[r ->]]; [|right; eexists; reflexivity]. right. rewrite relative_formula. eexists. reflexivity.
    - rewrite none_of_app, Hq, Hr. reflexivity. }
  split; [exact P|]. split; [exact El|]. intros ->. rewrite P. exact El.
Qed.
