(** Types of the source facts go2v extracts from the handlers (facts mode). *)
From Saml Require Import Base.Bytes.

Inductive kind := KLogicStep | KConditionalLogicStep | KValueNotEmptyCheck | KValuesNotEmptyCheck
  | KValueLengthCheck | KValueEqualsCheck | KConditionalValueNotEmpty | KValueStep.

Inductive failfact := FSaml (status : bytes) | FSamlLogout (status : bytes) | FHttp (code : Z) | FNone | FUnknown.

Record stepfact := { sk : kind; callees : list string; lits : list string; consts : list string; writes : list string; sf : failfact }.

Inductive stmtkind := SAssign | SIf | SExpr | SReturn | SSwitch | SOther.
Record stmtfact := { sfk : stmtkind; targets : list string; conds : list string; calls : list string;
                     returns : bool; cases : list (list string * list string) }.

Definition kind_eqb (a c : kind) : bool :=
  match a, c with
  | KLogicStep, KLogicStep | KConditionalLogicStep, KConditionalLogicStep | KValueNotEmptyCheck, KValueNotEmptyCheck
  | KValuesNotEmptyCheck, KValuesNotEmptyCheck | KValueLengthCheck, KValueLengthCheck | KValueEqualsCheck, KValueEqualsCheck
  | KConditionalValueNotEmpty, KConditionalValueNotEmpty | KValueStep, KValueStep => true
  | _, _ => false
  end.
Definition stmtkind_eqb (a c : stmtkind) : bool :=
  match a, c with
  | SAssign, SAssign | SIf, SIf | SExpr, SExpr | SReturn, SReturn | SSwitch, SSwitch | SOther, SOther => true
  | _, _ => false
  end.

Definition strs_eqb (x y : list string) : bool := list_eqb String.eqb x y.
Fixpoint smem (x : string) (l : list string) : bool := match l with [] => false | y :: r => String.eqb x y || smem x r end.
