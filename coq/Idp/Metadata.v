(** Metadata, certificate and readiness endpoints under key / storage faults (provider.go:GetMetadata, metadata.go,
    identityprovider.go:certificateHandleFunc, probes.go), with the structural facts go2v extracts. *)
From Saml Require Import Base.Bytes Idp.FactTypes Gen.Facts.

Inductive mreply := MMetadata (signed : bool) | MCert | MOk | MError.

(** cert_ok: getResponseCert succeeds; sign_conf: MetadataConfig.SignatureAlgorithm set; mkey_ok: getMetadataCert succeeds;
    signer_ok: GetSigner + Create succeed (usable algorithm, consistent key pair) *)
Definition metadata_handler (cert_ok sign_conf mkey_ok signer_ok : bool) : mreply :=
  if negb cert_ok then MError
  else if sign_conf then (if mkey_ok && signer_ok then MMetadata true else MError)
  else MMetadata false.
Definition certificate_handler (cert_ok : bool) : mreply := if cert_ok then MCert else MError.
Definition ready_handler (health_ok : bool) : mreply := if health_ok then MOk else MError.

(** structure: inside the signing branch every call is followed by an error check that returns *)
Open Scope string_scope.
Fixpoint every_call_checked (l : list string) : bool :=
  match l with
  | [] => true
  | c :: "iferr-return" :: r => prefix "call:" c && every_call_checked r
  | _ => false
  end.
Definition signing_branch_checked (seq : list stmtfact) : bool :=
  existsb (fun f => stmtkind_eqb (sfk f) SIf && smem "getMetadataCert" (calls f) &&
                    match cases f with [(_, body)] => every_call_checked body | _ => false end) seq.
Definition error_answered (seq : list stmtfact) (call : string) : bool :=
  match seq with
  | a :: c :: _ => stmtkind_eqb (sfk a) SAssign && smem call (calls a) && stmtkind_eqb (sfk c) SIf && smem "cond:err!=nil" (conds c) && returns c
  | _ => false
  end.
Close Scope string_scope.

Lemma metadata_structure :
  signing_branch_checked providerGetMetadata_seq = true /\
  error_answered providerGetMetadata_seq "p.conf.getMetadata" = true /\
  error_answered metadataHandle_seq "p.GetMetadata" = true /\
  error_answered certificateHandle_seq "getResponseCert" = true.
Proof. repeat split; vm_compute; reflexivity. Qed.
