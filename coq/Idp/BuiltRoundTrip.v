(** The reply documents built from source decode back to what was put in: builder programs (Gen/Builders.v) -> generic value
    -> Marshal model -> tree -> name-space resolution -> Unmarshal model -> the same field values, for ALL strings. *)
From Saml Require Import Base.Bytes Xml.Tree Xml.SchemaTypes Xml.Schema Gen.Schema Idp.BuilderTypes Idp.Builder Gen.Builders Idp.BuiltDoc Xml.Unmarshal Xml.RoundTrip.
Local Open Scope string_scope.

Definition built_roundtrips (fn : string) (recv : option dval) (args : list dval) (fresh : list bytes) (issue until : bytes) (root : string) : Prop :=
  match built_value fn recv args fresh issue until with
  | Some (d, _) => match to_gval 60 xml_schema (TNamed root) d with Some g => roundtripsP xml_schema root g | None => False end
  | None => False
  end.

Theorem logout_response_roundtrips reqid url issuer reason message id1 issue :
  built_roundtrips "makeFailedLogoutResponse" (Some (logout_rec reqid url issuer)) [DStr reason; DStr message; DStr (b "f")] [id1] issue [] "samlp.LogoutResponseType" /\
  built_roundtrips "makeSuccessfulLogoutResponse" (Some (logout_rec reqid url issuer)) [DStr (b "f")] [id1] issue [] "samlp.LogoutResponseType".
Proof.
  destruct reqid as [|c1 r1]; destruct url as [|c2 r2]; destruct issuer as [|c3 r3]; destruct message as [|c4 r4]; destruct reason as [|c5 r5];
    destruct id1 as [|c6 r6]; destruct issue as [|c7 r7]; split; vm_compute; repeat split; reflexivity.
Qed.

Theorem failed_response_roundtrips reqid acs issuer audience reason message id1 issue :
  built_roundtrips "makeFailedResponse" (Some (response_rec reqid acs issuer audience)) [DStr reason; DStr message; DStr (b "f")] [id1] issue [] "samlp.ResponseType".
Proof.
  destruct reqid as [|c1 r1]; destruct acs as [|c2 r2]; destruct issuer as [|c3 r3]; destruct message as [|c4 r4]; destruct reason as [|c5 r5];
    destruct id1 as [|c6 r6]; destruct issue as [|c7 r7]; vm_compute; repeat split; reflexivity.
Qed.

(** the Success response for a user with e-mail and user name (the other four standard attributes absent, no custom ones: the
    correspondence covers those), for every request ID, consumer URL, and non-empty issuer, audience, identifiers and instants *)
Theorem success_response_roundtrips reqid acs email username ci issuer ca audience c1 id1 c2 id2 c3 issue c4 until :
  built_roundtrips "makeSuccessfulResponse" (Some (response_rec reqid acs (ci :: issuer) (ca :: audience)))
    [attributes_rec email [] [] [] [] username []; DStr (b "f"); DNil] [c1 :: id1; c2 :: id2] (c3 :: issue) (c4 :: until) "samlp.ResponseType".
Proof.
  destruct reqid as [|x1 r1]; destruct acs as [|x2 r2]; destruct email as [|x3 r3]; destruct username as [|x8 r8]; vm_compute; repeat split; reflexivity.
Qed.
