(** The language go2v (builder mode) translates the reply-building functions of pkg/provider into. *)
From Coq Require Import String List.
Inductive bexpr :=
| BVar (x : string)
| BStr (s : string)
| BBool (v : bool)
| BNil
| BFresh                                              (* NewID() *)
| BSel (e : bexpr) (f : string)                       (* e.f *)
| BIdx (e : bexpr) (i : nat)                          (* e[i], constant i *)
| BNew (ty : string) (fields : list (string * bexpr)) (* T{k: v, ...} and &T{...} *)
| BList (elems : list bexpr)                          (* []T{...}, make([]T, 0) *)
| BCall (f : string) (recv : option bexpr) (args : list bexpr)   (* a call of another translated function / method *)
| BConcat (a c : bexpr)                                (* a + b on strings *)
| BOpaque (text : string).                            (* any other call, by its source text: answered by an oracle *)
Inductive bcond :=
| CVar (e : bexpr) | CNotNil (e : bexpr) | CNotEmpty (e : bexpr) | CNoElems (e : bexpr) | CEq (a c : bexpr) | CAnd (a c : bcond) | COr (a c : bcond).
Inductive pstep := PField (f : string) | PIndex (i : nat).
Inductive bstmt :=
| BLet (x : string) (e : bexpr)
| BLetN (xs : list string) (e : bexpr)                (* a, b, c := f(...) *)
| BSetAll (l f : string) (e : bexpr)                  (* every element of field f of every element of l := e *)
| BAssign (root : string) (path : list pstep) (e : bexpr)
| BAppend (x : string) (e : bexpr)
| BIf (c : bcond) (body els : list bstmt)
| BRange (k v : string) (e : bexpr) (body : list bstmt)
| BReturn (e : bexpr).
Record bfun := { bf_name : string; bf_recv : option string; bf_params : list string; bf_body : list bstmt }.
