(** getResponseCert / getMetadataCert: which answers of the signing-key getters are accepted, read off the guard
    statements of the source (Gen/Facts.v: getResponseCert_seq, getMetadataCert_seq).  The handler models take booleans
    [cert_ok] / [mkey_ok]; here they are functions of the shape of the storage's answer. *)
From Saml Require Import Base.Bytes Idp.FactTypes Gen.Facts.
Local Open Scope string_scope.

(** what a key getter can hand back *)
Record keyans := { k_err : bool;          (* a non-nil error *)
                   k_rec_nil : bool;      (* a nil record *)
                   k_key_nil : bool; k_cert_nil : bool;
                   k_cert_empty : bool;   (* a certificate of length 0 *)
                   k_key_zero : bool }.   (* a zero rsa.PrivateKey value *)
Definition good_key : keyans := {| k_err := false; k_rec_nil := false; k_key_nil := false; k_cert_nil := false; k_cert_empty := false; k_key_zero := false |}.

Inductive guard := GErr | GNil | GEmptyCert | GZeroKey.
Definition guard_of (f : stmtfact) : option guard :=
  if negb (stmtkind_eqb (sfk f) SIf && returns f) then None else
  match conds f with
  | ["cond:err!=nil"] => Some GErr
  | ["cond:certAndKey==nil||certAndKey.Key==nil||certAndKey.Certificate==nil"] => Some GNil
  | ["cond:len()==0"] => Some GEmptyCert
  | ["reflect.DeepEqual"; "cond:certAndKey.Key==nil||reflect.DeepEqual()"] => Some GZeroKey
  | _ => None
  end.
(** the function: getter call, guards, return; anything else is not recognised *)
Definition guards_of (getter : string) (seq : list stmtfact) : option (list guard) :=
  match seq with
  | first :: rest =>
      if negb (stmtkind_eqb (sfk first) SAssign && strs_eqb (targets first) ["certAndKey"; "err"] && strs_eqb (calls first) [getter]) then None else
      match rev rest with
      | last :: mid => if negb (stmtkind_eqb (sfk last) SReturn) then None else
          (fix go (l : list stmtfact) : option (list guard) :=
             match l with
             | [] => Some []
             | f :: r => match guard_of f, go r with Some g, Some gs => Some (g :: gs) | _, _ => None end
             end) (rev mid)
      | [] => None
      end
  | [] => None
  end.

Definition hits (g : guard) (k : keyans) : bool :=
  match g with
  | GErr => k_err k
  | GNil => k_rec_nil k || k_key_nil k || k_cert_nil k
  | GEmptyCert => k_cert_empty k
  | GZeroKey => k_key_nil k || k_key_zero k
  end.
(** a nil record / key / certificate dereferenced by a later guard before the nil guard ran would be a panic *)
Definition derefs_before_nil_guard (gs : list guard) : bool :=
  match gs with
  | GErr :: GNil :: _ => false
  | _ => existsb (fun g => match g with GEmptyCert | GZeroKey => true | _ => false end) gs
  end.
Definition accepts (gs : list guard) (k : keyans) : bool := negb (existsb (fun g => hits g k) gs).

Definition response_guards : option (list guard) := guards_of "storage.GetResponseSigningKey" getResponseCert_seq.
Definition metadata_guards : option (list guard) := guards_of "storage.GetMetadataSigningKey" getMetadataCert_seq.

Lemma response_guards_current : response_guards = Some [GErr; GNil; GEmptyCert; GZeroKey].
Proof. vm_compute. reflexivity. Qed.
Lemma metadata_guards_current : metadata_guards = Some [GErr; GNil].
Proof. vm_compute. reflexivity. Qed.

Definition response_cert_ok (k : keyans) : bool := match response_guards with Some gs => accepts gs k | None => false end.
Definition metadata_cert_ok (k : keyans) : bool := match metadata_guards with Some gs => accepts gs k | None => false end.

(** getResponseCert succeeds exactly for a present record with a present, non-zero key and a present, non-empty certificate *)
Theorem response_cert_ok_iff k : response_cert_ok k = true <->
  k_err k = false /\ k_rec_nil k = false /\ k_key_nil k = false /\ k_cert_nil k = false /\ k_cert_empty k = false /\ k_key_zero k = false.
Proof.
  unfold response_cert_ok. rewrite response_guards_current. unfold accepts. cbn [existsb hits].
  destruct k as [[] [] [] [] [] []]; cbn; split; intro H; try discriminate; try reflexivity; try (repeat split; reflexivity);
    destruct H as (H1 & H2 & H3 & H4 & H5 & H6); discriminate.
Qed.
(** getMetadataCert checks presence only: an empty certificate or a zero key passes here (and fails later, in the signer) *)
Theorem metadata_cert_ok_iff k : metadata_cert_ok k = true <->
  k_err k = false /\ k_rec_nil k = false /\ k_key_nil k = false /\ k_cert_nil k = false.
Proof.
  unfold metadata_cert_ok. rewrite metadata_guards_current. unfold accepts. cbn [existsb hits].
  destruct k as [[] [] [] [] [] []]; cbn; split; intro H; try discriminate; try reflexivity; try (repeat split; reflexivity);
    destruct H as (H1 & H2 & H3 & H4); discriminate.
Qed.
Theorem guards_no_nil_dereference :
  match response_guards, metadata_guards with Some g1, Some g2 => derefs_before_nil_guard g1 = false /\ derefs_before_nil_guard g2 = false | _, _ => False end.
Proof. rewrite response_guards_current, metadata_guards_current. split; reflexivity. Qed.

(** the answer shapes the harness injects: 0 a good key, 1 an error, 2 nil record, 3 certificate without key, 4 key without
    certificate, 5 empty certificate *)
Definition keyans_of (shape : Z) : keyans :=
  match shape with
  | 1%Z => {| k_err := true; k_rec_nil := true; k_key_nil := true; k_cert_nil := true; k_cert_empty := true; k_key_zero := false |}
  | 2%Z => {| k_err := false; k_rec_nil := true; k_key_nil := true; k_cert_nil := true; k_cert_empty := true; k_key_zero := false |}
  | 3%Z => {| k_err := false; k_rec_nil := false; k_key_nil := true; k_cert_nil := false; k_cert_empty := false; k_key_zero := false |}
  | 4%Z => {| k_err := false; k_rec_nil := false; k_key_nil := false; k_cert_nil := true; k_cert_empty := true; k_key_zero := false |}
  | 5%Z => {| k_err := false; k_rec_nil := false; k_key_nil := false; k_cert_nil := false; k_cert_empty := true; k_key_zero := false |}
  | _ => good_key
  end.
