(** The hand-written attribute model (Core/Attrs.v: attrs_of; Idp/AttrQuery.v: filter_attrs) is what the builder programs
    translated from attributes.go / response.go compute, for every user record and every list of requested attributes:
    the lists the programs build abstract -- field by field -- to the model's lists. *)
From Saml Require Import Base.Bytes Idp.Callback Core.Attrs Idp.AttrQuery Idp.Logout Idp.BuilderTypes Idp.Builder Gen.Builders Idp.BuiltDoc Idp.GetSamlAll Idp.SuccessAny Idp.QueryFilter.
From Coq Require Import List String Bool. Import ListNotations.
Local Open Scope string_scope.
Local Open Scope list_scope.

Definition str_of (d : option dval) : bytes := match d with Some (DStr x) => x | _ => [] end.
Definition strs_of (d : option dval) : list bytes :=
  match d with Some (DList l) => map (fun x => match x with DStr v => v | _ => [] end) l | _ => [] end.
Definition attr_of_dval (a : dval) : attr :=
  {| at_name := nm a; at_friendly := str_of (sel a "FriendlyName"); at_format := fm a; at_values := strs_of (sel a "AttributeValue") |}.
Definition requested_of (qs : list dval) : list (bytes * bytes) := map (fun q => (nm q, fm q)) qs.

(** the user record as the programs receive it *)
Definition dcustom_of (c : custom_attr) : dcustom := (ca_name c, ca_friendly c, ca_format c, ca_values c).
Definition user_rec (u : user) : dval :=
  attributes_rec (u_email u) (u_fullname u) (u_given u) (u_surname u) (u_userid u) (u_username u) (map custom_dpair (map dcustom_of (u_custom u))).
Definition getsaml_list (u : user) : list dval :=
  std_attr "Email" (u_email u) ++ std_attr "SurName" (u_surname u) ++ std_attr "FirstName" (u_given u) ++ std_attr "FullName" (u_fullname u) ++
  std_attr "UserName" (u_username u) ++ std_attr "UserID" (u_userid u) ++ map custom_dattr (map dcustom_of (u_custom u)).

Lemma abs_std name v : map attr_of_dval (std_attr name v) = std name v.
Proof. unfold std_attr, std. destruct (is_empty v); reflexivity. Qed.
Lemma abs_strs vs : map (fun x => match x with DStr v => v | _ => [] end) (map DStr vs) = vs.
Proof. induction vs as [|v vs IH]; cbn; [reflexivity|now rewrite IH]. Qed.
Lemma abs_getsaml u : map attr_of_dval (getsaml_list u) = attrs_of u.
Proof.
  unfold getsaml_list, attrs_of. rewrite !map_app, !abs_std. repeat f_equal.
  rewrite !map_map. apply map_ext. intros [n f nf vs]. unfold attr_of_dval, nm, fm. cbn. now rewrite abs_strs.
Qed.

Lemma abs_filter qs l : map attr_of_dval (dfilter qs l) = filter_attrs (requested_of qs) (map attr_of_dval l).
Proof.
  destruct qs as [|q0 qs]; [reflexivity|]. unfold dfilter, filter_attrs, requested_of. cbn [map].
  set (Q := q0 :: qs). change ((nm q0, fm q0) :: map (fun q => (nm q, fm q)) qs) with (map (fun q => (nm q, fm q)) Q).
  induction l as [|a l IH]; [reflexivity|]. cbn [flat_map map]. rewrite map_app, IH. f_equal.
  clear IH. induction Q as [|q Q IHQ]; [reflexivity|]. cbn [flat_map map]. rewrite map_app, IHQ. f_equal.
  unfold dmatch. cbn [fst snd at_name at_format attr_of_dval]. destruct (beq (nm a) (nm q) && beq (fm a) (fm q)); reflexivity.
Qed.

(** GetSAML, as a program, computes the model's attrs_of *)
Theorem getsaml_refines u fr issue until :
  exists l, built_value "GetSAML" (Some (user_rec u)) [] fr issue until = Some (DList l, fr) /\ map attr_of_dval l = attrs_of u.
Proof. exists (getsaml_list u). split; [apply getsaml_any|apply abs_getsaml]. Qed.


(** the answer to an attribute query, as a program, carries the model's filter_attrs (requested) (attrs_of u) *)
Theorem attrquery_refines reqid issuer sp u (qs : list dval) id1 id2 rest issue until :
  Forall wf_attr qs ->
  built_sat "makeAttributeQueryResponse" None
    [DStr reqid; DStr issuer; DStr sp; user_rec u; DList qs; DStr (b "f"); DNil] (id1 :: id2 :: rest) issue until
    (fun d r => r = rest /\ exists l,
       dget d [PField "Assertion"; PField "AttributeStatement"; PIndex 0; PField "Attribute"] = Some (DList l) /\
       map attr_of_dval l = filter_attrs (requested_of qs) (attrs_of u)).
Proof.
  intro W. unfold user_rec.
  eapply built_sat_mono; [exact (aq_attributes_any reqid issuer sp (u_email u) (u_fullname u) (u_given u) (u_surname u) (u_userid u) (u_username u)
                         (map dcustom_of (u_custom u)) qs id1 id2 rest issue until W)|].
  intros d r [Hr Hd]. split; [exact Hr|]. eexists. split; [exact Hd|].
  rewrite abs_filter. f_equal. apply abs_getsaml.
Qed.

(** ... and the successful Response carries the model's attrs_of u *)
Theorem success_refines reqid acs issuer audience u id1 id2 rest issue until :
  built_sat "makeSuccessfulResponse" (Some (response_rec reqid acs issuer audience)) [user_rec u; DStr (b "f"); DNil] (id1 :: id2 :: rest) issue until
    (fun d r => r = rest /\ exists l,
       dget d [PField "Assertion"; PField "AttributeStatement"; PIndex 0; PField "Attribute"] = Some (DList l) /\
       map attr_of_dval l = attrs_of u).
Proof.
  unfold user_rec.
  eapply built_sat_mono; [exact (success_attributes_any reqid acs issuer audience (u_email u) (u_fullname u) (u_given u) (u_surname u) (u_userid u) (u_username u)
                         (map dcustom_of (u_custom u)) id1 id2 rest issue until)|].
  intros d r [Hr Hd]. split; [exact Hr|]. eexists. split; [exact Hd|]. apply abs_getsaml.
Qed.

(** REFINEMENT of the whole Success message.  The callback model (Idp/Callback.v) describes the reply by the abstract message
    {| m_in_response_to; m_destination; m_audience; m_resp := CSuccess u _ |} (C03_fields); the document the translated
    programs build for the same stored request, entity ID and user abstracts to exactly that message: request ID on the
    Response and in the subject confirmation, consumer URL as Destination and Recipient (absent iff empty), the entity ID as
    the only audience, the user name as NameID, the model's attribute list -- for every stored request and every user *)
Definition opt_str (d : option dval) : bytes := match d with Some (DStr x) => x | _ => [] end.
Theorem success_message_refines rec ent issuer u sg id1 id2 rest issue until :
  let M := {| m_in_response_to := sr_reqid rec; m_destination := sr_acs rec; m_audience := ent; m_resp := CSuccess u sg |} in
  built_sat "makeSuccessfulResponse" (Some (response_rec (sr_reqid rec) (sr_acs rec) issuer ent)) [user_rec u; DStr (b "f"); DNil] (id1 :: id2 :: rest) issue until
    (fun d r => r = rest /\
       opt_str (at_ d ["InResponseTo"]) = m_in_response_to M /\ opt_str (dget d (sc_data ++ [PField "InResponseTo"])) = m_in_response_to M /\
       opt_str (at_ d ["Destination"]) = m_destination M /\ opt_str (dget d (sc_data ++ [PField "Recipient"])) = m_destination M /\
       (at_ d ["Destination"] = None <-> m_destination M = []) /\
       dget d [PField "Assertion"; PField "Conditions"; PField "AudienceRestriction"; PIndex 0; PField "Audience"] = Some (DList [DStr (m_audience M)]) /\
       opt_str (at_ d ["Assertion"; "Subject"; "NameID"; "Text"]) = nameid_of u /\
       exists l, dget d [PField "Assertion"; PField "AttributeStatement"; PIndex 0; PField "Attribute"] = Some (DList l) /\
                 map attr_of_dval l = attrs_of u).
Proof.
  intro M. unfold user_rec.
  eapply built_sat_mono; [exact (success_all_any (sr_reqid rec) (sr_acs rec) issuer ent (u_email u) (u_fullname u) (u_given u) (u_surname u) (u_userid u) (u_username u)
                         (map dcustom_of (u_custom u)) id1 id2 rest issue until)|].
  intros d r (Hr & _ & _ & H1 & H2 & H3 & H4 & _ & _ & H5 & H6 & _ & H7).
  split; [exact Hr|]. rewrite H1, H2, H3, H4, H6. cbn [M m_in_response_to m_destination m_audience opt_str].
  repeat split; auto.
  - destruct (sr_acs rec); reflexivity.
  - destruct (sr_acs rec); reflexivity.
  - destruct (sr_acs rec); [reflexivity|discriminate].
  - destruct (sr_acs rec); [reflexivity|discriminate].
  - eexists. split; [exact H7|apply abs_getsaml].
Qed.

(** REFINEMENT of the whole attribute query answer: the abstract message of the attribute query model (Idp/AttrQuery.v, amsg;
    C12_answered) is what the document built by the translated program abstracts to -- for every user record and every list
    of requested attributes *)
Theorem attrquery_message_refines reqid issuer sp u (qs : list dval) id1 id2 rest issue until :
  Forall wf_attr qs ->
  let M := {| am_in_response_to := reqid; am_issuer := issuer; am_audience := sp; am_nameid := nameid_of u;
              am_attrs := filter_attrs (requested_of qs) (attrs_of u) |} in
  built_sat "makeAttributeQueryResponse" None
    [DStr reqid; DStr issuer; DStr sp; user_rec u; DList qs; DStr (b "f"); DNil] (id1 :: id2 :: rest) issue until
    (fun d r => r = rest /\
       opt_str (at_ d ["InResponseTo"]) = am_in_response_to M /\ opt_str (dget d (sc_data ++ [PField "InResponseTo"])) = am_in_response_to M /\
       at_ d ["Destination"] = None /\ dget d (sc_data ++ [PField "Recipient"]) = None /\
       opt_str (at_ d ["Issuer"; "Text"]) = am_issuer M /\ opt_str (at_ d ["Assertion"; "Issuer"; "Text"]) = am_issuer M /\
       dget d [PField "Assertion"; PField "Conditions"; PField "AudienceRestriction"; PIndex 0; PField "Audience"] = Some (DList [DStr (am_audience M)]) /\
       opt_str (at_ d ["Assertion"; "Subject"; "NameID"; "Text"]) = am_nameid M /\
       exists l, dget d [PField "Assertion"; PField "AttributeStatement"; PIndex 0; PField "Attribute"] = Some (DList l) /\
                 map attr_of_dval l = am_attrs M).
Proof.
  intros W M. unfold user_rec.
  eapply built_sat_mono; [exact (aq_all_any reqid issuer sp (u_email u) (u_fullname u) (u_given u) (u_surname u) (u_userid u) (u_username u)
                         (map dcustom_of (u_custom u)) qs id1 id2 rest issue until W)|].
  intros d r (Hr & H1 & H2 & H3 & H4 & H5 & H6 & H7 & H8 & _ & H9).
  split; [exact Hr|]. rewrite H1, H2, H5, H6, H7, H8. cbn [M am_in_response_to am_issuer am_audience am_nameid am_attrs opt_str].
  repeat split; auto.
  eexists. split; [exact H9|]. rewrite abs_filter. f_equal. apply abs_getsaml.
Qed.

(** the failed Response and the LogoutResponse (closed programs: no loops) against the abstract messages of their models *)
Theorem failed_message_refines rec ent issuer st msg id1 rest issue until :
  let M := {| m_in_response_to := sr_reqid rec; m_destination := sr_acs rec; m_audience := ent; m_resp := CFailed st msg |} in
  built_sat "makeFailedResponse" (Some (response_rec (sr_reqid rec) (sr_acs rec) issuer ent)) [DStr st; DStr msg; DStr (b "f")] (id1 :: rest) issue until
    (fun d r => r = rest /\
       opt_str (at_ d ["InResponseTo"]) = m_in_response_to M /\ opt_str (at_ d ["Destination"]) = m_destination M /\
       (at_ d ["Destination"] = None <-> m_destination M = []) /\
       m_resp M = CFailed (opt_str (at_ d ["Status"; "StatusCode"; "Value"])) (opt_str (at_ d ["Status"; "StatusMessage"])) /\
       at_ d ["Assertion"] = None).
Proof.
  intro M. eapply built_sat_mono; [exact (failed_response_fields (sr_reqid rec) (sr_acs rec) issuer ent st msg id1 rest issue until)|].
  intros d r (Hr & _ & H1 & _ & H2 & H3 & _ & H4 & H5). split; [exact Hr|]. rewrite H1, H2, H3, H4, H5.
  cbn [M m_in_response_to m_destination m_resp opt_str]. repeat split; auto; destruct (sr_acs rec); try reflexivity; discriminate.
Qed.
Theorem logout_message_refines reqid url issuer id1 rest issue until :
  let M := {| lm_status := b "urn:oasis:names:tc:SAML:2.0:status:Success"; lm_in_response_to := reqid; lm_issuer := issuer; lm_destination := url |} in
  built_sat "makeSuccessfulLogoutResponse" (Some (logout_rec reqid url issuer)) [DStr (b "f")] (id1 :: rest) issue until
    (fun d r => r = rest /\
       opt_str (at_ d ["Status"; "StatusCode"; "Value"]) = lm_status M /\ opt_str (at_ d ["InResponseTo"]) = lm_in_response_to M /\
       opt_str (at_ d ["Issuer"; "Text"]) = lm_issuer M /\ opt_str (at_ d ["Destination"]) = lm_destination M).
Proof.
  intro M. destruct (logout_response_fields reqid url issuer [] [] id1 rest issue until) as [_ H].
  eapply built_sat_mono; [exact H|].
  intros d r (Hr & _ & H1 & H2 & H3 & _ & H4). split; [exact Hr|]. rewrite H1, H2, H3, H4. repeat split.
Qed.

(** non-vacuity: a user with two custom attributes, a query for one of them by name and format *)
Example attrquery_refines_example :
  let u := {| u_email := b "a@b"; u_fullname := []; u_given := []; u_surname := []; u_username := b "login"; u_userid := [];
              u_custom := [{| ca_name := b "groups"; ca_friendly := []; ca_format := b "urn:f"; ca_values := [b "x"; b "y"] |};
                           {| ca_name := b "role"; ca_friendly := b "R"; ca_format := []; ca_values := [] |}] |} in
  let qs := [DObj "saml.AttributeType" [("Name", DStr (b "groups")); ("NameFormat", DStr (b "urn:f"))]; DObj "saml.AttributeType" [("Name", DStr (b "Email")); ("NameFormat", DStr [])]] in
  Forall wf_attr qs /\
  filter_attrs (requested_of qs) (attrs_of u) = [{| at_name := b "groups"; at_friendly := []; at_format := b "urn:f"; at_values := [b "x"; b "y"] |}].
Proof. split; [repeat constructor|vm_compute; reflexivity]. Qed.

(** the single sign-on handler's failure reply ([send_failed] of Idp/Sso.v: the abstract message [failmsg]) against the document
    makeFailedResponse builds from the handler's response object *)
From Saml Require Import Idp.Sso.
Local Open Scope string_scope.
Local Open Scope list_scope.
Theorem sso_failed_message_refines status reqid issuer acs audience message id1 rest issue until :
  let M := {| fm_status := status; fm_in_response_to := reqid; fm_issuer := issuer; fm_destination := acs |} in
  built_sat "makeFailedResponse" (Some (response_rec reqid acs issuer audience)) [DStr status; DStr message; DStr (b "f")] (id1 :: rest) issue until
    (fun d r => r = rest /\
       opt_str (at_ d ["Status"; "StatusCode"; "Value"]) = fm_status M /\ opt_str (at_ d ["InResponseTo"]) = fm_in_response_to M /\
       opt_str (at_ d ["Issuer"; "Text"]) = fm_issuer M /\ opt_str (at_ d ["Destination"]) = fm_destination M /\
       (at_ d ["Destination"] = None <-> fm_destination M = []) /\ at_ d ["Assertion"] = None).
Proof.
  intro M. eapply built_sat_mono; [exact (failed_response_fields reqid acs issuer audience status message id1 rest issue until)|].
  intros d r (Hr & _ & H1 & _ & H2 & _ & H3 & H4 & H5). split; [exact Hr|]. rewrite H1, H2, H3, H4, H5.
  cbn [M fm_status fm_in_response_to fm_issuer fm_destination opt_str]. repeat split; auto; destruct acs; try reflexivity; discriminate.
Qed.

Theorem logout_failed_message_refines reqid url issuer reason message id1 rest issue until :
  let M := {| lm_status := reason; lm_in_response_to := reqid; lm_issuer := issuer; lm_destination := url |} in
  built_sat "makeFailedLogoutResponse" (Some (logout_rec reqid url issuer)) [DStr reason; DStr message; DStr (b "f")] (id1 :: rest) issue until
    (fun d r => r = rest /\
       opt_str (at_ d ["Status"; "StatusCode"; "Value"]) = lm_status M /\ opt_str (at_ d ["InResponseTo"]) = lm_in_response_to M /\
       opt_str (at_ d ["Issuer"; "Text"]) = lm_issuer M /\ opt_str (at_ d ["Destination"]) = lm_destination M).
Proof.
  intro M. destruct (logout_response_fields reqid url issuer reason message id1 rest issue until) as [H _].
  eapply built_sat_mono; [exact H|].
  intros d r (Hr & _ & H1 & H2 & H3 & _ & H4 & _). split; [exact Hr|]. rewrite H1, H2, H3, H4. repeat split.
Qed.
