(** The attribute statement of the assertion in a successful Response, for ANY number of custom attributes: it is the list
    Attributes.GetSAML yields (Idp/GetSamlAll.v).  The builder programs are stepped through symbolically down to the one
    expression that calls GetSAML; everything else is evaluated. *)
From Saml Require Import Base.Bytes Idp.BuilderTypes Idp.Builder Gen.Builders Idp.BuiltDoc Idp.GetSamlAll.
From Coq Require Import List String. Import ListNotations.
Local Open Scope string_scope.
Local Open Scope list_scope.

Section U.
Variable o : string -> option dval.
Notation run_st := (run_st builders o).
Notation exec := (exec builders o).
Notation eval := (eval builders o).

Lemma run_unfold' k e fr body : run builders o (S k) e fr body =
  match run_st k {| s_env := e; s_fresh := fr |} body with Some (RRet v f) => Some (v, f) | _ => None end.
Proof. reflexivity. Qed.
Lemma run_st_cons' k s i r : run_st (S k) s (i :: r) =
  match exec k s i with Some (RNext s') => run_st k s' r | Some (RRet v f) => Some (RRet v f) | None => None end.
Proof. reflexivity. Qed.
Lemma exec_let k s x y : exec (S k) s (BLet x y) =
  match eval k (s_env s) (s_fresh s) y with Some (d, fr') => Some (RNext {| s_env := env_set (s_env s) x d; s_fresh := fr' |}) | None => None end.
Proof. reflexivity. Qed.
Lemma exec_return k s y : exec (S k) s (BReturn y) =
  match eval k (s_env s) (s_fresh s) y with Some (d, fr') => Some (RRet d fr') | None => None end.
Proof. reflexivity. Qed.
Lemma eval_var k e fr v : eval (S k) e fr (BVar v) = match env_get e v with Some d => Some (d, fr) | None => None end.
Proof. reflexivity. Qed.
Lemma eval_call k e fr f recv args : eval (S k) e fr (BCall f recv args) =
  match (match recv with
         | Some y => match eval k e fr y with Some (d, fr') => Some (Some d, fr') | None => None end
         | None => Some (None, fr) end) with
  | None => None
  | Some (rv, fr0) =>
      match eval_list (fun fr y => eval k e fr y) args fr0 with
      | None => None
      | Some (vs, fr1) =>
          match find_fun builders f with
          | None => None
          | Some fn =>
              match bind_params (bf_params fn) vs, bf_recv fn, rv with
              | Some pe, Some rn, Some rd => run builders o k ((rn, rd) :: pe) fr1 (bf_body fn)
              | Some pe, None, None => run builders o k pe fr1 (bf_body fn)
              | _, _, _ => None
              end
          end
      end
  end.
Proof. reflexivity. Qed.

Lemma call_some k f rd args fr : call builders o k f (Some rd) args fr =
  match find_fun builders f with
  | None => None
  | Some fn => match bind_params (bf_params fn) args, bf_recv fn, Some rd with
               | Some pe, Some rn, Some rd => run builders o k ((rn, rd) :: pe) fr (bf_body fn)
               | Some pe, None, None => run builders o k pe fr (bf_body fn)
               | _, _, _ => None
               end
  end.
Proof. reflexivity. Qed.

Lemma eval_getsaml k env fr e f g s u n (cs : list dcustom) :
  env_get env "attributes" = Some (attributes_rec e f g s u n (map custom_dpair cs)) ->
  eval (S (S (S (S (S (S (S (S (S (S (S (S (S (S (S (S (S (S (S (S (S (S (S (S (S (S (S (S (S (S (S (k)))))))))))))))))))))))))))))))) env fr (BCall "GetSAML" (Some (BVar "attributes")) []) =
  Some (DList (std_attr "Email" e ++ std_attr "SurName" s ++ std_attr "FirstName" g ++ std_attr "FullName" f ++
               std_attr "UserName" n ++ std_attr "UserID" u ++ map custom_dattr cs), fr).
Proof.
  intro H. rewrite eval_call, eval_var, H. cbn [eval_list].
  rewrite <- (getsaml_fuel o k e f g s u n cs fr). rewrite call_some. reflexivity.
Qed.
End U.

(** evaluate one closed-enough subterm inside the virtual machine (the proof term keeps a VM cast, so Qed does not
    re-evaluate it by the lazy machine) *)
Ltac vm_step X := let v := eval vm_compute in X in replace X with v by (vm_compute; reflexivity).
Ltac step_exec := match goal with |- context [Builder.exec builders ?o ?K ?s ?i] => vm_step (Builder.exec builders o K s i) end.
Ltac step_find := match goal with |- context [find_fun builders ?f] => vm_step (find_fun builders f) end; cbn [bf_params bf_recv bf_body bind_params].
(* the first argument evaluation that is not the GetSAML call *)
Ltac step_arg := match goal with |- context [Builder.eval builders ?o ?K ?e ?fr ?y] =>
  lazymatch y with BCall "GetSAML" _ _ => fail | BCall "makeAssertion" _ _ => fail | BCall "makeAssertionResponse" _ _ => fail
  | _ => vm_step (Builder.eval builders o K e fr y) end end.

Theorem success_all_any reqid acs issuer audience e f g s u n (cs : list dcustom) id1 id2 rest issue until :
  built_sat "makeSuccessfulResponse" (Some (response_rec reqid acs issuer audience))
    [attributes_rec e f g s u n (map custom_dpair cs); DStr (b "f"); DNil] (id1 :: id2 :: rest) issue until
    (fun d r => r = rest /\
       at_ d ["Id"] = Some (DStr id1) /\ at_ d ["Assertion"; "Id"] = Some (DStr id2) /\
       at_ d ["InResponseTo"] = Some (DStr reqid) /\ dget d (sc_data ++ [PField "InResponseTo"]) = Some (DStr reqid) /\
       at_ d ["Destination"] = (if is_empty acs then None else Some (DStr acs)) /\
       dget d (sc_data ++ [PField "Recipient"]) = (if is_empty acs then None else Some (DStr acs)) /\
       at_ d ["Issuer"; "Text"] = Some (DStr issuer) /\ at_ d ["Assertion"; "Issuer"; "Text"] = Some (DStr issuer) /\
       dget d [PField "Assertion"; PField "Conditions"; PField "AudienceRestriction"; PIndex 0; PField "Audience"] = Some (DList [DStr audience]) /\
       at_ d ["Assertion"; "Subject"; "NameID"; "Text"] = Some (DStr n) /\
       at_ d ["Status"; "StatusCode"; "Value"] = Some (DStr (b "urn:oasis:names:tc:SAML:2.0:status:Success")) /\
       dget d [PField "Assertion"; PField "AttributeStatement"; PIndex 0; PField "Attribute"] =
       Some (DList (std_attr "Email" e ++ std_attr "SurName" s ++ std_attr "FirstName" g ++ std_attr "FullName" f ++
                    std_attr "UserName" n ++ std_attr "UserID" u ++ map custom_dattr cs))).
Proof.
  unfold built_sat, built_value. remember (map custom_dpair cs) as CS eqn:ECS.
  destruct acs as [|c0 acs'].
  - Time (
  rewrite call_some; step_find;
  rewrite run_unfold', run_st_cons'; step_exec; cbv iota beta;
  rewrite run_st_cons', exec_return; cbn [s_env s_fresh];
  rewrite eval_call; step_arg; cbv iota beta; cbn [eval_list];
  do 3 (step_arg; cbv iota beta); step_find;
  (* makeAssertionResponse *)
  rewrite run_unfold', run_st_cons'; step_exec; cbv iota beta;
  rewrite run_st_cons', exec_let; cbn [s_env s_fresh];
  rewrite eval_call; cbn [eval_list];
  do 7 (step_arg; cbv iota beta);
  (* the GetSAML call *)
  rewrite ECS;
  rewrite (eval_getsaml (clock issue until) _ _ _ e f g s u n cs) by reflexivity;
  cbv iota beta;
  remember (std_attr "Email" e ++ std_attr "SurName" s ++ std_attr "FirstName" g ++ std_attr "FullName" f ++ std_attr "UserName" n ++ std_attr "UserID" u ++ map custom_dattr cs) as L eqn:EL;
  rewrite <- ECS;
  do 2 (step_arg; cbv iota beta); step_find;
  (* makeAssertion with these values, then the rest of makeAssertionResponse / makeSuccessfulResponse *)
  match goal with |- context [run builders ?o ?K ?en ?fr ?bd] => vm_step (run builders o K en fr bd) end; cbv iota beta;
  cbn [s_env s_fresh];
  rewrite run_st_cons'; step_exec; cbv iota beta;
  rewrite run_st_cons'; step_exec; cbv iota beta;
  repeat split; vm_compute; reflexivity).
  - Time (
  rewrite call_some; step_find;
  rewrite run_unfold', run_st_cons'; step_exec; cbv iota beta;
  rewrite run_st_cons', exec_return; cbn [s_env s_fresh];
  rewrite eval_call; step_arg; cbv iota beta; cbn [eval_list];
  do 3 (step_arg; cbv iota beta); step_find;
  (* makeAssertionResponse *)
  rewrite run_unfold', run_st_cons'; step_exec; cbv iota beta;
  rewrite run_st_cons', exec_let; cbn [s_env s_fresh];
  rewrite eval_call; cbn [eval_list];
  do 7 (step_arg; cbv iota beta);
  (* the GetSAML call *)
  rewrite ECS;
  rewrite (eval_getsaml (clock issue until) _ _ _ e f g s u n cs) by reflexivity;
  cbv iota beta;
  remember (std_attr "Email" e ++ std_attr "SurName" s ++ std_attr "FirstName" g ++ std_attr "FullName" f ++ std_attr "UserName" n ++ std_attr "UserID" u ++ map custom_dattr cs) as L eqn:EL;
  rewrite <- ECS;
  do 2 (step_arg; cbv iota beta); step_find;
  (* makeAssertion with these values, then the rest of makeAssertionResponse / makeSuccessfulResponse *)
  match goal with |- context [run builders ?o ?K ?en ?fr ?bd] => vm_step (run builders o K en fr bd) end; cbv iota beta;
  cbn [s_env s_fresh];
  rewrite run_st_cons'; step_exec; cbv iota beta;
  rewrite run_st_cons'; step_exec; cbv iota beta;
  repeat split; vm_compute; reflexivity).
Qed.

Lemma built_sat_mono fn recv args fresh issue until (P Q : dval -> list bytes -> Prop) :
  built_sat fn recv args fresh issue until P -> (forall d r, P d r -> Q d r) -> built_sat fn recv args fresh issue until Q.
Proof. unfold built_sat. intros H HQ. destruct (built_value fn recv args fresh issue until) as [[d r]|]; [apply HQ, H|exact H]. Qed.

Corollary success_attributes_any reqid acs issuer audience e f g s u n (cs : list dcustom) id1 id2 rest issue until :
  built_sat "makeSuccessfulResponse" (Some (response_rec reqid acs issuer audience))
    [attributes_rec e f g s u n (map custom_dpair cs); DStr (b "f"); DNil] (id1 :: id2 :: rest) issue until
    (fun d r => r = rest /\
       dget d [PField "Assertion"; PField "AttributeStatement"; PIndex 0; PField "Attribute"] =
       Some (DList (std_attr "Email" e ++ std_attr "SurName" s ++ std_attr "FirstName" g ++ std_attr "FullName" f ++
                    std_attr "UserName" n ++ std_attr "UserID" u ++ map custom_dattr cs))).
Proof.
  eapply built_sat_mono; [exact (success_all_any reqid acs issuer audience e f g s u n cs id1 id2 rest issue until)|].
  intros d r (A & _ & _ & _ & _ & _ & _ & _ & _ & _ & _ & _ & B). split; assumption.
Qed.
