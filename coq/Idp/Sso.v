(** Model of ssoHandleFunc (pkg/provider/sso.go) as an interpreter of the checker chain go2v extracts from the
    source ([Gen.Facts.sso_steps]).  Leaf semantics (what each step's closure does) are hand-modelled from
    sso.go / post.go / redirect.go / identityprovider.go and tied to the code by the correspondence check. *)
From Saml Require Import Base.Bytes Idp.FactTypes Gen.Facts Gen.Pure Core.Acs.

(** * Data *)
Record form := { f_binding : bytes; f_req : bytes; f_enc : bytes; f_relay : bytes; f_sigalg : bytes; f_sig : bytes }.
Record sig_info := { sg_keyinfo : option (list bytes)   (* None: no KeyInfo; Some cs: certificate text of each X509Data *);
                     sg_value : bytes }.
Record authn := { a_id : bytes; a_version : bytes; a_destination : bytes; a_binding : bytes; a_issuer : option bytes;
                  a_conditions : option (bytes * bytes) (* NotBefore, NotOnOrAfter *); a_signature : option sig_info }.
Record sp_rec := { sp_id : bytes; sp_entity : bytes; sp_authn_signed : bytes;
                   sp_keydescs : list (list bytes)  (* per KeyDescriptor: certificate text of each X509Data *);
                   sp_acs : list IndexedEndpointType; sp_slo : list bytes }.
Record create_args := { c_acs : bytes; c_binding : bytes; c_relay : bytes; c_app : bytes; c_reqid : bytes }.

Inductive delivery := DBody | DPost (action relay : bytes) | DRedirect (acs relay sigalg sig : bytes).
Record failmsg := { fm_status : bytes; fm_in_response_to : bytes; fm_issuer : bytes; fm_destination : bytes }.
Inductive reply := RLogin (id : bytes) | RFail (d : delivery) (m : failmsg) | RHttp (code : Z).

(** validity window, time.go: instants are absent, unparsable or parsed *)
Inductive instant := IAbsent | IBad | IAt (t : Z).
Definition time_valid (now : Z) (nb noa : instant) : bool :=
  match nb with IBad => false | IAt t => negb (now <? t)%Z | IAbsent => true end &&
  match noa with IBad => false | IAt t => (now <? t)%Z | IAbsent => true end.

(** * Tags: which piece of logic a chain step carries, recognised from the extracted facts *)
Inductive tag := TParseForm | TReqNotEmpty | TSigIfSigAlg | TDecode | TLookupSP | TCertCheck | TVerifyRedirect | TVerifyPost
  | TSelectAcs | TAcsNotEmpty | TBindingNotEmpty | TBindingSupported | TRequiredContent | TPersist | TUnknown.

Definition tag_eqb (x y : tag) : bool :=
  match x, y with
  | TParseForm, TParseForm | TReqNotEmpty, TReqNotEmpty | TSigIfSigAlg, TSigIfSigAlg | TDecode, TDecode | TLookupSP, TLookupSP
  | TCertCheck, TCertCheck | TVerifyRedirect, TVerifyRedirect | TVerifyPost, TVerifyPost | TSelectAcs, TSelectAcs
  | TAcsNotEmpty, TAcsNotEmpty | TBindingNotEmpty, TBindingNotEmpty | TBindingSupported, TBindingSupported
  | TRequiredContent, TRequiredContent | TPersist, TPersist | TUnknown, TUnknown => true
  | _, _ => false
  end.

Open Scope string_scope.
(** (callees, literals, constants) -> tag, expected kind, expected assignments to the response object *)
Definition tag_table : list (list string * list string * list string * tag * kind * list string) := [
  (["getAuthRequestFromRequest"], [], [], TParseForm, KLogicStep, ["response.RelayState"; "response.SigAlg"]);
  ([], ["SAMLRequest"], [], TReqNotEmpty, KValueNotEmptyCheck, []);
  ([], ["Signature"], [], TSigIfSigAlg, KConditionalValueNotEmpty, []);
  (["xml.DecodeAuthNRequest"], [], [], TDecode, KLogicStep, ["response.RequestID"]);
  (["p.GetServiceProvider"; "sp.GetEntityID"], [], [], TLookupSP, KLogicStep, ["response.Audience"]);
  (["certificateCheckNecessary"; "checkCertificate"], [], [], TCertCheck, KConditionalLogicStep, []);
  (["signatureRedirectVerificationNecessary"; "verifyRedirectSignature"], [], [], TVerifyRedirect, KConditionalLogicStep, []);
  (["signaturePostVerificationNecessary"; "verifyPostSignature"], [], [], TVerifyPost, KConditionalLogicStep, []);
  (["GetAcsUrlAndBindingForResponse"], [], [], TSelectAcs, KValueStep, ["response.AcsUrl"; "response.ProtocolBinding"]);
  ([], ["acsUrl"], [], TAcsNotEmpty, KValueNotEmptyCheck, []);
  ([], ["protocol binding"], [], TBindingNotEmpty, KValueNotEmptyCheck, []);
  ([], [], ["PostBinding"; "RedirectBinding"], TBindingSupported, KLogicStep, []);
  (["checkRequestRequiredContent"], [], [], TRequiredContent, KLogicStep, []);
  (["p.storage.CreateAuthRequest"], [], [], TPersist, KLogicStep, [])
].
Close Scope string_scope.

Fixpoint lookup_tag (f : stepfact) (tbl : list (list string * list string * list string * tag * kind * list string)) : tag :=
  match tbl with
  | [] => TUnknown
  | (cs, ls, ks, t, k, ws) :: r =>
      if strs_eqb (callees f) cs && strs_eqb (lits f) ls && strs_eqb (consts f) ks && kind_eqb (sk f) k && strs_eqb (writes f) ws
      then t else lookup_tag f r
  end.
Definition tag_of (f : stepfact) : tag := lookup_tag f tag_table.

(** * Handler state *)
Record state := { l_form : option form; l_req : option authn; l_sp : option sp_rec;
                  r_relay : bytes; r_sigalg : bytes; r_reqid : bytes; r_audience : bytes; r_acs : bytes; r_binding : bytes;
                  l_created : option bytes; created : list create_args }.
Definition st0 : state := {| l_form := None; l_req := None; l_sp := None; r_relay := []; r_sigalg := []; r_reqid := [];
  r_audience := []; r_acs := []; r_binding := []; l_created := None; created := [] |}.

Definition set_form f st := {| l_form := Some f; l_req := l_req st; l_sp := l_sp st; r_relay := f_relay f; r_sigalg := f_sigalg f;
  r_reqid := r_reqid st; r_audience := r_audience st; r_acs := r_acs st; r_binding := r_binding st; l_created := l_created st; created := created st |}.
Definition set_req a st := {| l_form := l_form st; l_req := Some a; l_sp := l_sp st; r_relay := r_relay st; r_sigalg := r_sigalg st;
  r_reqid := a_id a; r_audience := r_audience st; r_acs := r_acs st; r_binding := r_binding st; l_created := l_created st; created := created st |}.
Definition set_sp s st := {| l_form := l_form st; l_req := l_req st; l_sp := Some s; r_relay := r_relay st; r_sigalg := r_sigalg st;
  r_reqid := r_reqid st; r_audience := sp_entity s; r_acs := r_acs st; r_binding := r_binding st; l_created := l_created st; created := created st |}.
Definition set_target (p : bytes * bytes) st := {| l_form := l_form st; l_req := l_req st; l_sp := l_sp st; r_relay := r_relay st; r_sigalg := r_sigalg st;
  r_reqid := r_reqid st; r_audience := r_audience st; r_acs := fst p; r_binding := snd p; l_created := l_created st; created := created st |}.
Definition set_created id c st := {| l_form := l_form st; l_req := l_req st; l_sp := l_sp st; r_relay := r_relay st; r_sigalg := r_sigalg st;
  r_reqid := r_reqid st; r_audience := r_audience st; r_acs := r_acs st; r_binding := r_binding st; l_created := Some id; created := created st ++ [c] |}.

Inductive sres := SPass (st : state) | SFail | SPanic.

Definition xs_true := Core.Acs.xs_true.

Section Sso.
(** what the request and the outside world provide; universally quantified in the theorems *)
Variable e_form : option form.                                   (* getAuthRequestFromRequest; None = form cannot be parsed *)
Variable decode : bytes -> bytes -> option authn.                 (* xml.DecodeAuthNRequest encoding message *)
Variable lookup : bytes -> option sp_rec.                         (* storage.GetEntityByID *)
Variable verify_redirect : sp_rec -> bytes -> bytes -> bytes -> bytes -> bool.  (* request relay sigAlg signature *)
Variable verify_post : sp_rec -> bytes -> bool.                   (* base64-decode the message, validate the enveloped signature *)
Variable instant_of : bytes -> instant.                           (* time.Parse DefaultTimeFormat; IAbsent for "" *)
Variable now : Z.
Variable create : create_args -> option bytes.                    (* storage.CreateAuthRequest *)
Variable want_signed : bytes.                                     (* IdentityProviderConfig.WantAuthRequestsSigned *)
Variable sso_locs : list bytes.                                   (* SingleSignOnService locations in the IdP metadata *)
Variable entity_id : bytes.                                       (* Issuer of every reply *)
Variable cert_ok : bool.                                          (* getResponseCert succeeds (GetMetadata before the chain) *)

Definition post_provided (s : option sig_info) : bool :=
  match s with Some g => negb (is_empty (sg_value g)) | None => false end.
Definition cert_check_necessary (a : authn) (s : sp_rec) : bool :=
  match a_signature a with
  | Some g => match sg_keyinfo g with Some _ => negb (Nat.eqb (length (sp_keydescs s)) 0) | None => false end
  | None => false
  end.
Definition check_certificate (a : authn) (s : sp_rec) : bool :=
  if Nat.eqb (length (sp_keydescs s)) 0 then false else
  match a_signature a with
  | Some g => match sg_keyinfo g with
              | Some cs => if Nat.eqb (length cs) 0 then false
                           else existsb (fun kd => existsb (fun c => bmem c cs) kd) (sp_keydescs s)
              | None => false end
  | None => false
  end.
Definition signing_required (s : sp_rec) : bool := xs_true (sp_authn_signed s) || xs_true want_signed.
Definition redirect_necessary (f : form) (s : sp_rec) : bool :=
  (signing_required s || negb (is_empty (f_sig f))) && beq (f_binding f) c_RedirectBinding.
Definition verify_redirect_sem (f : form) (s : sp_rec) : bool :=
  if is_empty (f_req f) then false else if is_empty (f_sig f) then false else if is_empty (f_sigalg f) then false
  else verify_redirect s (f_req f) (f_relay f) (f_sigalg f) (f_sig f).
Definition post_necessary (f : form) (a : authn) (s : sp_rec) : bool :=
  (signing_required s || post_provided (a_signature a)) && beq (f_binding f) c_PostBinding.
Definition required_content (a : authn) (s : sp_rec) : bool :=
  (match a_conditions a with
   | Some (nb, noa) => if is_empty noa && is_empty nb then true else time_valid now (instant_of nb) (instant_of noa)
   | None => true end) &&
  negb (is_empty (a_id a)) && negb (is_empty (a_version a)) &&
  match a_issuer a with Some i => negb (is_empty i) && beq i (sp_entity s) | None => false end &&
  (is_empty (a_destination a) || bmem (a_destination a) sso_locs).
Definition binding_supported (bn : bytes) : bool := beq bn c_RedirectBinding || beq bn c_PostBinding.

(** what one step does to the handler state: pass (possibly updating it), fail, or dereference nil *)
Definition step_sem (t : tag) (st : state) : sres :=
  match t with
  | TParseForm => match e_form with Some f => SPass (set_form f st) | None => SFail end
  | TReqNotEmpty => match l_form st with Some f => if is_empty (f_req f) then SFail else SPass st | None => SPanic end
  | TSigIfSigAlg => match l_form st with
                    | Some f => if negb (is_empty (f_sigalg f)) && is_empty (f_sig f) then SFail else SPass st
                    | None => SPanic end
  | TDecode => match l_form st with
               | Some f => match decode (f_enc f) (f_req f) with Some a => SPass (set_req a st) | None => SFail end
               | None => SPanic end
  | TLookupSP => match l_req st with
                 | Some a => match a_issuer a with
                             | Some i => match lookup i with Some s => SPass (set_sp s st) | None => SFail end
                             | None => SFail end
                 | None => SPanic end
  | TCertCheck => match l_req st, l_sp st with
                  | Some a, Some s => if cert_check_necessary a s then (if check_certificate a s then SPass st else SFail) else SPass st
                  | _, _ => SPanic end
  | TVerifyRedirect => match l_form st, l_sp st with
                       | Some f, Some s => if redirect_necessary f s then (if verify_redirect_sem f s then SPass st else SFail) else SPass st
                       | _, _ => SPanic end
  | TVerifyPost => match l_form st, l_req st, l_sp st with
                   | Some f, Some a, Some s => if post_necessary f a s then (if verify_post s (f_req f) then SPass st else SFail) else SPass st
                   | _, _, _ => SPanic end
  | TSelectAcs => match l_req st, l_sp st with
                  | Some a, Some s => SPass (set_target (GetAcsUrlAndBindingForResponse (sp_acs s) (a_binding a)) st)
                  | _, _ => SPanic end
  | TAcsNotEmpty => if is_empty (r_acs st) then SFail else SPass st
  | TBindingNotEmpty => if is_empty (r_binding st) then SFail else SPass st
  | TBindingSupported => if binding_supported (r_binding st) then SPass st else SFail
  | TRequiredContent => match l_req st, l_sp st with
                        | Some a, Some s => if required_content a s then SPass st else SFail
                        | _, _ => SPanic end
  | TPersist => match l_form st, l_req st, l_sp st with
                | Some f, Some a, Some s =>
                    let c := {| c_acs := r_acs st; c_binding := r_binding st; c_relay := f_relay f; c_app := sp_id s; c_reqid := a_id a |} in
                    match create c with Some id => SPass (set_created id c st) | None => SFail end
                | _, _, _ => SPanic end
  | TUnknown => SPanic
  end.

(** sendBackResponse(makeFailedResponse(status, ...)) in the state [st] *)
Definition send_failed (status : bytes) (st : state) : reply :=
  let m := {| fm_status := status; fm_in_response_to := r_reqid st; fm_issuer := entity_id; fm_destination := r_acs st |} in
  if is_empty (r_acs st) then RFail DBody m
  else if beq (r_binding st) c_PostBinding then RFail (DPost (r_acs st) (r_relay st)) m
  else if beq (r_binding st) c_RedirectBinding then RFail (DRedirect (r_acs st) (r_relay st) (r_sigalg st) []) m
  else RHttp 500.

Definition fail_reply (f : failfact) (st : state) : list reply :=
  match f with
  | FSaml status => [send_failed status st]
  | FHttp c => [RHttp c]
  | FSamlLogout _ | FNone | FUnknown => []
  end.

Inductive outcome := Done (st : state) (out : list reply) | Panicked (st : state) (out : list reply).

(** the chain: first failing step sends its reply and stops (Core/Checker.v: C20) *)
Fixpoint run_chain (c : list stepfact) (st : state) : bool * outcome :=
  match c with
  | [] => (false, Done st [])
  | f :: r => match step_sem (tag_of f) st with
              | SPass st' => run_chain r st'
              | SFail => (true, Done st (fail_reply (sf f) st))
              | SPanic => (true, Panicked st [])
              end
  end.

(** the terminal switch on response.ProtocolBinding *)
Definition terminal (st : state) : list reply :=
  if binding_supported (r_binding st)
  then match l_created st with Some id => [RLogin id] | None => [] end
  else [send_failed c_StatusCodeUnsupportedBinding st].

Definition sso_handler (c : list stepfact) : outcome :=
  if negb cert_ok then Done st0 [RHttp 500]
  else match run_chain c st0 with
       | (true, o) => o
       | (false, Done st _) => Done st (terminal st)
       | (false, o) => o
       end.
End Sso.
