(** Interpreter for the reply-building functions go2v translates (Gen/Builders.v), and the bridge from what they build
    to the generic values Xml/Schema.v marshals: together, source of response.go + struct tags => reply document.

    Values are dynamically typed records ([DObj] with named fields); [to_gval] lays them out by the schema (declaration
    order, zero values for fields a literal does not mention, pointer or not as the field type says).  Go evaluates
    arguments left to right; [BFresh] (NewID()) takes the next identifier from a list the caller supplies, [BOpaque]
    asks an oracle by source text (the clock: "now.Format(timeFormat)", ...).  Value semantics suffice: no builder
    keeps two live references to one object. *)
From Saml Require Import Base.Bytes Xml.SchemaTypes Xml.Schema Idp.BuilderTypes.
Local Open Scope string_scope.
Local Open Scope list_scope.

Inductive dval :=
| DStr (s : bytes)
| DBool (v : bool)
| DNil
| DObj (ty : string) (fs : list (string * dval))
| DList (l : list dval).

Definition env := list (string * dval).
Fixpoint env_get (e : env) (x : string) : option dval :=
  match e with [] => None | (k, v) :: r => if String.eqb k x then Some v else env_get r x end.
Fixpoint env_set (e : env) (x : string) (v : dval) : env :=
  match e with
  | [] => [(x, v)]
  | (k, w) :: r => if String.eqb k x then (k, v) :: r else (k, w) :: env_set r x v
  end.

Definition sel (d : dval) (f : string) : option dval :=
  match d with
  | DObj _ fs => match env_get fs f with Some v => Some v | None => Some DNil end   (* a field the literal did not set: zero *)
  | _ => None
  end.

(** assignment below a value: x.f.g[i].h = v *)
Fixpoint set_path (d : dval) (p : list pstep) (v : dval) : option dval :=
  match p with
  | [] => Some v
  | PField f :: r =>
      match d with
      | DObj ty fs => match set_path (match env_get fs f with Some x => x | None => DNil end) r v with
                      | Some x => Some (DObj ty (env_set fs f x))
                      | None => None end
      | _ => None
      end
  | PIndex i :: r =>
      match d with
      | DList l => match nth_error l i with
                   | Some x => match set_path x r v with
                               | Some y => Some (DList (firstn i l ++ y :: skipn (S i) l))
                               | None => None end
                   | None => None end
      | _ => None
      end
  end.

Definition dempty (d : dval) : option bool :=
  match d with DStr s => Some (is_empty s) | DNil => Some true | _ => None end.
Definition dnoelems (d : dval) : option bool :=
  match d with DList l => Some (match l with [] => true | _ => false end) | DNil => Some true | _ => None end.
Definition deq (a c : dval) : option bool :=
  match a, c with
  | DStr x, DStr y => Some (beq x y)
  | DNil, DStr y => Some (is_empty y)
  | DStr x, DNil => Some (is_empty x)
  | DNil, DNil => Some true
  | _, _ => None
  end.

Record st := { s_env : env; s_fresh : list bytes }.
Inductive res := RNext (s : st) | RRet (v : dval) (fresh : list bytes).

(** the loop of a [BRange]: one run of the body per element (a slice element, or a (key, value) pair of a map given as a
    list of pairs), in order; the loop itself uses no fuel, so it is defined for lists of any length *)
Definition unpair (x : dval) : dval * dval :=
  match x with
  | DObj ty [(k1, a); (k2, c)] => if String.eqb ty "pair" && String.eqb k1 "k" && String.eqb k2 "v" then (a, c) else (DNil, x)
  | _ => (DNil, x)
  end.
Fixpoint range_loop (body_run : st -> option res) (kx vx : string) (l : list dval) (s : st) : option res :=
  match l with
  | [] => Some (RNext s)
  | x :: r =>
      let '(kv, vv) := unpair x in
      match body_run {| s_env := env_set (env_set (s_env s) kx kv) vx vv; s_fresh := s_fresh s |} with
      | Some (RNext s') => range_loop body_run kx vx r s'
      | Some (RRet v f) => Some (RRet v f)
      | None => None
      end
  end.

(** the arguments of a call, left to right, threading the fresh identifiers *)
Fixpoint eval_list (ev : list bytes -> bexpr -> option (dval * list bytes)) (xs : list bexpr) (fr : list bytes) : option (list dval * list bytes) :=
  match xs with
  | [] => Some ([], fr)
  | y :: r => match ev fr y with
              | Some (d, fr1) => match eval_list ev r fr1 with Some (ds, fr2) => Some (d :: ds, fr2) | None => None end
              | None => None end
  end.

Section Interp.
  Variable funs : list bfun.
  Variable oracle : string -> option dval.

  Definition find_fun (n : string) : option bfun := find (fun f => String.eqb (bf_name f) n) funs.

  Fixpoint bind_params (ps : list string) (vs : list dval) : option env :=
    match ps, vs with
    | [], [] => Some []
    | p :: pr, v :: vr => match bind_params pr vr with Some e => Some ((p, v) :: e) | None => None end
    | _, _ => None
    end.

  (** expressions, statements and calls share one fuel; fresh identifiers are threaded left to right *)
  Fixpoint eval (fuel : nat) (e : env) (fr : list bytes) (x : bexpr) {struct fuel} : option (dval * list bytes) :=
    match fuel with 0 => None | S k =>
    match x with
    | BVar v => match env_get e v with Some d => Some (d, fr) | None => None end
    | BStr s => Some (DStr (b s), fr)
    | BBool v => Some (DBool v, fr)
    | BNil => Some (DNil, fr)
    | BFresh => match fr with i :: r => Some (DStr i, r) | [] => None end
    | BSel y f => match eval k e fr y with
                  | Some (d, fr') => match sel d f with Some v => Some (v, fr') | None => None end
                  | None => None end
    | BIdx y i => match eval k e fr y with
                  | Some (DList l, fr') => match nth_error l i with Some v => Some (v, fr') | None => None end
                  | _ => None end
    | BNew ty fs =>
        match (fix go (fs : list (string * bexpr)) (fr : list bytes) : option (list (string * dval) * list bytes) :=
           match fs with
           | [] => Some ([], fr)
           | (n, y) :: r => match eval k e fr y with
                            | Some (d, fr1) => match go r fr1 with Some (ds, fr2) => Some ((n, d) :: ds, fr2) | None => None end
                            | None => None end
           end) fs fr with Some (ds, fr') => Some (DObj ty ds, fr') | None => None end
    | BList xs =>
        match (fix go (xs : list bexpr) (fr : list bytes) : option (list dval * list bytes) :=
           match xs with
           | [] => Some ([], fr)
           | y :: r => match eval k e fr y with
                       | Some (d, fr1) => match go r fr1 with Some (ds, fr2) => Some (d :: ds, fr2) | None => None end
                       | None => None end
           end) xs fr with Some (ds, fr') => Some (DList ds, fr') | None => None end
    | BCall f recv args =>
        match (match recv with
               | Some y => match eval k e fr y with Some (d, fr') => Some (Some d, fr') | None => None end
               | None => Some (None, fr) end) with
        | None => None
        | Some (rv, fr0) =>
            match eval_list (fun fr y => eval k e fr y) args fr0 with
            | None => None
            | Some (vs, fr1) =>
                match find_fun f with
                | None => None
                | Some fn =>
                    match bind_params (bf_params fn) vs, bf_recv fn, rv with
                    | Some pe, Some rn, Some rd => run k ((rn, rd) :: pe) fr1 (bf_body fn)
                    | Some pe, None, None => run k pe fr1 (bf_body fn)
                    | _, _, _ => None
                    end
                end
            end
        end
    | BConcat x1 x2 => match eval k e fr x1 with
                       | Some (DStr s1, fr1) => match eval k e fr1 x2 with Some (DStr s2, fr2) => Some (DStr (s1 ++ s2), fr2) | _ => None end
                       | _ => None end
    | BOpaque t => match oracle t with Some d => Some (d, fr) | None => None end
    end end
  with cond (fuel : nat) (e : env) (fr : list bytes) (c : bcond) {struct fuel} : option (bool * list bytes) :=
    match fuel with 0 => None | S k =>
    match c with
    | CVar y => match eval k e fr y with Some (DBool v, fr') => Some (v, fr') | _ => None end
    | CNotNil y => match eval k e fr y with Some (d, fr') => Some (match d with DNil => false | _ => true end, fr') | None => None end
    | CNotEmpty y => match eval k e fr y with
                     | Some (d, fr') => match dempty d with Some v => Some (negb v, fr') | None => None end
                     | None => None end
    | CNoElems y => match eval k e fr y with
                    | Some (d, fr') => match dnoelems d with Some v => Some (v, fr') | None => None end
                    | None => None end
    | CEq x y => match eval k e fr x with
                 | Some (d1, fr1) => match eval k e fr1 y with
                                     | Some (d2, fr2) => match deq d1 d2 with Some v => Some (v, fr2) | None => None end
                                     | None => None end
                 | None => None end
    | CAnd x y => match cond k e fr x with
                  | Some (true, fr1) => cond k e fr1 y
                  | Some (false, fr1) => Some (false, fr1)
                  | None => None end
    | COr x y => match cond k e fr x with
                 | Some (true, fr1) => Some (true, fr1)
                 | Some (false, fr1) => cond k e fr1 y
                 | None => None end
    end end
  with exec (fuel : nat) (s : st) (i : bstmt) {struct fuel} : option res :=
    match fuel with 0 => None | S k =>
    let e := s_env s in let fr := s_fresh s in
    match i with
    | BLet x y => match eval k e fr y with
                  | Some (d, fr') => Some (RNext {| s_env := env_set e x d; s_fresh := fr' |})
                  | None => None end
    | BLetN xs y =>
        match eval k e fr y with
        | Some (DList ds, fr') =>
            if Nat.eqb (length xs) (length ds)
            then Some (RNext {| s_env := fold_left (fun acc p => env_set acc (fst p) (snd p)) (combine xs ds) e; s_fresh := fr' |})
            else None
        | _ => None
        end
    | BSetAll l f y =>
        match eval k e fr y, env_get e l with
        | Some (d, fr'), Some (DList xs) =>
            let upd x := match x with
                         | DObj ty fs => DObj ty (map (fun p => if String.eqb (fst p) f then (fst p, match snd p with DList vs => DList (map (fun _ => d) vs) | o => o end) else p) fs)
                         | o => o end in
            Some (RNext {| s_env := env_set e l (DList (map upd xs)); s_fresh := fr' |})
        | _, _ => None
        end
    | BAssign root p y =>
        match eval k e fr y, env_get e root with
        | Some (d, fr'), Some old => match set_path old p d with
                                     | Some new => Some (RNext {| s_env := env_set e root new; s_fresh := fr' |})
                                     | None => None end
        | _, _ => None
        end
    | BAppend x y =>
        match eval k e fr y, env_get e x with
        | Some (d, fr'), Some (DList l) => Some (RNext {| s_env := env_set e x (DList (l ++ [d])); s_fresh := fr' |})
        | _, _ => None
        end
    | BIf c body els =>
        match cond k e fr c with
        | Some (v, fr') => match run_st k {| s_env := e; s_fresh := fr' |} (if v then body else els) with
                           | Some r => Some r | None => None end
        | None => None
        end
    | BRange kx vx y body =>
        match eval k e fr y with
        | Some (d, fr') =>
            match (match d with DList l => Some l | DNil => Some [] | _ => None end) with
            | None => None
            | Some l =>
                range_loop (fun s' => run_st k s' body) kx vx l {| s_env := e; s_fresh := fr' |}
            end
        | None => None
        end
    | BReturn y => match eval k e fr y with Some (d, fr') => Some (RRet d fr') | None => None end
    end end
  with run_st (fuel : nat) (s : st) (body : list bstmt) {struct fuel} : option res :=
    match fuel with 0 => None | S k =>
    match body with
    | [] => Some (RNext s)
    | i :: r => match exec k s i with
                | Some (RNext s') => run_st k s' r
                | Some (RRet v f) => Some (RRet v f)
                | None => None
                end
    end end
  with run (fuel : nat) (e : env) (fr : list bytes) (body : list bstmt) {struct fuel} : option (dval * list bytes) :=
    match fuel with 0 => None | S k =>
    match run_st k {| s_env := e; s_fresh := fr |} body with
    | Some (RRet v f) => Some (v, f)
    | _ => None
    end end.

  Definition call (fuel : nat) (f : string) (recv : option dval) (args : list dval) (fr : list bytes) : option (dval * list bytes) :=
    match find_fun f with
    | None => None
    | Some fn => match bind_params (bf_params fn) args, bf_recv fn, recv with
                 | Some pe, Some rn, Some rd => run fuel ((rn, rd) :: pe) fr (bf_body fn)
                 | Some pe, None, None => run fuel pe fr (bf_body fn)
                 | _, _, _ => None
                 end
    end.
End Interp.

(** * from dynamic records to the generic values of the marshaller *)
Fixpoint zero_val (fuel : nat) (sch : schema) (t : ftype) : option gval :=
  match fuel with 0 => None | S k =>
  match t with
  | TStr => Some (VStr [])
  | TBool => Some (VScalar (b "false") true)
  | TInt | TUint => Some (VScalar (b "0") true)
  | TXMLName => Some (VName [] [])
  | TPtr _ => Some VNil
  | TSlice _ => Some (VList [])
  | TNamed n => match lookup sch n with
                | Some (SAlias t') => zero_val k sch t'
                | Some (SStruct fs) =>
                    match (fix go (fs : list gfield) : option (list gval) :=
                       match fs with
                       | [] => Some []
                       | f :: r => match zero_val k sch (g_type f), go r with Some v, Some vs => Some (v :: vs) | _, _ => None end
                       end) fs with Some vs => Some (VStruct vs) | None => None end
                | None => None
                end
  end end.

Fixpoint to_gval (fuel : nat) (sch : schema) (t : ftype) (d : dval) {struct fuel} : option gval :=
  match fuel with 0 => None | S k =>
  match t, d with
  | _, DNil => zero_val fuel sch t
  | TStr, DStr s => Some (VStr s)
  | TXMLName, DObj _ fs => Some (VName (match env_get fs "Space" with Some (DStr x) => x | _ => [] end) (match env_get fs "Local" with Some (DStr x) => x | _ => [] end))
  | TBool, DBool v => Some (VScalar (b (if v then "true" else "false")) (negb v))
  | TPtr t', _ => match to_gval k sch t' d with Some v => Some (VPtr v) | None => None end
  | TSlice t', DList l =>
      match (fix go (l : list dval) : option (list gval) :=
         match l with
         | [] => Some []
         | x :: r => match to_gval k sch t' x, go r with Some v, Some vs => Some (v :: vs) | _, _ => None end
         end) l with Some vs => Some (VList vs) | None => None end
  | TNamed n, _ =>
      match lookup sch n with
      | Some (SAlias t') => to_gval k sch t' d
      | Some (SStruct fs) =>
          match d with
          | DObj ty dfs =>
              if negb (String.eqb ty n) then None else
              (* every field the literal names must exist in the struct *)
              if negb (forallb (fun p => existsb (fun f => String.eqb (g_name f) (fst p)) fs) dfs) then None else
              match (fix go (fs : list gfield) : option (list gval) :=
                 match fs with
                 | [] => Some []
                 | f :: r =>
                     match (match env_get dfs (g_name f) with
                            | Some x => to_gval k sch (g_type f) x
                            | None => zero_val k sch (g_type f) end), go r with
                     | Some v, Some vs => Some (v :: vs)
                     | _, _ => None
                     end
                 end) fs with Some vs => Some (VStruct vs) | None => None end
          | _ => None
          end
      | None => None
      end
  | _, _ => None
  end end.
