(** The attribute filter of makeAttributeQueryResponse, from the source of response.go (builder program), for ANY user
    attribute list and ANY list of requested attributes: nothing requested -> all attributes; otherwise each attribute
    once per requested entry whose Name and NameFormat both equal its own.  Proved by symbolic execution of the two nested
    loops over an abstract environment (only look-up facts are kept), by induction on both lists. *)
From Saml Require Import Base.Bytes Idp.BuilderTypes Idp.Builder Gen.Builders Idp.BuiltDoc Idp.GetSamlAll Idp.SuccessAny.
From Coq Require Import List String Bool. Import ListNotations.
Local Open Scope string_scope.
Local Open Scope list_scope.

(** * environments: look-up after update *)
Lemma env_get_set_same e x v : env_get (env_set e x v) x = Some v.
Proof.
  induction e as [|[k w] r IH]; cbn [env_set env_get]; [now rewrite String.eqb_refl|].
  destruct (String.eqb k x) eqn:E; cbn [env_get]; rewrite E; [reflexivity|exact IH].
Qed.
Lemma env_get_set_other e x y v : x <> y -> env_get (env_set e x v) y = env_get e y.
Proof.
  intro N. induction e as [|[k w] r IH]; cbn [env_set env_get].
  - destruct (String.eqb_spec x y); [contradiction|reflexivity].
  - destruct (String.eqb_spec k x) as [->|Nk]; cbn [env_get].
    + destruct (String.eqb_spec x y); [contradiction|reflexivity].
    + destruct (String.eqb k y); [reflexivity|exact IH].
Qed.

(** * attributes as the programs see them *)
Definition nm (a : dval) : bytes := match sel a "Name" with Some (DStr n) => n | _ => [] end.
Definition fm (a : dval) : bytes := match sel a "NameFormat" with Some (DStr n) => n | _ => [] end.
Definition wf_attr (a : dval) : Prop := sel a "Name" = Some (DStr (nm a)) /\ sel a "NameFormat" = Some (DStr (fm a)).
Definition dmatch (a q : dval) : bool := beq (nm a) (nm q) && beq (fm a) (fm q).
Definition dfilter (qs l : list dval) : list dval :=
  match qs with
  | [] => l
  | _ => flat_map (fun a => flat_map (fun q => if dmatch a q then [a] else []) qs) l
  end.

Lemma wf_unpair x : wf_attr x -> unpair x = (DNil, x).
Proof.
  intros [H _]. destruct x as [| | |ty fs|]; try reflexivity.
  destruct fs as [|[k1 a] [|[k2 c] [|? ?]]]; try reflexivity. cbn [unpair].
  destruct (String.eqb ty "pair" && String.eqb k1 "k" && String.eqb k2 "v") eqn:E; [|reflexivity].
  apply andb_prop in E as [E E2]. apply andb_prop in E as [_ E1].
  apply String.eqb_eq in E1, E2. subst k1 k2. unfold nm in H. cbn in H. discriminate.
Qed.

Section F.
Variable o : string -> option dval.
Notation run_st := (run_st builders o).
Notation exec := (exec builders o).
Notation eval := (eval builders o).
Notation cond := (cond builders o).

(** * one-level unfoldings of the interpreter (any fuel) *)
Lemma run_st_nil k s : run_st (S k) s [] = Some (RNext s).
Proof. reflexivity. Qed.
Lemma exec_if k s c body els : exec (S k) s (BIf c body els) =
  match cond k (s_env s) (s_fresh s) c with
  | Some (v, fr') => match run_st k {| s_env := s_env s; s_fresh := fr' |} (if v then body else els) with Some r => Some r | None => None end
  | None => None end.
Proof. reflexivity. Qed.
Lemma exec_append k s x y : exec (S k) s (BAppend x y) =
  match eval k (s_env s) (s_fresh s) y, env_get (s_env s) x with
  | Some (d, fr'), Some (DList l) => Some (RNext {| s_env := env_set (s_env s) x (DList (l ++ [d])); s_fresh := fr' |})
  | _, _ => None end.
Proof. reflexivity. Qed.
Lemma exec_range k s kx vx y body : exec (S k) s (BRange kx vx y body) =
  match eval k (s_env s) (s_fresh s) y with
  | Some (d, fr') =>
      match (match d with DList l => Some l | DNil => Some [] | _ => None end) with
      | None => None
      | Some l => range_loop (fun s' => run_st k s' body) kx vx l {| s_env := s_env s; s_fresh := fr' |}
      end
  | None => None end.
Proof. reflexivity. Qed.
Lemma cond_and k e fr x y : cond (S k) e fr (CAnd x y) =
  match cond k e fr x with Some (true, fr1) => cond k e fr1 y | Some (false, fr1) => Some (false, fr1) | None => None end.
Proof. reflexivity. Qed.
Lemma cond_or k e fr x y : cond (S k) e fr (COr x y) =
  match cond k e fr x with Some (true, fr1) => Some (true, fr1) | Some (false, fr1) => cond k e fr1 y | None => None end.
Proof. reflexivity. Qed.
Lemma cond_eq k e fr x y : cond (S k) e fr (CEq x y) =
  match eval k e fr x with
  | Some (d1, fr1) => match eval k e fr1 y with
                      | Some (d2, fr2) => match deq d1 d2 with Some v => Some (v, fr2) | None => None end
                      | None => None end
  | None => None end.
Proof. reflexivity. Qed.
Lemma cond_noelems k e fr y : cond (S k) e fr (CNoElems y) =
  match eval k e fr y with
  | Some (d, fr') => match dnoelems d with Some v => Some (v, fr') | None => None end
  | None => None end.
Proof. reflexivity. Qed.
Lemma eval_sel k e fr y f : eval (S k) e fr (BSel y f) =
  match eval k e fr y with Some (d, fr') => match sel d f with Some v => Some (v, fr') | None => None end | None => None end.
Proof. reflexivity. Qed.

(** * the inner loop: one attribute against every requested entry *)
Definition inner_body : list bstmt :=
  [BIf (CAnd (CEq (BSel (BVar "attrSaml") "Name") (BSel (BVar "queriedAttr") "Name"))
             (CEq (BSel (BVar "attrSaml") "NameFormat") (BSel (BVar "queriedAttr") "NameFormat")))
       [BAppend "providedAttrs" (BVar "attrSaml")] []].

Lemma inner_step k E fr a q acc :
  env_get E "attrSaml" = Some a -> env_get E "queriedAttr" = Some q -> env_get E "providedAttrs" = Some (DList acc) ->
  wf_attr a -> wf_attr q ->
  run_st (S (S (S (S (S (S (S (S (S (S (k))))))))))) {| s_env := E; s_fresh := fr |} inner_body =
  Some (RNext {| s_env := (if dmatch a q then env_set E "providedAttrs" (DList (acc ++ [a])) else E); s_fresh := fr |}).
Proof.
  intros Ha Hq Hp [Wa1 Wa2] [Wq1 Wq2]. unfold inner_body.
  rewrite run_st_cons', exec_if. cbn [s_env s_fresh].
  rewrite cond_and, cond_eq.
  repeat (rewrite ?eval_sel, ?eval_var, ?Ha, ?Hq, ?Wa1, ?Wq1; cbv iota beta). cbn [deq].
  unfold dmatch. destruct (beq (nm a) (nm q)).
  - rewrite cond_eq.
    repeat (rewrite ?eval_sel, ?eval_var, ?Ha, ?Hq, ?Wa2, ?Wq2; cbv iota beta). cbn [deq andb].
    destruct (beq (fm a) (fm q)).
    + rewrite run_st_cons', exec_append. cbn [s_env s_fresh]. rewrite eval_var, Ha, Hp. rewrite run_st_nil. rewrite run_st_nil. reflexivity.
    + rewrite run_st_nil, run_st_nil. reflexivity.
  - cbn [andb]. rewrite run_st_nil, run_st_nil. reflexivity.
Qed.

Definition frame (keep : list string) (E E' : env) : Prop := forall x, ~ In x keep -> env_get E' x = env_get E x.

Lemma inner_loop k a : forall qs E fr acc,
  env_get E "attrSaml" = Some a -> env_get E "providedAttrs" = Some (DList acc) -> wf_attr a -> Forall wf_attr qs ->
  exists E', range_loop (fun s' => run_st (S (S (S (S (S (S (S (S (S (S (k))))))))))) s' inner_body) "_" "queriedAttr" qs {| s_env := E; s_fresh := fr |} = Some (RNext {| s_env := E'; s_fresh := fr |}) /\
             env_get E' "providedAttrs" = Some (DList (acc ++ flat_map (fun q => if dmatch a q then [a] else []) qs)) /\
             frame ["providedAttrs"; "_"; "queriedAttr"] E E'.
Proof.
  induction qs as [|q qs IH]; intros E fr acc Ha Hp Wa Wqs.
  - exists E. cbn [range_loop flat_map]. rewrite app_nil_r. repeat split; auto; intros x _; reflexivity.
  - inversion Wqs as [|? ? Wq Wqs']; subst. cbn [range_loop]. rewrite (wf_unpair q Wq). cbn [s_env s_fresh].
    set (E1 := env_set (env_set E "_" DNil) "queriedAttr" q).
    assert (Ha1 : env_get E1 "attrSaml" = Some a) by (unfold E1; rewrite !env_get_set_other by discriminate; exact Ha).
    assert (Hq1 : env_get E1 "queriedAttr" = Some q) by (unfold E1; apply env_get_set_same).
    assert (Hp1 : env_get E1 "providedAttrs" = Some (DList acc)) by (unfold E1; rewrite !env_get_set_other by discriminate; exact Hp).
    rewrite (inner_step k E1 fr a q acc Ha1 Hq1 Hp1 Wa Wq).
    set (E2 := if dmatch a q then env_set E1 "providedAttrs" (DList (acc ++ [a])) else E1).
    assert (Ha2 : env_get E2 "attrSaml" = Some a) by (unfold E2; destruct (dmatch a q); [rewrite env_get_set_other by discriminate|]; exact Ha1).
    assert (Hp2 : env_get E2 "providedAttrs" = Some (DList (acc ++ (if dmatch a q then [a] else []))))
      by (unfold E2; destruct (dmatch a q); [apply env_get_set_same|rewrite app_nil_r; exact Hp1]).
    destruct (IH E2 fr _ Ha2 Hp2 Wa Wqs') as (E' & R & P & Fr).
    exists E'. split; [exact R|]. split.
    + rewrite P. cbn [flat_map]. now rewrite app_assoc.
    + intros x Hx. rewrite (Fr x Hx). unfold E2.
      assert (env_get E1 x = env_get E x) as X1.
      { unfold E1. rewrite !env_get_set_other; [reflexivity| |]; intro; subst x; apply Hx; cbn; auto. }
      destruct (dmatch a q); [rewrite env_get_set_other; [exact X1|intro; subst x; apply Hx; cbn; auto]|exact X1].
Qed.

(** * the outer loops *)
Definition outer_body : list bstmt := [BRange "_" "queriedAttr" (BVar "queriedAttrs") inner_body].
Definition all_body : list bstmt := [BAppend "providedAttrs" (BVar "attrSaml")].

Lemma outer_step k E fr a qs acc :
  env_get E "attrSaml" = Some a -> env_get E "queriedAttrs" = Some (DList qs) -> env_get E "providedAttrs" = Some (DList acc) ->
  wf_attr a -> Forall wf_attr qs ->
  exists E', run_st (S (S (S (S (S (S (S (S (S (S (S (S (k))))))))))))) {| s_env := E; s_fresh := fr |} outer_body = Some (RNext {| s_env := E'; s_fresh := fr |}) /\
             env_get E' "providedAttrs" = Some (DList (acc ++ flat_map (fun q => if dmatch a q then [a] else []) qs)) /\
             frame ["providedAttrs"; "_"; "queriedAttr"] E E'.
Proof.
  intros Ha Hq Hp Wa Wqs. unfold outer_body.
  rewrite run_st_cons', exec_range. cbn [s_env s_fresh]. rewrite eval_var, Hq.
  destruct (inner_loop k a qs E fr acc Ha Hp Wa Wqs) as (E2 & R & P & Fr).
  rewrite R. rewrite run_st_nil. exists E2. auto.
Qed.
Lemma all_step k E fr a acc :
  env_get E "attrSaml" = Some a -> env_get E "providedAttrs" = Some (DList acc) ->
  run_st (S (S (S (S (S (S (S (S (S (S (S (S (k))))))))))))) {| s_env := E; s_fresh := fr |} all_body = Some (RNext {| s_env := env_set E "providedAttrs" (DList (acc ++ [a])); s_fresh := fr |}).
Proof.
  intros Ha Hp. unfold all_body. rewrite run_st_cons', exec_append. cbn [s_env s_fresh]. rewrite eval_var, Ha, Hp. rewrite run_st_nil. reflexivity.
Qed.

Lemma outer_loop k qs : Forall wf_attr qs -> forall l E fr acc,
  env_get E "queriedAttrs" = Some (DList qs) -> env_get E "providedAttrs" = Some (DList acc) -> Forall wf_attr l ->
  exists E', range_loop (fun s' => run_st (S (S (S (S (S (S (S (S (S (S (S (S (k))))))))))))) s' outer_body) "_" "attrSaml" l {| s_env := E; s_fresh := fr |} = Some (RNext {| s_env := E'; s_fresh := fr |}) /\
             env_get E' "providedAttrs" = Some (DList (acc ++ flat_map (fun a => flat_map (fun q => if dmatch a q then [a] else []) qs) l)) /\
             frame ["providedAttrs"; "_"; "queriedAttr"; "attrSaml"] E E'.
Proof.
  intros Wqs. induction l as [|a l IH]; intros E fr acc Hq Hp Wl.
  - exists E. cbn [range_loop flat_map]. rewrite app_nil_r. repeat split; auto; intros x _; reflexivity.
  - inversion Wl as [|? ? Wa Wl']; subst. cbn [range_loop]. rewrite (wf_unpair a Wa). cbn [s_env s_fresh].
    set (E1 := env_set (env_set E "_" DNil) "attrSaml" a).
    assert (Ha1 : env_get E1 "attrSaml" = Some a) by (unfold E1; apply env_get_set_same).
    assert (Hq1 : env_get E1 "queriedAttrs" = Some (DList qs)) by (unfold E1; rewrite !env_get_set_other by discriminate; exact Hq).
    assert (Hp1 : env_get E1 "providedAttrs" = Some (DList acc)) by (unfold E1; rewrite !env_get_set_other by discriminate; exact Hp).
    destruct (outer_step k E1 fr a qs acc Ha1 Hq1 Hp1 Wa Wqs) as (E2 & R & P & Fr).
    rewrite R.
    assert (Hq2 : env_get E2 "queriedAttrs" = Some (DList qs)) by (rewrite Fr; [exact Hq1|cbn; intros [X|[X|[X|[]]]]; discriminate]).
    destruct (IH E2 fr _ Hq2 P Wl') as (E' & R' & P' & Fr').
    exists E'. split; [exact R'|]. split.
    + rewrite P'. cbn [flat_map]. now rewrite app_assoc.
    + intros x Hx. rewrite (Fr' x Hx). rewrite Fr; [|intro I; apply Hx; cbn [In] in I |- *; tauto].
      unfold E1. rewrite !env_get_set_other; [reflexivity| |]; intro; subst x; apply Hx; cbn; auto.
Qed.

Lemma all_loop k : forall l E fr acc,
  env_get E "providedAttrs" = Some (DList acc) -> Forall wf_attr l ->
  exists E', range_loop (fun s' => run_st (S (S (S (S (S (S (S (S (S (S (S (S (k))))))))))))) s' all_body) "_" "attrSaml" l {| s_env := E; s_fresh := fr |} = Some (RNext {| s_env := E'; s_fresh := fr |}) /\
             env_get E' "providedAttrs" = Some (DList (acc ++ l)) /\
             frame ["providedAttrs"; "_"; "queriedAttr"; "attrSaml"] E E'.
Proof.
  induction l as [|a l IH]; intros E fr acc Hp Wl.
  - exists E. cbn [range_loop]. rewrite app_nil_r. repeat split; auto; intros x _; reflexivity.
  - inversion Wl as [|? ? Wa Wl']; subst. cbn [range_loop]. rewrite (wf_unpair a Wa). cbn [s_env s_fresh].
    set (E1 := env_set (env_set E "_" DNil) "attrSaml" a).
    assert (Ha1 : env_get E1 "attrSaml" = Some a) by (unfold E1; apply env_get_set_same).
    assert (Hp1 : env_get E1 "providedAttrs" = Some (DList acc)) by (unfold E1; rewrite !env_get_set_other by discriminate; exact Hp).
    rewrite (all_step k E1 fr a acc Ha1 Hp1).
    destruct (IH (env_set E1 "providedAttrs" (DList (acc ++ [a]))) fr _ (env_get_set_same _ _ _) Wl') as (E' & R' & P' & Fr').
    exists E'. split; [exact R'|]. split.
    + rewrite P'. now rewrite <- app_assoc.
    + intros x Hx. rewrite (Fr' x Hx). rewrite env_get_set_other by (intro; subst x; apply Hx; cbn; auto).
      unfold E1. rewrite !env_get_set_other; [reflexivity| |]; intro; subst x; apply Hx; cbn; auto.
Qed.

(** * the statement that filters *)
Definition filter_stmt : bstmt :=
  BIf (COr (CNoElems (BVar "queriedAttrs")) (CNoElems (BVar "queriedAttrs")))
      [BRange "_" "attrSaml" (BVar "attrsSaml") all_body] [BRange "_" "attrSaml" (BVar "attrsSaml") outer_body].

Lemma filter_exec k E fr qs l :
  env_get E "queriedAttrs" = Some (DList qs) -> env_get E "attrsSaml" = Some (DList l) -> env_get E "providedAttrs" = Some (DList []) ->
  Forall wf_attr qs -> Forall wf_attr l ->
  exists E', exec (S (S (S (S (S (S (S (S (S (S (S (S (S (S (S (k)))))))))))))))) {| s_env := E; s_fresh := fr |} filter_stmt = Some (RNext {| s_env := E'; s_fresh := fr |}) /\
             env_get E' "providedAttrs" = Some (DList (dfilter qs l)) /\
             frame ["providedAttrs"; "_"; "queriedAttr"; "attrSaml"] E E'.
Proof.
  intros Hq Hl Hp Wq Wl. unfold filter_stmt. rewrite exec_if. cbn [s_env s_fresh].
  rewrite cond_or, cond_noelems, eval_var, Hq. cbn [dnoelems].
  destruct qs as [|q qs'].
  - cbv iota beta. rewrite run_st_cons', exec_range. cbn [s_env s_fresh]. rewrite eval_var, Hl.
    destruct (all_loop k l E fr [] Hp Wl) as (E' & R & P & Fr).
    rewrite R, run_st_nil. exists E'. auto.
  - cbv iota beta. rewrite cond_noelems, eval_var, Hq. cbn [dnoelems]. cbv iota beta.
    rewrite run_st_cons', exec_range. cbn [s_env s_fresh]. rewrite eval_var, Hl.
    destruct (outer_loop k (q :: qs') Wq l E fr [] Hq Hp Wl) as (E' & R & P & Fr).
    rewrite R, run_st_nil. exists E'. auto.
Qed.

Lemma eval_fresh k e i r : eval (S k) e (i :: r) BFresh = Some (DStr i, r).
Proof. reflexivity. Qed.
Lemma eval_str k e fr x : eval (S k) e fr (BStr x) = Some (DStr (b x), fr).
Proof. reflexivity. Qed.
Lemma eval_bool k e fr v : eval (S k) e fr (BBool v) = Some (DBool v, fr).
Proof. reflexivity. Qed.
Lemma eval_opaque k e fr t : eval (S k) e fr (BOpaque t) = match o t with Some d => Some (d, fr) | None => None end.
Proof. reflexivity. Qed.
Lemma exec_assign k s root p y : exec (S k) s (BAssign root p y) =
  match eval k (s_env s) (s_fresh s) y, env_get (s_env s) root with
  | Some (d, fr'), Some old => match set_path old p d with
                               | Some new => Some (RNext {| s_env := env_set (s_env s) root new; s_fresh := fr' |})
                               | None => None end
  | _, _ => None end.
Proof. reflexivity. Qed.
End F.

(** the attributes GetSAML yields have a Name and a NameFormat *)
Lemma wf_std name v : Forall wf_attr (std_attr name v).
Proof. unfold std_attr. destruct (is_empty v); constructor; [|constructor]. split; reflexivity. Qed.
Lemma wf_custom (cs : list dcustom) : Forall wf_attr (map custom_dattr cs).
Proof. induction cs as [|[[[n f] nf] vs] cs IH]; constructor; [split; reflexivity|exact IH]. Qed.
Lemma wf_getsaml e f g s u n (cs : list dcustom) :
  Forall wf_attr (std_attr "Email" e ++ std_attr "SurName" s ++ std_attr "FirstName" g ++ std_attr "FullName" f ++ std_attr "UserName" n ++ std_attr "UserID" u ++ map custom_dattr cs).
Proof. repeat (apply Forall_app; split; [apply wf_std|]). apply wf_custom. Qed.

Definition aq_body : list bstmt := Eval vm_compute in match find_fun builders "makeAttributeQueryResponse" with Some f => bf_body f | None => [] end.
Lemma filter_stmt_from_source : nth_error aq_body 3 = Some filter_stmt.
Proof. reflexivity. Qed.

Ltac env_fact := repeat first [rewrite env_get_set_same | rewrite env_get_set_other by discriminate].
Ltac use_fact := match goal with H : env_get ?E ?x = Some _ |- context [env_get ?E ?x] => rewrite H end.
Ltac arg := first [ rewrite eval_fresh | rewrite eval_str | rewrite eval_bool
                  | (rewrite eval_opaque; cbn [clock String.eqb Ascii.eqb Bool.eqb orb])
                  | (rewrite eval_var; env_fact; try use_fact) ]; cbv iota beta.
Ltac step_run := match goal with |- context [run builders ?o ?K ?en ?fr ?bd] => vm_step (run builders o K en fr bd) end; cbv iota beta.

Theorem aq_all_any reqid issuer sp e f g s u n (cs : list dcustom) (qs : list dval) id1 id2 rest issue until :
  Forall wf_attr qs ->
  built_sat "makeAttributeQueryResponse" None
    [DStr reqid; DStr issuer; DStr sp; attributes_rec e f g s u n (map custom_dpair cs); DList qs; DStr (b "f"); DNil] (id1 :: id2 :: rest) issue until
    (fun d r => r = rest /\
       at_ d ["InResponseTo"] = Some (DStr reqid) /\ dget d (sc_data ++ [PField "InResponseTo"]) = Some (DStr reqid) /\
       at_ d ["Destination"] = None /\ dget d (sc_data ++ [PField "Recipient"]) = None /\
       at_ d ["Issuer"; "Text"] = Some (DStr issuer) /\ at_ d ["Assertion"; "Issuer"; "Text"] = Some (DStr issuer) /\
       dget d [PField "Assertion"; PField "Conditions"; PField "AudienceRestriction"; PIndex 0; PField "Audience"] = Some (DList [DStr sp]) /\
       at_ d ["Assertion"; "Subject"; "NameID"; "Text"] = Some (DStr n) /\
       at_ d ["Assertion"; "AuthnStatement"] = None /\
       dget d [PField "Assertion"; PField "AttributeStatement"; PIndex 0; PField "Attribute"] =
       Some (DList (dfilter qs (std_attr "Email" e ++ std_attr "SurName" s ++ std_attr "FirstName" g ++ std_attr "FullName" f ++
                                std_attr "UserName" n ++ std_attr "UserID" u ++ map custom_dattr cs)))).
Proof.
  intro Wq. unfold built_sat, built_value.
  remember (map custom_dpair cs) as CS eqn:ECS.
  unfold call. step_find.
  rewrite run_unfold', run_st_cons'. step_exec. cbv iota beta.
  rewrite run_st_cons'. step_exec. cbv iota beta.
  rewrite run_st_cons', exec_let. cbn [s_env s_fresh].
  rewrite ECS. rewrite (eval_getsaml (clock issue until) _ _ _ e f g s u n cs) by reflexivity. cbv iota beta.
  remember (std_attr "Email" e ++ std_attr "SurName" s ++ std_attr "FirstName" g ++ std_attr "FullName" f ++ std_attr "UserName" n ++ std_attr "UserID" u ++ map custom_dattr cs) as L eqn:EL.
  rewrite <- ECS.
  rewrite run_st_cons'.
  match goal with |- context [env_set ?e0 "attrsSaml" ?v] => vm_step (env_set e0 "attrsSaml" v) end.
  match goal with |- context [Builder.exec builders _ _ {| s_env := ?e0; s_fresh := _ |} _] => set (E3 := e0) end.
  match goal with |- context [Builder.exec builders ?oo ?K ?st ?i] => change (Builder.exec builders oo K st i) with (Builder.exec builders oo K st filter_stmt) end.
  assert (WL : Forall wf_attr L) by (rewrite EL; apply wf_getsaml).
  destruct (filter_exec (clock issue until) 380 E3 (id1 :: id2 :: rest) qs L eq_refl eq_refl eq_refl Wq WL) as (E4 & X & P & Fr).
  rewrite X. clear X.
  assert (F1 : env_get E4 "requestID" = Some (DStr reqid)) by (rewrite Fr; [reflexivity|cbn [In]; intuition discriminate]).
  assert (F2 : env_get E4 "issuer" = Some (DStr issuer)) by (rewrite Fr; [reflexivity|cbn [In]; intuition discriminate]).
  assert (F3 : env_get E4 "entityID" = Some (DStr sp)) by (rewrite Fr; [reflexivity|cbn [In]; intuition discriminate]).
  assert (F4 : env_get E4 "attributes" = Some (attributes_rec e f g s u n CS)) by (rewrite Fr; [reflexivity|cbn [In]; intuition discriminate]).
  clearbody E3. clear Fr.
  (* response := makeResponse(...) *)
  rewrite run_st_cons', exec_let. cbn [s_env s_fresh].
  rewrite eval_call. cbn [eval_list].
  do 7 arg. step_find. step_run. cbn [s_env s_fresh].
  (* assertion := makeAssertion(...) *)
  rewrite run_st_cons', exec_let. cbn [s_env s_fresh].
  rewrite eval_call. cbn [eval_list].
  do 6 arg.
  (* GetNameID *)
  rewrite eval_call. arg. cbn [eval_list]. step_find. step_run.
  remember (dfilter qs L) as FL eqn:EFL.
  do 3 arg. step_find. step_run. cbn [s_env s_fresh].
  (* response.Assertion = assertion; return response *)
  rewrite run_st_cons', exec_assign. cbn [s_env s_fresh].
  arg. env_fact. cbv iota beta.
  match goal with |- context [set_path ?a ?p ?d] => vm_step (set_path a p d) end. cbv iota beta.
  rewrite run_st_cons', exec_return. cbn [s_env s_fresh]. arg.
  repeat split; vm_compute; reflexivity.
Qed.

Corollary aq_attributes_any reqid issuer sp e f g s u n (cs : list dcustom) (qs : list dval) id1 id2 rest issue until :
  Forall wf_attr qs ->
  built_sat "makeAttributeQueryResponse" None
    [DStr reqid; DStr issuer; DStr sp; attributes_rec e f g s u n (map custom_dpair cs); DList qs; DStr (b "f"); DNil] (id1 :: id2 :: rest) issue until
    (fun d r => r = rest /\
       dget d [PField "Assertion"; PField "AttributeStatement"; PIndex 0; PField "Attribute"] =
       Some (DList (dfilter qs (std_attr "Email" e ++ std_attr "SurName" s ++ std_attr "FirstName" g ++ std_attr "FullName" f ++
                                std_attr "UserName" n ++ std_attr "UserID" u ++ map custom_dattr cs)))).
Proof.
  intro W. eapply built_sat_mono; [exact (aq_all_any reqid issuer sp e f g s u n cs qs id1 id2 rest issue until W)|].
  intros d r (A & _ & _ & _ & _ & _ & _ & _ & _ & _ & B). split; assumption.
Qed.
