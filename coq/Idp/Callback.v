(** Model of callbackHandleFunc / loginResponse (pkg/provider/login.go) as an interpreter of the statement facts
    go2v extracts ([Gen.Facts.callback_seq], [loginResponse_seq]). *)
From Saml Require Import Base.Bytes Idp.FactTypes Gen.Facts.

Record stored_req := { sr_app : bytes; sr_relay : bytes; sr_acs : bytes; sr_binding : bytes; sr_reqid : bytes; sr_user : bytes; sr_done : bool }.
Record custom_attr := { ca_name : bytes; ca_friendly : bytes; ca_format : bytes; ca_values : list bytes }.
Record user := { u_email : bytes; u_fullname : bytes; u_given : bytes; u_surname : bytes; u_username : bytes; u_userid : bytes;
                 u_custom : list custom_attr }.

(** storage operations the handler issues, in order *)
Inductive call := KAuthRequestByID (id : bytes) | KEntityIDByAppID (app : bytes) | KUserinfo (app uid : bytes) | KSigningKey.

Inductive sigkind := SigNone | SigEnveloped | SigDetached.
Inductive cresp := CFailed (status msg : bytes) | CSuccess (u : user) (sg : sigkind).
Inductive cdelivery := CBody | CPost (action relay : bytes) | CRedirect (acs relay : bytes) (detached : bool).
Record cmsg := { m_in_response_to : bytes; m_destination : bytes; m_audience : bytes; m_resp : cresp }.
Inductive creply := CHttp (code : Z) | CSaml (d : cdelivery) (m : cmsg).

(** instructions: what each statement of the handler does, recognised from its extracted fact *)
Inductive instr :=
| INop | IParseForm | IGetID | ICheckID | ILookup | IFailSamlOnErr (status : bytes) | ISetReqID | ISetRelay | ISetBinding | ISetAcs
| IAppLookup | IFailHttpOnErr | ISetAudience | ILoginResponse | IFailWithErrStatus | ISend | IReturn | IUnknown.
Inductive linstr :=
| LNop | LDone (status : bytes) | LUserinfo (status : bytes) | LCert | LFailOnErr (status : bytes) | LMake | LSign (status : bytes) | LReturn | LUnknown.

Open Scope string_scope.
Definition status_of (cs : list string) : option bytes :=
  match filter (fun s => prefix "status:" s) cs with
  | [s] => Some (list_ascii_of_string (substring 7 (String.length s - 7) s))
  | _ => None
  end.
Definition nonstatus (cs : list string) : list string := filter (fun s => negb (prefix "status:" s)) cs.

Definition instr_of (f : stmtfact) : instr :=
  let k := sfk f in let t := targets f in let c := conds f in let cl := nonstatus (calls f) in let r := returns f in
  if stmtkind_eqb k SAssign && strs_eqb t ["response"] then INop
  else if stmtkind_eqb k SIf && strs_eqb c ["r.ParseForm"; "cond:err!=nil"] && strs_eqb cl ["http.Error"] && r then IParseForm
  else if stmtkind_eqb k SAssign && strs_eqb t ["requestID"] && strs_eqb cl ["r.Form.Get"] then IGetID
  else if stmtkind_eqb k SIf && strs_eqb c ["cond:requestID=="""""] && strs_eqb cl ["http.Error"] && r then ICheckID
  else if stmtkind_eqb k SAssign && strs_eqb t ["authRequest"; "err"] && strs_eqb cl ["p.storage.AuthRequestByID"] then ILookup
  else if stmtkind_eqb k SIf && strs_eqb c ["cond:err!=nil"] && strs_eqb cl ["p.errorResponse"; "response.sendBackResponse"] && r then
    match status_of (calls f) with Some s => IFailSamlOnErr s | None => IUnknown end
  else if stmtkind_eqb k SAssign && strs_eqb t ["response.RequestID"] && strs_eqb cl ["authRequest.GetAuthRequestID"] then ISetReqID
  else if stmtkind_eqb k SAssign && strs_eqb t ["response.RelayState"] && strs_eqb cl ["authRequest.GetRelayState"] then ISetRelay
  else if stmtkind_eqb k SAssign && strs_eqb t ["response.ProtocolBinding"] && strs_eqb cl ["authRequest.GetBindingType"] then ISetBinding
  else if stmtkind_eqb k SAssign && strs_eqb t ["response.AcsUrl"] && strs_eqb cl ["authRequest.GetAccessConsumerServiceURL"] then ISetAcs
  else if stmtkind_eqb k SAssign && strs_eqb t ["entityID"; "err"] && strs_eqb cl ["authRequest.GetApplicationID"; "p.storage.GetEntityIDByAppID"] then IAppLookup
  else if stmtkind_eqb k SIf && strs_eqb c ["cond:err!=nil"] && strs_eqb cl ["http.Error"] && r then IFailHttpOnErr
  else if stmtkind_eqb k SAssign && strs_eqb t ["response.Audience"] && strs_eqb cl [] then ISetAudience
  else if stmtkind_eqb k SAssign && strs_eqb t ["samlResponse"; "err"] && strs_eqb cl ["p.loginResponse"] then ILoginResponse
  else if stmtkind_eqb k SIf && strs_eqb c ["cond:err!=nil"] && strs_eqb cl ["response.makeFailedResponse"; "response.sendBackResponse"] && r then IFailWithErrStatus
  else if stmtkind_eqb k SExpr && strs_eqb cl ["response.sendBackResponse"] then ISend
  else if stmtkind_eqb k SReturn && strs_eqb cl [] then IReturn
  else IUnknown.

Definition linstr_of (f : stmtfact) : linstr :=
  let k := sfk f in let t := targets f in let c := conds f in let cl := nonstatus (calls f) in let r := returns f in
  if stmtkind_eqb k SIf && strs_eqb c ["authRequest.Done"; "cond:!authRequest.Done()"] && strs_eqb cl [] && r then
    match status_of (calls f) with Some s => LDone s | None => LUnknown end
  else if stmtkind_eqb k SAssign && strs_eqb t ["attrs"] && strs_eqb cl [] then LNop
  else if stmtkind_eqb k SIf && strs_eqb c ["authRequest.GetApplicationID"; "authRequest.GetUserID"; "p.storage.SetUserinfoWithUserID"; "cond:err!=nil"] && strs_eqb cl [] && r then
    match status_of (calls f) with Some s => LUserinfo s | None => LUnknown end
  else if stmtkind_eqb k SAssign && strs_eqb t ["cert"; "key"; "err"] && strs_eqb cl ["getResponseCert"] then LCert
  else if stmtkind_eqb k SIf && strs_eqb c ["cond:err!=nil"] && strs_eqb cl [] && r then
    match status_of (calls f) with Some s => LFailOnErr s | None => LUnknown end
  else if stmtkind_eqb k SAssign && strs_eqb t ["samlResponse"] && strs_eqb cl ["response.makeSuccessfulResponse"] then LMake
  else if stmtkind_eqb k SIf && strs_eqb c ["createSignature"; "cond:err!=nil"] && strs_eqb cl [] && r then
    match status_of (calls f) with Some s => LSign s | None => LUnknown end
  else if stmtkind_eqb k SReturn && strs_eqb cl [] then LReturn
  else LUnknown.
Close Scope string_scope.

Section Callback.
(** the request and the storage answers; universally quantified in the theorems *)
Variable form_ok : bool.                                  (* r.ParseForm succeeds *)
Variable form_id : bytes.                                 (* r.Form.Get("id") *)
Variable lookup_req : bytes -> option stored_req.         (* storage.AuthRequestByID *)
Variable app_entity : bytes -> option bytes.              (* storage.GetEntityIDByAppID *)
Variable userinfo : bytes -> bytes -> option user.        (* storage.SetUserinfoWithUserID app user *)
Variable cert_ok : bool.                                  (* getResponseCert: key record usable *)
Variable sign_ok : bool.                                  (* createSignature succeeds (algorithm usable, key pair consistent) *)

(** loginResponse: result is a Success response or the status string of the error *)
Record lstate := { ls_err : bool; ls_user : option user; ls_made : bool; ls_calls : list call; ls_result : option (cresp + bytes) ; ls_panic : bool }.

Definition sig_for (binding : bytes) : sigkind :=
  if beq binding c_PostBinding then SigEnveloped else if beq binding c_RedirectBinding then SigDetached else SigNone.

Definition lstep (rec : stored_req) (i : linstr) (s : lstate) : lstate :=
  match ls_result s with Some _ => s | None =>
  if ls_panic s then s else
  match i with
  | LNop => s
  | LDone st => if sr_done rec then s else {| ls_err := ls_err s; ls_user := ls_user s; ls_made := ls_made s; ls_calls := ls_calls s; ls_result := Some (inr st); ls_panic := false |}
  | LUserinfo st =>
      let calls := ls_calls s ++ [KUserinfo (sr_app rec) (sr_user rec)] in
      match userinfo (sr_app rec) (sr_user rec) with
      | Some u => {| ls_err := false; ls_user := Some u; ls_made := ls_made s; ls_calls := calls; ls_result := None; ls_panic := false |}
      | None => {| ls_err := true; ls_user := ls_user s; ls_made := ls_made s; ls_calls := calls; ls_result := Some (inr st); ls_panic := false |}
      end
  | LCert => {| ls_err := negb cert_ok; ls_user := ls_user s; ls_made := ls_made s; ls_calls := ls_calls s ++ [KSigningKey]; ls_result := None; ls_panic := false |}
  | LFailOnErr st => if ls_err s then {| ls_err := true; ls_user := ls_user s; ls_made := ls_made s; ls_calls := ls_calls s; ls_result := Some (inr st); ls_panic := false |} else s
  | LMake => match ls_user s with
             | Some _ => {| ls_err := ls_err s; ls_user := ls_user s; ls_made := true; ls_calls := ls_calls s; ls_result := None; ls_panic := false |}
             | None => {| ls_err := ls_err s; ls_user := None; ls_made := false; ls_calls := ls_calls s; ls_result := None; ls_panic := true |}
             end
  | LSign st => if ls_made s then
                  (if sign_ok then s else {| ls_err := true; ls_user := ls_user s; ls_made := true; ls_calls := ls_calls s; ls_result := Some (inr st); ls_panic := false |})
                else {| ls_err := ls_err s; ls_user := ls_user s; ls_made := false; ls_calls := ls_calls s; ls_result := None; ls_panic := true |}
  | LReturn => match ls_user s, ls_made s with
               | Some u, true => {| ls_err := false; ls_user := ls_user s; ls_made := true; ls_calls := ls_calls s; ls_result := Some (inl (CSuccess u (sig_for (sr_binding rec)))); ls_panic := false |}
               | _, _ => {| ls_err := ls_err s; ls_user := ls_user s; ls_made := ls_made s; ls_calls := ls_calls s; ls_result := None; ls_panic := true |}
               end
  | LUnknown => {| ls_err := ls_err s; ls_user := ls_user s; ls_made := ls_made s; ls_calls := ls_calls s; ls_result := None; ls_panic := true |}
  end end.
Definition ls0 : lstate := {| ls_err := false; ls_user := None; ls_made := false; ls_calls := []; ls_result := None; ls_panic := false |}.
Definition login_response (lseq : list linstr) (rec : stored_req) : lstate :=
  fold_left (fun s i => lstep rec i s) lseq ls0.

Record cstate := { cs_id : bytes; cs_rec : option stored_req; cs_entity : option bytes; cs_err : bool;
                   cs_reqid : bytes; cs_relay : bytes; cs_binding : bytes; cs_acs : bytes; cs_audience : bytes;
                   cs_login : option (cresp + bytes); cs_calls : list call; cs_out : list creply; cs_stop : bool; cs_panic : bool }.
Definition cs0 : cstate := {| cs_id := []; cs_rec := None; cs_entity := None; cs_err := false; cs_reqid := []; cs_relay := []; cs_binding := [];
  cs_acs := []; cs_audience := []; cs_login := None; cs_calls := []; cs_out := []; cs_stop := false; cs_panic := false |}.

Definition upd (s : cstate) (f : cstate -> cstate) : cstate := f s.
Definition with_out (r : creply) (s : cstate) : cstate :=
  {| cs_id := cs_id s; cs_rec := cs_rec s; cs_entity := cs_entity s; cs_err := cs_err s; cs_reqid := cs_reqid s; cs_relay := cs_relay s;
     cs_binding := cs_binding s; cs_acs := cs_acs s; cs_audience := cs_audience s; cs_login := cs_login s; cs_calls := cs_calls s;
     cs_out := cs_out s ++ [r]; cs_stop := true; cs_panic := cs_panic s |}.
Definition with_panic (s : cstate) : cstate :=
  {| cs_id := cs_id s; cs_rec := cs_rec s; cs_entity := cs_entity s; cs_err := cs_err s; cs_reqid := cs_reqid s; cs_relay := cs_relay s;
     cs_binding := cs_binding s; cs_acs := cs_acs s; cs_audience := cs_audience s; cs_login := cs_login s; cs_calls := cs_calls s;
     cs_out := cs_out s; cs_stop := true; cs_panic := true |}.

(** sendBackResponse: where and how a response is delivered, from the URL, binding and RelayState of the stored request *)
Definition deliver (acs binding relay : bytes) (m : cmsg) : creply :=
  if is_empty acs then CSaml CBody m
  else if beq binding c_PostBinding then CSaml (CPost acs relay) m
  else if beq binding c_RedirectBinding then
    CSaml (CRedirect acs relay (match m_resp m with CSuccess _ SigDetached => true | _ => false end)) m
  else CHttp 500.
Definition send (resp : cresp) (s : cstate) : creply :=
  deliver (cs_acs s) (cs_binding s) (cs_relay s)
    {| m_in_response_to := cs_reqid s; m_destination := cs_acs s; m_audience := cs_audience s; m_resp := resp |}.

Definition cstep (lseq : list linstr) (i : instr) (s : cstate) : cstate :=
  if cs_stop s then s else
  match i with
  | INop => s
  | IParseForm => if form_ok then s else with_out (CHttp 500) s
  | IGetID => {| cs_id := form_id; cs_rec := cs_rec s; cs_entity := cs_entity s; cs_err := cs_err s; cs_reqid := cs_reqid s; cs_relay := cs_relay s;
                 cs_binding := cs_binding s; cs_acs := cs_acs s; cs_audience := cs_audience s; cs_login := cs_login s; cs_calls := cs_calls s;
                 cs_out := cs_out s; cs_stop := false; cs_panic := false |}
  | ICheckID => if is_empty (cs_id s) then with_out (CHttp 500) s else s
  | ILookup => {| cs_id := cs_id s; cs_rec := lookup_req (cs_id s); cs_entity := cs_entity s;
                  cs_err := match lookup_req (cs_id s) with Some _ => false | None => true end;
                  cs_reqid := cs_reqid s; cs_relay := cs_relay s; cs_binding := cs_binding s; cs_acs := cs_acs s; cs_audience := cs_audience s;
                  cs_login := cs_login s; cs_calls := cs_calls s ++ [KAuthRequestByID (cs_id s)]; cs_out := cs_out s; cs_stop := false; cs_panic := false |}
  | IFailSamlOnErr st => if cs_err s then with_out (send (CFailed st []) s) s else s
  | ISetReqID => match cs_rec s with Some r =>
                   {| cs_id := cs_id s; cs_rec := cs_rec s; cs_entity := cs_entity s; cs_err := cs_err s; cs_reqid := sr_reqid r; cs_relay := cs_relay s;
                      cs_binding := cs_binding s; cs_acs := cs_acs s; cs_audience := cs_audience s; cs_login := cs_login s; cs_calls := cs_calls s;
                      cs_out := cs_out s; cs_stop := false; cs_panic := false |} | None => with_panic s end
  | ISetRelay => match cs_rec s with Some r =>
                   {| cs_id := cs_id s; cs_rec := cs_rec s; cs_entity := cs_entity s; cs_err := cs_err s; cs_reqid := cs_reqid s; cs_relay := sr_relay r;
                      cs_binding := cs_binding s; cs_acs := cs_acs s; cs_audience := cs_audience s; cs_login := cs_login s; cs_calls := cs_calls s;
                      cs_out := cs_out s; cs_stop := false; cs_panic := false |} | None => with_panic s end
  | ISetBinding => match cs_rec s with Some r =>
                   {| cs_id := cs_id s; cs_rec := cs_rec s; cs_entity := cs_entity s; cs_err := cs_err s; cs_reqid := cs_reqid s; cs_relay := cs_relay s;
                      cs_binding := sr_binding r; cs_acs := cs_acs s; cs_audience := cs_audience s; cs_login := cs_login s; cs_calls := cs_calls s;
                      cs_out := cs_out s; cs_stop := false; cs_panic := false |} | None => with_panic s end
  | ISetAcs => match cs_rec s with Some r =>
                   {| cs_id := cs_id s; cs_rec := cs_rec s; cs_entity := cs_entity s; cs_err := cs_err s; cs_reqid := cs_reqid s; cs_relay := cs_relay s;
                      cs_binding := cs_binding s; cs_acs := sr_acs r; cs_audience := cs_audience s; cs_login := cs_login s; cs_calls := cs_calls s;
                      cs_out := cs_out s; cs_stop := false; cs_panic := false |} | None => with_panic s end
  | IAppLookup => match cs_rec s with Some r =>
                   {| cs_id := cs_id s; cs_rec := cs_rec s; cs_entity := app_entity (sr_app r);
                      cs_err := match app_entity (sr_app r) with Some _ => false | None => true end;
                      cs_reqid := cs_reqid s; cs_relay := cs_relay s; cs_binding := cs_binding s; cs_acs := cs_acs s; cs_audience := cs_audience s;
                      cs_login := cs_login s; cs_calls := cs_calls s ++ [KEntityIDByAppID (sr_app r)]; cs_out := cs_out s; cs_stop := false; cs_panic := false |}
                  | None => with_panic s end
  | IFailHttpOnErr => if cs_err s then with_out (CHttp 500) s else s
  | ISetAudience => {| cs_id := cs_id s; cs_rec := cs_rec s; cs_entity := cs_entity s; cs_err := cs_err s; cs_reqid := cs_reqid s; cs_relay := cs_relay s;
                       cs_binding := cs_binding s; cs_acs := cs_acs s; cs_audience := match cs_entity s with Some e => e | None => [] end;
                       cs_login := cs_login s; cs_calls := cs_calls s; cs_out := cs_out s; cs_stop := false; cs_panic := false |}
  | ILoginResponse => match cs_rec s with
                      | Some r => let l := login_response lseq r in
                          if ls_panic l then with_panic s else
                          {| cs_id := cs_id s; cs_rec := cs_rec s; cs_entity := cs_entity s;
                             cs_err := match ls_result l with Some (inl _) => false | _ => true end;
                             cs_reqid := cs_reqid s; cs_relay := cs_relay s; cs_binding := cs_binding s; cs_acs := cs_acs s; cs_audience := cs_audience s;
                             cs_login := ls_result l; cs_calls := cs_calls s ++ ls_calls l; cs_out := cs_out s; cs_stop := false; cs_panic := false |}
                      | None => with_panic s end
  | IFailWithErrStatus => if cs_err s then
                            match cs_login s with
                            | Some (inr st) => with_out (send (CFailed st (b "failed to create response")) s) s
                            | _ => with_panic s end
                          else s
  | ISend => match cs_login s with Some (inl resp) => with_out (send resp s) s | _ => with_panic s end
  | IReturn => s
  | IUnknown => with_panic s
  end.

Definition callback_i (cseq : list instr) (lseq : list linstr) : cstate :=
  fold_left (fun s i => cstep lseq i s) cseq cs0.
Definition callback (cseq lseq : list stmtfact) : cstate := callback_i (map instr_of cseq) (map linstr_of lseq).
End Callback.
