(** "Advertised = checked": the list of locations a request's Destination is compared with is the list the metadata
    document advertises.
    Three links, each from the current source:
    (1) the handlers take the role descriptor from p.GetMetadata (first result for single sign-on, second for the attribute
        query) and hand THAT value to the Destination check (facts of sso.go / attribute_query.go);
    (2) the Destination check compares with the Location of each entry of SingleSignOnService / AttributeService
        (Core/Destination.v, from the generated functions);
    (3) IdentityProvider.GetMetadata builds those lists from the endpoints' Absolute(issuer) URLs, the same value twice for
        the two SSO bindings (builder programs of Gen/Builders.v), and Config.getMetadata publishes the same two values. *)
From Saml Require Import Base.Bytes Idp.FactTypes Gen.Facts Gen.Pure Core.Destination Idp.Router Idp.BuilderTypes Idp.Builder Gen.Builders Idp.BuiltDoc.
From Coq Require Import List String Bool. Import ListNotations.
Local Open Scope string_scope.

(** * (1) which value reaches the check *)
Fixpoint index_of (x : string) (l : list string) : option nat :=
  match l with [] => None | y :: r => if String.eqb x y then Some 0 else option_map S (index_of x r) end.
(** the result position of p.GetMetadata that the variable [v] of the handler holds *)
Definition getmetadata_result (pre : list stmtfact) (v : string) : option nat :=
  match List.filter (fun f => stmtkind_eqb (sfk f) SAssign && strs_eqb (calls f) ["p.GetMetadata"]) pre with
  | [f] => index_of v (targets f)
  | _ => None
  end.
(** single sign-on: verifyRequestDestinationOfAuthRequest(idpMetadata, authNRequest) inside checkRequestRequiredContent, where
    idpMetadata := <param i>() and the handler passes func() { return <v> } as argument i *)
Definition sso_checked_result : option nat :=
  match kv_get "arg0" sso_destination_call with
  | Some loc =>
      match List.filter (fun p => String.eqb (fst p) loc) sso_required_locals with
      | [(_, rhs)] =>
          match List.filter (fun p => String.eqb (snd p ++ "()") rhs) sso_required_params with
          | [(pn, _)] =>
              match kv_get ("arg" ++ substring 5 1 pn) sso_required_call with
              | Some th => if String.eqb (substring 0 6 th) "thunk:" then getmetadata_result sso_pre (substring 6 (String.length th - 6) th) else None
              | None => None end
          | _ => None end
      | _ => None end
  | None => None
  end.
Definition attrquery_checked_result : option nat :=
  match kv_get "arg0" attrquery_destination_call with
  | Some v => getmetadata_result attrquery_pre v
  | None => None
  end.
Theorem checked_value_from_source : sso_checked_result = Some 0 /\ attrquery_checked_result = Some 1.
Proof. split; vm_compute; reflexivity. Qed.

(** * (3) what IdentityProvider.GetMetadata returns *)
Definition idp_md_results (extra : list (string * dval)) (idp : dval) (fresh : list bytes) : option (list dval) :=
  match call builders (with_extra extra (clock [] [])) 600 "IdentityProvider.GetMetadata" (Some idp) [DNil] fresh with
  | Some (DList l, _) => Some l
  | _ => None
  end.
Definition locations (d : dval) (svc : string) : option (list bytes) :=
  match at_ d [svc] with
  | Some (DList l) => Some (flat_map (fun e => match at_ e ["Location"] with Some (DStr s) => [s] | _ => [] end) l)
  | _ => None
  end.
Definition checked_sat (extra : list (string * dval)) (idp : dval) (fresh : list bytes) (P : option (list bytes) -> option (list bytes) -> option (list bytes) -> Prop) : Prop :=
  match idp_md_results extra idp fresh with
  | Some [m; aa; DNil] => P (locations m "SingleSignOnService") (locations m "SingleLogoutService") (locations aa "AttributeService")
  | _ => False
  end.
Lemma checked_sat_mono extra idp fresh (P Q : option (list bytes) -> option (list bytes) -> option (list bytes) -> Prop) :
  checked_sat extra idp fresh P -> (forall s l a, P s l a -> Q s l a) -> checked_sat extra idp fresh Q.
Proof.
  unfold checked_sat. intros H HQ.
  destruct (idp_md_results extra idp fresh) as [[|m [|aa [|d [|x r]]]]|]; try exact H.
  destruct d; try exact H. apply HQ, H.
Qed.
Theorem handler_metadata_locations want enc cache errurl eid issuer cert sso slo attr valid id2 id3 :
  checked_sat (md_oracles eid issuer cert sso slo attr valid)
    (DObj "provider.IdentityProvider" [("conf", idp_conf want enc cache errurl); ("TimeFormat", DStr (b "f"))]) [id2; id3]
    (fun s l a => s = Some [sso; sso] /\ l = Some [slo; slo] /\ a = Some [attr]).
Proof. destruct enc as [|c1 e']; destruct cache as [|c2 k']; vm_compute; repeat split; reflexivity. Qed.

(** * the three links together
    For every configuration in the model's range and every value of the oracles: a request passes the single sign-on
    Destination check exactly when it has no Destination or its Destination is THE advertised SingleSignOnService location
    (the Absolute(issuer) URL of the SSO endpoint), and an attribute query exactly when it has none or the advertised
    AttributeService location. *)
Theorem checked_is_advertised want enc cache errurl eid issuer cert sso slo attr valid id2 id3 dest :
  checked_sat (md_oracles eid issuer cert sso slo attr valid)
    (DObj "provider.IdentityProvider" [("conf", idp_conf want enc cache errurl); ("TimeFormat", DStr (b "f"))]) [id2; id3]
    (fun s _ a => exists ls la, s = Some ls /\ a = Some la /\
       (goerr_is_nil (verifyRequestDestinationOfAuthRequest {| IDPSSODescriptorType_SingleSignOnService := map loc_ep ls |} {| AuthnRequestType_Destination := dest |}) = true
          <-> dest = [] \/ dest = sso) /\
       (goerr_is_nil (verifyRequestDestinationOfAttrQuery {| AttributeAuthorityDescriptorType_AttributeService := map loc_ep la |} {| AttributeQueryType_Destination := dest |}) = true
          <-> dest = [] \/ dest = attr)).
Proof.
  eapply checked_sat_mono; [apply handler_metadata_locations|].
  intros s l a (Hs & _ & Ha). exists [sso; sso], [attr]. split; [exact Hs|split; [exact Ha|]].
  rewrite authn_destination_locs, attrquery_destination_locs. unfold destination_ok. cbn [bmem]. rewrite !orb_false_r, orb_diag.
  split; (rewrite orb_true_iff, beq_eq; unfold is_empty; destruct dest; split; intros [A|A]; auto; try discriminate; right; exact A).
Qed.

(** * the served document against the router model
    With the oracles of the metadata builders instantiated by the router model's values (Idp/Router.v: the Absolute(issuer)
    URLs of the configured endpoints and the entity ID, themselves interpreted from the source expressions), the five service
    locations of the document are, in document order, the model's advertised list, and its entityID is the model's entity ID --
    for every configuration and issuer. *)
Definition doc_locations (d : dval) : list (option dval) :=
  [dget d [PField "IDPSSODescriptor"; PField "SingleSignOnService"; PIndex 0; PField "Location"];
   dget d [PField "IDPSSODescriptor"; PField "SingleSignOnService"; PIndex 1; PField "Location"];
   dget d [PField "IDPSSODescriptor"; PField "SingleLogoutService"; PIndex 0; PField "Location"];
   dget d [PField "IDPSSODescriptor"; PField "SingleLogoutService"; PIndex 1; PField "Location"];
   dget d [PField "AttributeAuthorityDescriptor"; PField "AttributeService"; PIndex 0; PField "Location"]].
Lemma md_sat_mono extra conf idp fresh (P Q : dval -> Prop) : md_sat extra conf idp fresh P -> (forall d, P d -> Q d) -> md_sat extra conf idp fresh Q.
Proof. unfold md_sat. intros H HQ. destruct (md_value extra conf idp fresh) as [d|]; [apply HQ, H|exact H]. Qed.

Theorem document_is_router_model cfg issuer want enc cache errurl cert valid id1 id2 id3 (org contact : bool) :
  let ic := idp_conf want enc cache errurl in
  let conf := DObj "provider.Config" [("IDPConfig", ic);
                ("Organisation", if org then DObj "provider.Organisation" [("Name", DStr (b "n")); ("DisplayName", DStr (b "d")); ("URL", DStr (b "u"))] else DNil);
                ("ContactPerson", if contact then DObj "provider.ContactPerson" [("ContactType", DStr (b "technical")); ("Company", DStr (b "c")); ("GivenName", DStr (b "g"));
                                                    ("SurName", DStr (b "s")); ("EmailAddress", DStr (b "e")); ("TelephoneNumber", DStr (b "t"))] else DNil)] in
  md_sat (md_oracles (entity_id cfg issuer) issuer cert (Endpoint_Absolute (c_sso cfg) issuer) (Endpoint_Absolute (c_slo cfg) issuer) (Endpoint_Absolute (c_attr cfg) issuer) valid)
    conf (DObj "provider.IdentityProvider" [("conf", ic); ("TimeFormat", DStr (b "f"))]) [id1; id2; id3]
    (fun d => at_ d ["EntityID"] = Some (DStr (entity_id cfg issuer)) /\
              doc_locations d = map (fun p => Some (DStr (snd p))) (advertised cfg issuer)).
Proof.
  intros ic conf. eapply md_sat_mono; [exact (metadata_fields want enc cache errurl _ issuer cert _ _ _ valid id1 id2 id3 org contact)|].
  intros d (H1 & _ & _ & _ & _ & _ & _ & _ & A & B & C & D & E & _). split; [exact H1|].
  unfold doc_locations, advertised. cbn [map snd]. now rewrite A, B, C, D, E.
Qed.
