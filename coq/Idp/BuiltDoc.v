(** The reply documents of the current source: builder programs (Gen/Builders.v, from response.go / logout_response.go /
    attributes.go) interpreted by Idp/Builder.v, laid out and printed by Xml/Schema.v with the schema of the struct tags
    (Gen/Schema.v).  [built_tree] is what the real handlers are compared with (Corr/C18Corr.v: KBuilt). *)
From Saml Require Import Base.Bytes Xml.Tree Xml.Lex Xml.SanTree Xml.SchemaTypes Xml.Schema Gen.Schema Idp.BuilderTypes Idp.Builder Gen.Builders.
Local Open Scope string_scope.
Local Open Scope list_scope.

(** the clock, by the source text of the calls that read it: issue instant and expiry as the document shows them *)
Definition clock (issue until : bytes) (t : string) : option dval :=
  if String.eqb t "time.Now().UTC()" then Some DNil
  else if String.eqb t "now.Format(timeFormat)" || String.eqb t "time.Now().UTC().Format(timeFormat)" then Some (DStr issue)
  else if String.eqb t "now.Add(expiration).Format(timeFormat)" then Some (DStr until)
  else None.

(** further oracles of a case, by source text (certificate text, endpoint URLs, entity ID, ...) *)
Definition with_extra (extra : list (string * dval)) (base : string -> option dval) (t : string) : option dval :=
  match find (fun p => String.eqb (fst p) t) extra with Some p => Some (snd p) | None => base t end.
Definition built_tree_with (extra : list (string * dval)) (fn : string) (recv : option dval) (args : list dval) (fresh : list bytes) (issue until : bytes) (root : string) : option xml :=
  match call builders (with_extra extra (clock issue until)) 600 fn recv args fresh with
  | Some (d, _) => match to_gval 60 xml_schema (TNamed root) (match d with DList (x :: _) => x | o => o end) with
                   | Some g => marshal_root xml_schema root g
                   | None => None end
  | None => None
  end.

Definition built_value (fn : string) (recv : option dval) (args : list dval) (fresh : list bytes) (issue until : bytes) : option (dval * list bytes) :=
  call builders (clock issue until) 400 fn recv args fresh.

Definition built_tree (fn : string) (recv : option dval) (args : list dval) (fresh : list bytes) (issue until : bytes) (root : string) : option xml :=
  match built_value fn recv args fresh issue until with
  | Some (d, _) => match to_gval 60 xml_schema (TNamed root) d with
                   | Some g => marshal_root xml_schema root g
                   | None => None end
  | None => None
  end.

(** comparison with a parsed document: name space declarations as attributes, empty text = no content, signatures
    (inserted after building, by the signer) removed *)
Fixpoint flat (t : xml) : xml :=
  match t with
  | El n ns attrs k => El n None (all_attrs ns attrs) (match k with Text s => Text s | Kids l => Kids (map flat l) end)
  end.
Fixpoint norm (t : xml) : xml :=
  match t with
  | El n ns attrs k => El n ns attrs (match k with Text [] => Kids [] | Text s => Text s | Kids l => Kids (map norm l) end)
  end.
Fixpoint ends_with (s suf : bytes) : bool :=
  beq s suf || match s with [] => false | _ :: r => ends_with r suf end.
Definition is_signature (t : xml) : bool :=
  beq (name_of t) (b "Signature") || ends_with (name_of t) (b ":Signature").
Fixpoint strip_sig (t : xml) : xml :=
  match t with
  | El n ns attrs k => El n ns attrs (match k with
                                      | Text s => Text s
                                      | Kids l => Kids (filter (fun c => negb (is_signature c)) (map strip_sig l)) end)
  end.
Fixpoint xml_eqb (x y : xml) : bool :=
  match x, y with
  | El n1 ns1 a1 k1, El n2 ns2 a2 k2 =>
      beq n1 n2 && option_eqb beq ns1 ns2 && list_eqb (fun p q => beq (fst p) (fst q) && beq (snd p) (snd q)) a1 a2 &&
      match k1, k2 with
      | Text s1, Text s2 => beq s1 s2
      | Kids l1, Kids l2 => (fix go (l1 l2 : list xml) : bool :=
                               match l1, l2 with
                               | [], [] => true
                               | a :: r1, c :: r2 => xml_eqb a c && go r1 r2
                               | _, _ => false
                               end) l1 l2
      | _, _ => false
      end
  end.

Definition built_matches_with (extra : list (string * dval)) (fn : string) (recv : option dval) (args : list dval) (fresh : list bytes) (issue until : bytes) (root : string) (obs : xml) : bool :=
  match built_tree_with extra fn recv args fresh issue until root with
  | Some t => xml_eqb (norm (flat (san_tree t))) (norm (strip_sig obs))
  | None => false
  end.
Definition built_matches (fn : string) (recv : option dval) (args : list dval) (fresh : list bytes) (issue until : bytes) (root : string) (obs : xml) : bool :=
  match built_tree fn recv args fresh issue until root with
  | Some t => xml_eqb (norm (flat (san_tree t))) (norm (strip_sig obs))   (* the printer replaces illegal characters: C18_escape_any *)
  | None => false
  end.

(** * what the builders put where (for every input) *)
Fixpoint dget (d : dval) (p : list pstep) : option dval :=
  match p with
  | [] => Some d
  | PField f :: r => match d with DObj _ fs => match env_get fs f with Some x => dget x r | None => None end | _ => None end
  | PIndex i :: r => match d with DList l => match nth_error l i with Some x => dget x r | None => None end | _ => None end
  end.
Definition at_ (d : dval) (p : list string) : option dval := dget d (map PField p).

(** "the builder succeeds and its result satisfies P" (stated with a match rather than an existential: the witness is a
    large literal term the kernel would have to re-typecheck in every case of the proofs below) *)
Definition built_sat (fn : string) (recv : option dval) (args : list dval) (fresh : list bytes) (issue until : bytes)
  (P : dval -> list bytes -> Prop) : Prop :=
  match built_value fn recv args fresh issue until with Some (d, r) => P d r | None => False end.
Lemma built_sat_exists fn recv args fresh issue until P :
  built_sat fn recv args fresh issue until P -> exists d r, built_value fn recv args fresh issue until = Some (d, r) /\ P d r.
Proof. unfold built_sat. destruct (built_value fn recv args fresh issue until) as [[d r]|]; [eauto|contradiction]. Qed.

Definition response_rec (reqid acs issuer audience : bytes) : dval :=
  DObj "provider.Response" [("RequestID", DStr reqid); ("AcsUrl", DStr acs); ("Issuer", DStr issuer); ("Audience", DStr audience); ("SendIP", DStr [])].
Definition attributes_rec (email full given sur userid username : bytes) (custom : list dval) : dval :=
  DObj "provider.Attributes" [("email", DStr email); ("fullName", DStr full); ("givenName", DStr given); ("surname", DStr sur);
                              ("userID", DStr userid); ("username", DStr username); ("customAttributes", DList custom)].

Definition sc_data : list pstep :=
  [PField "Assertion"; PField "Subject"; PField "SubjectConfirmation"; PIndex 0; PField "SubjectConfirmationData"].

(** a failed response: status, message, request ID, issuer; the destination only when a consumer URL is known; and no
    assertion content at all *)
Theorem failed_response_fields reqid acs issuer audience reason message id1 rest issue until :
  built_sat "makeFailedResponse" (Some (response_rec reqid acs issuer audience)) [DStr reason; DStr message; DStr (b "f")] (id1 :: rest) issue until (fun d r => r = rest /\
    at_ d ["Id"] = Some (DStr id1) /\ at_ d ["InResponseTo"] = Some (DStr reqid) /\ at_ d ["IssueInstant"] = Some (DStr issue) /\
    at_ d ["Status"; "StatusCode"; "Value"] = Some (DStr reason) /\ at_ d ["Status"; "StatusMessage"] = Some (DStr message) /\
    at_ d ["Issuer"; "Text"] = Some (DStr issuer) /\
    at_ d ["Destination"] = (if is_empty acs then None else Some (DStr acs)) /\
    at_ d ["Assertion"] = None).
Proof.
  destruct acs as [|c acs']; vm_compute; repeat split; reflexivity.
Qed.

(** a successful response without custom attributes (those are covered by the correspondence): where the request ID, the
    consumer URL, the issuer, the audience, the two instants and the two fresh identifiers go *)
Theorem success_response_fields reqid acs issuer audience email full given sur userid username id1 id2 rest issue until :
  built_sat "makeSuccessfulResponse" (Some (response_rec reqid acs issuer audience))
              [attributes_rec email full given sur userid username []; DStr (b "f"); DNil] (id1 :: id2 :: rest) issue until (fun d r => r = rest /\
    at_ d ["Id"] = Some (DStr id1) /\ at_ d ["Assertion"; "Id"] = Some (DStr id2) /\
    at_ d ["InResponseTo"] = Some (DStr reqid) /\ dget d (sc_data ++ [PField "InResponseTo"]) = Some (DStr reqid) /\
    at_ d ["Destination"] = (if is_empty acs then None else Some (DStr acs)) /\
    dget d (sc_data ++ [PField "Recipient"]) = (if is_empty acs then None else Some (DStr acs)) /\
    at_ d ["Issuer"; "Text"] = Some (DStr issuer) /\ at_ d ["Assertion"; "Issuer"; "Text"] = Some (DStr issuer) /\
    at_ d ["IssueInstant"] = Some (DStr issue) /\ at_ d ["Assertion"; "IssueInstant"] = Some (DStr issue) /\
    at_ d ["Assertion"; "Conditions"; "NotBefore"] = Some (DStr issue) /\
    at_ d ["Assertion"; "Conditions"; "NotOnOrAfter"] = Some (DStr until) /\ dget d (sc_data ++ [PField "NotOnOrAfter"]) = Some (DStr until) /\
    dget d [PField "Assertion"; PField "Conditions"; PField "AudienceRestriction"; PIndex 0; PField "Audience"] = Some (DList [DStr audience]) /\
    at_ d ["Assertion"; "Subject"; "NameID"; "Text"] = Some (DStr username) /\
    at_ d ["Status"; "StatusCode"; "Value"] = Some (DStr (b "urn:oasis:names:tc:SAML:2.0:status:Success")) /\
    dget d [PField "Assertion"; PField "AuthnStatement"; PIndex 0; PField "SessionIndex"] = Some (DStr id2)).
Proof.
  destruct acs as [|c0 acs']; destruct email as [|c1 e']; destruct full as [|c2 f']; destruct given as [|c3 g']; destruct sur as [|c4 s'];
    destruct userid as [|c5 u']; destruct username as [|c6 n'];
    vm_compute; repeat split; reflexivity.
Qed.

Definition logout_rec (reqid url issuer : bytes) : dval :=
  DObj "provider.LogoutResponse" [("RequestID", DStr reqid); ("LogoutURL", DStr url); ("Issuer", DStr issuer)].

Theorem logout_response_fields reqid url issuer reason message id1 rest issue until :
  (built_sat "makeFailedLogoutResponse" (Some (logout_rec reqid url issuer)) [DStr reason; DStr message; DStr (b "f")] (id1 :: rest) issue until (fun d r => r = rest /\
     at_ d ["Id"] = Some (DStr id1) /\ at_ d ["InResponseTo"] = Some (DStr reqid) /\ at_ d ["Destination"] = Some (DStr url) /\
     at_ d ["Issuer"; "Text"] = Some (DStr issuer) /\ at_ d ["IssueInstant"] = Some (DStr issue) /\
     at_ d ["Status"; "StatusCode"; "Value"] = Some (DStr reason) /\ at_ d ["Status"; "StatusMessage"] = Some (DStr message))) /\
  (built_sat "makeSuccessfulLogoutResponse" (Some (logout_rec reqid url issuer)) [DStr (b "f")] (id1 :: rest) issue until (fun d r => r = rest /\
     at_ d ["Id"] = Some (DStr id1) /\ at_ d ["InResponseTo"] = Some (DStr reqid) /\ at_ d ["Destination"] = Some (DStr url) /\
     at_ d ["Issuer"; "Text"] = Some (DStr issuer) /\ at_ d ["IssueInstant"] = Some (DStr issue) /\
     at_ d ["Status"; "StatusCode"; "Value"] = Some (DStr (b "urn:oasis:names:tc:SAML:2.0:status:Success")))).
Proof. split; vm_compute; repeat split; reflexivity. Qed.

(** the answer to an attribute query that names no attribute: request ID echoed on the response and in the subject
    confirmation, the querying party as the only audience, no destination / recipient / authentication statement *)
Theorem attrquery_response_fields reqid issuer sp email full given sur userid username id1 id2 rest issue until :
  built_sat "makeAttributeQueryResponse" None
              [DStr reqid; DStr issuer; DStr sp; attributes_rec email full given sur userid username []; DNil; DStr (b "f"); DNil] (id1 :: id2 :: rest) issue until (fun d r => r = rest /\
    at_ d ["InResponseTo"] = Some (DStr reqid) /\ dget d (sc_data ++ [PField "InResponseTo"]) = Some (DStr reqid) /\
    at_ d ["Destination"] = None /\ dget d (sc_data ++ [PField "Recipient"]) = None /\
    at_ d ["Issuer"; "Text"] = Some (DStr issuer) /\ at_ d ["Assertion"; "Issuer"; "Text"] = Some (DStr issuer) /\
    dget d [PField "Assertion"; PField "Conditions"; PField "AudienceRestriction"; PIndex 0; PField "Audience"] = Some (DList [DStr sp]) /\
    at_ d ["Assertion"; "Subject"; "NameID"; "Text"] = Some (DStr username) /\
    at_ d ["Assertion"; "AuthnStatement"] = None /\
    at_ d ["Assertion"; "Conditions"; "NotOnOrAfter"] = Some (DStr until)).
Proof.
  destruct email as [|c1 e']; destruct full as [|c2 f']; destruct given as [|c3 g']; destruct sur as [|c4 s'];
    destruct userid as [|c5 u']; destruct username as [|c6 n'];
    vm_compute; repeat split; reflexivity.
Qed.

(** Attributes.GetSAML / GetNameID from source: the six standard attributes, each present iff its value is not empty, in
    the order Email, SurName, FirstName, FullName, UserName, UserID, one value each (custom attributes follow in the
    map's iteration order: covered by the correspondence) *)
Definition std_attr (name : string) (v : bytes) : list dval :=
  if is_empty v then [] else
  [DObj "saml.AttributeType" [("Name", DStr (b name)); ("NameFormat", DStr (b "urn:oasis:names:tc:SAML:2.0:attrname-format:basic")); ("AttributeValue", DList [DStr v])]].
Theorem getsaml_standard email full given sur userid username fr issue until :
  built_value "GetSAML" (Some (attributes_rec email full given sur userid username [])) [] fr issue until =
    Some (DList (std_attr "Email" email ++ std_attr "SurName" sur ++ std_attr "FirstName" given ++ std_attr "FullName" full ++
                 std_attr "UserName" username ++ std_attr "UserID" userid), fr) /\
  built_value "GetNameID" (Some (attributes_rec email full given sur userid username [])) [] fr issue until =
    Some (DObj "saml.NameIDType" [("Format", DStr (b "urn:oasis:names:tc:SAML:1.1:nameid-format:emailAddress")); ("Text", DStr username)], fr).
Proof.
  destruct email as [|c1 e']; destruct full as [|c2 f']; destruct given as [|c3 g']; destruct sur as [|c4 s'];
    destruct userid as [|c5 u']; destruct username as [|c6 n']; split; vm_compute; reflexivity.
Qed.

(** * the metadata document, from the source of metadata.go / identityprovider.go
    For every configuration (flag, encryption algorithm set or not, cache duration set or not, organisation / contact
    person present or not) and every value of the oracles: the entityID is the entity ID the handlers use as Issuer; the
    WantAuthnRequestsSigned attribute is the configured string; the signing KeyDescriptor of both role descriptors carries
    the response certificate; the SSO / SLO / attribute locations are the endpoints' absolute URLs; the three identifiers
    are fresh, in call order. *)
Definition md_oracles (eid issuer cert sso slo attr valid : bytes) : list (string * dval) :=
  [("idp.GetEntityID(ctx)", DStr eid); ("p.GetEntityID(ctx)", DStr eid); ("IssuerFromContext(ctx)", DStr issuer);
   ("getResponseCert(ctx, p.storage)", DList [DStr []; DNil; DNil]); ("base64.StdEncoding.EncodeToString(idpCertData)", DStr cert);
   ("endpointConfigToEndpoints(p.Endpoints)", DNil);
   ("endpoints.singleSignOnEndpoint.Absolute(issuer)", DStr sso); ("endpoints.singleLogoutEndpoint.Absolute(issuer)", DStr slo);
   ("endpoints.attributeEndpoint.Absolute(issuer)", DStr attr);
   ("time.Now().Add(p.MetadataIDPConfig.ValidUntil).UTC().Format(timeFormat)", DStr valid)].
Definition idp_conf (want enc cache errurl : bytes) : dval :=
  DObj "provider.IdentityProviderConfig" [("EncryptionAlgorithm", DStr enc); ("WantAuthRequestsSigned", DStr want);
    ("MetadataIDPConfig", DObj "provider.MetadataIDPConfig" [("ValidUntil", DStr (b "nonzero")); ("CacheDuration", DStr cache); ("ErrorURL", DStr errurl)]); ("Endpoints", DNil)].
Definition md_value (extra : list (string * dval)) (conf idp : dval) (fresh : list bytes) : option dval :=
  match call builders (with_extra extra (clock [] [])) 600 "Config.getMetadata" (Some conf) [DNil; idp] fresh with
  | Some (DList (x :: _), _) => Some x
  | _ => None
  end.
Definition md_sat (extra : list (string * dval)) (conf idp : dval) (fresh : list bytes) (P : dval -> Prop) : Prop :=
  match md_value extra conf idp fresh with Some d => P d | None => False end.

Definition key_cert (role : string) : list pstep :=
  [PField role; PField "KeyDescriptor"; PIndex 0; PField "KeyInfo"; PField "X509Data"; PIndex 0; PField "X509Certificate"].

Theorem metadata_fields want enc cache errurl eid issuer cert sso slo attr valid id1 id2 id3 (org contact : bool) :
  let ic := idp_conf want enc cache errurl in
  let conf := DObj "provider.Config" [("IDPConfig", ic);
                ("Organisation", if org then DObj "provider.Organisation" [("Name", DStr (b "n")); ("DisplayName", DStr (b "d")); ("URL", DStr (b "u"))] else DNil);
                ("ContactPerson", if contact then DObj "provider.ContactPerson" [("ContactType", DStr (b "technical")); ("Company", DStr (b "c")); ("GivenName", DStr (b "g"));
                                                    ("SurName", DStr (b "s")); ("EmailAddress", DStr (b "e")); ("TelephoneNumber", DStr (b "t"))] else DNil)] in
  md_sat (md_oracles eid issuer cert sso slo attr valid) conf (DObj "provider.IdentityProvider" [("conf", ic); ("TimeFormat", DStr (b "f"))]) [id1; id2; id3]
    (fun d =>
       at_ d ["EntityID"] = Some (DStr eid) /\ at_ d ["Id"] = Some (DStr id1) /\
       at_ d ["IDPSSODescriptor"; "Id"] = Some (DStr id2) /\ at_ d ["AttributeAuthorityDescriptor"; "Id"] = Some (DStr id3) /\
       at_ d ["IDPSSODescriptor"; "WantAuthnRequestsSigned"] = Some (DStr want) /\
       dget d (key_cert "IDPSSODescriptor") = Some (DStr cert) /\ dget d (key_cert "AttributeAuthorityDescriptor") = Some (DStr cert) /\
       dget d [PField "IDPSSODescriptor"; PField "KeyDescriptor"; PIndex 0; PField "Use"] = Some (DStr (b "signing")) /\
       dget d [PField "IDPSSODescriptor"; PField "SingleSignOnService"; PIndex 0; PField "Location"] = Some (DStr sso) /\
       dget d [PField "IDPSSODescriptor"; PField "SingleSignOnService"; PIndex 1; PField "Location"] = Some (DStr sso) /\
       dget d [PField "IDPSSODescriptor"; PField "SingleLogoutService"; PIndex 0; PField "Location"] = Some (DStr slo) /\
       dget d [PField "IDPSSODescriptor"; PField "SingleLogoutService"; PIndex 1; PField "Location"] = Some (DStr slo) /\
       dget d [PField "AttributeAuthorityDescriptor"; PField "AttributeService"; PIndex 0; PField "Location"] = Some (DStr attr) /\
       at_ d ["IDPSSODescriptor"; "ValidUntil"] = Some (DStr valid)).
Proof.
  destruct enc as [|c1 e']; destruct cache as [|c2 k']; destruct org; destruct contact; vm_compute; repeat split; reflexivity.
Qed.
