(** C03 -- Assertion content is bound to the originating request, audience and user.
    Field level: what the Success reply of the callback carries, as a function of the stored request, the user record
    storage returned and the entity ID registered for the application -- for all of them.  Wire level: the marshalled
    document and the auto-submit form / redirect query return these values to a parser (Codec.XmlEscape, Codec.HtmlEsc,
    Codec.QueryEscape round trips); IDs and instants are supplied by the runtime and checked by the harness. *)
From Saml Require Import Xml.SchemaTypes Xml.Schema Gen.Schema Xml.SamlSpec.
From Saml Require Import Idp.BuilderTypes Idp.Builder Idp.BuiltDoc Idp.GetSamlAll Idp.SuccessAny Idp.QueryFilter Idp.AttrRefine.
From Saml Require Import Base.Bytes Idp.FactTypes Gen.Facts Idp.Callback Idp.Deliver Core.Attrs Proofs.CallbackProofs
  Codec.QueryEscape Codec.XmlEscape Codec.HtmlEsc.

Notation run_cb form_ok form_id lookup_req app_entity userinfo cert_ok sign_ok :=
  (callback form_ok form_id lookup_req app_entity userinfo cert_ok sign_ok callback_seq loginResponse_seq).

(** every field of a Success reply comes from the stored request S = lookup id, the user U storage returned for
    (application, user id) of S, and the entity ID registered for S's application; delivery uses S's URL, binding and
    RelayState *)
Theorem C03_fields : forall form_ok form_id lookup_req app_entity userinfo cert_ok sign_ok r,
  In r (cs_out (run_cb form_ok form_id lookup_req app_entity userinfo cert_ok sign_ok)) -> is_success r = true ->
  exists rec ent u,
    lookup_req form_id = Some rec /\ app_entity (sr_app rec) = Some ent /\ userinfo (sr_app rec) (sr_user rec) = Some u /\
    r = deliver (sr_acs rec) (sr_binding rec) (sr_relay rec)
          {| m_in_response_to := sr_reqid rec; m_destination := sr_acs rec; m_audience := ent;
             m_resp := CSuccess u (sig_for (sr_binding rec)) |}.
Proof.
  intros form_ok form_id lookup_req app_entity userinfo cert_ok sign_ok r Hin Hs.
  pose proof (callback_table form_ok form_id lookup_req app_entity userinfo cert_ok sign_ok) as T.
  unfold expected in T. destruct T as [_ T].
  assert (NF : forall acs bn rl irt dst aud st msg,
     is_success (deliver acs bn rl {| m_in_response_to := irt; m_destination := dst; m_audience := aud; m_resp := CFailed st msg |}) = false).
  { intros. unfold deliver. destruct (is_empty acs); [reflexivity|]. destruct (beq bn c_PostBinding); [reflexivity|].
    destruct (beq bn c_RedirectBinding); reflexivity. }
  destruct form_ok; cbn [negb] in T; [|destruct T as [T _]; rewrite T in Hin; destruct Hin as [<-|[]]; discriminate Hs].
  destruct (is_empty form_id); [destruct T as [T _]; rewrite T in Hin; destruct Hin as [<-|[]]; discriminate Hs|].
  destruct (lookup_req form_id) as [rec|] eqn:El; [|destruct T as [_ T]; rewrite T in Hin; destruct Hin as [<-|[]]; discriminate Hs].
  destruct (app_entity (sr_app rec)) as [ent|] eqn:Ea; [|destruct T as [T _]; rewrite T in Hin; destruct Hin as [<-|[]]; discriminate Hs].
  destruct (sr_done rec); cbn [negb] in T; [|destruct T as [T _]; rewrite T in Hin; destruct Hin as [<-|[]]; rewrite NF in Hs; discriminate Hs].
  destruct (userinfo (sr_app rec) (sr_user rec)) as [u|] eqn:Eu; [|destruct T as [T _]; rewrite T in Hin; destruct Hin as [<-|[]]; rewrite NF in Hs; discriminate Hs].
  destruct cert_ok; cbn [negb] in T; [|destruct T as [T _]; rewrite T in Hin; destruct Hin as [<-|[]]; rewrite NF in Hs; discriminate Hs].
  destruct sign_ok; cbn [negb] in T; [|destruct T as [T _]; rewrite T in Hin; destruct Hin as [<-|[]]; rewrite NF in Hs; discriminate Hs].
  destruct T as [T _]. rewrite T in Hin. destruct Hin as [<-|[]]. exists rec, ent, u. repeat split; auto.
Qed.

(** the attribute statement is exactly the user's data: the six standard attributes, each present iff non-empty, in
    the code's order, one value each; then the custom attributes with name, friendly name, format and the value LIST *)
Theorem C03_attributes : forall u,
  map at_values (attrs_of u) =
    map (fun v => [v]) (filter (fun v => negb (is_empty v)) [u_email u; u_surname u; u_given u; u_fullname u; u_username u; u_userid u])
    ++ map ca_values (u_custom u) /\
  nameid_of u = u_username u.
Proof.
  intro u. split; [|reflexivity]. unfold attrs_of, std. rewrite !map_app, map_map. cbn [filter map app].
  destruct (is_empty (u_email u)), (is_empty (u_surname u)), (is_empty (u_given u)), (is_empty (u_fullname u)),
    (is_empty (u_username u)), (is_empty (u_userid u)); reflexivity.
Qed.

(** wire: values made of legal XML characters come back unchanged from the marshalled document; RelayState comes back
    unchanged from the redirect query and (without NUL / CR) from the auto-submit form *)
Theorem C03_wire_xml : forall s, legal_xml s = true -> xml_unescape (xml_escape s) = Some s.
Proof. exact xml_unescape_escape. Qed.
Theorem C03_wire_query : forall s, go_query_unescape (go_query_escape s) = Some s.
Proof. exact query_unescape_escape. Qed.
Theorem C03_wire_form : forall s, no_nul s = true -> html_attr_unescape (attr_escape s) = s.
Proof. exact html_attr_roundtrip. Qed.

(** how the response leaves (body / auto-submit form / redirect, as used in C03_fields) is read off the statement
    sequence of sendBackResponse, for every consumer URL, binding, RelayState and message *)
Theorem C03_delivery_from_source : forall acs binding relay m,
  deliver_shape sendBackResponse_seq (is_empty acs) (label_is binding) = Some (kind_of_creply (deliver acs binding relay m)).
Proof. exact deliver_from_source. Qed.

(** the struct tags of the current source agree with the SAML schemas where the response builders rely on them: the
    fields filled by makeResponse / makeAssertion are the attributes and elements of that name, and attribute values and
    audiences are written as one element each even when empty *)
Theorem C03_schema : forallb (conforms xml_schema) saml_spec = true.
Proof. exact saml_spec_conforms. Qed.

(** the response document itself, from the source of response.go / attributes.go (builder programs regenerated by go2v)
    and the struct tags: for every request ID, consumer URL, issuer, audience, user and clock reading, InResponseTo is on
    the response and in the subject confirmation, Destination = Recipient = the consumer URL (both absent when it is
    empty), Issuer on response and assertion, NotBefore = IssueInstant, both NotOnOrAfter = the expiry, the audience is
    exactly the service provider, NameID is the user name, and message, assertion and session index carry the fresh
    identifiers in call order *)
Theorem C03_built_response : forall reqid acs issuer audience email full given sur userid username id1 id2 rest issue until,
  built_sat "makeSuccessfulResponse" (Some (response_rec reqid acs issuer audience))
              [attributes_rec email full given sur userid username []; DStr (b "f"); DNil] (id1 :: id2 :: rest) issue until (fun d r => r = rest /\
    at_ d ["Id"%string] = Some (DStr id1) /\ at_ d ["Assertion"; "Id"]%string = Some (DStr id2) /\
    at_ d ["InResponseTo"%string] = Some (DStr reqid) /\ dget d (sc_data ++ [PField "InResponseTo"]) = Some (DStr reqid) /\
    at_ d ["Destination"%string] = (if is_empty acs then None else Some (DStr acs)) /\
    dget d (sc_data ++ [PField "Recipient"]) = (if is_empty acs then None else Some (DStr acs)) /\
    at_ d ["Issuer"; "Text"]%string = Some (DStr issuer) /\ at_ d ["Assertion"; "Issuer"; "Text"]%string = Some (DStr issuer) /\
    at_ d ["IssueInstant"%string] = Some (DStr issue) /\ at_ d ["Assertion"; "IssueInstant"]%string = Some (DStr issue) /\
    at_ d ["Assertion"; "Conditions"; "NotBefore"]%string = Some (DStr issue) /\
    at_ d ["Assertion"; "Conditions"; "NotOnOrAfter"]%string = Some (DStr until) /\ dget d (sc_data ++ [PField "NotOnOrAfter"]) = Some (DStr until) /\
    dget d [PField "Assertion"; PField "Conditions"; PField "AudienceRestriction"; PIndex 0; PField "Audience"] = Some (DList [DStr audience]) /\
    at_ d ["Assertion"; "Subject"; "NameID"; "Text"]%string = Some (DStr username) /\
    at_ d ["Status"; "StatusCode"; "Value"]%string = Some (DStr (b "urn:oasis:names:tc:SAML:2.0:status:Success")) /\
    dget d [PField "Assertion"; PField "AuthnStatement"; PIndex 0; PField "SessionIndex"] = Some (DStr id2)).
Proof. exact success_response_fields. Qed.
(** ... and the attribute statement: the six standard attributes, present iff not empty, in the code's order *)
Theorem C03_built_attributes : forall email full given sur userid username fr issue until,
  built_value "GetSAML" (Some (attributes_rec email full given sur userid username [])) [] fr issue until =
    Some (DList (std_attr "Email" email ++ std_attr "SurName" sur ++ std_attr "FirstName" given ++ std_attr "FullName" full ++
                 std_attr "UserName" username ++ std_attr "UserID" userid), fr) /\
  built_value "GetNameID" (Some (attributes_rec email full given sur userid username [])) [] fr issue until =
    Some (DObj "saml.NameIDType" [("Format"%string, DStr (b "urn:oasis:names:tc:SAML:1.1:nameid-format:emailAddress")); ("Text"%string, DStr username)], fr).
Proof. exact getsaml_standard. Qed.

(** ... for ANY number of custom attributes (induction over the list the map is ranged over; the loop of the builder program
    uses no fuel per element): the standard attributes as above, then one attribute per custom attribute carrying its name,
    friendly name, name format and values, in that order; nothing else *)
Theorem C03_built_attributes_any_custom : forall email full given sur userid username (cs : list dcustom) fr issue until,
  built_value "GetSAML" (Some (attributes_rec email full given sur userid username (map custom_dpair cs))) [] fr issue until =
    Some (DList (std_attr "Email" email ++ std_attr "SurName" sur ++ std_attr "FirstName" given ++ std_attr "FullName" full ++
                 std_attr "UserName" username ++ std_attr "UserID" userid ++ map custom_dattr cs), fr).
Proof. exact getsaml_any. Qed.

(** ... and that list is the attribute statement of the assertion inside the successful Response, again for any number of
    custom attributes: the builder programs of makeSuccessfulResponse / makeAssertionResponse / makeAssertion are stepped
    through symbolically down to the GetSAML call (Idp/SuccessAny.v) *)
Theorem C03_attribute_statement_any_custom : forall reqid acs issuer audience email full given sur userid username (cs : list dcustom) id1 id2 rest issue until,
  built_sat "makeSuccessfulResponse" (Some (response_rec reqid acs issuer audience))
    [attributes_rec email full given sur userid username (map custom_dpair cs); DStr (b "f"); DNil] (id1 :: id2 :: rest) issue until
    (fun d r => r = rest /\
       dget d [PField "Assertion"; PField "AttributeStatement"; PIndex 0; PField "Attribute"] =
       Some (DList (std_attr "Email" email ++ std_attr "SurName" sur ++ std_attr "FirstName" given ++ std_attr "FullName" full ++
                    std_attr "UserName" username ++ std_attr "UserID" userid ++ map custom_dattr cs))).
Proof. exact success_attributes_any. Qed.

(** REFINEMENT: the hand-written attribute model the handler theorems use (Core/Attrs.v, attrs_of: C03_attributes) is what the
    programs translated from the source compute -- the attribute statement of the successful Response abstracts, field by
    field (name, friendly name, name format, values), to attrs_of u, for every user record *)
Theorem C03_attribute_statement_refines_model : forall reqid acs issuer audience u id1 id2 rest issue until,
  built_sat "makeSuccessfulResponse" (Some (response_rec reqid acs issuer audience)) [user_rec u; DStr (b "f"); DNil] (id1 :: id2 :: rest) issue until
    (fun d r => r = rest /\ exists l,
       dget d [PField "Assertion"; PField "AttributeStatement"; PIndex 0; PField "Attribute"] = Some (DList l) /\
       map attr_of_dval l = attrs_of u).
Proof. exact success_refines. Qed.

(** REFINEMENT of the whole Success message: the abstract message of C03_fields is what the document built by the translated
    programs abstracts to -- request ID (Response and subject confirmation), consumer URL (Destination and Recipient, absent
    iff empty), entity ID as the only audience, user name as NameID, the model's attribute list -- for every stored request,
    entity ID and user record *)
Theorem C03_response_refines_model : forall rec ent issuer u sg id1 id2 rest issue until,
  let M := {| m_in_response_to := sr_reqid rec; m_destination := sr_acs rec; m_audience := ent; m_resp := CSuccess u sg |} in
  built_sat "makeSuccessfulResponse" (Some (response_rec (sr_reqid rec) (sr_acs rec) issuer ent)) [user_rec u; DStr (b "f"); DNil] (id1 :: id2 :: rest) issue until
    (fun d r => r = rest /\
       opt_str (at_ d ["InResponseTo"%string]) = m_in_response_to M /\ opt_str (dget d (sc_data ++ [PField "InResponseTo"])) = m_in_response_to M /\
       opt_str (at_ d ["Destination"%string]) = m_destination M /\ opt_str (dget d (sc_data ++ [PField "Recipient"])) = m_destination M /\
       (at_ d ["Destination"%string] = None <-> m_destination M = []) /\
       dget d [PField "Assertion"; PField "Conditions"; PField "AudienceRestriction"; PIndex 0; PField "Audience"] = Some (DList [DStr (m_audience M)]) /\
       opt_str (at_ d ["Assertion"; "Subject"; "NameID"; "Text"]%string) = nameid_of u /\
       exists l, dget d [PField "Assertion"; PField "AttributeStatement"; PIndex 0; PField "Attribute"] = Some (DList l) /\
                 map attr_of_dval l = attrs_of u).
Proof. exact success_message_refines. Qed.

Print Assumptions C03_fields.
Print Assumptions C03_attributes.
Print Assumptions C03_wire_xml.
Print Assumptions C03_wire_query.
Print Assumptions C03_wire_form.
Print Assumptions C03_delivery_from_source.
Print Assumptions C03_schema.
Print Assumptions C03_built_response.
Print Assumptions C03_built_attributes.
Print Assumptions C03_built_attributes_any_custom.
Print Assumptions C03_attribute_statement_any_custom.
Print Assumptions C03_attribute_statement_refines_model.
Print Assumptions C03_response_refines_model.
