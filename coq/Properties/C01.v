(** C01 -- No Success assertion without completed authentication.
    The callback model interprets the statement sequence go2v extracts from login.go; [callback_table] is proved by
    symbolic execution of that sequence for ALL requests and storage answers, so these corollaries hold for the
    current source tree (they are re-proved whenever the extracted sequence changes). *)
From Saml Require Import Base.Bytes Idp.FactTypes Gen.Facts Idp.Callback Proofs.CallbackProofs Proofs.CallbackHistory.
From Saml Require Import Idp.BuilderTypes Idp.Builder Idp.BuiltDoc.
From Saml Require Idp.AttrRefine.

Notation run_cb form_ok form_id lookup_req app_entity userinfo cert_ok sign_ok :=
  (callback form_ok form_id lookup_req app_entity userinfo cert_ok sign_ok callback_seq loginResponse_seq).

(** a Success response is only ever emitted for an existing, completed request (named by a non-empty id), after the
    user lookup, the key retrieval and the signing all succeeded, and it is about exactly the user storage returned *)
Theorem C01_success_only_if_done : forall form_ok form_id lookup_req app_entity userinfo cert_ok sign_ok d m u sg,
  In (CSaml d m) (cs_out (run_cb form_ok form_id lookup_req app_entity userinfo cert_ok sign_ok)) -> m_resp m = CSuccess u sg ->
  form_ok = true /\ form_id <> [] /\ exists rec,
    lookup_req form_id = Some rec /\ sr_done rec = true /\ userinfo (sr_app rec) (sr_user rec) = Some u /\
    cert_ok = true /\ sign_ok = true.
Proof.
  intros form_ok form_id lookup_req app_entity userinfo cert_ok sign_ok d m u sg Hin Hm.
  pose proof (callback_table form_ok form_id lookup_req app_entity userinfo cert_ok sign_ok) as T.
  unfold expected in T. destruct T as [_ T].
  destruct form_ok; cbn [negb] in T; [|destruct T as [T _]; rewrite T in Hin; destruct Hin as [[=]|[]]].
  destruct (is_empty form_id) eqn:Eid; [destruct T as [T _]; rewrite T in Hin; destruct Hin as [[=]|[]]|].
  split; [reflexivity|]. split; [intro E; rewrite E in Eid; discriminate|].
  destruct (lookup_req form_id) as [rec|]; [|destruct T as [_ T]; rewrite T in Hin; destruct Hin as [Hin|[]]; inversion Hin; subst m; cbn [m_resp] in Hm; discriminate Hm].
  exists rec. split; [reflexivity|].
  destruct (app_entity (sr_app rec)) as [ent|]; [|destruct T as [T _]; rewrite T in Hin; destruct Hin as [[=]|[]]].
  assert (NF : forall st out, out = [deliver (sr_acs rec) (sr_binding rec) (sr_relay rec)
       {| m_in_response_to := sr_reqid rec; m_destination := sr_acs rec; m_audience := ent; m_resp := CFailed st (b "failed to create response") |}] ->
       In (CSaml d m) out -> False).
  { intros st out E Hin'. rewrite E in Hin'. destruct Hin' as [Hin'|[]]. unfold deliver in Hin'.
    destruct (is_empty (sr_acs rec)); [inversion Hin'; subst m; cbn [m_resp] in Hm; discriminate Hm|].
    destruct (beq (sr_binding rec) c_PostBinding); [inversion Hin'; subst m; cbn [m_resp] in Hm; discriminate Hm|].
    destruct (beq (sr_binding rec) c_RedirectBinding); [inversion Hin'; subst m; cbn [m_resp] in Hm; discriminate Hm|discriminate Hin']. }
  destruct (sr_done rec); cbn [negb] in T; [|exfalso; destruct T as [T _]; eapply NF; [exact T|exact Hin]].
  split; [reflexivity|].
  destruct (userinfo (sr_app rec) (sr_user rec)) as [u'|]; [|exfalso; destruct T as [T _]; eapply NF; [exact T|exact Hin]].
  destruct cert_ok; cbn [negb] in T; [|exfalso; destruct T as [T _]; eapply NF; [exact T|exact Hin]].
  destruct sign_ok; cbn [negb] in T; [|exfalso; destruct T as [T _]; eapply NF; [exact T|exact Hin]].
  destruct T as [T _]. rewrite T in Hin. destruct Hin as [Hin|[]]. unfold deliver in Hin.
  assert (u' = u).
  { destruct (is_empty (sr_acs rec)); [inversion Hin; subst m; cbn [m_resp] in Hm; now inversion Hm|].
    destruct (beq (sr_binding rec) c_PostBinding); [inversion Hin; subst m; cbn [m_resp] in Hm; now inversion Hm|].
    destruct (beq (sr_binding rec) c_RedirectBinding); [inversion Hin; subst m; cbn [m_resp] in Hm; now inversion Hm|discriminate Hin]. }
  subst. auto.
Qed.

(** every request gets exactly one reply; unless it is the Success response of the theorem above it is the plain
    HTTP 500 or a response with one of four non-Success status codes, which carries no subject, attribute or signature *)
Theorem C01_one_reply : forall form_ok form_id lookup_req app_entity userinfo cert_ok sign_ok,
  exists r, cs_out (run_cb form_ok form_id lookup_req app_entity userinfo cert_ok sign_ok) = [r] /\
            (is_success r = false -> failure_reply r).
Proof. exact callback_one_reply. Qed.
Theorem C01_failure_statuses : forallb (fun s => negb (beq s c_StatusCodeSuccess)) failure_statuses = true.
Proof. exact failure_statuses_not_success. Qed.

(** user data is not even fetched, and the signing key not touched, before the request is done *)
Theorem C01_no_userinfo_before_done : forall form_ok form_id lookup_req app_entity userinfo cert_ok sign_ok rec,
  form_ok = true -> form_id <> [] -> lookup_req form_id = Some rec -> sr_done rec = false ->
  forall a u, ~ In (KUserinfo a u) (cs_calls (run_cb form_ok form_id lookup_req app_entity userinfo cert_ok sign_ok)) /\
              ~ In KSigningKey (cs_calls (run_cb form_ok form_id lookup_req app_entity userinfo cert_ok sign_ok)).
Proof.
  intros form_ok form_id lookup_req app_entity userinfo cert_ok sign_ok rec Hf Hid Hl Hd a u.
  pose proof (callback_table form_ok form_id lookup_req app_entity userinfo cert_ok sign_ok) as T.
  subst form_ok. unfold expected in T. destruct T as [_ T]. cbn [negb] in T.
  destruct (is_empty form_id) eqn:Eid; [destruct form_id; [contradiction|discriminate]|].
  rewrite Hl in T. destruct (app_entity (sr_app rec)).
  - rewrite Hd in T. cbn [negb] in T. destruct T as [_ T]. rewrite T. split; intros [H|[H|[]]]; discriminate.
  - destruct T as [_ T]. rewrite T. split; intros [H|[H|[]]]; discriminate.
Qed.

(** the handler never dereferences an unset value *)
Theorem C01_no_panic : forall form_ok form_id lookup_req app_entity userinfo cert_ok sign_ok,
  cs_panic (run_cb form_ok form_id lookup_req app_entity userinfo cert_ok sign_ok) = false.
Proof. intros. exact (proj1 (callback_table form_ok form_id lookup_req app_entity userinfo cert_ok sign_ok)). Qed.

(** histories: over any interleaving of acceptances, completions and callbacks for any number of sessions, a stored
    request reports Done only if a completion for its id occurred -- together with [C01_success_only_if_done]: no
    Success without a preceding completion of that very request *)
Theorem C01_histories : forall ops st,
  (forall k r, find_req st k = Some r -> sr_done r = false) ->
  forall k r, find_req (hrun ops st) k = Some r -> sr_done r = true -> completed_in ops k.
Proof. exact done_only_by_completion. Qed.

(** non-vacuity: a three-session history in which the third callback succeeds *)
Definition ex_rec := {| sr_app := b "app"; sr_relay := b "rs"; sr_acs := b "https://sp/acs"; sr_binding := c_PostBinding; sr_reqid := b "_r"; sr_user := b "u"; sr_done := false |}.
Definition ex_user := {| u_email := b "e"; u_fullname := []; u_given := []; u_surname := []; u_username := b "name"; u_userid := b "u"; u_custom := [] |}.
Definition ex_store := hrun [HAccept (b "s1") ex_rec; HAccept (b "s2") ex_rec; HCallback (b "s1"); HComplete (b "s2"); HCallback (b "s2")] [].
Example C01_example :
  map (fun id => map is_success (cs_out (callback true id (find_req ex_store) (fun _ => Some (b "sp")) (fun _ _ => Some ex_user) true true callback_seq loginResponse_seq)))
      [b "s1"; b "s2"; b "s3"] = [[false]; [true]; [false]].
Proof. vm_compute. reflexivity. Qed.

(** what a failure reply contains, from the source of makeFailedResponse / makeResponse: the status and message given, the
    request ID, the issuer, the destination only when a consumer URL is known -- and no assertion content: the builder
    never sets the Assertion field (no subject, attribute or signature) *)
Theorem C01_failed_response_content : forall reqid acs issuer audience reason message id1 rest issue until,
  built_sat "makeFailedResponse" (Some (response_rec reqid acs issuer audience)) [DStr reason; DStr message; DStr (b "f")] (id1 :: rest) issue until (fun d r => r = rest /\
    at_ d ["Id"%string] = Some (DStr id1) /\ at_ d ["InResponseTo"%string] = Some (DStr reqid) /\ at_ d ["IssueInstant"%string] = Some (DStr issue) /\
    at_ d ["Status"; "StatusCode"; "Value"]%string = Some (DStr reason) /\ at_ d ["Status"; "StatusMessage"]%string = Some (DStr message) /\
    at_ d ["Issuer"; "Text"]%string = Some (DStr issuer) /\
    at_ d ["Destination"%string] = (if is_empty acs then None else Some (DStr acs)) /\
    at_ d ["Assertion"%string] = None).
Proof. exact failed_response_fields. Qed.

(** REFINEMENT: a non-Success reply of the model ({| ...; m_resp := CFailed status message |}) is what the document built by the
    program translated from makeFailedResponse abstracts to: the stored request's ID, its consumer URL as Destination (absent iff
    empty), the status and message -- and no assertion at all *)
Theorem C01_failed_refines_model : forall rec ent issuer st msg id1 rest issue until,
  let M := {| m_in_response_to := sr_reqid rec; m_destination := sr_acs rec; m_audience := ent; m_resp := CFailed st msg |} in
  built_sat "makeFailedResponse" (Some (response_rec (sr_reqid rec) (sr_acs rec) issuer ent)) [DStr st; DStr msg; DStr (b "f")] (id1 :: rest) issue until
    (fun d r => r = rest /\
       AttrRefine.opt_str (at_ d ["InResponseTo"%string]) = m_in_response_to M /\ AttrRefine.opt_str (at_ d ["Destination"%string]) = m_destination M /\
       (at_ d ["Destination"%string] = None <-> m_destination M = []) /\
       m_resp M = CFailed (AttrRefine.opt_str (at_ d ["Status"; "StatusCode"; "Value"]%string)) (AttrRefine.opt_str (at_ d ["Status"; "StatusMessage"]%string)) /\
       at_ d ["Assertion"%string] = None).
Proof. exact AttrRefine.failed_message_refines. Qed.

Print Assumptions C01_success_only_if_done.
Print Assumptions C01_one_reply.
Print Assumptions C01_failure_statuses.
Print Assumptions C01_no_userinfo_before_done.
Print Assumptions C01_no_panic.
Print Assumptions C01_histories.
Print Assumptions C01_failed_response_content.
Print Assumptions C01_failed_refines_model.
