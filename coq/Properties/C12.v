(** C12 -- Attribute queries disclose only requested data, to registered requesters.
    Proved by symbolic execution of the chain go2v extracts from attribute_query.go, for all queries, metadata, user
    records and key states. *)
From Saml Require Import Base.Bytes Idp.FactTypes Gen.Facts Idp.Sso Idp.Callback Core.Attrs Idp.AttrQuery.
From Saml Require Import Idp.BuilderTypes Idp.Builder Xml.Unmarshal Idp.AuthnOf Idp.RequestsOf.
From Saml Require Import Idp.BuilderTypes Idp.Builder Gen.Builders Idp.BuiltDoc Idp.GetSamlAll Idp.SuccessAny Idp.QueryFilter Idp.AttrRefine.
From Saml Require Import Xml.SchemaTypes Xml.Schema Gen.Schema Xml.SamlSpec.
From Saml Require Gen.Nec Core.Necessary.

Definition cur_atags : list atag := Eval vm_compute in map atag_of attrquery_steps.
Lemma attrquery_fail_closed_facts : forallb (fun f => match sf f with FHttp c => (400 <=? c)%Z | _ => false end) attrquery_steps = true.
Proof. vm_compute. reflexivity. Qed.

Lemma dest_ok d locs : is_empty d || bmem d locs = true -> d = [] \/ In d locs.
Proof. intro H. apply orb_prop in H as [H|H]; [left; destruct d; [reflexivity|discriminate]|right; now apply bmem_In]. Qed.

(** whenever the endpoint answers with user data, every guard held, and the answer is exactly the filtered record *)
Theorem C12_answered : forall decode lookup verify_sig attr_locs userinfo cert_ok1 cert_ok2 sign_ok entity_id m,
  attrquery_handler decode lookup verify_sig attr_locs userinfo cert_ok1 cert_ok2 sign_ok entity_id attrquery_steps = ADone [ASoap m] ->
  exists q i sp n u,
    decode = Some q /\ aq_issuer q = Some i /\ lookup i = Some sp /\                      (* issuer is a registered provider *)
    (sig_provided (aq_signature q) = true -> verify_sig sp = true) /\                     (* a signature value it carries verifies *)
    (cert_necessary (aq_signature q) sp = true -> cert_matches (aq_signature q) sp = true) /\
    (aq_destination q = [] \/ In (aq_destination q) attr_locs) /\                         (* addressed to the advertised attribute service *)
    aq_nameid q = Some n /\ userinfo n = Some u /\                                         (* the user storage resolved for the subject *)
    cert_ok1 = true /\ cert_ok2 = true /\ sign_ok = true /\                               (* the assertion was signed *)
    m = {| am_in_response_to := aq_id q; am_issuer := entity_id; am_audience := sp_entity sp; am_nameid := nameid_of u;
           am_attrs := filter_attrs (aq_attrs q) (attrs_of u) |}.
Proof.
  intros decode lookup verify_sig attr_locs userinfo cert_ok1 cert_ok2 sign_ok entity_id m H.
  unfold attrquery_handler in H. destruct cert_ok1; cbn [negb] in H; [|discriminate H].
  unfold attrquery_steps in H. cbn [arun] in H.
  repeat match type of H with context [atag_of ?f] => let t := eval vm_compute in (atag_of f) in change (atag_of f) with t in H end.
  cbn [astep sf a0 q_query q_sp q_resp] in H.
  repeat match type of H with
  | context [match ?x with _ => _ end] =>
      lazymatch x with
      | context [match _ with _ => _ end] => fail
      | _ => destruct x eqn:?; try discriminate H; cbn [astep sf q_query q_sp q_resp arun andb] in H
      end
  end;
  inversion H; subst; clear H;
  match goal with Hi : aq_issuer ?q = Some ?i, Hl : lookup ?i = Some ?sp, Hn : aq_nameid ?q = Some ?n, Hu : userinfo ?n = Some ?u |- _ =>
    exists q, i, sp, n, u end;
  repeat split; try eassumption; try reflexivity; try (intro; congruence); auto using dest_ok;
  match goal with Hc : ?x && ?y = true |- _ => apply andb_prop in Hc as [Hc1 Hc2]; assumption end.
Qed.

(** with the list the attribute query handler takes from p.GetMetadata -- the advertised AttributeService location, see
    C11_checked_is_advertised / C11_checked_value_from_source --, an answered query named no Destination or exactly that location *)
Theorem C12_answered_destination : forall decode lookup verify_sig attr userinfo cert_ok1 cert_ok2 sign_ok entity_id m,
  attrquery_handler decode lookup verify_sig [attr] userinfo cert_ok1 cert_ok2 sign_ok entity_id attrquery_steps = ADone [ASoap m] ->
  exists q, decode = Some q /\ (aq_destination q = [] \/ aq_destination q = attr).
Proof.
  intros decode lookup verify_sig attr userinfo cert_ok1 cert_ok2 sign_ok entity_id m H.
  destruct (C12_answered _ _ _ _ _ _ _ _ _ _ H) as (q & i & sp & n & u & E & _ & _ & _ & _ & Hd & _).
  exists q. split; [exact E|]. destruct Hd as [Hd|[Hd|[]]]; auto.
Qed.

(** THE FILTER, FROM SOURCE, FOR ALL LISTS.  The fourth statement of the program go2v translates from makeAttributeQueryResponse
    is the filtering statement; executed on any list of user attributes and any list of requested attributes (each with a Name
    and a NameFormat) it leaves in providedAttrs: everything when nothing was requested, otherwise each attribute once per
    requested entry whose Name and NameFormat equal its own (induction over both lists; Idp/QueryFilter.v) *)
Theorem C12_filter_from_source :
  nth_error aq_body 3 = Some filter_stmt /\
  forall o k E fr qs l,
    env_get E "queriedAttrs"%string = Some (DList qs) -> env_get E "attrsSaml"%string = Some (DList l) -> env_get E "providedAttrs"%string = Some (DList []) ->
    Forall wf_attr qs -> Forall wf_attr l ->
    exists E', exec builders o (15 + k) {| s_env := E; s_fresh := fr |} filter_stmt = Some (RNext {| s_env := E'; s_fresh := fr |}) /\
               env_get E' "providedAttrs"%string = Some (DList (dfilter qs l)).
Proof.
  split; [exact filter_stmt_from_source|]. intros o k E fr qs l H1 H2 H3 W1 W2.
  destruct (filter_exec o k E fr qs l H1 H2 H3 W1 W2) as (E' & A & B & _). exists E'. split; [exact A|exact B].
Qed.
(** REFINEMENT: the whole answer, as a program (GetSAML, the filter, makeResponse, makeAssertion), for every user record -- any
    number of custom attributes -- and every list of requested attributes: the attribute statement of the assertion abstracts,
    field by field, to the model's filter_attrs (requested) (attrs_of u), i.e. to the am_attrs of C12_answered *)
Theorem C12_answer_refines_model : forall reqid issuer sp u (qs : list dval) id1 id2 rest issue until,
  Forall wf_attr qs ->
  built_sat "makeAttributeQueryResponse" None
    [DStr reqid; DStr issuer; DStr sp; user_rec u; DList qs; DStr (b "f"); DNil] (id1 :: id2 :: rest) issue until
    (fun d r => r = rest /\ exists l,
       dget d [PField "Assertion"; PField "AttributeStatement"; PIndex 0; PField "Attribute"] = Some (DList l) /\
       map attr_of_dval l = filter_attrs (requested_of qs) (attrs_of u)).
Proof. exact attrquery_refines. Qed.

(** ... and the whole answer against the abstract message of the attribute query model (amsg, C12_answered): request ID on the
    Response and in the subject confirmation, no Destination / Recipient, the IdP's entity ID as issuer of both, the requester as
    the only audience, the user name as NameID, the filtered attribute list *)
Theorem C12_answer_message_refines_model : forall reqid issuer sp u (qs : list dval) id1 id2 rest issue until,
  Forall wf_attr qs ->
  let M := {| am_in_response_to := reqid; am_issuer := issuer; am_audience := sp; am_nameid := nameid_of u;
              am_attrs := filter_attrs (requested_of qs) (attrs_of u) |} in
  built_sat "makeAttributeQueryResponse" None
    [DStr reqid; DStr issuer; DStr sp; user_rec u; DList qs; DStr (b "f"); DNil] (id1 :: id2 :: rest) issue until
    (fun d r => r = rest /\
       opt_str (at_ d ["InResponseTo"%string]) = am_in_response_to M /\ opt_str (dget d (sc_data ++ [PField "InResponseTo"])) = am_in_response_to M /\
       at_ d ["Destination"%string] = None /\ dget d (sc_data ++ [PField "Recipient"]) = None /\
       opt_str (at_ d ["Issuer"; "Text"]%string) = am_issuer M /\ opt_str (at_ d ["Assertion"; "Issuer"; "Text"]%string) = am_issuer M /\
       dget d [PField "Assertion"; PField "Conditions"; PField "AudienceRestriction"; PIndex 0; PField "Audience"] = Some (DList [DStr (am_audience M)]) /\
       opt_str (at_ d ["Assertion"; "Subject"; "NameID"; "Text"]%string) = am_nameid M /\
       exists l, dget d [PField "Assertion"; PField "AttributeStatement"; PIndex 0; PField "Attribute"] = Some (DList l) /\
                 map attr_of_dval l = am_attrs M).
Proof. exact attrquery_message_refines. Qed.

(** the guards on the signature, from source: signaturePostProvided, certificateCheckNecessary and checkCertificate (post.go / sso.go),
    translated by go2v (Gen/Nec.v), are the model's sig_provided, cert_necessary and cert_matches -- the conditions of C12_answered --
    for every signature and provider record (the certificate texts compared after the source's white-space normalisation, an oracle) *)
Theorem C12_signature_guards_from_source : forall norm (sg : option sig_info) (s : sp_rec),
  Nec.signaturePostProvided (option_map Necessary.view_sig sg) = sig_provided sg /\
  Nec.certificateCheckNecessary (option_map Necessary.view_sig sg) (Some (Necessary.view_sp s)) = cert_necessary sg s /\
  goerr_is_nil (Nec.checkCertificate norm (option_map Necessary.view_sig sg) (Some (Necessary.view_sp s)))
    = cert_matches (option_map (Necessary.norm_sig norm) sg) (Necessary.norm_sp norm s).
Proof. exact Necessary.attrquery_necessity_bridge. Qed.

(** END TO END, DOWN TO THE DOCUMENT: whenever the handler model answers with user data, the document the translated program builds
    from the values the handler passes (query ID, entity ID, requester, the resolved user record, the requested attributes) abstracts to
    exactly the answer of the model: the guards of C12_answered held and the wire content is the filtered record *)
Definition dq_of (q : bytes * bytes) : dval := DObj "saml.AttributeType" [("Name"%string, DStr (fst q)); ("NameFormat"%string, DStr (snd q))].
Lemma dq_wf l : Forall wf_attr (map dq_of l).
Proof. induction l as [|q l IH]; constructor; [split; reflexivity|exact IH]. Qed.
Lemma dq_requested l : requested_of (map dq_of l) = l.
Proof. unfold requested_of. rewrite map_map. induction l as [|[n f] l IH]; [reflexivity|]. cbn [map]. now rewrite IH. Qed.
Theorem C12_end_to_end_document : forall decode lookup verify_sig attr_locs userinfo cert_ok1 cert_ok2 sign_ok entity_id m id1 id2 rest issue until,
  attrquery_handler decode lookup verify_sig attr_locs userinfo cert_ok1 cert_ok2 sign_ok entity_id attrquery_steps = ADone [ASoap m] ->
  exists q sp n u, decode = Some q /\ userinfo n = Some u /\ aq_nameid q = Some n /\
    built_sat "makeAttributeQueryResponse" None
      [DStr (aq_id q); DStr entity_id; DStr (sp_entity sp); user_rec u; DList (map dq_of (aq_attrs q)); DStr (b "f"); DNil] (id1 :: id2 :: rest) issue until
      (fun d r => r = rest /\
         opt_str (at_ d ["InResponseTo"%string]) = am_in_response_to m /\ opt_str (at_ d ["Issuer"; "Text"]%string) = am_issuer m /\
         dget d [PField "Assertion"; PField "Conditions"; PField "AudienceRestriction"; PIndex 0; PField "Audience"] = Some (DList [DStr (am_audience m)]) /\
         opt_str (at_ d ["Assertion"; "Subject"; "NameID"; "Text"]%string) = am_nameid m /\
         exists l, dget d [PField "Assertion"; PField "AttributeStatement"; PIndex 0; PField "Attribute"] = Some (DList l) /\
                   map attr_of_dval l = am_attrs m).
Proof.
  intros decode lookup verify_sig attr_locs userinfo cert_ok1 cert_ok2 sign_ok entity_id m id1 id2 rest issue until H.
  destruct (C12_answered _ _ _ _ _ _ _ _ _ _ H) as (q & i & sp & n & u & E & _ & _ & _ & _ & _ & En & Eu & _ & _ & _ & Em).
  exists q, sp, n, u. split; [exact E|split; [exact Eu|split; [exact En|]]].
  eapply built_sat_mono; [exact (attrquery_message_refines (aq_id q) entity_id (sp_entity sp) u (map dq_of (aq_attrs q)) id1 id2 rest issue until (dq_wf _))|].
  intros d r (Hr & H1 & _ & _ & _ & H5 & _ & H7 & H8 & H9). rewrite dq_requested in *. subst m.
  cbn [am_in_response_to am_issuer am_audience am_nameid am_attrs] in *. repeat split; auto.
Qed.

(** the attribute filter: an attribute is disclosed iff it is one of the user's attributes and (nothing was requested or
    its name and name format match a requested attribute) *)
Theorem C12_filter : forall requested l a, In a (filter_attrs requested l) <->
  In a l /\ (requested = [] \/ exists q, In q requested /\ at_name a = fst q /\ at_format a = snd q).
Proof.
  intros requested l a. unfold filter_attrs. destruct requested as [|q0 rq].
  - split; [intro H; split; auto|intros [H _]; exact H].
  - rewrite in_flat_map. split.
    + intros (x & Hx & Hin). apply in_flat_map in Hin as (q & Hq & Hm).
      destruct (beq (at_name x) (fst q) && beq (at_format x) (snd q)) eqn:E; [|destruct Hm].
      destruct Hm as [<-|[]]. apply andb_prop in E as [E1 E2]. apply beq_eq in E1, E2.
      split; [exact Hx|right; exists q; auto].
    + intros [Hl [Hr|(q & Hq & E1 & E2)]]; [discriminate Hr|].
      exists a. split; [exact Hl|]. apply in_flat_map. exists q. split; [exact Hq|].
      rewrite E1, E2, !beq_refl. now left.
Qed.

(** every failing step answers with an HTTP error: no partial answer *)
Theorem C12_fail_facts : forallb (fun f => match sf f with FHttp c => (400 <=? c)%Z | _ => false end) attrquery_steps = true.
Proof. exact attrquery_fail_closed_facts. Qed.

(** the struct tags of the current source agree with the SAML schemas where the handlers rely on them: Destination, ID, Issuer, Subject and Attribute of the AttributeQuery struct are the attribute / elements of that name in the query document *)
Theorem C12_schema : forallb (conforms xml_schema) saml_spec = true.
Proof. exact saml_spec_conforms. Qed.

(** the answer itself, from the source of makeAttributeQueryResponse: the query ID on the response and in the subject
    confirmation, the querying party as the only audience, the subject's user name, no destination, recipient or
    authentication statement *)
Theorem C12_built_response : forall reqid issuer sp email full given sur userid username id1 id2 rest issue until,
  built_sat "makeAttributeQueryResponse" None
              [DStr reqid; DStr issuer; DStr sp; attributes_rec email full given sur userid username []; DNil; DStr (b "f"); DNil] (id1 :: id2 :: rest) issue until (fun d r => r = rest /\
    at_ d ["InResponseTo"%string] = Some (DStr reqid) /\ dget d (sc_data ++ [PField "InResponseTo"]) = Some (DStr reqid) /\
    at_ d ["Destination"%string] = None /\ dget d (sc_data ++ [PField "Recipient"]) = None /\
    at_ d ["Issuer"; "Text"]%string = Some (DStr issuer) /\ at_ d ["Assertion"; "Issuer"; "Text"]%string = Some (DStr issuer) /\
    dget d [PField "Assertion"; PField "Conditions"; PField "AudienceRestriction"; PIndex 0; PField "Audience"] = Some (DList [DStr sp]) /\
    at_ d ["Assertion"; "Subject"; "NameID"; "Text"]%string = Some (DStr username) /\
    at_ d ["Assertion"; "AuthnStatement"]%string = None /\
    at_ d ["Assertion"; "Conditions"; "NotOnOrAfter"]%string = Some (DStr until)).
Proof. exact attrquery_response_fields. Qed.

(** decoding: the model's decode oracle is, below the codec, a function of the request document -- Unmarshal over the generated
    schema followed by the projection onto the fields the handler reads ([aquery_of_doc], Idp/RequestsOf.v); the harness checks it against
    the handler's own decoder on every case; content after the root element is refused *)
Theorem C12_trailing_content_refused : forall doc, aquery_of_doc true doc = None.
Proof. exact aquery_trailing_refused. Qed.

Print Assumptions C12_answered.
Print Assumptions C12_filter.
Print Assumptions C12_fail_facts.
Print Assumptions C12_schema.
Print Assumptions C12_built_response.
Print Assumptions C12_trailing_content_refused.
Print Assumptions C12_answered_destination.
Print Assumptions C12_filter_from_source.
Print Assumptions C12_answer_refines_model.
Print Assumptions C12_answer_message_refines_model.
Print Assumptions C12_signature_guards_from_source.
Print Assumptions C12_end_to_end_document.
