(** C13 -- Logout responses go to the registered party and succeed only if valid.
    [logout_table] is the complete decision table of logoutHandleFunc, proved by symbolic execution of the chain go2v
    extracts from logout.go for all requests, metadata and instants; the statements below are read off it. *)
From Saml Require Import Base.Bytes Idp.FactTypes Gen.Facts Idp.Sso Idp.Logout Idp.Deliver Proofs.LogoutProofs.
From Saml Require Import Idp.BuilderTypes Idp.Builder Xml.Unmarshal Idp.AuthnOf Idp.RequestsOf.
From Saml Require Import Codec.Base64 Core.WireCodec Core.DecodeVia.
From Saml Require Import Idp.BuilderTypes Idp.Builder Idp.BuiltDoc.
From Saml Require Idp.AttrRefine Gen.Pure Core.TimeCheck Idp.SuccessAny.
From Saml Require Import Xml.SchemaTypes Xml.Schema Gen.Schema Xml.SamlSpec.

Definition reply_msg (r : lreply) : option lmsg := match r with LBody m => Some m | LPost _ _ m => Some m | LHttp _ => None end.
Definition the_reply (o : loutcome) : option lreply := match o with LDone _ [r] => Some r | _ => None end.

Notation out e_form decode lookup instant_of now entity_id := (logout_handler e_form decode lookup instant_of now entity_id logout_steps).

(** what makes a logout request valid *)
Definition valid_logout (e_form : option lform) (decode : bytes -> bytes -> option lreq) (lookup : bytes -> option sp_rec)
  (instant_of : bytes -> instant) (now : Z) : Prop :=
  exists f q i sp, e_form = Some f /\ decode (lf_enc f) (lf_req f) = Some q /\
    time_valid now (instant_of (lq_issue_instant q)) (instant_of (lq_not_on_or_after q)) = true /\
    lq_issuer q = Some i /\ lookup i = Some sp.

(** exactly one reply, always a LogoutResponse issued by the IdP entity; Success iff the request is valid; every other
    request gets RequestDenied *)
Theorem C13_success_iff : forall e_form decode lookup instant_of now entity_id,
  exists r m, the_reply (out e_form decode lookup instant_of now entity_id) = Some r /\ reply_msg r = Some m /\ lm_issuer m = entity_id /\
  (lm_status m = c_StatusCodeSuccess <-> valid_logout e_form decode lookup instant_of now) /\ (lm_status m = c_StatusCodeSuccess \/ lm_status m = c_StatusCodeRequestDenied).
Proof.
  intros e_form decode lookup instant_of now entity_id.
  pose proof (logout_table e_form decode lookup instant_of now entity_id) as T. unfold logout_expected in T.
  assert (ND : c_StatusCodeRequestDenied <> c_StatusCodeSuccess) by (intro E; apply beq_eq in E; vm_compute in E; discriminate).
  unfold valid_logout.
  destruct e_form as [f|].
  2:{ rewrite T. eexists _, _. split; [reflexivity|]. split; [reflexivity|]. split; [reflexivity|]. split; [|right; reflexivity].
      split; [intro E; exfalso; exact (ND E)|]. intros (f & q & i & sp & E & _). discriminate E. }
  destruct (decode (lf_enc f) (lf_req f)) as [q|] eqn:Ed.
  2:{ destruct T as [s ->]. eexists _, _. split; [reflexivity|]. split; [reflexivity|]. split; [reflexivity|]. split; [|right; reflexivity].
      split; [intro E; exfalso; exact (ND E)|]. intros (f0 & q & i & sp & E & E2 & _). inversion E; subst. congruence. }
  destruct (time_valid now _ _) eqn:Et; cbn [negb] in T.
  2:{ destruct T as [s ->]. eexists _, _. split; [reflexivity|]. split; [reflexivity|]. split; [reflexivity|]. split; [|right; reflexivity].
      split; [intro E; exfalso; exact (ND E)|]. intros (f0 & q0 & i & sp & E & E2 & E3 & _). inversion E; subst. rewrite Ed in E2. inversion E2; subst. congruence. }
  destruct (lq_issuer q) as [i|] eqn:Ei.
  2:{ destruct T as [s ->]. eexists _, _. split; [reflexivity|]. split; [reflexivity|]. split; [reflexivity|]. split; [|right; reflexivity].
      split; [intro E; exfalso; exact (ND E)|]. intros (f0 & q0 & i & sp & E & E2 & _ & E4 & _). inversion E; subst. rewrite Ed in E2. inversion E2; subst. congruence. }
  destruct (lookup i) as [sp|] eqn:El.
  2:{ destruct T as [s ->]. eexists _, _. split; [reflexivity|]. split; [reflexivity|]. split; [reflexivity|]. split; [|right; reflexivity].
      split; [intro E; exfalso; exact (ND E)|]. intros (f0 & q0 & i0 & sp & E & E2 & _ & E4 & E5). inversion E; subst. rewrite Ed in E2. inversion E2; subst.
      rewrite Ei in E4. inversion E4; subst. congruence. }
  destruct T as [s ->].
  assert (V : exists f0 q0 i0 sp0, Some f = Some f0 /\ decode (lf_enc f0) (lf_req f0) = Some q0 /\
     time_valid now (instant_of (lq_issue_instant q0)) (instant_of (lq_not_on_or_after q0)) = true /\ lq_issuer q0 = Some i0 /\ lookup i0 = Some sp0)
    by (exists f, q, i, sp; auto).
  destruct (sp_slo sp) as [|u r]; [|destruct (is_empty u)]; eexists _, _;
    (split; [reflexivity|]; split; [reflexivity|]; split; [reflexivity|]; split; [split; [intros _; exact V|intros _; reflexivity]|left; reflexivity]).
Qed.

(** whenever the request could be decoded, InResponseTo echoes its ID *)
Theorem C13_echo : forall e_form decode lookup instant_of now entity_id f q, e_form = Some f -> decode (lf_enc f) (lf_req f) = Some q ->
  exists r m, the_reply (out e_form decode lookup instant_of now entity_id) = Some r /\ reply_msg r = Some m /\ lm_in_response_to m = lq_id q.
Proof.
  intros e_form decode lookup instant_of now entity_id f q Ef Ed. subst e_form. pose proof (logout_table (Some f) decode lookup instant_of now entity_id) as T. unfold logout_expected in T.
  rewrite Ed in T.
  destruct (time_valid now _ _); cbn [negb] in T; [|destruct T as [s ->]; eexists _, _; repeat split; reflexivity].
  destruct (lq_issuer q) as [i|]; [|destruct T as [s ->]; eexists _, _; repeat split; reflexivity].
  destruct (lookup i) as [sp|]; [|destruct T as [s ->]; eexists _, _; repeat split; reflexivity].
  destruct T as [s ->]. destruct (sp_slo sp) as [|u r]; [|destruct (is_empty u)]; eexists _, _; repeat split; reflexivity.
Qed.

(** the message is posted only to the first SingleLogoutService location registered for the issuer's provider, together
    with the RelayState of the request, unchanged; in every other case it is returned in the HTTP body *)
Theorem C13_target : forall e_form decode lookup instant_of now entity_id url relay m,
  the_reply (out e_form decode lookup instant_of now entity_id) = Some (LPost url relay m) ->
  exists f q i sp rest, e_form = Some f /\ decode (lf_enc f) (lf_req f) = Some q /\ lq_issuer q = Some i /\ lookup i = Some sp /\
    sp_slo sp = url :: rest /\ relay = lf_relay f /\ lm_destination m = url /\ lm_status m = c_StatusCodeSuccess.
Proof.
  intros e_form decode lookup instant_of now entity_id url relay m H. pose proof (logout_table e_form decode lookup instant_of now entity_id) as T. unfold logout_expected in T.
  destruct e_form as [f|]; [|rewrite T in H; discriminate].
  destruct (decode (lf_enc f) (lf_req f)) as [q|] eqn:Ed; [|destruct T as [s T]; rewrite T in H; discriminate].
  destruct (time_valid now _ _); cbn [negb] in T; [|destruct T as [s T]; rewrite T in H; discriminate].
  destruct (lq_issuer q) as [i|] eqn:Ei; [|destruct T as [s T]; rewrite T in H; discriminate].
  destruct (lookup i) as [sp|] eqn:El; [|destruct T as [s T]; rewrite T in H; discriminate].
  destruct T as [s T]. rewrite T in H. destruct (sp_slo sp) as [|u r] eqn:Es; [discriminate|].
  destruct (is_empty u); [discriminate|]. cbn [the_reply] in H. inversion H; subst.
  exists f, q, i, sp, r. repeat split; auto.
Qed.

(** the handler reads no request parameter other than SAMLRequest, SAMLEncoding and RelayState *)
Theorem C13_parameters_read : logout_form_keys = expected_logout_keys /\ logout_handler_keys = [].
Proof. exact logout_keys_unchanged. Qed.

(** the delivery function of the model is sendBackLogoutResponse's statement sequence: the HTTP body when no logout URL
    is known, else the auto-submit form; there is no other way out *)
Theorem C13_delivery_from_source : forall entity_id status s,
  ldeliver_shape sendBackLogoutResponse_seq (is_empty (g_url s)) = Some (kind_of_lreply (lsend entity_id status s)).
Proof. exact lsend_from_source. Qed.

(** the struct tags of the current source agree with the SAML schemas where the handlers rely on them: ID, IssueInstant, NotOnOrAfter, Issuer and NameID of the LogoutRequest struct are the attributes / elements of that name in the request document; InResponseTo, Destination, Issuer and Status those of the LogoutResponse *)
Theorem C13_schema : forallb (conforms xml_schema) saml_spec = true.
Proof. exact saml_spec_conforms. Qed.

(** the LogoutResponse itself, from the source of logout_response.go: InResponseTo echoes the request ID, Destination is
    the logout URL, Issuer the IdP's entity ID, the status the one given (Success for the successful builder) *)
Theorem C13_built_response : forall reqid url issuer reason message id1 rest issue until,
  (built_sat "makeFailedLogoutResponse" (Some (logout_rec reqid url issuer)) [DStr reason; DStr message; DStr (b "f")] (id1 :: rest) issue until (fun d r => r = rest /\
     at_ d ["Id"%string] = Some (DStr id1) /\ at_ d ["InResponseTo"%string] = Some (DStr reqid) /\ at_ d ["Destination"%string] = Some (DStr url) /\
     at_ d ["Issuer"; "Text"]%string = Some (DStr issuer) /\ at_ d ["IssueInstant"%string] = Some (DStr issue) /\
     at_ d ["Status"; "StatusCode"; "Value"]%string = Some (DStr reason) /\ at_ d ["Status"; "StatusMessage"]%string = Some (DStr message))) /\
  (built_sat "makeSuccessfulLogoutResponse" (Some (logout_rec reqid url issuer)) [DStr (b "f")] (id1 :: rest) issue until (fun d r => r = rest /\
     at_ d ["Id"%string] = Some (DStr id1) /\ at_ d ["InResponseTo"%string] = Some (DStr reqid) /\ at_ d ["Destination"%string] = Some (DStr url) /\
     at_ d ["Issuer"; "Text"]%string = Some (DStr issuer) /\ at_ d ["IssueInstant"%string] = Some (DStr issue) /\
     at_ d ["Status"; "StatusCode"; "Value"]%string = Some (DStr (b "urn:oasis:names:tc:SAML:2.0:status:Success")))).
Proof. exact logout_response_fields. Qed.

(** decoding opened up one level (DecodeLogoutRequest = InflateAndDecode + parser, C06_decode_from_source): a request
    that gets Success has an empty or the DEFLATE SAMLEncoding and a payload that inflates within the cap; an unknown
    SAMLEncoding or an oversized payload gets RequestDenied *)
Theorem C13_codec : forall e_form inflate cap parse lookup instant_of now,
  valid_logout e_form (decode_via lreq inflate cap parse) lookup instant_of now ->
  exists f raw d q, e_form = Some f /\ (lf_enc f = [] \/ lf_enc f = c_EncodingDeflate) /\ b64_decode (lf_req f) = Some raw /\ parse d = Some q /\
    ((lf_enc f = [] /\ d = raw) \/ (lf_enc f = c_EncodingDeflate /\ inflate raw = Some d /\ (Z.of_nat (length d) <= cap)%Z)).
Proof.
  intros e_form inflate cap parse lookup instant_of now (f & q & i & sp & Ef & Ed & _).
  destruct (decode_via_some lreq inflate cap parse _ _ _ Ed) as (He & raw & d & Hb & Hp & Hd).
  exists f, raw, d, q. auto.
Qed.

(** decoding: the model's decode oracle is, below the codec, a function of the request document -- Unmarshal over the generated
    schema followed by the projection onto the fields the handler reads ([lreq_of_doc], Idp/RequestsOf.v); the harness checks it against
    the handler's own decoder on every case; content after the root element is refused *)
Theorem C13_trailing_content_refused : forall doc, lreq_of_doc true doc = None.
Proof. exact lreq_trailing_refused. Qed.

(** REFINEMENT: the abstract message of the logout model (lmsg: status, InResponseTo, issuer, destination) is what the document
    built by the program translated from logout_response.go abstracts to, for every request ID, location and issuer *)
Theorem C13_response_refines_model : forall reqid url issuer id1 rest issue until,
  let M := {| lm_status := b "urn:oasis:names:tc:SAML:2.0:status:Success"; lm_in_response_to := reqid; lm_issuer := issuer; lm_destination := url |} in
  built_sat "makeSuccessfulLogoutResponse" (Some (logout_rec reqid url issuer)) [DStr (b "f")] (id1 :: rest) issue until
    (fun d r => r = rest /\
       AttrRefine.opt_str (at_ d ["Status"; "StatusCode"; "Value"]%string) = lm_status M /\ AttrRefine.opt_str (at_ d ["InResponseTo"%string]) = lm_in_response_to M /\
       AttrRefine.opt_str (at_ d ["Issuer"; "Text"]%string) = lm_issuer M /\ AttrRefine.opt_str (at_ d ["Destination"%string]) = lm_destination M).
Proof. exact AttrRefine.logout_message_refines. Qed.

(** the logout handler's time check is the same generated function, applied to the request's IssueInstant and NotOnOrAfter
    with the configured layout (facts of logout.go): no error exactly when time_valid holds (LTTime of the logout model) *)
Theorem C13_time_check_from_source :
  (forall now parse nb noa layout,
     goerr_is_nil (Pure.checkIfRequestTimeIsStillValid now parse nb noa layout) = time_valid now (TimeCheck.inst_of parse layout nb) (TimeCheck.inst_of parse layout noa)) /\
  logout_time_call = [("arg0", "thunk:logoutRequest.IssueInstant"); ("arg1", "thunk:logoutRequest.NotOnOrAfter"); ("arg2", "p.TimeFormat")]%string.
Proof. split; [exact TimeCheck.time_check_bridge|reflexivity]. Qed.

(** END TO END, DOWN TO THE DOCUMENT: when the model posts a reply to a location, that location is the first SingleLogoutService location
    registered for the issuer's provider (C13_target) and the LogoutResponse document the translated program builds from the reply's
    fields has it as Destination, Success as status, the request's ID as InResponseTo and the IdP's entity ID as Issuer *)
Theorem C13_end_to_end_document : forall e_form decode lookup instant_of now entity_id url relay m id1 rest issue until,
  the_reply (out e_form decode lookup instant_of now entity_id) = Some (LPost url relay m) ->
  (exists f q i sp others, e_form = Some f /\ decode (lf_enc f) (lf_req f) = Some q /\ lq_issuer q = Some i /\ lookup i = Some sp /\ sp_slo sp = url :: others) /\
  built_sat "makeSuccessfulLogoutResponse" (Some (logout_rec (lm_in_response_to m) (lm_destination m) (lm_issuer m))) [DStr (b "f")] (id1 :: rest) issue until
    (fun d r => r = rest /\
       at_ d ["Destination"%string] = Some (DStr url) /\ at_ d ["Status"; "StatusCode"; "Value"]%string = Some (DStr (lm_status m)) /\
       at_ d ["InResponseTo"%string] = Some (DStr (lm_in_response_to m)) /\ at_ d ["Issuer"; "Text"]%string = Some (DStr (lm_issuer m))).
Proof.
  intros e_form decode lookup instant_of now entity_id url relay m id1 rest issue until H.
  destruct (C13_target _ _ _ _ _ _ _ _ _ H) as (f & q & i & sp & others & E1 & E2 & E3 & E4 & E5 & _ & Hd & Hs).
  split; [exists f, q, i, sp, others; auto|].
  destruct (logout_response_fields (lm_in_response_to m) (lm_destination m) (lm_issuer m) [] [] id1 rest issue until) as [_ L].
  eapply SuccessAny.built_sat_mono; [exact L|].
  intros d r (Hr & _ & A & B & C & _ & D). rewrite Hd in B. rewrite Hs. auto.
Qed.

(** ... and a refused request: the failure LogoutResponse (status, message) against the lmsg of the model *)
Theorem C13_failure_refines_model : forall reqid url issuer reason message id1 rest issue until,
  let M := {| lm_status := reason; lm_in_response_to := reqid; lm_issuer := issuer; lm_destination := url |} in
  built_sat "makeFailedLogoutResponse" (Some (logout_rec reqid url issuer)) [DStr reason; DStr message; DStr (b "f")] (id1 :: rest) issue until
    (fun d r => r = rest /\
       AttrRefine.opt_str (at_ d ["Status"; "StatusCode"; "Value"]%string) = lm_status M /\ AttrRefine.opt_str (at_ d ["InResponseTo"%string]) = lm_in_response_to M /\
       AttrRefine.opt_str (at_ d ["Issuer"; "Text"]%string) = lm_issuer M /\ AttrRefine.opt_str (at_ d ["Destination"%string]) = lm_destination M).
Proof. exact AttrRefine.logout_failed_message_refines. Qed.

Print Assumptions C13_success_iff.
Print Assumptions C13_echo.
Print Assumptions C13_target.
Print Assumptions C13_parameters_read.
Print Assumptions C13_delivery_from_source.
Print Assumptions C13_schema.
Print Assumptions C13_built_response.
Print Assumptions C13_codec.
Print Assumptions C13_trailing_content_refused.
Print Assumptions C13_response_refines_model.
Print Assumptions C13_time_check_from_source.
Print Assumptions C13_end_to_end_document.
Print Assumptions C13_failure_refines_model.
