(** C06 -- Accepted AuthnRequests satisfy every validity condition.
    "Accepted" = the handler's only reply is the login redirect.  Parametric in the extracted chain: it is enough that
    the chain contains the six validation steps ([has_tags _ tags6], decidable, re-checked on the chain go2v extracts).
    Decoding (base64, DEFLATE, XML, unknown SAMLEncoding) is the oracle [decode]; its codec part is C18. *)
From Saml Require Import Base.Bytes Idp.FactTypes Gen.Facts Idp.Sso Proofs.SsoProofs Proofs.SsoAccept.
From Saml Require Import Gen.Pure Core.TimeCheck.
From Saml Require Import Xml.SchemaTypes Xml.Schema Gen.Schema Xml.SamlSpec Codec.Base64 Core.WireCodec Core.DecodeVia Proofs.SsoCodec Idp.BuilderTypes Idp.Builder Xml.Unmarshal Idp.AuthnOf.

Section C06.
Variable e_form : option form.
Variable decode : bytes -> bytes -> option authn.
Variable lookup : bytes -> option sp_rec.
Variable verify_redirect : sp_rec -> bytes -> bytes -> bytes -> bytes -> bool.
Variable verify_post : sp_rec -> bytes -> bool.
Variable instant_of : bytes -> instant.
Variable now : Z.
Variable create : create_args -> option bytes.
Variable want_signed : bytes.
Variable sso_locs : list bytes.
Variable entity_id : bytes.
Variable cert_ok : bool.
Notation handler := (sso_handler e_form decode lookup verify_redirect verify_post instant_of now create want_signed sso_locs entity_id cert_ok).

Theorem C06_accept_implies : forall c st id, has_tags c tags6 = true -> handler c = Done st [RLogin id] ->
  exists f a i s,
    e_form = Some f /\ f_req f <> [] /\ (f_sigalg f <> [] -> f_sig f <> []) /\
    decode (f_enc f) (f_req f) = Some a /\ a_issuer a = Some i /\ i <> [] /\ lookup i = Some s /\ i = sp_entity s /\
    a_id a <> [] /\ a_version a <> [] /\ (a_destination a = [] \/ In (a_destination a) sso_locs) /\
    window_ok instant_of now a.
Proof.
  intros c st id Ht H. eapply (accept_implies e_form decode lookup verify_redirect verify_post instant_of now create want_signed sso_locs entity_id); [exact Ht|]. eapply accepted_passes; exact H.
Qed.

(** the validity window, spelled out: NotBefore <= now < NotOnOrAfter for the instants that are present; unparsable
    instants never pass *)
Theorem C06_window : forall nb noa, time_valid now nb noa = true <->
  (nb = IAbsent \/ exists t, nb = IAt t /\ (t <= now)%Z) /\ (noa = IAbsent \/ exists t, noa = IAt t /\ (now < t)%Z).
Proof. exact (time_valid_spec now). Qed.

Theorem C06_current_tree : has_tags sso_steps tags6 = true.
Proof. vm_compute. reflexivity. Qed.
End C06.

(** decoding opened up one level: DecodeAuthNRequest is InflateAndDecode(encoding, true, message) followed by a parser
    (the form is read off the source, [C06_decode_from_source]).  Then an accepted request has an empty or the DEFLATE
    SAMLEncoding, its payload is valid base64, and what was parsed is the payload itself or its inflation, within the cap:
    an unknown SAMLEncoding and an oversized payload are never accepted *)
Section C06codec.
Variable e_form : option form.
Variable inflate : bytes -> option bytes.
Variable cap : Z.
Variable parse : bytes -> option authn.
Variable lookup : bytes -> option sp_rec.
Variable verify_redirect : sp_rec -> bytes -> bytes -> bytes -> bytes -> bool.
Variable verify_post : sp_rec -> bytes -> bool.
Variable instant_of : bytes -> instant.
Variable now : Z.
Variable create : create_args -> option bytes.
Variable want_signed : bytes.
Variable sso_locs : list bytes.
Variable entity_id : bytes.
Variable cert_ok : bool.
Notation decode := (decode_via authn inflate cap parse).
Notation handler := (sso_handler e_form decode lookup verify_redirect verify_post instant_of now create want_signed sso_locs entity_id cert_ok).

Theorem C06_encoding : forall c st id, has_tags c tags6 = true -> handler c = Done st [RLogin id] ->
  exists f a raw d, e_form = Some f /\ (f_enc f = [] \/ f_enc f = c_EncodingDeflate) /\
    b64_decode (f_req f) = Some raw /\ parse d = Some a /\
    ((f_enc f = [] /\ d = raw) \/ (f_enc f = c_EncodingDeflate /\ inflate raw = Some d /\ (Z.of_nat (length d) <= cap)%Z)).
Proof. exact (sso_encoding e_form inflate cap parse lookup verify_redirect verify_post instant_of now create want_signed sso_locs entity_id cert_ok). Qed.

Theorem C06_unknown_encoding_refused : forall c f st id, has_tags c tags6 = true -> e_form = Some f ->
  f_enc f <> [] -> f_enc f <> c_EncodingDeflate -> handler c <> Done st [RLogin id].
Proof. exact (sso_unknown_encoding_refused e_form inflate cap parse lookup verify_redirect verify_post instant_of now create want_signed sso_locs entity_id cert_ok). Qed.
End C06codec.
Theorem C06_decode_from_source :
  decode_fn_ok decodeAuthNRequest_seq decodeAuthNRequest_calls = true /\
  decode_fn_ok decodeLogoutRequest_seq decodeLogoutRequest_calls = true /\
  sso_decode_call = [("arg0", "authRequestForm.Encoding"); ("arg1", "authRequestForm.AuthRequest")]%string /\
  logout_decode_call = [("arg0", "logoutRequestForm.Encoding"); ("arg1", "logoutRequestForm.LogoutRequest")]%string.
Proof. exact decode_functions_from_source. Qed.

(** decoding opened up a second level: the parser is Unmarshal into samlp.AuthnRequestType (Xml/Unmarshal.v over the schema
    generated from the struct tags) followed by the projection onto the seven fields the handler reads (Idp/AuthnOf.v);
    the harness checks [authn_of_doc] against the handler's own decoder on every request of the SSO streams
    (Corr.SsoCorr.doc_ok).  Consequences for every document: what the handler sees is determined by those seven fields
    alone; a root element other than samlp:AuthnRequest, or content after the root, is refused *)
Theorem C06_request_view : forall g1 g2,
  (forall n, In n ["Id"; "Version"; "Destination"; "ProtocolBinding"; "Issuer"; "Conditions"; "Signature"]%string ->
             field xml_schema "samlp.AuthnRequestType" g1 n = field xml_schema "samlp.AuthnRequestType" g2 n) ->
  authn_of xml_schema g1 = authn_of xml_schema g2.
Proof. exact (authn_of_depends_on xml_schema). Qed.
Theorem C06_wrong_root_refused : forall sp lc attrs kids,
  (lc <> b "AuthnRequest" \/ sp <> b "urn:oasis:names:tc:SAML:2.0:protocol") -> authn_of_doc false (RElem sp lc attrs kids) = None.
Proof. exact wrong_root_refused. Qed.
Theorem C06_trailing_content_refused : forall doc, authn_of_doc true doc = None.
Proof. exact trailing_content_refused. Qed.

(** ... and what the schema does not name cannot influence the handler: attributes and child elements of the root that match
    no field of samlp.AuthnRequestType, appended to any request, leave the decoded request unchanged *)
Theorem C06_unknown_content_ignored : forall sp lc attrs kids extra_attrs extra_kids,
  forallb (attr_unmatched areq_infos) extra_attrs = true ->
  forallb (fun n => match n with RElem s l _ _ => elem_unmatched areq_infos s l | RText _ => true end) extra_kids = true ->
  authn_of_doc false (RElem sp lc (attrs ++ extra_attrs) (kids ++ extra_kids)) = authn_of_doc false (RElem sp lc attrs kids).
Proof. exact unknown_content_ignored. Qed.

(** non-vacuity / sensitivity: without the content check the condition fails *)
Example C06_mutant_rejected : has_tags (firstn 12 sso_steps ++ skipn 13 sso_steps) tags6 = false.
Proof. vm_compute. reflexivity. Qed.

(** the struct tags of the current source agree with the SAML schemas where the handlers rely on them: the fields the SSO chain checks (ID, Version, IssueInstant, Destination, Issuer, ProtocolBinding, Conditions) are the attributes and elements of that name in the request document, and what the reply builders fill are the attributes and elements of that name in the reply *)
Theorem C06_schema : forallb (conforms xml_schema) saml_spec = true.
Proof. exact saml_spec_conforms. Qed.

(** THE VALIDITY WINDOW, FROM SOURCE.  go2v translates the closure checkIfRequestTimeIsStillValid returns (time.go) with the clock and
    time.Parse as oracles; for every clock value, every parser and every pair of strings it returns no error exactly when
    time_valid holds of the two instants read off the strings (absent when empty, unparsable, or parsed) -- the condition of
    C06_window.  The handler passes the request's Conditions NotBefore / NotOnOrAfter and the default layout (facts of sso.go). *)
Theorem C06_time_check_from_source : forall now parse nb noa layout,
  goerr_is_nil (checkIfRequestTimeIsStillValid now parse nb noa layout) = time_valid now (inst_of parse layout nb) (inst_of parse layout noa).
Proof. exact time_check_bridge. Qed.
Theorem C06_time_arguments_from_source :
  sso_time_call = [("arg0", "thunk:authNRequest.Conditions.NotBefore"); ("arg1", "thunk:authNRequest.Conditions.NotOnOrAfter"); ("arg2", "DefaultTimeFormat")]%string.
Proof. reflexivity. Qed.

Print Assumptions C06_accept_implies.
Print Assumptions C06_window.
Print Assumptions C06_current_tree.
Print Assumptions C06_schema.
Print Assumptions C06_encoding.
Print Assumptions C06_unknown_encoding_refused.
Print Assumptions C06_decode_from_source.
Print Assumptions C06_request_view.
Print Assumptions C06_wrong_root_refused.
Print Assumptions C06_trailing_content_refused.
Print Assumptions C06_unknown_content_ignored.
Print Assumptions C06_time_check_from_source.
Print Assumptions C06_time_arguments_from_source.
