(** C10 -- Storage and key failures fail closed.
    One statement per endpoint, each read off the endpoint's model (which interprets the structure go2v extracts):
    whenever an operation the request needs fails, the reply is an error reply, carries no user data / signature, and
    nothing is persisted afterwards.  "Fails" = the storage oracle answers None / the key material is unusable. *)
From Saml Require Import Base.Bytes Idp.FactTypes Gen.Facts Idp.Sso Idp.Callback Idp.Logout Idp.AttrQuery Idp.Metadata
  Proofs.SsoProofs Proofs.CallbackProofs Proofs.LogoutProofs.
From Saml Require Import Idp.KeyGuards.
From Saml Require Properties.C01 Properties.C12 Properties.C13.

(** login callback: a Success reply implies that every lookup, the key retrieval and the signing succeeded *)
Theorem C10_callback : forall form_ok form_id lookup_req app_entity userinfo cert_ok sign_ok d m u sg,
  In (CSaml d m) (cs_out (callback form_ok form_id lookup_req app_entity userinfo cert_ok sign_ok callback_seq loginResponse_seq)) ->
  m_resp m = CSuccess u sg ->
  exists rec, lookup_req form_id = Some rec /\ userinfo (sr_app rec) (sr_user rec) = Some u /\ cert_ok = true /\ sign_ok = true.
Proof.
  intros until sg. intros Hin Hm.
  destruct (Properties.C01.C01_success_only_if_done form_ok form_id lookup_req app_entity userinfo cert_ok sign_ok d m u sg Hin Hm)
    as (_ & _ & rec & H1 & _ & H3 & H4 & H5).
  exists rec. clear Hin Hm. repeat split; assumption.
Qed.

(** SSO: whatever fails (service-provider lookup, persistence, key retrieval), the outcome is one of the two of C08 --
    in particular a failing CreateAuthRequest persists nothing and is answered with a failure reply *)
Theorem C10_sso : forall e_form decode lookup vr vp instant_of now create want locs eid cert_ok,
  one_outcome create (sso_handler e_form decode lookup vr vp instant_of now create want locs eid cert_ok sso_steps) /\
  (cert_ok = false -> sso_handler e_form decode lookup vr vp instant_of now create want locs eid cert_ok sso_steps = Done st0 [RHttp 500]).
Proof.
  intros. split; [apply chain_one_outcome, current_chain_wf8|]. intros ->. reflexivity.
Qed.

(** attribute query: an answer with user data implies every lookup and both key retrievals succeeded *)
Theorem C10_attrquery : forall decode lookup verify_sig attr_locs userinfo cert_ok1 cert_ok2 sign_ok entity_id m,
  attrquery_handler decode lookup verify_sig attr_locs userinfo cert_ok1 cert_ok2 sign_ok entity_id attrquery_steps = ADone [ASoap m] ->
  cert_ok1 = true /\ cert_ok2 = true /\ sign_ok = true /\
  exists q i sp n u, decode = Some q /\ aq_issuer q = Some i /\ lookup i = Some sp /\ aq_nameid q = Some n /\ userinfo n = Some u.
Proof.
  intros until m. intro H.
  destruct (Properties.C12.C12_answered _ _ _ _ _ _ _ _ _ _ H) as (q & i & sp & n & u & H1 & H2 & H3 & _ & _ & _ & H7 & H8 & H9 & H10 & H11 & _).
  repeat split; auto. exists q, i, sp, n, u. auto.
Qed.

(** logout: a failing service-provider lookup never yields Success *)
Theorem C10_logout : forall e_form decode lookup instant_of now entity_id r m,
  Properties.C13.the_reply (logout_handler e_form decode lookup instant_of now entity_id logout_steps) = Some r ->
  Properties.C13.reply_msg r = Some m -> lm_status m = c_StatusCodeSuccess ->
  exists f q i sp, e_form = Some f /\ decode (lf_enc f) (lf_req f) = Some q /\ lq_issuer q = Some i /\ lookup i = Some sp.
Proof.
  intros until m. intros Hr Hm Hs.
  destruct (Properties.C13.C13_success_iff e_form decode lookup instant_of now entity_id) as (r' & m' & Hr' & Hm' & _ & Hiff & _).
  rewrite Hr in Hr'. inversion Hr'; subst r'. rewrite Hm in Hm'. inversion Hm'; subst m'.
  destruct (proj1 Hiff Hs) as (f & q & i & sp & E1 & E2 & _ & E4 & E5). exists f, q, i, sp. auto.
Qed.

(** metadata, certificate, readiness: any unusable key / failing probe gives an error reply, never signed metadata *)
Theorem C10_metadata : forall cert_ok sign_conf mkey_ok signer_ok,
  (cert_ok = false \/ (sign_conf = true /\ (mkey_ok = false \/ signer_ok = false))) ->
  metadata_handler cert_ok sign_conf mkey_ok signer_ok = MError.
Proof.
  intros cert_ok sign_conf mkey_ok signer_ok [->|[-> [->| ->]]]; unfold metadata_handler; cbn; try reflexivity;
    destruct cert_ok; cbn; try reflexivity; destruct mkey_ok; reflexivity.
Qed.
Theorem C10_metadata_structure :
  signing_branch_checked providerGetMetadata_seq = true /\
  error_answered providerGetMetadata_seq "p.conf.getMetadata" = true /\
  error_answered metadataHandle_seq "p.GetMetadata" = true /\
  error_answered certificateHandle_seq "getResponseCert" = true.
Proof. exact metadata_structure. Qed.
Theorem C10_probes : certificate_handler false = MError /\ ready_handler false = MError.
Proof. split; reflexivity. Qed.

(** the key-fault kinds: which answers of the two signing-key getters are accepted, from the guard statements of the
    source.  getResponseCert: a present record, a present non-zero key, a present non-empty certificate, no error;
    getMetadataCert: presence only (an empty certificate is refused later, by the signer: the metadata endpoint still
    answers with an error, see the model of C10_metadata); and no guard dereferences the record before the nil guard *)
Theorem C10_response_key : forall k, response_cert_ok k = true <->
  k_err k = false /\ k_rec_nil k = false /\ k_key_nil k = false /\ k_cert_nil k = false /\ k_cert_empty k = false /\ k_key_zero k = false.
Proof. exact response_cert_ok_iff. Qed.
Theorem C10_metadata_key : forall k, metadata_cert_ok k = true <->
  k_err k = false /\ k_rec_nil k = false /\ k_key_nil k = false /\ k_cert_nil k = false.
Proof. exact metadata_cert_ok_iff. Qed.
Theorem C10_key_guards_order :
  match response_guards, metadata_guards with Some g1, Some g2 => derefs_before_nil_guard g1 = false /\ derefs_before_nil_guard g2 = false | _, _ => False end.
Proof. exact guards_no_nil_dereference. Qed.
(** composed with the endpoint models: whatever the getters answer, a refused response key means an error reply from the
    metadata and certificate endpoints *)
Theorem C10_key_fault_fails_closed : forall k sign_conf mk signer_ok, response_cert_ok k = false ->
  metadata_handler (response_cert_ok k) sign_conf mk signer_ok = MError /\ certificate_handler (response_cert_ok k) = MError.
Proof. intros k sign_conf mk signer_ok H. rewrite H. split; reflexivity. Qed.

Print Assumptions C10_callback.
Print Assumptions C10_sso.
Print Assumptions C10_attrquery.
Print Assumptions C10_logout.
Print Assumptions C10_metadata.
Print Assumptions C10_metadata_structure.
Print Assumptions C10_probes.
Print Assumptions C10_response_key.
Print Assumptions C10_metadata_key.
Print Assumptions C10_key_guards_order.
Print Assumptions C10_key_fault_fails_closed.
