(** C07 -- Conformant requests from registered service providers are accepted: the converse of C05/C06/C12/C13, for every
    request and storage answer, over the chains go2v extracts.  "Conformant" is spelled out as the hypotheses of each
    theorem (decoded-level conditions; signature oracles answering positively on what a conformant SP sends).  Where the
    glue between the wire and those oracles loses conformant requests, the loss is modelled concretely and stated as a
    refutation with a witness (known findings F-07a, F-07e). *)
From Saml Require Import Base.Bytes Idp.FactTypes Gen.Facts Gen.Pure Idp.Sso Idp.Callback Idp.AttrQuery Idp.Logout Core.Attrs
  Proofs.SsoLiveness Proofs.LogoutProofs Codec.QueryEscape Codec.Base64.
From Saml Require Import Xml.SchemaTypes Xml.Schema Gen.Schema Idp.BuilderTypes Idp.Builder Xml.Unmarshal Idp.AuthnOf.

(** AuthnRequest: every condition met => persisted exactly once and sent to login *)
Theorem C07_authn_accepts : forall e_form decode lookup verify_redirect verify_post instant_of now create want_signed sso_locs entity_id f a i s id,
  e_form = Some f -> is_empty (f_req f) = false -> (is_empty (f_sigalg f) = true \/ is_empty (f_sig f) = false) ->
  decode (f_enc f) (f_req f) = Some a -> a_issuer a = Some i -> lookup i = Some s ->
  (cert_check_necessary a s = true -> check_certificate a s = true) ->
  (redirect_necessary want_signed f s = true -> verify_redirect_sem verify_redirect f s = true) ->
  (post_necessary want_signed f a s = true -> verify_post s (f_req f) = true) ->
  is_empty (fst (GetAcsUrlAndBindingForResponse (sp_acs s) (a_binding a))) = false ->
  binding_supported (snd (GetAcsUrlAndBindingForResponse (sp_acs s) (a_binding a))) = true ->
  required_content instant_of now sso_locs a s = true ->
  create {| c_acs := fst (GetAcsUrlAndBindingForResponse (sp_acs s) (a_binding a)); c_binding := snd (GetAcsUrlAndBindingForResponse (sp_acs s) (a_binding a));
            c_relay := f_relay f; c_app := sp_id s; c_reqid := a_id a |} = Some id ->
  exists st, sso_handler e_form decode lookup verify_redirect verify_post instant_of now create want_signed sso_locs entity_id true sso_steps = Done st [RLogin id] /\
             created st = [{| c_acs := fst (GetAcsUrlAndBindingForResponse (sp_acs s) (a_binding a)); c_binding := snd (GetAcsUrlAndBindingForResponse (sp_acs s) (a_binding a));
                              c_relay := f_relay f; c_app := sp_id s; c_reqid := a_id a |}].
Proof. exact sso_accepts. Qed.

(** LogoutRequest: decodable, inside its validity window, issuer registered => status Success, delivered to the SP's
    first SingleLogoutService (or in the body when it has none) *)
Theorem C07_logout_accepts : forall e_form decode lookup instant_of now entity_id f q i sp,
  e_form = Some f -> decode (lf_enc f) (lf_req f) = Some q ->
  time_valid now (instant_of (lq_issue_instant q)) (instant_of (lq_not_on_or_after q)) = true ->
  lq_issuer q = Some i -> lookup i = Some sp ->
  exists st m, logout_handler e_form decode lookup instant_of now entity_id logout_steps = LDone st [m] /\
    match m with LBody x | LPost _ _ x => lm_status x = c_StatusCodeSuccess /\ lm_in_response_to x = lq_id q | LHttp _ => False end.
Proof.
  intros e_form decode lookup instant_of now entity_id f q i sp Hf Hd Ht Hi Hl.
  pose proof (logout_table e_form decode lookup instant_of now entity_id) as T. unfold logout_expected in T.
  subst e_form. rewrite Hd, Ht, Hi, Hl in T. cbn [negb] in T. destruct T as [st T]. rewrite T.
  exists st. eexists. split; [reflexivity|].
  destruct (sp_slo sp) as [|u r]; cbn; [split; reflexivity|]. destruct (is_empty u); cbn; split; reflexivity.
Qed.

(** AttributeQuery: issuer registered, subject known, destination (if any) the advertised attribute service, certificate and
    signature (if any) verified => the filtered attributes are returned *)
Theorem C07_attrquery_accepts : forall decode lookup verify_sig attr_locs userinfo entity_id q i n sp u,
  decode = Some q -> aq_issuer q = Some i -> aq_nameid q = Some n -> lookup i = Some sp ->
  (cert_necessary (aq_signature q) sp = true -> cert_matches (aq_signature q) sp = true) ->
  (sig_provided (aq_signature q) = true -> verify_sig sp = true) ->
  is_empty (aq_destination q) || bmem (aq_destination q) attr_locs = true -> userinfo n = Some u ->
  attrquery_handler decode lookup verify_sig attr_locs userinfo true true true entity_id attrquery_steps =
    ADone [ASoap {| am_in_response_to := aq_id q; am_issuer := entity_id; am_audience := sp_entity sp; am_nameid := nameid_of u;
                    am_attrs := filter_attrs (aq_attrs q) (attrs_of u) |}].
Proof.
  intros decode lookup verify_sig attr_locs userinfo entity_id q i n sp u Hd Hi Hn Hl Hc Hs Hdest Hu.
  unfold attrquery_handler. cbn [negb]. unfold attrquery_steps. cbn [arun].
  repeat match goal with |- context [atag_of ?f] => let t := eval vm_compute in (atag_of f) in change (atag_of f) with t end.
  cbn [astep sf a0 q_query q_sp q_resp]. rewrite Hd, Hi, Hn. cbn [astep arun q_query q_sp q_resp]. rewrite Hi, Hl.
  cbn [astep arun q_query q_sp q_resp].
  destruct (cert_necessary (aq_signature q) sp) eqn:Ec; [rewrite (Hc eq_refl)|]; cbn [astep arun q_query q_sp q_resp].
  all: destruct (sig_provided (aq_signature q)) eqn:Es; [rewrite (Hs eq_refl)|]; cbn [astep arun q_query q_sp q_resp].
  all: rewrite Hdest; cbn [astep arun q_query q_sp q_resp]; rewrite Hn, Hu; cbn [astep arun q_query q_sp q_resp andb]; reflexivity.
Qed.

(** ** the glue: HTTP-Redirect signature octets.  The SP signs the query string as it sent it (raw, percent-encoded
    values); ValidateRedirectSignature rebuilds the octets from the DECODED values with url.QueryEscape. *)
Definition octets (req relay alg : bytes) : bytes :=
  b "SAMLRequest=" ++ req ++ (if is_empty relay then [] else b "&RelayState=" ++ relay) ++ b "&SigAlg=" ++ alg.
Definition rebuilt (raw_req raw_relay raw_alg : bytes) : option bytes :=
  match go_query_unescape raw_req, go_query_unescape raw_relay, go_query_unescape raw_alg with
  | Some r, Some l, Some a => Some (octets (go_query_escape r) (go_query_escape l) (go_query_escape a))
  | _, _, _ => None end.
(** an SP that percent-encodes exactly like Go's url.QueryEscape is verified over the octets it signed ... *)
Theorem C07_redirect_octets_canonical : forall r l a,
  rebuilt (go_query_escape r) (go_query_escape l) (go_query_escape a) = Some (octets (go_query_escape r) (go_query_escape l) (go_query_escape a)).
Proof. intros. unfold rebuilt. now rewrite !query_unescape_escape. Qed.
(** ... any other legal encoding style is not: lower-case hex digits, %20 for a space (F-07a) *)
Theorem C07_redirect_octets_refuted :
  (exists raw, go_query_unescape raw = Some (b "a+b") /\ rebuilt raw [] (b "x") <> Some (octets raw [] (b "x"))) /\
  (exists raw, go_query_unescape raw = Some (b "a b") /\ rebuilt raw [] (b "x") <> Some (octets raw [] (b "x"))).
Proof.
  split; [exists (b "a%2bb")|exists (b "a%20b")]; (split; [vm_compute; reflexivity|vm_compute; intro H; discriminate H]).
Qed.
(** ** the glue: a signed AttributeQuery.  The verification step base64-decodes the SOAP text itself, and no text containing
    '<' is base64 (F-07e) *)
Theorem C07_attrquery_signed_refuted : forall body, In "<"%char body -> b64_decode body = None.
Proof. intros body H. apply (b64_decode_rejects body "<"%char H); [reflexivity|discriminate|discriminate]. Qed.

(** the acceptance theorems above are stated on the decoded request; decoding itself (Unmarshal over the generated schema +
    projection, checked against the handler's decoder on every request of the conformance generator) is live on the canonical
    serialisation, whatever prefixes the document uses and whatever the values are *)
Theorem C07_canonical_document_decodes : forall id ver instant dest binding issuer,
  let p := b "urn:oasis:names:tc:SAML:2.0:protocol" in let a := b "urn:oasis:names:tc:SAML:2.0:assertion" in
  authn_of_doc false (RElem p (b "AuthnRequest")
     [(b "xmlns", b "samlp", p); (b "xmlns", b "saml", a); ([], b "ID", id); ([], b "Version", ver); ([], b "IssueInstant", instant);
      ([], b "Destination", dest); ([], b "ProtocolBinding", binding)]
     [RElem a (b "Issuer") [] [RText issuer]])
  = Some {| a_id := id; a_version := ver; a_destination := dest; a_binding := binding; a_issuer := Some issuer; a_conditions := None; a_signature := None |}.
Proof. exact canonical_document_decodes. Qed.

Print Assumptions C07_authn_accepts.
Print Assumptions C07_logout_accepts.
Print Assumptions C07_attrquery_accepts.
Print Assumptions C07_redirect_octets_canonical.
Print Assumptions C07_redirect_octets_refuted.
Print Assumptions C07_attrquery_signed_refuted.
Print Assumptions C07_canonical_document_decodes.
