(** C04 -- Every signature the IdP emits verifies under a conformant verifier.
    Modelled: the digest input of the signer (amdonov/xmlsig canonical.go) and of a conformant verifier (Exclusive C14N)
    on the documents Go's marshaller prints (Xml/C14N.v); the Redirect-binding octets (generated BuildRedirectQuery vs the
    SAML Bindings reconstruction from the sent URL); which deliveries of a Success response carry which signature
    (callback model).  NOT modelled: SHA / RSA (a digest or signature over equal octets verifies; over different octets it
    does not, collisions aside), goxmldsig's reference processing, metadata signing flow (harness only). *)
From Saml Require Import Base.Bytes Idp.FactTypes Gen.Facts Gen.Pure Xml.Tree Xml.C14N Core.RedirectSig Idp.Callback Idp.Deliver Proofs.CallbackProofs.

(** enveloped signatures: signer and verifier digest the same octets whenever no value contains a character that
    Canonical XML escapes ... *)
Theorem C04_enveloped : forall t, no_special t = true -> signer_digest_input t = verifier_digest_input t.
Proof. exact digest_inputs_agree. Qed.
(** ... and different octets as soon as one does: & < > CR in text, & < double-quote TAB LF CR in an attribute value (F-04b) *)
Theorem C04_enveloped_refuted : forall t, data_plain t = false -> signer_digest_input t <> verifier_digest_input t.
Proof. exact digest_inputs_differ. Qed.
Example C04_enveloped_witness :
  let t := El (b "Assertion") (Some (b "urn:oasis:names:tc:SAML:2.0:assertion")) [(b "ID", b "_1")] (Kids [El (b "Audience") None [] (Text (b "https://sp.example/md?a=1&b=2"))]) in
  data_plain t = false /\ signer_digest_input t <> verifier_digest_input t.
Proof. split; [reflexivity|apply digest_inputs_differ; reflexivity]. Qed.

(** Redirect binding: the octets a conformant verifier reconstructs from the URL sent are the octets that were signed,
    whatever the response, RelayState, algorithm and signature value *)
Theorem C04_redirect : forall resp relay alg sig, alg <> [] ->
  verifier_octets (BuildRedirectQuery resp relay alg sig) = Some (BuildRedirectQuery resp relay alg []).
Proof. exact redirect_octets. Qed.

(** ... on the URL actually sent, consumer URL included: sendBackResponse appends the query to the consumer URL with "?" or,
    when that URL already has a query, "&"; a verifier reads the whole query.  When the consumer URL's own query names none
    of SAMLResponse, RelayState, SigAlg the reconstructed octets are the signed ones *)
Theorem C04_redirect_url : forall acs resp relay alg sig, alg <> [] -> acs_query_neutral acs ->
  verifier_octets (after_qmark (sent_url acs (BuildRedirectQuery resp relay alg sig))) = Some (BuildRedirectQuery resp relay alg []).
Proof. exact redirect_octets_url. Qed.
(** ... and when it does name one, they need not be (known finding F-04d, reproduced on the implementation) *)
Theorem C04_redirect_url_refuted : exists acs resp alg sig,
  verifier_octets (after_qmark (sent_url acs (BuildRedirectQuery resp [] alg sig))) <> Some (BuildRedirectQuery resp [] alg []).
Proof. exact redirect_octets_url_refuted. Qed.

(** which Success replies carry a signature: POST form -> enveloped; redirect -> detached in the query; and the body
    delivery (empty consumer URL) carries whatever the stored binding selected *)
Notation run_cb form_ok form_id lookup_req app_entity userinfo cert_ok sign_ok :=
  (callback form_ok form_id lookup_req app_entity userinfo cert_ok sign_ok callback_seq loginResponse_seq).
Theorem C04_success_signature : forall form_ok form_id lookup_req app_entity userinfo cert_ok sign_ok d m u sg,
  In (CSaml d m) (cs_out (run_cb form_ok form_id lookup_req app_entity userinfo cert_ok sign_ok)) -> m_resp m = CSuccess u sg ->
  exists rec, lookup_req form_id = Some rec /\ sg = sig_for (sr_binding rec) /\
    match d with
    | CPost _ _ => sg = SigEnveloped
    | CRedirect _ _ detached => sg = SigDetached /\ detached = true
    | CBody => sr_acs rec = []
    end.
Proof.
  intros form_ok form_id lookup_req app_entity userinfo cert_ok sign_ok d m u sg Hin Hm.
  pose proof (callback_table form_ok form_id lookup_req app_entity userinfo cert_ok sign_ok) as T.
  unfold expected in T. destruct T as [_ T].
  destruct form_ok; cbn [negb] in T; [|destruct T as [T _]; rewrite T in Hin; destruct Hin as [[=]|[]]].
  destruct (is_empty form_id) eqn:Eid; [destruct T as [T _]; rewrite T in Hin; destruct Hin as [[=]|[]]|].
  destruct (lookup_req form_id) as [rec|] eqn:El.
  2:{ destruct T as [_ T]. rewrite T in Hin. destruct Hin as [E|[]]. inversion E; subst. cbn in Hm. discriminate Hm. }
  destruct (app_entity (sr_app rec)) as [ent|]; [|destruct T as [T _]; rewrite T in Hin; destruct Hin as [[=]|[]]].
  exists rec. split; [reflexivity|].
  assert (D : forall resp, In (CSaml d m) [deliver (sr_acs rec) (sr_binding rec) (sr_relay rec)
             {| m_in_response_to := sr_reqid rec; m_destination := sr_acs rec; m_audience := ent; m_resp := resp |}] -> m_resp m = resp /\
             match d with CPost _ _ => beq (sr_binding rec) c_PostBinding = true | CRedirect _ _ det => beq (sr_binding rec) c_PostBinding = false /\ beq (sr_binding rec) c_RedirectBinding = true /\ det = (match resp with CSuccess _ SigDetached => true | _ => false end) | CBody => sr_acs rec = [] end).
  { intros resp [E|[]]. unfold deliver in E. destruct (is_empty (sr_acs rec)) eqn:Ea.
    - inversion E; subst. split; [reflexivity|]. destruct (sr_acs rec); [reflexivity|discriminate Ea].
    - destruct (beq (sr_binding rec) c_PostBinding) eqn:Ep; [inversion E; subst; split; reflexivity|].
      destruct (beq (sr_binding rec) c_RedirectBinding) eqn:Er; [inversion E; subst; repeat split; auto|discriminate E]. }
  destruct (negb (sr_done rec)); [destruct T as [T _]; rewrite T in Hin; destruct (D _ Hin) as [E _]; rewrite E in Hm; discriminate Hm|].
  destruct (userinfo (sr_app rec) (sr_user rec)) as [u0|]; [|destruct T as [T _]; rewrite T in Hin; destruct (D _ Hin) as [E _]; rewrite E in Hm; discriminate Hm].
  destruct (negb cert_ok); [destruct T as [T _]; rewrite T in Hin; destruct (D _ Hin) as [E _]; rewrite E in Hm; discriminate Hm|].
  destruct (negb sign_ok); [destruct T as [T _]; rewrite T in Hin; destruct (D _ Hin) as [E _]; rewrite E in Hm; discriminate Hm|].
  destruct T as [T _]. rewrite T in Hin. destruct (D _ Hin) as [E K]. rewrite E in Hm. inversion Hm; subst u0 sg. split; [reflexivity|].
  unfold sig_for. destruct d as [|a r|a r det]; [exact K| |].
  - now rewrite K.
  - destruct K as (K1 & K2 & K3). rewrite K1, K2. split; [reflexivity|]. rewrite K3. unfold sig_for. now rewrite K1, K2.
Qed.
(** the full statement also asks that no Success assertion leaves unsigned: refuted for a stored Redirect binding with an
    empty consumer URL -- the response is written to the body, its signature was only ever placed in query fields (F-04c) *)
Theorem C04_never_unsigned_refuted : exists lookup_req app_entity userinfo m u,
  cs_out (run_cb true (b "id") lookup_req app_entity userinfo true true) = [CSaml CBody m] /\ m_resp m = CSuccess u SigDetached.
Proof.
  exists (fun _ => Some {| sr_app := b "app"; sr_relay := []; sr_acs := []; sr_binding := c_RedirectBinding; sr_reqid := b "_r"; sr_user := b "u"; sr_done := true |}),
         (fun _ => Some (b "sp")), (fun _ _ => Some {| u_email := []; u_fullname := []; u_given := []; u_surname := []; u_username := b "n"; u_userid := b "u"; u_custom := [] |}).
  eexists. eexists. split; [vm_compute; reflexivity|reflexivity].
Qed.

(** which kind of signature a Success response gets is read off createSignature's statement sequence: enveloped for
    the POST binding, detached (query parameters) for Redirect, none for any other stored binding *)
Theorem C04_signature_kind_from_source : forall binding, sig_shape createSignature_seq (label_is binding) = Some (sig_for binding).
Proof. exact sig_for_from_source. Qed.

Print Assumptions C04_enveloped.
Print Assumptions C04_enveloped_refuted.
Print Assumptions C04_redirect.
Print Assumptions C04_success_signature.
Print Assumptions C04_never_unsigned_refuted.
Print Assumptions C04_signature_kind_from_source.
Print Assumptions C04_redirect_url.
Print Assumptions C04_redirect_url_refuted.
