(** C02 (SSO part) -- SAML responses are only ever delivered to registered endpoints.
    Every reply of the SSO endpoint that is delivered to a URL (auto-submit form or redirect), and the pair persisted
    for an accepted request, is the (Location, Binding) of ONE AssertionConsumerService entry registered for the
    service provider that storage returned for the request's Issuer.  Callback and logout: Properties/C02b.v. *)
From Saml Require Import Base.Bytes Idp.FactTypes Gen.Facts Gen.Pure Core.Acs Idp.Sso Proofs.SsoProofs Proofs.SsoAccept.

Section C02.
Variable e_form : option form.
Variable decode : bytes -> bytes -> option authn.
Variable lookup : bytes -> option sp_rec.
Variable verify_redirect : sp_rec -> bytes -> bytes -> bytes -> bytes -> bool.
Variable verify_post : sp_rec -> bytes -> bool.
Variable instant_of : bytes -> instant.
Variable now : Z.
Variable create : create_args -> option bytes.
Variable want_signed : bytes.
Variable sso_locs : list bytes.
Variable entity_id : bytes.
Variable cert_ok : bool.
Notation handler := (sso_handler e_form decode lookup verify_redirect verify_post instant_of now create want_signed sso_locs entity_id cert_ok).

Notation target := (can_target e_form decode lookup).

(** where a reply goes: the selected entry, never a value taken from the message or its parameters *)
Theorem C02_sso_reply_target : forall c st out, handler c = Done st out ->
  forall r p, In r out -> reply_target r = Some p -> p = target /\ fst p <> [].
Proof. exact (handler_targets e_form decode lookup verify_redirect verify_post instant_of now create want_signed sso_locs entity_id cert_ok). Qed.

(** the selected entry is registered for the provider named by the issuer *)
Theorem C02_target_registered : target = ([], []) \/
  exists a i s x, can_req e_form decode = Some a /\ a_issuer a = Some i /\ lookup i = Some s /\ In x (sp_acs s) /\ target = pair_of x.
Proof. exact (can_target_registered e_form decode lookup). Qed.

(** what is persisted is that pair (or the empty pair if the chain never selected one) *)
Theorem C02_persisted_pair : forall c b st out, run_chain e_form decode lookup verify_redirect verify_post instant_of now create want_signed sso_locs entity_id c st0 = (b, Done st out) -> forall x, In x (created st) ->
  (c_acs x, c_binding x) = ([], []) \/ (c_acs x, c_binding x) = target.
Proof.
  intros c b st out H x Hx. destruct (persisted_values e_form decode lookup verify_redirect verify_post instant_of now create want_signed sso_locs entity_id c b st out H x Hx) as (f & a & s & _ & _ & _ & E & _). exact E.
Qed.

(** the target does not depend on AssertionConsumerServiceURL / Index / Destination / extra parameters: it is a function
    of the decoded ProtocolBinding and the registered list only *)
Theorem C02_target_function : forall a s, can_req e_form decode = Some a -> can_sp e_form decode lookup = Some s ->
  target = GetAcsUrlAndBindingForResponse (sp_acs s) (a_binding a).
Proof. intros a s Ea Es. unfold can_target. now rewrite Ea, Es. Qed.
End C02.

Print Assumptions C02_sso_reply_target.
Print Assumptions C02_target_registered.
Print Assumptions C02_persisted_pair.
Print Assumptions C02_target_function.
