(** C02 (SSO part) -- SAML responses are only ever delivered to registered endpoints.
    Every reply of the SSO endpoint that is delivered to a URL (auto-submit form or redirect), and the pair persisted
    for an accepted request, is the (Location, Binding) of ONE AssertionConsumerService entry registered for the
    service provider that storage returned for the request's Issuer.  The login callback delivers only to the consumer URL
    stored with the request its id names (i.e. the pair the SSO endpoint persisted), the logout endpoint only to the first
    SingleLogoutService location registered for the issuer. *)
From Saml Require Import Base.Bytes Idp.FactTypes Gen.Facts Gen.Pure Core.Acs Idp.Sso Proofs.SsoProofs Proofs.SsoAccept
  Idp.Callback Proofs.CallbackProofs Idp.Logout Proofs.LogoutProofs Proofs.EndToEnd.
From Saml Require Proofs.EndToEndDoc.

Section C02.
Variable e_form : option form.
Variable decode : bytes -> bytes -> option authn.
Variable lookup : bytes -> option sp_rec.
Variable verify_redirect : sp_rec -> bytes -> bytes -> bytes -> bytes -> bool.
Variable verify_post : sp_rec -> bytes -> bool.
Variable instant_of : bytes -> instant.
Variable now : Z.
Variable create : create_args -> option bytes.
Variable want_signed : bytes.
Variable sso_locs : list bytes.
Variable entity_id : bytes.
Variable cert_ok : bool.
Notation handler := (sso_handler e_form decode lookup verify_redirect verify_post instant_of now create want_signed sso_locs entity_id cert_ok).

Notation target := (can_target e_form decode lookup).

(** where a reply goes: the selected entry, never a value taken from the message or its parameters *)
Theorem C02_sso_reply_target : forall c st out, handler c = Done st out ->
  forall r p, In r out -> reply_target r = Some p -> p = target /\ fst p <> [].
Proof. exact (handler_targets e_form decode lookup verify_redirect verify_post instant_of now create want_signed sso_locs entity_id cert_ok). Qed.

(** the selected entry is registered for the provider named by the issuer *)
Theorem C02_target_registered : target = ([], []) \/
  exists a i s x, can_req e_form decode = Some a /\ a_issuer a = Some i /\ lookup i = Some s /\ In x (sp_acs s) /\ target = pair_of x.
Proof. exact (can_target_registered e_form decode lookup). Qed.

(** what is persisted is that pair (or the empty pair if the chain never selected one) *)
Theorem C02_persisted_pair : forall c b st out, run_chain e_form decode lookup verify_redirect verify_post instant_of now create want_signed sso_locs entity_id c st0 = (b, Done st out) -> forall x, In x (created st) ->
  (c_acs x, c_binding x) = ([], []) \/ (c_acs x, c_binding x) = target.
Proof.
  intros c b st out H x Hx. destruct (persisted_values e_form decode lookup verify_redirect verify_post instant_of now create want_signed sso_locs entity_id c b st out H x Hx) as (f & a & s & _ & _ & _ & E & _). exact E.
Qed.

(** the target does not depend on AssertionConsumerServiceURL / Index / Destination / extra parameters: it is a function
    of the decoded ProtocolBinding and the registered list only *)
Theorem C02_target_function : forall a s, can_req e_form decode = Some a -> can_sp e_form decode lookup = Some s ->
  target = GetAcsUrlAndBindingForResponse (sp_acs s) (a_binding a).
Proof. intros a s Ea Es. unfold can_target. now rewrite Ea, Es. Qed.
(** an accepted request of the current tree hands exactly one record to the storage, and it can be answered: a non-empty
    registered consumer URL with a supported binding, the request's own RelayState and ID, the provider's application *)
Theorem C02_accepted_record : forall st id, handler sso_steps = Done st [RLogin id] ->
  exists k, created st = [k] /\ create k = Some id /\
            c_acs k <> [] /\ binding_supported (c_binding k) = true /\ (c_acs k, c_binding k) = target /\
            exists f a s, e_form = Some f /\ can_req e_form decode = Some a /\ can_sp e_form decode lookup = Some s /\
                          c_relay k = f_relay f /\ c_app k = sp_id s /\ c_reqid k = a_id a.
Proof.
  intros st id H.
  apply (accepted_record e_form decode lookup verify_redirect verify_post instant_of now create want_signed sso_locs entity_id cert_ok sso_steps st id);
    [exact current_chain_wf8|vm_compute; reflexivity|exact H].
Qed.
End C02.


(** login callback: a reply delivered to a URL goes to the consumer URL, with the RelayState, stored under the request id *)
Theorem C02_callback_target : forall form_ok form_id lookup_req app_entity userinfo cert_ok sign_ok d m,
  In (CSaml d m) (cs_out (callback form_ok form_id lookup_req app_entity userinfo cert_ok sign_ok callback_seq loginResponse_seq)) ->
  match d with
  | CPost acs relay | CRedirect acs relay _ => exists rec, lookup_req form_id = Some rec /\ acs = sr_acs rec /\ relay = sr_relay rec /\ acs <> []
  | CBody => True
  end.
Proof.
  intros form_ok form_id lookup_req app_entity userinfo cert_ok sign_ok d m Hin.
  pose proof (callback_table form_ok form_id lookup_req app_entity userinfo cert_ok sign_ok) as T.
  unfold expected in T. destruct T as [_ T].
  destruct form_ok; cbn [negb] in T; [|destruct T as [T _]; rewrite T in Hin; destruct Hin as [[=]|[]]].
  destruct (is_empty form_id) eqn:Eid; [destruct T as [T _]; rewrite T in Hin; destruct Hin as [[=]|[]]|].
  destruct (lookup_req form_id) as [rec|] eqn:El.
  2:{ destruct T as [_ T]. rewrite T in Hin. destruct Hin as [E|[]]. inversion E; subst. exact I. }
  destruct (app_entity (sr_app rec)) as [ent|]; [|destruct T as [T _]; rewrite T in Hin; destruct Hin as [[=]|[]]].
  assert (D : forall resp, In (CSaml d m) [deliver (sr_acs rec) (sr_binding rec) (sr_relay rec)
             {| m_in_response_to := sr_reqid rec; m_destination := sr_acs rec; m_audience := ent; m_resp := resp |}] ->
             match d with CPost acs relay | CRedirect acs relay _ => acs = sr_acs rec /\ relay = sr_relay rec /\ acs <> [] | CBody => True end).
  { intros resp [E|[]]. unfold deliver in E. destruct (is_empty (sr_acs rec)) eqn:Ea; [inversion E; subst; exact I|].
    assert (N : sr_acs rec <> []) by (destruct (sr_acs rec); [discriminate Ea|discriminate]).
    destruct (beq (sr_binding rec) c_PostBinding); [inversion E; subst; split; [reflexivity|split; [reflexivity|exact N]]|].
    destruct (beq (sr_binding rec) c_RedirectBinding); [inversion E; subst; split; [reflexivity|split; [reflexivity|exact N]]|discriminate E]. }
  assert (K : match d with CPost acs relay | CRedirect acs relay _ => acs = sr_acs rec /\ relay = sr_relay rec /\ acs <> [] | CBody => True end).
  { destruct (negb (sr_done rec)); [destruct T as [T _]; rewrite T in Hin; exact (D _ Hin)|].
    destruct (userinfo (sr_app rec) (sr_user rec)); [|destruct T as [T _]; rewrite T in Hin; exact (D _ Hin)].
    destruct (negb cert_ok); [destruct T as [T _]; rewrite T in Hin; exact (D _ Hin)|].
    destruct (negb sign_ok); destruct T as [T _]; rewrite T in Hin; exact (D _ Hin). }
  clear Hin T. destruct d as [|acs relay|acs relay det]; [exact I| |]; destruct K as (K1 & K2 & K3); exists rec; (split; [reflexivity|split; [exact K1|split; [exact K2|exact K3]]]).
Qed.

(** logout: a LogoutResponse delivered to a URL goes to the first SingleLogoutService location of the provider registered
    under the request's Issuer; no request parameter can name another target *)
Theorem C02_logout_target : forall e_form decode lookup instant_of now entity_id st out url relay m,
  logout_handler e_form decode lookup instant_of now entity_id logout_steps = LDone st out -> In (LPost url relay m) out ->
  exists f q i sp, e_form = Some f /\ decode (lf_enc f) (lf_req f) = Some q /\ lq_issuer q = Some i /\ lookup i = Some sp /\
                   hd_error (sp_slo sp) = Some url /\ relay = lf_relay f.
Proof.
  intros e_form decode lookup instant_of now entity_id st out url relay m H Hin.
  pose proof (logout_table e_form decode lookup instant_of now entity_id) as T. unfold logout_expected in T. rewrite H in T. clear H.
  destruct e_form as [f|]; [|inversion T; subst; destruct Hin as [E|[]]; discriminate E].
  destruct (decode (lf_enc f) (lf_req f)) as [q|] eqn:Ed; [|destruct T as [s0 T]; inversion T; subst; destruct Hin as [E|[]]; discriminate E].
  destruct (negb _); [destruct T as [s0 T]; inversion T; subst; destruct Hin as [E|[]]; discriminate E|].
  destruct (lq_issuer q) as [i|] eqn:Ei; [|destruct T as [s0 T]; inversion T; subst; destruct Hin as [E|[]]; discriminate E].
  destruct (lookup i) as [sp|] eqn:El; [|destruct T as [s0 T]; inversion T; subst; destruct Hin as [E|[]]; discriminate E].
  destruct T as [s0 T]. inversion T; subst. destruct Hin as [E|[]].
  destruct (sp_slo sp) as [|u r] eqn:Es; [discriminate E|]. destruct (is_empty u); [discriminate E|]. inversion E; subst.
  exists f, q, i, sp. rewrite Es. split; [reflexivity|split; [exact Ed|split; [exact Ei|split; [exact El|split; reflexivity]]]].
Qed.

(** end to end: when the record the callback finds stores what the SSO handler handed over ([stores]), the callback's
    reply -- Success or not -- goes to that registered consumer URL by that binding (auto-submit form for POST, redirect for
    Redirect), with that request's RelayState, InResponseTo that request's ID *)
Theorem C02_end_to_end : forall k rec form_id lookup_req app_entity userinfo cert_ok sign_ok,
  stores k rec -> c_acs k <> [] -> binding_supported (c_binding k) = true ->
  form_id <> [] -> lookup_req form_id = Some rec -> app_entity (sr_app rec) <> None ->
  exists d m, cs_out (callback true form_id lookup_req app_entity userinfo cert_ok sign_ok callback_seq loginResponse_seq) = [CSaml d m] /\
    m_in_response_to m = c_reqid k /\ m_destination m = c_acs k /\
    ((c_binding k = c_PostBinding /\ d = CPost (c_acs k) (c_relay k)) \/
     (c_binding k = c_RedirectBinding /\ exists det, d = CRedirect (c_acs k) (c_relay k) det)).
Proof. exact callback_answers_stored. Qed.

(** ... down to the DOCUMENT: whatever the callback answers for a record the SSO handler handed over, the document the programs
    translated from response.go build for that answer -- Success with the user's attributes, or a failure status -- carries that
    request's ID (on the Response and, for Success, in the subject confirmation) and has that registered consumer URL as
    Destination (and Recipient); composition of the handler models with the builder programs, for all inputs *)
Theorem C02_end_to_end_document : forall k rec form_id lookup_req app_entity userinfo cert_ok sign_ok issuer id1 id2 rest issue until,
  stores k rec -> c_acs k <> [] -> binding_supported (c_binding k) = true ->
  form_id <> [] -> lookup_req form_id = Some rec -> app_entity (sr_app rec) <> None ->
  exists d m, cs_out (callback true form_id lookup_req app_entity userinfo cert_ok sign_ok callback_seq loginResponse_seq) = [CSaml d m] /\
    EndToEndDoc.reply_document_ok k issuer m id1 id2 rest issue until.
Proof. exact EndToEndDoc.end_to_end_document. Qed.

Print Assumptions C02_sso_reply_target.
Print Assumptions C02_target_registered.
Print Assumptions C02_persisted_pair.
Print Assumptions C02_target_function.
Print Assumptions C02_callback_target.
Print Assumptions C02_logout_target.
Print Assumptions C02_accepted_record.
Print Assumptions C02_end_to_end.
Print Assumptions C02_end_to_end_document.
