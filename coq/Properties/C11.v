(** C11 -- Published metadata matches what the IdP actually does.
    Routes, advertised locations, entity ID, flag and certificate sources are interpreted from the expressions go2v extracts
    from provider.go / identityprovider.go / metadata.go / sso.go / login.go / logout.go / attribute_query.go on every run
    (Idp/Router.v: routes_from_source, advertised_from_source, sources_ok), over the Endpoint functions go2v generates from
    endpoint.go.  NOT modelled: gorilla/mux beyond exact first-match on the path (path cleaning, templates with braces),
    the XML of the document (C18), the cryptographic use of the certificate (C04). *)
From Saml Require Import Xml.SchemaTypes Xml.Schema Gen.Schema Xml.SamlSpec.
From Saml Require Import Base.Bytes Idp.FactTypes Gen.Facts Gen.Pure Idp.Sso Idp.Router Proofs.SsoProofs Proofs.SsoAccept Proofs.SsoLiveness Idp.BuilderTypes Idp.Builder Idp.BuiltDoc Core.Destination Idp.CheckedLocs Core.UrlPath Idp.AdvertisedPath.
From Saml Require Gen.Nec Core.Necessary.
From Coq Require Import List. Import ListNotations.

(** the model's routes / advertised locations / entity ID are what the current source says *)
Theorem C11_from_source : forall cfg issuer,
  routes_opt cfg = Some (routes cfg) /\ advertised_opt cfg issuer = Some (advertised cfg issuer) /\
  entity_id_sources_ok = true /\ flag_source_ok = true /\ cert_source_ok = true /\ defaults_ok = true.
Proof. intros. split; [apply routes_from_source|split; [apply advertised_from_source|exact sources_ok]]. Qed.

(** entity ID of the served document = Issuer of every protocol message for the same request issuer: both are the metadata
    endpoint's Absolute(issuer) (entity_id_sources_ok: the six expressions are that one call) *)
Theorem C11_entity_id : forall cfg issuer, entity_id cfg issuer =
  if negb (beq (Endpoint_url (c_metadata cfg)) []) then Endpoint_url (c_metadata cfg)
  else go_trim_suffix issuer (b "/") ++ Endpoint_Relative (c_metadata cfg).
Proof. intros. apply absolute_formula. Qed.

(** every advertised, path-configured location = issuer without trailing slash + a route served by the corresponding
    handler, when the eight route paths are pairwise distinct *)
Theorem C11_routes : forall cfg issuer, NoDup (map fst (routes cfg)) ->
  forall s u, In (s, u) (advertised cfg issuer) -> Endpoint_url (endpoint_of cfg s) = [] ->
    u = go_trim_suffix issuer (b "/") ++ Endpoint_Relative (endpoint_of cfg s) /\
    lookup (Endpoint_Relative (endpoint_of cfg s)) (routes cfg) = Some (handler_for s).
Proof. exact advertised_routes. Qed.
Theorem C11_external : forall cfg issuer s u, In (s, u) (advertised cfg issuer) -> Endpoint_url (endpoint_of cfg s) <> [] -> u = Endpoint_url (endpoint_of cfg s).
Proof. exact advertised_external. Qed.
(** which handler answers a path, collisions included (first registration wins) *)
Theorem C11_first_match : forall cfg p, lookup p (routes cfg) =
  if beq c_healthEndpoint p then Some HHealth else if beq c_readinessEndpoint p then Some HReady
  else if beq (Endpoint_Relative (c_metadata cfg)) p then Some HMetadata else if beq (Endpoint_Relative (c_cert cfg)) p then Some HCert
  else if beq (Endpoint_Relative (c_callback cfg)) p then Some HCallback else if beq (Endpoint_Relative (c_sso cfg)) p then Some HSSO
  else if beq (Endpoint_Relative (c_slo cfg)) p then Some HSLO else if beq (Endpoint_Relative (c_attr cfg)) p then Some HAttr else None.
Proof. exact lookup_first. Qed.

(** WantAuthnRequestsSigned: the advertised attribute is the configured string (flag_source_ok); when it is an xs:boolean
    true, no request is accepted unless its signature verified -- for every request, SP and storage answer *)
Theorem C11_want_signed : forall e_form decode lookup verify_redirect verify_post instant_of now create want_signed sso_locs entity_id cert_ok st id,
  (want_signed = b "true" \/ want_signed = b "1") ->
  sso_handler e_form decode lookup verify_redirect verify_post instant_of now create want_signed sso_locs entity_id cert_ok sso_steps = Done st [RLogin id] ->
  exists f s, e_form = Some f /\ can_sp e_form decode lookup = Some s /\
    (beq (f_binding f) c_RedirectBinding = true -> f_sig f <> [] /\ verify_redirect s (f_req f) (f_relay f) (f_sigalg f) (f_sig f) = true) /\
    (beq (f_binding f) c_PostBinding = true -> verify_post s (f_req f) = true).
Proof.
  intros e_form decode lookup verify_redirect verify_post instant_of now create want_signed sso_locs entity_id cert_ok st id Hw H.
  assert (Ht : has_tags sso_steps tags5 = true) by (vm_compute; reflexivity).
  destruct (accept_signatures e_form decode lookup verify_redirect verify_post instant_of now create want_signed sso_locs entity_id sso_steps Ht
              (accepted_passes e_form decode lookup verify_redirect verify_post instant_of now create want_signed sso_locs entity_id cert_ok sso_steps st id H))
    as (f & a & s & E1 & E2 & E3 & _ & _ & Hreq).
  exists f, s. split; [exact E1|split; [exact E3|]].
  assert (R : signing_required want_signed s = true).
  { unfold signing_required, xs_true, Core.Acs.xs_true. destruct Hw as [-> | ->]; rewrite ?beq_refl, ?Bool.orb_true_r; reflexivity. }
  destruct (Hreq R) as [Hr Hp]. split; [|exact Hp]. intro Hb. destruct (Hr Hb) as (A & _ & C). split; assumption.
Qed.

(** non-vacuity: the default configuration has pairwise distinct routes and advertises five path-configured locations *)
Example C11_default_distinct : NoDup (map fst (routes (effective {| k_metadata := None; k_cert := None; k_callback := None; k_sso := None; k_slo := None; k_attr := None |}))).
Proof. repeat constructor; cbn; intuition discriminate. Qed.

(** the struct tags of the current source agree with the SAML schemas where the handlers rely on them: entityID, WantAuthnRequestsSigned, the endpoint Binding / Location / index / isDefault attributes, KeyDescriptor use and the service elements of the metadata structs are the attributes / elements of that name in the metadata document *)
Theorem C11_schema : forallb (conforms xml_schema) saml_spec = true.
Proof. exact saml_spec_conforms. Qed.

(** ... and conversely ("exactly when"): when the flag is not an xs:boolean true and the service provider's own metadata does
    not ask for signed requests either, a request that bears no signature at all (no Signature / SigAlg parameter, no
    enveloped signature) and meets every other condition IS accepted -- unsigned requests are refused only if one of the
    two flags says so *)
Theorem C11_unsigned_accepted_otherwise : forall e_form decode lookup verify_redirect verify_post instant_of now create want_signed sso_locs entity_id f a i s id,
  xs_true want_signed = false -> xs_true (sp_authn_signed s) = false ->
  e_form = Some f -> is_empty (f_req f) = false -> f_sig f = [] -> f_sigalg f = [] -> a_signature a = None ->
  decode (f_enc f) (f_req f) = Some a -> a_issuer a = Some i -> lookup i = Some s ->
  is_empty (fst (GetAcsUrlAndBindingForResponse (sp_acs s) (a_binding a))) = false ->
  binding_supported (snd (GetAcsUrlAndBindingForResponse (sp_acs s) (a_binding a))) = true ->
  required_content instant_of now sso_locs a s = true ->
  create {| c_acs := fst (GetAcsUrlAndBindingForResponse (sp_acs s) (a_binding a)); c_binding := snd (GetAcsUrlAndBindingForResponse (sp_acs s) (a_binding a));
            c_relay := f_relay f; c_app := sp_id s; c_reqid := a_id a |} = Some id ->
  exists st, sso_handler e_form decode lookup verify_redirect verify_post instant_of now create want_signed sso_locs entity_id true sso_steps = Done st [RLogin id].
Proof.
  intros e_form decode lookup verify_redirect verify_post instant_of now create want_signed sso_locs entity_id f a i s id
         Hw Hsp Hf Hreq Hsig Halg Hnos Hd Hi Hl Hacs Hbs Hrc Hcr.
  assert (NR : signing_required want_signed s = false) by (unfold signing_required; now rewrite Hw, Hsp).
  destruct (sso_accepts e_form decode lookup verify_redirect verify_post instant_of now create want_signed sso_locs entity_id f a i s id Hf Hreq) as (st & E & _); auto.
  - left. now rewrite Halg.
  - unfold cert_check_necessary. rewrite Hnos. discriminate.
  - unfold redirect_necessary. rewrite NR, Hsig. cbn. discriminate.
  - unfold post_necessary, post_provided. rewrite NR, Hnos. cbn. discriminate.
  - exists st. exact E.
Qed.

(** the metadata document itself, from the source of Config.getMetadata / IdentityProvider.GetMetadata /
    IdentityProviderConfig.getMetadata (builder programs regenerated by go2v), for every configuration and every value of
    the oracles: entityID is the entity ID (the expression the handlers use as Issuer), WantAuthnRequestsSigned is the
    configured string, the signing KeyDescriptor of both role descriptors carries the response certificate, the service
    locations are the endpoints' absolute URLs.  The C18 correspondence (KBuiltX) rebuilds the served document from these
    programs and the generated schema and compares it with the real one. *)
Theorem C11_metadata_document : forall want enc cache errurl eid issuer cert sso slo attr valid id1 id2 id3 (org contact : bool),
  let ic := idp_conf want enc cache errurl in
  let conf := DObj "provider.Config" [("IDPConfig"%string, ic);
                ("Organisation"%string, if org then DObj "provider.Organisation" [("Name"%string, DStr (b "n")); ("DisplayName"%string, DStr (b "d")); ("URL"%string, DStr (b "u"))] else DNil);
                ("ContactPerson"%string, if contact then DObj "provider.ContactPerson" [("ContactType"%string, DStr (b "technical")); ("Company"%string, DStr (b "c")); ("GivenName"%string, DStr (b "g"));
                                                    ("SurName"%string, DStr (b "s")); ("EmailAddress"%string, DStr (b "e")); ("TelephoneNumber"%string, DStr (b "t"))] else DNil)] in
  md_sat (md_oracles eid issuer cert sso slo attr valid) conf (DObj "provider.IdentityProvider" [("conf"%string, ic); ("TimeFormat"%string, DStr (b "f"))]) [id1; id2; id3]
    (fun d =>
       at_ d ["EntityID"%string] = Some (DStr eid) /\ at_ d ["Id"%string] = Some (DStr id1) /\
       at_ d ["IDPSSODescriptor"; "Id"]%string = Some (DStr id2) /\ at_ d ["AttributeAuthorityDescriptor"; "Id"]%string = Some (DStr id3) /\
       at_ d ["IDPSSODescriptor"; "WantAuthnRequestsSigned"]%string = Some (DStr want) /\
       dget d (key_cert "IDPSSODescriptor") = Some (DStr cert) /\ dget d (key_cert "AttributeAuthorityDescriptor") = Some (DStr cert) /\
       dget d [PField "IDPSSODescriptor"; PField "KeyDescriptor"; PIndex 0; PField "Use"] = Some (DStr (b "signing")) /\
       dget d [PField "IDPSSODescriptor"; PField "SingleSignOnService"; PIndex 0; PField "Location"] = Some (DStr sso) /\
       dget d [PField "IDPSSODescriptor"; PField "SingleSignOnService"; PIndex 1; PField "Location"] = Some (DStr sso) /\
       dget d [PField "IDPSSODescriptor"; PField "SingleLogoutService"; PIndex 0; PField "Location"] = Some (DStr slo) /\
       dget d [PField "IDPSSODescriptor"; PField "SingleLogoutService"; PIndex 1; PField "Location"] = Some (DStr slo) /\
       dget d [PField "AttributeAuthorityDescriptor"; PField "AttributeService"; PIndex 0; PField "Location"] = Some (DStr attr) /\
       at_ d ["IDPSSODescriptor"; "ValidUntil"]%string = Some (DStr valid)).
Proof. exact metadata_fields. Qed.

(** ADVERTISED = CHECKED.  (a) The value the Destination checks receive is the role descriptor p.GetMetadata returned: its
    first result in the single sign-on handler, its second in the attribute query handler (from the statements of sso.go /
    attribute_query.go that define and pass it). *)
Theorem C11_checked_value_from_source : sso_checked_result = Some 0 /\ attrquery_checked_result = Some 1.
Proof. exact checked_value_from_source. Qed.
(** (b) The checks themselves, from the source of identityprovider.go (go2v function mode), for every descriptor and
    request: no error exactly when the Destination is empty or the Location of a listed endpoint. *)
Theorem C11_destination_checks_from_source :
  (forall md rq, goerr_is_nil (verifyRequestDestinationOfAuthRequest md rq)
     = (is_empty (AuthnRequestType_Destination rq) || bmem (AuthnRequestType_Destination rq) (map EndpointType_Location (IDPSSODescriptorType_SingleSignOnService md)))) /\
  (forall md rq, goerr_is_nil (verifyRequestDestinationOfAttrQuery md rq)
     = (is_empty (AttributeQueryType_Destination rq) || bmem (AttributeQueryType_Destination rq) (map EndpointType_Location (AttributeAuthorityDescriptorType_AttributeService md)))).
Proof. split; [exact authn_destination_bridge|exact attrquery_destination_bridge]. Qed.
(** (c) What p.GetMetadata lists there, from the builder programs: the SSO endpoint's Absolute(issuer) URL (twice, one per
    binding) and the attribute endpoint's -- the very values Config.getMetadata publishes (C11_metadata_document) -- so a
    request passes exactly when it names no Destination or THE advertised location. *)
Theorem C11_checked_is_advertised : forall want enc cache errurl eid issuer cert sso slo attr valid id2 id3 dest,
  checked_sat (md_oracles eid issuer cert sso slo attr valid)
    (DObj "provider.IdentityProvider" [("conf"%string, idp_conf want enc cache errurl); ("TimeFormat"%string, DStr (b "f"))]) [id2; id3]
    (fun s _ a => exists ls la, s = Some ls /\ a = Some la /\
       (goerr_is_nil (verifyRequestDestinationOfAuthRequest {| IDPSSODescriptorType_SingleSignOnService := map loc_ep ls |} {| AuthnRequestType_Destination := dest |}) = true
          <-> dest = [] \/ dest = sso) /\
       (goerr_is_nil (verifyRequestDestinationOfAttrQuery {| AttributeAuthorityDescriptorType_AttributeService := map loc_ep la |} {| AttributeQueryType_Destination := dest |}) = true
          <-> dest = [] \/ dest = attr)).
Proof. exact checked_is_advertised. Qed.
(** (d) ... and in the handler model: with the list of (c), a request that reaches the login page names no Destination or the
    advertised single sign-on location -- for every request, service provider and storage answer *)
Theorem C11_accepted_destination : forall e_form decode lookup verify_redirect verify_post instant_of now create want_signed sso entity_id cert_ok st id,
  sso_handler e_form decode lookup verify_redirect verify_post instant_of now create want_signed [sso; sso] entity_id cert_ok sso_steps = Done st [RLogin id] ->
  exists f a, e_form = Some f /\ decode (f_enc f) (f_req f) = Some a /\ (a_destination a = [] \/ a_destination a = sso).
Proof.
  intros e_form decode lookup verify_redirect verify_post instant_of now create want_signed sso entity_id cert_ok st id H.
  assert (Ht : has_tags sso_steps tags6 = true) by (vm_compute; reflexivity).
  destruct (accept_implies e_form decode lookup verify_redirect verify_post instant_of now create want_signed [sso; sso] entity_id sso_steps Ht
              (accepted_passes e_form decode lookup verify_redirect verify_post instant_of now create want_signed [sso; sso] entity_id cert_ok sso_steps st id H))
    as (f & a & i & s & E1 & _ & _ & E2 & _ & _ & _ & _ & _ & _ & Hd & _).
  exists f, a. split; [exact E1|split; [exact E2|]]. destruct Hd as [Hd|[Hd|[Hd|[]]]]; auto.
Qed.

(** THE SERVED DOCUMENT = THE ROUTER MODEL: with the builders' oracles given the values the router model interprets from the source
    (the endpoints' Absolute(issuer) URLs, the entity ID), the document's five service locations are, in document order, the
    model's advertised list -- to which C11_routes / C11_external / C11_checked_is_advertised apply -- and its entityID is the
    model's entity ID (C11_entity_id), for every configuration and issuer *)
Theorem C11_document_is_router_model : forall cfg issuer want enc cache errurl cert valid id1 id2 id3 (org contact : bool),
  let ic := idp_conf want enc cache errurl in
  let conf := DObj "provider.Config" [("IDPConfig"%string, ic);
                ("Organisation"%string, if org then DObj "provider.Organisation" [("Name"%string, DStr (b "n")); ("DisplayName"%string, DStr (b "d")); ("URL"%string, DStr (b "u"))] else DNil);
                ("ContactPerson"%string, if contact then DObj "provider.ContactPerson" [("ContactType"%string, DStr (b "technical")); ("Company"%string, DStr (b "c")); ("GivenName"%string, DStr (b "g"));
                                                    ("SurName"%string, DStr (b "s")); ("EmailAddress"%string, DStr (b "e")); ("TelephoneNumber"%string, DStr (b "t"))] else DNil)] in
  md_sat (md_oracles (entity_id cfg issuer) issuer cert (Endpoint_Absolute (c_sso cfg) issuer) (Endpoint_Absolute (c_slo cfg) issuer) (Endpoint_Absolute (c_attr cfg) issuer) valid)
    conf (DObj "provider.IdentityProvider" [("conf"%string, ic); ("TimeFormat"%string, DStr (b "f"))]) [id1; id2; id3]
    (fun d => at_ d ["EntityID"%string] = Some (DStr (entity_id cfg issuer)) /\
              doc_locations d = map (fun p => Some (DStr (snd p))) (advertised cfg issuer)).
Proof. exact document_is_router_model. Qed.

(** ADVERTISED LOCATIONS AS REQUEST PATHS.  For an issuer scheme "://" host prefix (prefix: the issuer's own path, possibly empty; a
    trailing "/" is dropped), the path component of an advertised, path-configured location -- what a request for that URL presents
    to a router -- is the prefix followed by the route of the corresponding handler; for an issuer without a path of its own it IS
    a route this provider serves with that handler.  (With a path in the issuer the deployment has to strip it: the provider's
    router serves the Relative() paths; the harness does the same when it requests advertised locations.) *)
Theorem C11_advertised_request_path : forall cfg issuer scheme host prefix,
  NoDup (map fst (routes cfg)) ->
  go_trim_suffix issuer (b "/") = scheme ++ b "://" ++ host ++ prefix ->
  none_of [":"%char] scheme = true -> none_of ["/"%char; "?"%char; "#"%char] host = true ->
  (prefix = [] \/ exists r, prefix = "/"%char :: r) -> none_of ["?"%char; "#"%char] prefix = true ->
  forall s u, In (s, u) (advertised cfg issuer) -> Endpoint_url (endpoint_of cfg s) = [] ->
    none_of ["?"%char; "#"%char] (Endpoint_Relative (endpoint_of cfg s)) = true ->
    url_path u = prefix ++ Endpoint_Relative (endpoint_of cfg s) /\
    lookup (Endpoint_Relative (endpoint_of cfg s)) (routes cfg) = Some (handler_for s) /\
    (prefix = [] -> lookup (url_path u) (routes cfg) = Some (handler_for s)).
Proof. exact advertised_url_path. Qed.
Example C11_request_path_example :
  let cfg := effective {| k_metadata := None; k_cert := None; k_callback := None; k_sso := None; k_slo := None; k_attr := None |} in
  lookup (url_path (Endpoint_Absolute (c_sso cfg) (b "https://idp.example:8443/"))) (routes cfg) = Some HSSO /\
  url_path (Endpoint_Absolute (c_attr cfg) (b "https://idp.example/saml")) = b "/saml" ++ Endpoint_Relative (c_attr cfg).
Proof. split; vm_compute; reflexivity. Qed.

(** THE FLAG, ON THE TRANSLATED SOURCE.  With the deciding functions of post.go / redirect.go as go2v translates them (Gen/Nec.v): when the
    advertised flag is an xs:boolean true, a signature check is necessary for every request of the matching binding, whatever the provider's own
    flag and whether or not the request carries a signature; when neither flag is true it is necessary exactly when the request carries one *)
Theorem C11_flag_enforced_from_source : forall want (f : form) (a : authn) (s : sp_rec),
  (xs_true want = true ->
     Nec.signaturePostVerificationNecessary (Some (Necessary.view_idp want)) (Some (Necessary.view_sp s)) (option_map Necessary.view_sig (a_signature a)) (f_binding f)
       = beq (f_binding f) c_PostBinding /\
     Nec.signatureRedirectVerificationNecessary (Some (Necessary.view_idp want)) (Some (Necessary.view_sp s)) (f_sig f) (f_binding f) = beq (f_binding f) c_RedirectBinding) /\
  (xs_true want = false -> xs_true (sp_authn_signed s) = false ->
     Nec.signaturePostVerificationNecessary (Some (Necessary.view_idp want)) (Some (Necessary.view_sp s)) (option_map Necessary.view_sig (a_signature a)) (f_binding f)
       = (post_provided (a_signature a) && beq (f_binding f) c_PostBinding)%bool /\
     Nec.signatureRedirectVerificationNecessary (Some (Necessary.view_idp want)) (Some (Necessary.view_sp s)) (f_sig f) (f_binding f)
       = (negb (is_empty (f_sig f)) && beq (f_binding f) c_RedirectBinding)%bool).
Proof.
  intros want f a s. rewrite Necessary.post_necessary_bridge, Necessary.redirect_necessary_bridge.
  unfold post_necessary, redirect_necessary, signing_required. split.
  - intros ->. rewrite Bool.orb_true_r. split; reflexivity.
  - intros -> ->. split; reflexivity.
Qed.

Print Assumptions C11_from_source.
Print Assumptions C11_entity_id.
Print Assumptions C11_routes.
Print Assumptions C11_external.
Print Assumptions C11_first_match.
Print Assumptions C11_want_signed.
Print Assumptions C11_schema.
Print Assumptions C11_unsigned_accepted_otherwise.
Print Assumptions C11_metadata_document.
Print Assumptions C11_checked_value_from_source.
Print Assumptions C11_destination_checks_from_source.
Print Assumptions C11_checked_is_advertised.
Print Assumptions C11_accepted_destination.
Print Assumptions C11_document_is_router_model.
Print Assumptions C11_advertised_request_path.
Print Assumptions C11_flag_enforced_from_source.
