(** C17 -- Auto-submit pages cannot be altered by request-controlled values.
    The page model is derived from the template literals go2v extracts from template.go ([Gen.Facts.c_postTemplate],
    [c_logoutTemplate]): the shape lemmas (three actions, each between the quotes of a double-quoted attribute) are
    re-proved by vm_compute on every run; everything else is proved for ALL substituted byte strings. *)
From Saml Require Import Base.Bytes Idp.FactTypes Gen.Facts Codec.HtmlEsc Codec.Template.
Local Open Scope char_scope.
Local Open Scope list_scope.

(** the template is the fixed text with exactly three substituted values, each inside a double-quoted attribute *)
Theorem C17_post_shape : split_actions c_postTemplate =
  ([post_T0; post_T1; post_T2; post_T3], [b "AssertionConsumerServiceURL"; b "RelayState"; b "SAMLResponse"]).
Proof. exact post_template_shape. Qed.
Theorem C17_logout_shape : split_actions c_logoutTemplate =
  ([logout_T0; logout_T1; logout_T2; logout_T3], [b "LogoutURL"; b "RelayState"; b "SAMLResponse"]).
Proof. exact logout_template_shape. Qed.

(** a parser that walks the fixed text and reads each attribute up to its closing quote recovers exactly the three
    escaped values: nothing a value contains can end its attribute *)
Theorem C17_extract_post : forall acs relay msg,
  extract_post (render_post acs relay msg) = Some (esc_action acs, attr_escape relay, attr_escape msg).
Proof. exact extract_post_render. Qed.
Theorem C17_extract_logout : forall url relay msg,
  extract_logout (render_logout url relay msg) = Some (esc_action url, attr_escape relay, attr_escape msg).
Proof. exact extract_logout_render. Qed.

(** decoding the character references gives back the (URL-normalised) consumer URL and the two values themselves;
    a NUL cannot be carried by HTML (it is replaced), see [html_attr_roundtrip_nul] *)
Theorem C17_values_post : forall acs relay msg, no_nul relay = true -> no_nul msg = true ->
  option_map unescape3 (extract_post (render_post acs relay msg)) = Some (url_normalize (url_filter acs), relay, msg).
Proof. exact post_values_roundtrip. Qed.
Theorem C17_values_logout : forall url relay msg, no_nul relay = true -> no_nul msg = true ->
  option_map unescape3 (extract_logout (render_logout url relay msg)) = Some (url_normalize (url_filter url), relay, msg).
Proof. exact logout_values_roundtrip. Qed.

(** substituted values add no quote and no angle bracket: they can neither terminate an attribute nor open a tag *)
Theorem C17_no_breakout_post : forall acs relay msg,
  count """" (render_post acs relay msg) = count """" (post_T0 ++ post_T1 ++ post_T2 ++ post_T3) /\
  count "<" (render_post acs relay msg) = count "<" (post_T0 ++ post_T1 ++ post_T2 ++ post_T3) /\
  count ">" (render_post acs relay msg) = count ">" (post_T0 ++ post_T1 ++ post_T2 ++ post_T3).
Proof. exact render_post_no_breakout. Qed.
Theorem C17_no_breakout_logout : forall url relay msg,
  count """" (render_logout url relay msg) = count """" (logout_T0 ++ logout_T1 ++ logout_T2 ++ logout_T3) /\
  count "<" (render_logout url relay msg) = count "<" (logout_T0 ++ logout_T1 ++ logout_T2 ++ logout_T3) /\
  count ">" (render_logout url relay msg) = count ">" (logout_T0 ++ logout_T1 ++ logout_T2 ++ logout_T3).
Proof. exact render_logout_no_breakout. Qed.

(** a javascript: / data: / vbscript: URL is never emitted as the form action *)
Theorem C17_no_script_url : forall s,
  (has_prefix_ci s (b "javascript:") = true \/ has_prefix_ci s (b "data:") = true \/ has_prefix_ci s (b "vbscript:") = true) ->
  esc_action s = b "#ZgotmplZ".
Proof.
  intros s [H|[H|H]]; [rewrite (esc_action_no_script s H)|rewrite (esc_action_no_data s H)|rewrite (esc_action_no_vbscript s H)];
    apply esc_action_failsafe.
Qed.

(** ... nor any other scheme: whenever the text before the first ':' contains no '/' and is not http, https or mailto
    (case-insensitively), the action is the fixed fail-safe text *)
Theorem C17_only_safe_schemes : forall s p, cut_colon s = Some p -> proto_ok p = false -> esc_action s = b "#ZgotmplZ".
Proof. exact unsafe_scheme. Qed.
Example C17_other_schemes : map esc_action [b "file:///etc/passwd"; b "blob:x"; b "JAVASCRIPT:alert(1)"; b "  data:text/html,x"; b "x-app:open"]
  = [b "#ZgotmplZ"; b "#ZgotmplZ"; b "#ZgotmplZ"; b "#ZgotmplZ"; b "#ZgotmplZ"].
Proof. vm_compute. reflexivity. Qed.

Print Assumptions C17_post_shape.
Print Assumptions C17_logout_shape.
Print Assumptions C17_extract_post.
Print Assumptions C17_extract_logout.
Print Assumptions C17_values_post.
Print Assumptions C17_values_logout.
Print Assumptions C17_no_breakout_post.
Print Assumptions C17_no_breakout_logout.
Print Assumptions C17_no_script_url.
Print Assumptions C17_only_safe_schemes.
