(** C09 -- No input crashes a handler or the SP-registration API.
    The endpoint models return a distinguished Panicked outcome exactly where the Go code would dereference an unset
    pointer; these theorems say it is unreachable, for every request and every storage answer.  NOT modelled: panics inside
    encoding/xml, etree, goxmldsig, x509 and the type assertions of signature.ValidateRedirect (fuzzed / enumerated by
    the harness, which recovers panics around every endpoint and around NewServiceProvider). *)
From Saml Require Import Base.Bytes Idp.FactTypes Gen.Facts Idp.Sso Idp.Callback Idp.Logout Idp.AttrQuery
  Proofs.SsoProofs Proofs.CallbackProofs Proofs.LogoutProofs.

Theorem C09_sso : forall e_form decode lookup vr vp instant_of now create want locs eid cert_ok st out,
  sso_handler e_form decode lookup vr vp instant_of now create want locs eid cert_ok sso_steps <> Panicked st out.
Proof. intros. apply handler_no_panic, current_chain_order. Qed.

Theorem C09_callback : forall form_ok form_id lookup_req app_entity userinfo cert_ok sign_ok,
  cs_panic (callback form_ok form_id lookup_req app_entity userinfo cert_ok sign_ok callback_seq loginResponse_seq) = false.
Proof. intros. exact (proj1 (callback_table form_ok form_id lookup_req app_entity userinfo cert_ok sign_ok)). Qed.

Theorem C09_logout : forall e_form decode lookup instant_of now entity_id,
  logout_handler e_form decode lookup instant_of now entity_id logout_steps <> LPanicked.
Proof.
  intros e_form decode lookup instant_of now entity_id H.
  pose proof (logout_table e_form decode lookup instant_of now entity_id) as T. unfold logout_expected in T. rewrite H in T.
  destruct e_form as [f|]; [|discriminate T].
  destruct (decode (lf_enc f) (lf_req f)) as [q|]; [|destruct T as [s0 T]; discriminate T].
  destruct (negb _); [destruct T as [s0 T]; discriminate T|].
  destruct (lq_issuer q) as [i|]; [|destruct T as [s0 T]; discriminate T].
  destruct (lookup i); destruct T as [s0 T]; discriminate T.
Qed.

Theorem C09_attrquery : forall decode lookup verify_sig attr_locs userinfo cert_ok1 cert_ok2 sign_ok entity_id,
  attrquery_handler decode lookup verify_sig attr_locs userinfo cert_ok1 cert_ok2 sign_ok entity_id attrquery_steps <> APanicked.
Proof.
  intros decode lookup verify_sig attr_locs userinfo cert_ok1 cert_ok2 sign_ok entity_id H.
  unfold attrquery_handler in H. destruct cert_ok1; cbn [negb] in H; [|discriminate H].
  unfold attrquery_steps in H. cbn [arun] in H.
  repeat match type of H with context [atag_of ?f] => let t := eval vm_compute in (atag_of f) in change (atag_of f) with t in H end.
  cbn [astep sf a0 q_query q_sp q_resp] in H.
  repeat match type of H with
  | context [match ?x with _ => _ end] =>
      lazymatch x with
      | context [match _ with _ => _ end] => fail
      | _ => destruct x eqn:?; try discriminate H; cbn [astep sf q_query q_sp q_resp arun andb] in H
      end
  end.
  all: clear H; congruence.
Qed.

Print Assumptions C09_sso.
Print Assumptions C09_callback.
Print Assumptions C09_logout.
Print Assumptions C09_attrquery.
