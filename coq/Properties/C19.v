(** C19 -- Issuer validation and derivation.
    Static issuers: [validate_issuer] models context.go:ValidateIssuer over what url.Parse reports (oracle [parsed]);
    the query/fragment clause is a property of the issuer STRING itself.  Host-derived issuers: [dynamicIssuer] is the
    definition go2v generates from context.go; header selection is modelled ([select_host]) over the per-header results of
    the third-party Forwarded parser (oracle). *)
From Saml Require Import Base.Bytes Gen.Pure Core.Issuer.

(** a provider with a static issuer can be constructed only if ... *)
Theorem C19_static : forall issuer insecure parsed, validate_issuer issuer insecure parsed = None ->
  issuer <> [] /\ exists p, parsed = Some p /\ up_host p <> [] /\
    (up_scheme p = b "https" \/ (insecure = true /\ up_scheme p = b "http")) /\
    ~ In "?"%char issuer /\ ~ In "#"%char issuer /\ up_fragment p = [] /\ up_has_query p = false.
Proof. exact validate_issuer_ok. Qed.

(** http is accepted only in insecure mode *)
Theorem C19_http_needs_insecure : forall issuer p, up_scheme p = b "http" -> validate_issuer issuer false (Some p) <> None.
Proof.
  intros issuer p Hs H. destruct (validate_issuer_ok issuer false (Some p) H) as (_ & q & E & _ & [Hq|[Hq _]] & _);
    inversion E; subst q; [rewrite Hs in Hq; discriminate Hq|discriminate Hq].
Qed.

(** a host-derived issuer is scheme://host+path with the scheme fixed by the insecure flag and the path by configuration *)
Theorem C19_dynamic : forall host path insecure,
  dynamicIssuer host path insecure = scheme_of insecure ++ b "://" ++ host ++ lead_slash path.
Proof. exact dynamic_issuer_formula. Qed.
Theorem C19_derived : forall parsed host path insecure,
  derived_issuer parsed host path insecure = scheme_of insecure ++ b "://" ++ select_host parsed host ++ lead_slash path.
Proof. exact derived_issuer_shape. Qed.
(** the host is the first host of the first configured forwarding header that yields one, else the request Host *)
Theorem C19_host_selection : forall parsed host,
  (exists pre h t post, parsed = pre ++ Some (h :: t) :: post /\ select_host parsed host = h /\
      forall x, In x pre -> x = None \/ x = Some []) \/
  (select_host parsed host = host /\ forall x, In x parsed -> x = None \/ x = Some []).
Proof. exact select_host_spec. Qed.

Example C19_examples :
  validate_issuer (b "https://idp.example/saml") false (Some {| up_scheme := b "https"; up_host := b "idp.example"; up_fragment := []; up_has_query := false |}) = None /\
  validate_issuer (b "https://idp.example/saml?") false (Some {| up_scheme := b "https"; up_host := b "idp.example"; up_fragment := []; up_has_query := false |}) = Some EPath /\
  dynamicIssuer (b "h.example") (b "saml") true = b "http://h.example/saml".
Proof. repeat split; vm_compute; reflexivity. Qed.

Print Assumptions C19_static.
Print Assumptions C19_http_needs_insecure.
Print Assumptions C19_dynamic.
Print Assumptions C19_derived.
Print Assumptions C19_host_selection.
