(** C05 -- Unsigned or forged AuthnRequests are never accepted when signing is required.
    The verification oracles [verify_redirect] / [verify_post] stand for the library's signature validation under the
    certificate registered for the service provider; the theorem says they were consulted, with a positive answer, on
    exactly the values the handler then acts on (and persists). *)
From Saml Require Import Base.Bytes Idp.FactTypes Gen.Facts Gen.Pure Idp.Sso Proofs.SsoProofs Proofs.SsoAccept.
From Saml Require Gen.Nec Core.Necessary.

Section C05.
Variable e_form : option form.
Variable decode : bytes -> bytes -> option authn.
Variable lookup : bytes -> option sp_rec.
Variable verify_redirect : sp_rec -> bytes -> bytes -> bytes -> bytes -> bool.
Variable verify_post : sp_rec -> bytes -> bool.
Variable instant_of : bytes -> instant.
Variable now : Z.
Variable create : create_args -> option bytes.
Variable want_signed : bytes.
Variable sso_locs : list bytes.
Variable entity_id : bytes.
Variable cert_ok : bool.
Notation handler := (sso_handler e_form decode lookup verify_redirect verify_post instant_of now create want_signed sso_locs entity_id cert_ok).

Theorem C05_signatures : forall c st id, has_tags c tags5 = true -> handler c = Done st [RLogin id] ->
  exists f a s,
    e_form = Some f /\ can_req e_form decode = Some a /\ can_sp e_form decode lookup = Some s /\
    (beq (f_binding f) c_RedirectBinding = true -> f_sig f <> [] ->
       f_sigalg f <> [] /\ verify_redirect s (f_req f) (f_relay f) (f_sigalg f) (f_sig f) = true) /\
    (beq (f_binding f) c_PostBinding = true -> post_provided (a_signature a) = true -> verify_post s (f_req f) = true) /\
    (signing_required want_signed s = true ->
       (beq (f_binding f) c_RedirectBinding = true ->
          f_sig f <> [] /\ f_sigalg f <> [] /\ verify_redirect s (f_req f) (f_relay f) (f_sigalg f) (f_sig f) = true) /\
       (beq (f_binding f) c_PostBinding = true -> verify_post s (f_req f) = true)).
Proof.
  intros c st id Ht H. eapply (accept_signatures e_form decode lookup verify_redirect verify_post instant_of now create want_signed sso_locs entity_id); [exact Ht|]. eapply accepted_passes; exact H.
Qed.

(** the request, RelayState and application persisted are those of the verified message *)
Theorem C05_persisted : forall c b st out, run_chain e_form decode lookup verify_redirect verify_post instant_of now create want_signed sso_locs entity_id c st0 = (b, Done st out) -> forall x, In x (created st) ->
  exists f a s, e_form = Some f /\ can_req e_form decode = Some a /\ can_sp e_form decode lookup = Some s /\
    c_relay x = f_relay f /\ c_app x = sp_id s /\ c_reqid x = a_id a.
Proof.
  intros c b st out H x Hx. destruct (persisted_values e_form decode lookup verify_redirect verify_post instant_of now create want_signed sso_locs entity_id c b st out H x Hx) as (f & a & s & E1 & E2 & E3 & _ & E4 & E5 & E6).
  exists f, a, s. repeat split; assumption.
Qed.

(** "required" is recognised in both xs:boolean forms of true, from the SP metadata or the IdP configuration *)
Theorem C05_required_forms : forall s, signing_required want_signed s = true <->
  (sp_authn_signed s = b "true" \/ sp_authn_signed s = b "1" \/ want_signed = b "true" \/ want_signed = b "1").
Proof.
  intro s. unfold signing_required, xs_true, Core.Acs.xs_true. rewrite !orb_true_iff, !beq_eq. tauto.
Qed.

(** a KeyInfo the request's signature carries must be a registered certificate: whenever the signature names certificates
    and the provider registered key descriptors, an accepted request names one of the registered certificates *)
Theorem C05_keyinfo_registered : forall c st id, has_tag c TCertCheck = true -> handler c = Done st [RLogin id] ->
  exists a s, can_req e_form decode = Some a /\ can_sp e_form decode lookup = Some s /\
    (cert_check_necessary a s = true ->
       check_certificate a s = true /\
       exists g cs kd cert, a_signature a = Some g /\ sg_keyinfo g = Some cs /\ In kd (sp_keydescs s) /\ In cert kd /\ bmem cert cs = true).
Proof.
  intros c st id Ht H. eapply (accept_cert e_form decode lookup verify_redirect verify_post instant_of now create want_signed sso_locs entity_id); [exact Ht|]. eapply accepted_passes; exact H.
Qed.
Theorem C05_current_tree_cert : has_tag sso_steps TCertCheck = true.
Proof. vm_compute. reflexivity. Qed.

(** the exact bound on signature values that go unverified (the known findings F-05b / F-05c): in an accepted request a
    detached Signature parameter that did not verify can only have arrived in a POST form, an enveloped signature value that
    did not verify only over the Redirect binding -- never in the place its own binding prescribes *)
Theorem C05_unverified_only_cross_binding : forall c st id, has_tags c tags5 = true -> handler c = Done st [RLogin id] ->
  exists f a s, e_form = Some f /\ can_req e_form decode = Some a /\ can_sp e_form decode lookup = Some s /\
    (f_sig f <> [] -> verify_redirect s (f_req f) (f_relay f) (f_sigalg f) (f_sig f) = false -> beq (f_binding f) c_RedirectBinding = false) /\
    (post_provided (a_signature a) = true -> verify_post s (f_req f) = false -> beq (f_binding f) c_PostBinding = false).
Proof.
  intros c st id Ht H. destruct (C05_signatures c st id Ht H) as (f & a & s & E1 & E2 & E3 & Hr & Hp & _).
  exists f, a, s. split; [exact E1|]. split; [exact E2|]. split; [exact E3|]. split.
  - intros Hs Hv. destruct (beq (f_binding f) c_RedirectBinding) eqn:Eb; [|reflexivity]. destruct (Hr eq_refl Hs) as [_ V]. congruence.
  - intros Hs Hv. destruct (beq (f_binding f) c_PostBinding) eqn:Eb; [|reflexivity]. pose proof (Hp eq_refl Hs) as V. congruence.
Qed.

Theorem C05_current_tree : has_tags sso_steps tags5 = true.
Proof. vm_compute. reflexivity. Qed.
End C05.

(** The full statement also asks that NO non-empty signature value a request bears goes unverified.  The model (like
    the code) does not verify an enveloped signature that arrives over the Redirect binding, nor a detached Signature
    parameter in a POST form: witnesses (known findings F-05b, F-05c). *)
Definition f05b_form := {| f_binding := c_RedirectBinding; f_req := b "x"; f_enc := c_EncodingDeflate; f_relay := []; f_sigalg := []; f_sig := [] |}.
Definition f05b_req := {| a_id := b "_1"; a_version := b "2.0"; a_destination := []; a_binding := []; a_issuer := Some (b "sp");
  a_conditions := None; a_signature := Some {| sg_keyinfo := None; sg_value := b "forged" |} |}.
Definition f05_sp := {| sp_id := b "app"; sp_entity := b "sp"; sp_authn_signed := []; sp_keydescs := [];
  sp_acs := [{| IndexedEndpointType_Index := b "0"; IndexedEndpointType_IsDefault := []; IndexedEndpointType_Binding := c_PostBinding;
                IndexedEndpointType_Location := b "https://sp/acs"; IndexedEndpointType_ResponseLocation := [] |}]; sp_slo := [] |}.
Example C05_embedded_over_redirect_refuted :
  exists st, sso_handler (Some f05b_form) (fun _ _ => Some f05b_req) (fun _ => Some f05_sp) (fun _ _ _ _ _ => false) (fun _ _ => false)
    (fun _ => IAbsent) 0 (fun _ => Some (b "id1")) [] [] [] true sso_steps = Done st [RLogin (b "id1")].
Proof. eexists. vm_compute. reflexivity. Qed.
Definition f05c_form := {| f_binding := c_PostBinding; f_req := b "x"; f_enc := []; f_relay := []; f_sigalg := b "alg"; f_sig := b "forged" |}.
Definition f05c_req := {| a_id := b "_1"; a_version := b "2.0"; a_destination := []; a_binding := []; a_issuer := Some (b "sp");
  a_conditions := None; a_signature := None |}.
Example C05_detached_in_post_refuted :
  exists st, sso_handler (Some f05c_form) (fun _ _ => Some f05c_req) (fun _ => Some f05_sp) (fun _ _ _ _ _ => false) (fun _ _ => false)
    (fun _ => IAbsent) 0 (fun _ => Some (b "id1")) [] [] [] true sso_steps = Done st [RLogin (b "id1")].
Proof. eexists. vm_compute. reflexivity. Qed.

(** WHEN A SIGNATURE HAS TO BE CHECKED, FROM SOURCE.  go2v translates signaturePostProvided, signaturePostVerificationNecessary
    (post.go), signatureRedirectVerificationNecessary (redirect.go) and certificateCheckNecessary (sso.go) over views of the
    model structs with pointers as options; for every IdP flag, provider record, request form and decoded request they are the
    conditions the single sign-on model uses (post_provided, post_necessary, redirect_necessary, cert_check_necessary -- the
    hypotheses of C05_signatures / C05_required_forms / C11_want_signed) *)
Theorem C05_necessity_from_source : forall want (f : form) (a : authn) (s : sp_rec),
  Nec.signaturePostProvided (option_map Necessary.view_sig (a_signature a)) = post_provided (a_signature a) /\
  Nec.signaturePostVerificationNecessary (Some (Necessary.view_idp want)) (Some (Necessary.view_sp s)) (option_map Necessary.view_sig (a_signature a)) (f_binding f)
    = post_necessary want f a s /\
  Nec.signatureRedirectVerificationNecessary (Some (Necessary.view_idp want)) (Some (Necessary.view_sp s)) (f_sig f) (f_binding f) = redirect_necessary want f s /\
  Nec.certificateCheckNecessary (option_map Necessary.view_sig (a_signature a)) (Some (Necessary.view_sp s)) = cert_check_necessary a s.
Proof.
  intros. split; [apply Necessary.post_provided_bridge|split; [apply Necessary.post_necessary_bridge|split; [apply Necessary.redirect_necessary_bridge|apply Necessary.cert_necessary_bridge]]].
Qed.

(** ... and the certificate check itself (checkCertificate, sso.go: three nested loops returning at the first certificate text the
    request's KeyInfo and the provider's key descriptors share; the text normalisation strings.Join(strings.Fields(x), "") is
    an oracle): no error exactly when the model's check_certificate holds of the normalised texts -- the hypothesis of
    C05_keyinfo_registered *)
Theorem C05_certificate_check_from_source : forall norm (a : authn) (s : sp_rec),
  goerr_is_nil (Nec.checkCertificate norm (option_map Necessary.view_sig (a_signature a)) (Some (Necessary.view_sp s)))
  = check_certificate (Necessary.norm_authn norm a) (Necessary.norm_sp norm s).
Proof. exact Necessary.check_certificate_bridge. Qed.

Print Assumptions C05_signatures.
Print Assumptions C05_persisted.
Print Assumptions C05_required_forms.
Print Assumptions C05_current_tree.
Print Assumptions C05_keyinfo_registered.
Print Assumptions C05_current_tree_cert.
Print Assumptions C05_unverified_only_cross_binding.
Print Assumptions C05_necessity_from_source.
Print Assumptions C05_certificate_check_from_source.
