(** C08 -- One SSO request, one outcome; rejected requests leave no trace.
    The handler model interprets the checker chain go2v extracts from sso.go ([Gen.Facts.sso_steps]); the theorems
    hold for every chain satisfying the decidable conditions [wf8] / [wf_order], which the extracted chain does. *)
From Saml Require Import Base.Bytes Idp.FactTypes Gen.Facts Idp.Sso Idp.Deliver Proofs.SsoProofs.
From Saml Require Idp.AttrRefine Idp.BuiltDoc Idp.Builder.

Section C08.
Variable e_form : option form.
Variable decode : bytes -> bytes -> option authn.
Variable lookup : bytes -> option sp_rec.
Variable verify_redirect : sp_rec -> bytes -> bytes -> bytes -> bytes -> bool.
Variable verify_post : sp_rec -> bytes -> bool.
Variable instant_of : bytes -> instant.
Variable now : Z.
Variable create : create_args -> option bytes.
Variable want_signed : bytes.
Variable sso_locs : list bytes.
Variable entity_id : bytes.
Variable cert_ok : bool.
Notation handler := (sso_handler e_form decode lookup verify_redirect verify_post instant_of now create want_signed sso_locs entity_id cert_ok).

(** for every request, metadata, storage behaviour: either the request is persisted exactly once and the only
    reply is the login redirect for the identifier storage returned, or nothing is persisted and the only reply
    is one failure reply (SAML Response with non-Success status, or HTTP error) *)
Theorem C08_one_outcome : forall c, wf8 c = true -> one_outcome create (handler c).
Proof. exact (chain_one_outcome e_form decode lookup verify_redirect verify_post instant_of now create want_signed sso_locs entity_id cert_ok). Qed.

(** ... and the handler never dereferences an unset local *)
Theorem C08_no_panic : forall c, wf_order c = true -> forall st out, handler c <> Panicked st out.
Proof. exact (handler_no_panic e_form decode lookup verify_redirect verify_post instant_of now create want_signed sso_locs entity_id cert_ok). Qed.

(** the chain of the current source tree satisfies both conditions *)
Theorem C08_current_tree : one_outcome create (handler sso_steps) /\ forall st out, handler sso_steps <> Panicked st out.
Proof. split; [apply C08_one_outcome, current_chain_wf8 | apply C08_no_panic, current_chain_order]. Qed.
End C08.

(** non-vacuity: a mutant chain that persists before validating the content is rejected by [wf8] *)
Example C08_mutant_rejected :
  wf8 (firstn 12 sso_steps ++ [nth 13 sso_steps (nth 0 sso_steps {| sk := KValueStep; callees := []; lits := []; consts := []; writes := []; sf := FNone |});
                               nth 12 sso_steps (nth 0 sso_steps {| sk := KValueStep; callees := []; lits := []; consts := []; writes := []; sf := FNone |})]) = false.
Proof. vm_compute. reflexivity. Qed.
(** and so is a chain without the supported-binding check (the tree before fix ad891ad) *)
Example C08_unchecked_binding_rejected : wf8 (firstn 11 sso_steps ++ skipn 12 sso_steps) = false.
Proof. vm_compute. reflexivity. Qed.

(** no empty or concatenated reply: the model's reply functions are the ones the statement sequences of
    sendBackResponse and of the end of ssoHandleFunc yield -- every path through sendBackResponse writes exactly one of
    body / auto-submit form / redirect / error, and after a passing chain the handler either redirects to the login
    page or sends one UnsupportedBinding reply *)
Theorem C08_single_write : (forall e mt, exists k, deliver_shape sendBackResponse_seq e mt = Some k) /\
  (forall entity_id status st,
     deliver_shape sendBackResponse_seq (is_empty (r_acs st)) (label_is (r_binding st)) = Some (kind_of_reply (send_failed entity_id status st))).
Proof. split; [exact deliver_writes_once|exact send_failed_from_source]. Qed.
Theorem C08_terminal : forall entity_id st id, l_created st = Some id ->
  terminal_shape sso_post (label_is (r_binding st)) =
  Some (match terminal entity_id st with [RLogin _] => TkLogin | _ => TkUnsupported end) /\
  (terminal entity_id st = [RLogin id] \/ terminal entity_id st = [send_failed entity_id c_StatusCodeUnsupportedBinding st]).
Proof. exact terminal_from_source. Qed.
Theorem C08_prechecks : precheck_ok sso_pre = true /\ precheck_ok attrquery_pre = true.
Proof. exact prechecks_from_source. Qed.

(** REFINEMENT: a failure reply of the single sign-on model (send_failed: status, the request ID when it was decoded, the IdP's entity ID,
    the consumer URL when one was selected) is what the document built by the program translated from makeFailedResponse abstracts to --
    and it carries no assertion *)
Theorem C08_failure_refines_model : forall status reqid issuer acs audience message id1 rest issue until,
  let M := {| fm_status := status; fm_in_response_to := reqid; fm_issuer := issuer; fm_destination := acs |} in
  BuiltDoc.built_sat "makeFailedResponse" (Some (BuiltDoc.response_rec reqid acs issuer audience)) [Builder.DStr status; Builder.DStr message; Builder.DStr (b "f")] (id1 :: rest) issue until
    (fun d r => r = rest /\
       AttrRefine.opt_str (BuiltDoc.at_ d ["Status"; "StatusCode"; "Value"]%string) = fm_status M /\ AttrRefine.opt_str (BuiltDoc.at_ d ["InResponseTo"%string]) = fm_in_response_to M /\
       AttrRefine.opt_str (BuiltDoc.at_ d ["Issuer"; "Text"]%string) = fm_issuer M /\ AttrRefine.opt_str (BuiltDoc.at_ d ["Destination"%string]) = fm_destination M /\
       (BuiltDoc.at_ d ["Destination"%string] = None <-> fm_destination M = []) /\ BuiltDoc.at_ d ["Assertion"%string] = None).
Proof. exact AttrRefine.sso_failed_message_refines. Qed.

Print Assumptions C08_one_outcome.
Print Assumptions C08_no_panic.
Print Assumptions C08_current_tree.
Print Assumptions C08_single_write.
Print Assumptions C08_terminal.
Print Assumptions C08_prechecks.
Print Assumptions C08_failure_refines_model.
