(** C14 -- Decompression of request payloads is bounded.
    The read loop of InflateAndDecode (io.ReadAll over io.LimitReader(flate reader, MaxInflatedSize+1)) is modelled over
    an arbitrary stream of chunks; what is proved is the bound on the bytes MATERIALISED and the accept/reject rule.
    Partial by nature: the allocator and compress/flate are runtime facts, measured by the harness (TotalAlloc around
    one ServeHTTP for payloads inflating to 1 MiB .. 1 GiB), not modelled. *)
From Saml Require Import Base.Bytes Idp.FactTypes Gen.Facts Core.Inflate Codec.Base64 Core.WireCodec Core.DecodeVia Idp.Sso Proofs.SsoProofs Proofs.SsoAccept Proofs.SsoCodec.
Open Scope Z_scope.

Theorem C14_bounded : forall cap chunks, 0 <= cap ->
  read_limited (cap + 1) chunks <= cap + 1 /\
  (total chunks > cap -> inflate_decode cap chunks = None) /\
  (total chunks <= cap -> inflate_decode cap chunks = Some (total chunks)).
Proof. intros cap chunks H. destruct (inflate_decode_spec cap chunks H) as (A & B & C). auto. Qed.

(** whatever the compression ratio: the materialised size does not depend on how much the stream could deliver *)
Theorem C14_independent_of_ratio : forall cap chunks extra, 0 <= cap -> total chunks > cap ->
  read_limited (cap + 1) (chunks ++ extra) = read_limited (cap + 1) chunks.
Proof.
  intros cap chunks extra H Ht.
  destruct (read_limited_bound (cap + 1) chunks ltac:(lia)) as [_ E1].
  destruct (read_limited_bound (cap + 1) (chunks ++ extra) ltac:(lia)) as [_ E2].
  rewrite E1, E2. unfold total. rewrite fold_left_app.
  assert (G : forall l a, a <= fold_left (fun a c => a + Z.max c 0) l a).
  { induction l as [|x xs IHx]; intro a; cbn [fold_left]; [lia|]. specialize (IHx (a + Z.max x 0)). pose proof (Z.le_max_r x 0). lia. }
  specialize (G extra (fold_left (fun a c => a + Z.max c 0) chunks 0)). unfold total in Ht. lia.
Qed.

(** the source: the DEFLATE case reads through io.LimitReader, and the cap is the constant extracted from xml.go *)
Theorem C14_structure : deflate_case_limited inflateAndDecode_seq = true /\ 0 < ci_MaxInflatedSize <= 64 * 1024 * 1024.
Proof. exact inflate_structure. Qed.

Example C14_example : inflate_decode 10 [4; 4; 4; 1000000] = None /\ read_limited 11 [4; 4; 4; 1000000] = 11 /\ inflate_decode 10 [4; 4] = Some 8.
Proof. repeat split; vm_compute; reflexivity. Qed.

(** ... and is not accepted: with DecodeAuthNRequest = InflateAndDecode + parser (C06_decode_from_source), a request whose
    DEFLATE payload inflates to more than the cap never ends in the login redirect, whatever it contains *)
Theorem C14_oversized_not_accepted : forall e_form inflate cap parse lookup verify_redirect verify_post instant_of now create want_signed sso_locs entity_id cert_ok
  c f raw d st id, has_tags c tags6 = true -> e_form = Some f ->
  f_enc f = c_EncodingDeflate -> b64_decode (f_req f) = Some raw -> inflate raw = Some d -> (Z.of_nat (length d) > cap) ->
  sso_handler e_form (decode_via authn inflate cap parse) lookup verify_redirect verify_post instant_of now create want_signed sso_locs entity_id cert_ok c <> Done st [RLogin id].
Proof. exact sso_oversized_refused. Qed.
Theorem C14_oversized_decode_fails : forall (A : Type) inflate cap (parse : bytes -> option A) message raw d,
  b64_decode message = Some raw -> inflate raw = Some d -> (Z.of_nat (length d) > cap) ->
  decode_via A inflate cap parse c_EncodingDeflate message = None.
Proof. exact decode_via_oversized. Qed.

Print Assumptions C14_bounded.
Print Assumptions C14_independent_of_ratio.
Print Assumptions C14_structure.
Print Assumptions C14_oversized_not_accepted.
Print Assumptions C14_oversized_decode_fails.
