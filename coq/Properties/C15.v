(** C15 -- Concurrent requests are isolated and get unique message IDs (model part; freedom from Go data races and the
    distinctness of random UUIDs are properties of the runtime: race detector and ID multiset in the harness -- partial).
    Threads are programs over atomic storage operations (the storage contract), interleaved under an arbitrary schedule. *)
From Saml Require Import Base.Bytes Idp.FactTypes Gen.Facts Idp.Sso Idp.Callback Idp.AttrQuery Idp.Logout Conc.Interleave Conc.Handlers
  Proofs.SsoProofs Proofs.SsoAccept Proofs.SsoLocal Proofs.AttrLocal Conc.SsoProg Conc.Mixed Core.NewID.
From Coq Require Import List. Import ListNotations.

(** every schedule, any number of threads that only read: a finished thread's result is its result alone on the initial storage *)
Theorem C15_isolation : forall (V : Type) (fresh : nat -> bytes) (A : Type) (ps : pool V A) (s0 : store V),
  pool_all V (no_create V) ps ->
  forall (sched : schedule) (i : nat) (p : prog V A) (a : A),
    nth_error ps i = Some p -> result V i (fst (run_sched V fresh sched (ps, s0))) = Some a -> a = fst (interp V fresh p s0).
Proof. exact isolation_readonly. Qed.
(** replacing any other thread by any other read-only program changes nothing for thread i *)
Theorem C15_non_interference : forall (V : Type) (fresh : nat -> bytes) (A : Type) (ps : pool V A) (s0 : store V) (i j : nat) (q : prog V A),
  pool_all V (no_create V) ps -> no_create V q -> j <> i ->
  forall (sched sched' : schedule) (a a' : A),
    result V i (fst (run_sched V fresh sched (ps, s0))) = Some a ->
    result V i (fst (run_sched V fresh sched' (set_nth ps j q, s0))) = Some a' -> a = a'.
Proof. exact non_interference. Qed.
(** identifiers handed out during one run are pairwise distinct (given an injective supply) *)
Theorem C15_ids_distinct : forall (V : Type) (fresh : nat -> bytes), (forall m n, fresh m = fresh n -> m = n) ->
  forall (A : Type) (sched : schedule) (st : pool V A * store V), NoDup (ids_of_trace V (run_trace V fresh sched st)).
Proof. exact ids_distinct. Qed.

(** the real endpoint model in that framework: the callback as a read-only program whose result is the callback model's reply
    and whose operations are the model's call list *)
Theorem C15_callback_program : forall fresh form_ok form_id sign_ok (s : store val),
  no_create val (callback_prog form_ok form_id sign_ok) /\
  interp val fresh (callback_prog form_ok form_id sign_ok) s = (cb form_ok form_id (L_of s) (A_of s) (U_of s) (C_of s) sign_ok, s) /\
  ops_of fresh (callback_prog form_ok form_id sign_ok) s = map op_of_call (snd (cb form_ok form_id (L_of s) (A_of s) (U_of s) (C_of s) sign_ok)).
Proof. intros. split; [apply callback_prog_no_create|split; [apply callback_prog_correct|apply callback_prog_footprint]]. Qed.
(** N concurrent callbacks, every schedule: each reply is the model's reply for its own request on the initial storage *)
Theorem C15_concurrent_callbacks : forall fresh (reqs : list (bool * bytes * bool)) (s0 : store val) (sched : schedule) i fo id so a,
  nth_error reqs i = Some (fo, id, so) ->
  result val i (fst (run_sched val fresh sched (map (fun r => callback_prog (fst (fst r)) (snd (fst r)) (snd r)) reqs, s0))) = Some a ->
  a = cb fo id (L_of s0) (A_of s0) (U_of s0) (C_of s0) so.
Proof. exact concurrent_callbacks_isolated. Qed.
(** and that reply depends only on the records the request names: its own stored request, that record's application and user *)
Theorem C15_callback_local : forall form_ok form_id L1 A1 U1 c1 L2 A2 U2 c2 sign_ok,
  L1 form_id = L2 form_id ->
  (forall rec, L1 form_id = Some rec -> A1 (sr_app rec) = A2 (sr_app rec)) ->
  (forall rec e, L1 form_id = Some rec -> A1 (sr_app rec) = Some e -> sr_done rec = true -> U1 (sr_app rec) (sr_user rec) = U2 (sr_app rec) (sr_user rec)) ->
  (forall rec e u, L1 form_id = Some rec -> A1 (sr_app rec) = Some e -> sr_done rec = true -> U1 (sr_app rec) (sr_user rec) = Some u -> c1 = c2) ->
  cb form_ok form_id L1 A1 U1 c1 sign_ok = cb form_ok form_id L2 A2 U2 c2 sign_ok.
Proof. exact callback_local. Qed.
Theorem C15_logout_local : forall e_form decode lookup1 lookup2 instant_of now entity_id out1 out2 s1 s2,
  (forall f q i, e_form = Some f -> decode (lf_enc f) (lf_req f) = Some q -> lq_issuer q = Some i -> lookup1 i = lookup2 i) ->
  logout_handler e_form decode lookup1 instant_of now entity_id logout_steps = LDone s1 out1 ->
  logout_handler e_form decode lookup2 instant_of now entity_id logout_steps = LDone s2 out2 -> out1 = out2.
Proof. exact logout_local. Qed.

(** SSO: the outcome depends on the storage only through the provider registered under the request's own Issuer (any chain) *)
Theorem C15_sso_local : forall e_form decode lookup1 lookup2 verify_redirect verify_post instant_of now create want_signed sso_locs entity_id cert_ok,
  (forall a i, can_req e_form decode = Some a -> a_issuer a = Some i -> lookup1 i = lookup2 i) -> forall c,
  sso_handler e_form decode lookup1 verify_redirect verify_post instant_of now create want_signed sso_locs entity_id cert_ok c =
  sso_handler e_form decode lookup2 verify_redirect verify_post instant_of now create want_signed sso_locs entity_id cert_ok c.
Proof. exact sso_local. Qed.
(** attribute query: only the provider registered under the query's Issuer and the user record of its subject (any chain) *)
Theorem C15_attrquery_local : forall decode lookup1 lookup2 verify_sig attr_locs userinfo1 userinfo2 cert_ok1 cert_ok2 sign_ok entity_id,
  (forall q i, decode = Some q -> aq_issuer q = Some i -> lookup1 i = lookup2 i) ->
  (forall q n, decode = Some q -> aq_nameid q = Some n -> userinfo1 n = userinfo2 n) -> forall c,
  attrquery_handler decode lookup1 verify_sig attr_locs userinfo1 cert_ok1 cert_ok2 sign_ok entity_id c =
  attrquery_handler decode lookup2 verify_sig attr_locs userinfo2 cert_ok1 cert_ok2 sign_ok entity_id c.
Proof. exact attrquery_local. Qed.

(** the SSO handler in that framework: a program that reads the response key, reads the provider registered under the
    request's own Issuer and -- only when every check passed -- creates one record; sequentially it is the handler model
    with the storage as oracles and an allocating CreateAuthRequest, and it never looks up a stored request *)
Theorem C15_sso_program : forall e_form decode verify_redirect verify_post instant_of now want_signed sso_locs entity_id fresh (s : store val),
  fst (interp val fresh (sso_prog e_form decode verify_redirect verify_post instant_of now want_signed sso_locs entity_id sso_steps) s) =
  replies (sso_handler e_form decode (S_of s) verify_redirect verify_post instant_of now (fun _ => Some (fresh (next val s))) want_signed sso_locs entity_id (C_of s) sso_steps).
Proof. intros. apply sso_prog_correct. exact current_chain_wf8. Qed.
(** N concurrent SSO requests, every schedule: each finished request was answered as the handler model answers it alone on
    the INITIAL storage (CreateAuthRequest handing out some id), and the login redirects of two different requests never
    name the same stored request *)
Theorem C15_concurrent_sso : forall decode verify_redirect verify_post instant_of now want_signed sso_locs entity_id fresh,
  (forall m n, fresh m = fresh n -> m = n) ->
  forall (forms : list (option form)) (s0 : store val) (sched : schedule),
  let pool := map (sso_thread decode verify_redirect verify_post instant_of now want_signed sso_locs entity_id sso_steps) forms in
  (forall i f a, nth_error forms i = Some f -> result val i (fst (run_sched val fresh sched (pool, s0))) = Some a ->
     exists id, a = replies (sso_handler f decode (S_of s0) verify_redirect verify_post instant_of now (fun _ => Some id) want_signed sso_locs entity_id (C_of s0) sso_steps)) /\
  (forall i j fi fj ai aj x, nth_error forms i = Some fi -> nth_error forms j = Some fj ->
     result val i (fst (run_sched val fresh sched (pool, s0))) = Some ai -> result val j (fst (run_sched val fresh sched (pool, s0))) = Some aj ->
     In (RLogin x) ai -> In (RLogin x) aj -> i = j).
Proof.
  intros decode verify_redirect verify_post instant_of now want_signed sso_locs entity_id fresh Hinj forms s0 sched.
  exact (concurrent_sso_isolated decode verify_redirect verify_post instant_of now want_signed sso_locs entity_id fresh Hinj sso_steps current_chain_wf8 forms s0 sched).
Qed.

(** message and assertion identifiers: NewID() is "_" followed by the canonical text of a UUID (read off the source), and
    every such string is a legal xs:ID of 37 characters (that two of them differ is a property of the random source: the
    harness collects every identifier of every run and checks they are pairwise distinct) *)
Theorem C15_id_legal : forall u, uuid_text u = true -> is_ncname (new_id u) = true /\ length (new_id u) = 37.
Proof. exact new_id_legal. Qed.
Theorem C15_id_source : newid_src = [("return", "fmt.Sprintf(""_%s"", uuid.New())")]%string.
Proof. exact new_id_from_source. Qed.

(** SSO requests and login callbacks in one pool, every schedule: a callback for a request that existed before the run is
    answered exactly as alone on the initial storage, although the SSO threads create records all the while *)
Theorem C15_callbacks_among_sso : forall decode verify_redirect verify_post instant_of now want_signed sso_locs entity_id fresh,
  (forall m n, fresh m = fresh n -> m = n) ->
  forall (forms : list (option form)) (cbs : list (bool * bytes * bool)) (s0 : store val) (sched : schedule),
  (forall r, In r cbs -> old_key fresh (next val s0) (snd (fst r))) ->
  forall j fo id so a, nth_error cbs j = Some (fo, id, so) ->
    result val (length forms + j)
      (fst (run_sched val fresh sched (map (sso_t decode verify_redirect verify_post instant_of now want_signed sso_locs entity_id sso_steps) forms ++ map cb_t cbs, s0))) = Some a ->
    a = inr (cb fo id (L_of s0) (A_of s0) (U_of s0) (C_of s0) so).
Proof.
  intros decode verify_redirect verify_post instant_of now want_signed sso_locs entity_id fresh Hinj forms cbs s0 sched.
  exact (callbacks_among_sso decode verify_redirect verify_post instant_of now want_signed sso_locs entity_id fresh Hinj sso_steps forms cbs s0 sched).
Qed.

Print Assumptions C15_isolation.
Print Assumptions C15_non_interference.
Print Assumptions C15_ids_distinct.
Print Assumptions C15_callback_program.
Print Assumptions C15_concurrent_callbacks.
Print Assumptions C15_callback_local.
Print Assumptions C15_logout_local.
Print Assumptions C15_sso_local.
Print Assumptions C15_attrquery_local.
Print Assumptions C15_sso_program.
Print Assumptions C15_concurrent_sso.
Print Assumptions C15_id_legal.
Print Assumptions C15_id_source.
Print Assumptions C15_callbacks_among_sso.
