(** C18 -- Wire encoding round-trips and cannot be restructured by data.
    Modelled: encoding/xml's printer for the library's structs (Xml.Tree.marshal, EscapeText = xml_escape), a byte-level
    lexer with the reference decoder of encoding/xml (Xml.Lex), base64.StdEncoding, and the control flow of
    InflateAndDecode / DeflateAndBase64.  the mapping from Go struct values to trees
    (Xml/Schema.v: encoding/xml's tag and marshalValue rules over the schema go2v regenerates from the struct tags of
    pkg/provider/xml/*/models.go).  NOT modelled: compress/flate (Section variables, hypothesis
    inflate (deflate b) = Some b), encoding/xml's decoder beyond the printer's language. *)
From Saml Require Import Base.Bytes Codec.Utf8 Codec.XmlEscape Codec.Sanitize Codec.Base64 Xml.Tree Xml.Lex Xml.Balanced Xml.SanTree
  Idp.FactTypes Gen.Facts Core.WireCodec Xml.SchemaTypes Xml.Schema Gen.Schema Idp.BuilderTypes Idp.Builder Xml.Unmarshal Xml.RoundTrip Gen.Builders Idp.BuiltDoc Idp.BuiltRoundTrip.

(** values made of legal XML characters come back exactly, through the XML reference decoder and through Go's *)
Theorem C18_escape_roundtrip : forall s, legal_xml s = true -> xml_unescape (xml_escape s) = Some s /\ go_text_unescape (xml_escape s) = Some s.
Proof. intros s H. split; [exact (xml_unescape_escape s H)|exact (go_text_unescape_escape s H)]. Qed.
(** any value at all: what comes back is the value with each illegal rune replaced by U+FFFD *)
Theorem C18_escape_any : forall s, xml_unescape (xml_escape s) = Some (sanitize s) /\ legal_xml (sanitize s) = true /\ (legal_xml s = true -> sanitize s = s).
Proof. intro s. split; [exact (unescape_escape_sanitize s)|split; [exact (sanitize_legal s)|exact (sanitize_id s)]]. Qed.
(** escaped data contains no markup delimiter and no '&' other than the start of one of the eight references written *)
Theorem C18_no_markup : forall s,
  forallb (fun c => negb (Ascii.eqb c "<") && negb (Ascii.eqb c ">") && negb (Ascii.eqb c """") && negb (Ascii.eqb c "'")) (xml_escape s) = true /\ amp_ok (xml_escape s) = true.
Proof. intro s. split; [exact (xml_escape_no_markup s)|exact (xml_escape_amp s)]. Qed.

(** a marshalled message is one document that lexes back to exactly the names, attribute values and texts of the tree *)
Theorem C18_document : forall t, wf t -> lex_doc (marshal_doc t) = Some (tokens t).
Proof. exact lex_marshal_doc. Qed.
Theorem C18_single_wellformed : forall t, (forall stk, bal (tokens t) stk = Some stk) /\
  exists n a mid, tokens t = TOpen n a :: mid ++ [TClose n] /\ forall stk, bal mid (n :: stk) = Some (n :: stk).
Proof. intro t. split; [exact (bal_tokens t)|exact (single_root t)]. Qed.
(** the element structure is a function of the shape of the tree: legal data ... *)
Theorem C18_structure : forall t1 t2, wf t1 -> wf t2 -> shape t1 = shape t2 ->
  option_map skeleton (lex (marshal t1)) = option_map skeleton (lex (marshal t2)).
Proof. exact structure_independent_of_data. Qed.
(** ... and arbitrary data (controls, surrogates, invalid UTF-8): replaced, never restructuring *)
Theorem C18_structure_any_data : forall t, names_okb t = true ->
  lex (marshal t) = Some (tokens (san_tree t)) /\ skeleton (tokens (san_tree t)) = skeleton (tokens (shape t)).
Proof. exact data_cannot_restructure. Qed.

(** from struct values: for every value of every XML model type of the library, with any strings whatsoever in its
    fields (runtime element names, where a type has them, being names), the document Marshal prints lexes to the
    tokens of the sanitised tree and has the element structure of the tree's shape: element and attribute names come
    from the struct tags only.  The schema is the one generated from the current source, and the harness checks the
    model against the real Marshal byte for byte on values of random shape (Corr.C18Corr.KStruct). *)
Theorem C18_schema_names : schema_names_ok xml_schema = true /\ schema_tags_ok xml_schema = true.
Proof. split; vm_compute; reflexivity. Qed.
Theorem C18_struct_document : forall fuel ty v t, vnames_ok v = true -> marshal_root_f fuel xml_schema ty v = Some t ->
  lex (marshal t) = Some (tokens (san_tree t)) /\ skeleton (tokens (san_tree t)) = skeleton (tokens (shape t)).
Proof. intros fuel ty v t Hv H. exact (struct_data_cannot_restructure fuel xml_schema ty v t (proj1 C18_schema_names) Hv H). Qed.
(** the only field any model type writes as raw XML is one the IdP never populates (and the model refuses a value
    that does) *)
Theorem C18_raw_xml_fields : raw_xml_fields xml_schema = [("saml.BaseIDAbstractType", "InnerXml")]%string.
Proof. vm_compute. reflexivity. Qed.

(** ... and back: the library's decoders are encoding/xml's Unmarshal into the same types; Xml/Unmarshal.v models it over the
    same generated schema (names resolved by Go's tokenizer, an oracle) and the harness compares it with the real decoders
    on every reply of the flows, on the marshalled values of random shape and on request documents with prefixes, unknown
    and repeated elements, wrong roots and trailing content (Corr.C18Corr.KUnm).  Example: what was marshalled comes back *)
Example C18_unmarshal_example :
  let a := b "urn:oasis:names:tc:SAML:2.0:assertion" in
  unmarshal_root xml_schema "saml.NameIDType" (RElem a (b "NameID") [([], b "xmlns", a); ([], b "Format", b "f<")] [RText (b "]]>&")])
  = Some (VStruct [VName a (b "NameID"); VStr (b "f<"); VStr []; VStr []; VStr []; VStr (b "]]>&")]).
Proof. vm_compute. reflexivity. Qed.

(** round trip at the level of field values, through the models of both directions: the documents the IdP builds (builder
    programs from the source, Marshal model, name-space resolution, Unmarshal model) decode back to the values that were put
    in, for ALL strings in them (element names in XMLName fields aside) *)
Theorem C18_roundtrip_logout_response : forall reqid url issuer reason message id1 issue,
  built_roundtrips "makeFailedLogoutResponse" (Some (logout_rec reqid url issuer)) [DStr reason; DStr message; DStr (b "f")] [id1] issue [] "samlp.LogoutResponseType" /\
  built_roundtrips "makeSuccessfulLogoutResponse" (Some (logout_rec reqid url issuer)) [DStr (b "f")] [id1] issue [] "samlp.LogoutResponseType".
Proof. exact logout_response_roundtrips. Qed.
Theorem C18_roundtrip_failed_response : forall reqid acs issuer audience reason message id1 issue,
  built_roundtrips "makeFailedResponse" (Some (response_rec reqid acs issuer audience)) [DStr reason; DStr message; DStr (b "f")] [id1] issue [] "samlp.ResponseType".
Proof. exact failed_response_roundtrips. Qed.
Theorem C18_roundtrip_success_response : forall reqid acs email username ci issuer ca audience c1 id1 c2 id2 c3 issue c4 until,
  built_roundtrips "makeSuccessfulResponse" (Some (response_rec reqid acs (ci :: issuer) (ca :: audience)))
    [attributes_rec email [] [] [] [] username []; DStr (b "f"); DNil] [c1 :: id1; c2 :: id2] (c3 :: issue) (c4 :: until) "samlp.ResponseType".
Proof. exact success_response_roundtrips. Qed.

(** the transport codec *)
Theorem C18_base64 : forall x, b64_decode (b64_encode x) = Some x.
Proof. exact b64_decode_encode. Qed.
Theorem C18_codec_roundtrip : forall inflate deflate cap b, inflate (deflate b) = Some b -> (Z.of_nat (length b) <= cap)%Z ->
  inflate_and_decode inflate cap c_EncodingDeflate true (deflate_and_base64 deflate b) = Some b.
Proof. exact codec_roundtrip. Qed.
Theorem C18_unknown_encoding : forall inflate cap encoding b64 msg,
  encoding <> [] -> encoding <> c_EncodingDeflate -> inflate_and_decode inflate cap encoding b64 msg = None.
Proof. exact unknown_encoding_rejected. Qed.
Theorem C18_codec_source : codec_switch_ok inflateAndDecode_seq = true.
Proof. exact codec_structure. Qed.

(** non-vacuity: a response-like tree with metacharacters in every data position *)
Example C18_example :
  let t := El (b "Response") (Some (b "urn:x")) [(b "ID", b "a""<&>'b")] (Kids [El (b "Issuer") None [] (Text (b "]]></Issuer><x>"))]) in
  wf t /\ lex_doc (marshal_doc t) = Some (tokens t).
Proof. split; vm_compute; reflexivity. Qed.

Example C18_struct_example :
  option_map string_of_list_ascii (marshal_struct xml_schema "saml.SubjectType"
    (VStruct [VName [] []; VNil; VPtr (VStruct [VName [] []; VStr (b "f<"); VStr []; VStr []; VStr []; VStr (b "]]>&")]); VNil; VList []]))
  = Some "<Subject xmlns=""urn:oasis:names:tc:SAML:2.0:assertion""><NameID xmlns=""urn:oasis:names:tc:SAML:2.0:assertion"" Format=""f&lt;"">]]&gt;&amp;</NameID></Subject>"%string.
Proof. vm_compute. reflexivity. Qed.

Print Assumptions C18_escape_roundtrip.
Print Assumptions C18_escape_any.
Print Assumptions C18_no_markup.
Print Assumptions C18_document.
Print Assumptions C18_single_wellformed.
Print Assumptions C18_structure.
Print Assumptions C18_structure_any_data.
Print Assumptions C18_base64.
Print Assumptions C18_codec_roundtrip.
Print Assumptions C18_unknown_encoding.
Print Assumptions C18_codec_source.
Print Assumptions C18_schema_names.
Print Assumptions C18_struct_document.
Print Assumptions C18_raw_xml_fields.
Print Assumptions C18_roundtrip_logout_response.
Print Assumptions C18_roundtrip_failed_response.
Print Assumptions C18_roundtrip_success_response.
