(** C20 -- Validation chains stop at the first failure and report it exactly once.
    Statements only; every proof is [exact] of a lemma in Core/Checker.v, which is about the definitions
    go2v generates from checker/checker.go (Gen/Checker.v). *)
From Saml Require Import Base.Bytes Base.Loops Idp.FactTypes Gen.Facts Gen.Checker Core.Checker Idp.Sso Proofs.ChainRefine.

(** the generated evaluator on a chain built with the generated constructors is the reference semantics:
    steps in the order added, each kind failing exactly on its documented condition *)
Theorem C20_sem : forall (W : Type) (log : SM W unit) (ds : list (stepdesc W)) (w : W),
  CheckFailed (SM W) (@sret W) (@sbind W) (build W log ds) w = ref_run W log ds w.
Proof. exact C20_sem_lemma. Qed.

(** evaluation stops at the first failing step: the outcome is independent of everything after it *)
Theorem C20_prefix : forall (W : Type) (log : SM W unit) d1 s d2 d2' (w w1 w2 : W),
  ref_run W log d1 w = (false, w1) -> ref_step W log s w1 = (true, w2) ->
  CheckFailed (SM W) (@sret W) (@sbind W) (build W log (d1 ++ s :: d2)) w = (true, w2) /\
  CheckFailed (SM W) (@sret W) (@sbind W) (build W log (d1 ++ s :: d2')) w = (true, w2).
Proof. exact C20_prefix_lemma. Qed.

(** failure is reported iff some step fails *)
Theorem C20_iff : forall (W : Type) (log : SM W unit) ds (w : W),
  fst (CheckFailed (SM W) (@sret W) (@sbind W) (build W log ds) w) = true <->
  exists d1 s d2 w1 w2, ds = d1 ++ s :: d2 /\ ref_run W log d1 w = (false, w1) /\ ref_step W log s w1 = (true, w2).
Proof. exact C20_iff_lemma. Qed.

(** instrumented chains (what the harness runs on the real checker): the trace is the documented one *)
Theorem C20_trace : forall l : list ispec, trace_of l = expected_from 0 l.
Proof. exact C20_trace_lemma. Qed.

(** ... in which the callback of the first failing step occurs exactly once and no other callback occurs *)
Theorem C20_once : forall l i, count_cb (snd (expected_from i l)) = if fst (expected_from i l) then 1 else 0.
Proof. exact expected_once. Qed.

(** ... and nothing of any later step: the trace ends with the failing step's callback, whatever follows *)
Theorem C20_no_later : forall l1 s l2 i,
  forallb (fun x => negb (ifails x)) l1 = true -> ifails s = true ->
  expected_from i (l1 ++ s :: l2) =
    (true, events_passing i l1 ++ ievents (i + length l1) s ++ [(i + length l1, ECallback)]).
Proof. exact expected_prefix. Qed.

Theorem C20_fails_iff : forall l i, fst (expected_from i l) = existsb ifails l.
Proof. exact expected_fails_iff. Qed.

(** re-evaluating a chain repeats the same behaviour: the chain is a value (go2v rejects any assignment to the step
    list inside CheckFailed); evaluating the same instrumented chain n times in a row, each evaluation starting in the
    world the previous one left, gives n times the same verdict and n times the same events, callback included *)
Theorem C20_repeat : forall n l, 
  let '(verdicts, w) := repeat_run n l [] in
  verdicts = repeat (fst (expected_from 0 l)) n /\ rev w = napp n (snd (expected_from 0 l)).
Proof. intros n l. rewrite repeat_run_spec, app_nil_r, rev_involutive. split; reflexivity. Qed.
(** ... and for any world type the evaluator is the reference function of the step descriptions alone *)
Theorem C20_chain_is_value : forall (W : Type) (log : SM W unit) ds, build W log ds = map (gen_step W log) ds.
Proof. intros. apply build_map. Qed.

(** the handler models evaluate their chains with the generated checker: for the SSO chain (and likewise logout and
    attribute query, Proofs/ChainRefine.v) the generated CheckFailed, run on the chain's steps presented as logic steps
    over the handler's world (locals, replies written, nil dereference), computes exactly the model's [run_chain] --
    steps in order, the first failing step's reply and nothing after it *)
Theorem C20_handlers_use_checker : forall e_form decode lookup verify_redirect verify_post instant_of now create want_signed sso_locs entity_id c st,
  outcome_of (CheckFailed (SM world) (@sret world) (@sbind world)
                (build world nolog (map (desc_of e_form decode lookup verify_redirect verify_post instant_of now create want_signed sso_locs entity_id) c))
                {| w_st := st; w_out := []; w_panic := false |})
  = run_chain e_form decode lookup verify_redirect verify_post instant_of now create want_signed sso_locs entity_id c st.
Proof. exact sso_chain_refines. Qed.

(** non-vacuity: a three-step chain whose second step fails *)
Example C20_example :
  trace_of [IValueNotEmpty (b "x"); ICondLogic true true; ILogic true]
  = (true, [(0, EValue); (1, ECond); (1, ELogic); (1, ECallback)]).
Proof. vm_compute. reflexivity. Qed.
Example C20_repeat_example :
  let '(v, w) := repeat_run 2 [IValueNotEmpty (b "x"); ICondLogic true true; ILogic true] [] in
  v = [true; true] /\ count_cb (rev w) = 2.
Proof. vm_compute. split; reflexivity. Qed.

Print Assumptions C20_sem.
Print Assumptions C20_prefix.
Print Assumptions C20_iff.
Print Assumptions C20_trace.
Print Assumptions C20_once.
Print Assumptions C20_no_later.
Print Assumptions C20_fails_iff.
Print Assumptions C20_repeat.
Print Assumptions C20_chain_is_value.
Print Assumptions C20_handlers_use_checker.
