(** C16 -- Consumer endpoint selection is a deterministic, documented function of metadata.
    Statements about [Gen.Pure.GetAcsUrlAndBindingForResponse], the definition go2v generates from sso.go. *)
From Saml Require Import Base.Bytes Gen.Pure Core.Acs.

(** the generated function is the readable functional form *)
Theorem C16_bridge : forall acs req, GetAcsUrlAndBindingForResponse acs req = GetAcs_fun acs req.
Proof. exact acs_bridge. Qed.

(** ... which follows the documented rule: first entry with the requested binding, else first entry flagged
    isDefault (xs:boolean true), else the first entry with the lowest index, else nothing
    ([wf_acs]: every registered entry has a non-empty Location) *)
Theorem C16_refines : forall acs req, wf_acs acs = true -> selected acs req (GetAcsUrlAndBindingForResponse acs req).
Proof. intros acs req H. rewrite acs_bridge. now apply acs_fun_selected. Qed.

(** the rule is deterministic *)
Theorem C16_deterministic : forall acs req r1 r2, selected acs req r1 -> selected acs req r2 -> r1 = r2.
Proof. exact selected_functional. Qed.

(** URL and binding are taken from one registered entry, or nothing when none is registered *)
Theorem C16_member : forall acs req, wf_acs acs = true ->
  (exists x, In x acs /\ GetAcsUrlAndBindingForResponse acs req = pair_of x) \/
  (acs = [] /\ GetAcsUrlAndBindingForResponse acs req = (b "", b "")).
Proof. intros acs req H. apply (selected_member acs req). now apply C16_refines. Qed.

(** non-vacuity, and the two inputs that failed before the fix: commits: index 0 is a real index; isDefault="1" *)
Definition mk idx dft bnd loc :=
  {| IndexedEndpointType_Index := b idx; IndexedEndpointType_IsDefault := b dft; IndexedEndpointType_Binding := b bnd;
     IndexedEndpointType_Location := b loc; IndexedEndpointType_ResponseLocation := [] |}.
Example C16_index_zero : GetAcsUrlAndBindingForResponse [mk "0" "" "A" "l0"; mk "1" "" "B" "l1"] (b "") = (b "l0", b "A").
Proof. vm_compute. reflexivity. Qed.
Example C16_default_one : GetAcsUrlAndBindingForResponse [mk "5" "" "A" "l0"; mk "9" "1" "B" "l1"] (b "X") = (b "l1", b "B").
Proof. vm_compute. reflexivity. Qed.
Example C16_wf_inhabited : wf_acs [mk "0" "" "A" "l0"; mk "1" "" "B" "l1"] = true.
Proof. reflexivity. Qed.

Print Assumptions C16_bridge.
Print Assumptions C16_refines.
Print Assumptions C16_deterministic.
Print Assumptions C16_member.
