(** C16 -- Consumer endpoint selection is a deterministic, documented function of metadata.
    Statements about [Gen.Pure.GetAcsUrlAndBindingForResponse], the definition go2v generates from sso.go. *)
From Saml Require Import Base.Bytes Gen.Pure Core.Acs.

(** the generated function is the readable functional form *)
Theorem C16_bridge : forall acs req, GetAcsUrlAndBindingForResponse acs req = GetAcs_fun acs req.
Proof. exact acs_bridge. Qed.

(** ... which follows the documented rule: first entry with the requested binding, else first entry flagged
    isDefault (xs:boolean true), else the first entry with the lowest index, else nothing
    ([wf_acs]: every registered entry has a non-empty Location) *)
Theorem C16_refines : forall acs req, wf_acs acs = true -> selected acs req (GetAcsUrlAndBindingForResponse acs req).
Proof. intros acs req H. rewrite acs_bridge. now apply acs_fun_selected. Qed.

(** the rule is deterministic *)
Theorem C16_deterministic : forall acs req r1 r2, selected acs req r1 -> selected acs req r2 -> r1 = r2.
Proof. exact selected_functional. Qed.

(** URL and binding are taken from one registered entry, or nothing when none is registered *)
Theorem C16_member : forall acs req,
  (exists x, In x acs /\ GetAcsUrlAndBindingForResponse acs req = pair_of x) \/
  (acs = [] /\ GetAcsUrlAndBindingForResponse acs req = (b "", b "")).
Proof. intros acs req. rewrite acs_bridge. apply acs_fun_member. Qed.

(** the rule for arbitrary registered metadata (no assumption on the entries): an entry with the requested binding is
    used when its Location is not empty; when the first such entry has an empty Location, or there is none, the first
    isDefault entry, else the first entry with the lowest index, else nothing; with well-formed entries this is the
    documented rule of C16_refines *)
Theorem C16_rule_any_metadata : forall acs req, selected_g acs req (GetAcsUrlAndBindingForResponse acs req).
Proof. intros acs req. rewrite acs_bridge. apply acs_fun_selected_g. Qed.
Theorem C16_rule_any_metadata_wf : forall acs req r, wf_acs acs = true -> selected_g acs req r -> selected acs req r.
Proof. exact selected_g_wf. Qed.

(** non-vacuity, and the two inputs that failed before the fix: commits: index 0 is a real index; isDefault="1" *)
Definition mk idx dft bnd loc :=
  {| IndexedEndpointType_Index := b idx; IndexedEndpointType_IsDefault := b dft; IndexedEndpointType_Binding := b bnd;
     IndexedEndpointType_Location := b loc; IndexedEndpointType_ResponseLocation := [] |}.
Example C16_index_zero : GetAcsUrlAndBindingForResponse [mk "0" "" "A" "l0"; mk "1" "" "B" "l1"] (b "") = (b "l0", b "A").
Proof. vm_compute. reflexivity. Qed.
Example C16_default_one : GetAcsUrlAndBindingForResponse [mk "5" "" "A" "l0"; mk "9" "1" "B" "l1"] (b "X") = (b "l1", b "B").
Proof. vm_compute. reflexivity. Qed.
Example C16_empty_location_falls_through :
  GetAcsUrlAndBindingForResponse [mk "0" "" "A" ""; mk "1" "true" "B" "l1"] (b "A") = (b "l1", b "B").
Proof. vm_compute. reflexivity. Qed.
Example C16_wf_inhabited : wf_acs [mk "0" "" "A" "l0"; mk "1" "" "B" "l1"] = true.
Proof. reflexivity. Qed.

Print Assumptions C16_bridge.
Print Assumptions C16_refines.
Print Assumptions C16_deterministic.
Print Assumptions C16_member.
Print Assumptions C16_rule_any_metadata.
Print Assumptions C16_rule_any_metadata_wf.
