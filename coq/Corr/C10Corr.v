(** correspondence for C10, metadata / certificate / readiness endpoints: (id, endpoint, shape of the answer of
    GetResponseSigningKey, sign_conf, shape of the answer of GetMetadataSigningKey, signer_ok, health_ok, observed kind:
    1 metadata unsigned, 2 metadata signed, 3 certificate, 4 ok, 5 error, 6 panic).  Whether a key answer is accepted
    is decided by the guards read off getResponseCert / getMetadataCert (Idp/KeyGuards.v); an empty certificate passes
    getMetadataCert and makes the signer fail. *)
From Saml Require Import Base.Bytes Idp.Metadata Idp.KeyGuards.
Definition c10case := (Z * Z * Z * bool * Z * bool * bool * Z)%type.
Definition kind_of (r : mreply) : Z := match r with MMetadata false => 1 | MMetadata true => 2 | MCert => 3 | MOk => 4 | MError => 5 end.
Definition c10_ok (c : c10case) : bool :=
  let '(_, ep, rshape, sign_conf, mshape, signer_ok0, health_ok, obs) := c in
  let cert_ok := response_cert_ok (keyans_of rshape) in
  let mkey_ok := metadata_cert_ok (keyans_of mshape) in
  let signer_ok := signer_ok0 && negb (k_cert_empty (keyans_of mshape)) in
  Z.eqb obs (kind_of (if Z.eqb ep 1 then metadata_handler cert_ok sign_conf mkey_ok signer_ok
                      else if Z.eqb ep 2 then certificate_handler cert_ok else ready_handler health_ok)).
Definition c10_bad (cs : list c10case) : list Z :=
  map (fun c => let '(i, _, _, _, _, _, _, _) := c in i) (filter (fun c => negb (c10_ok c)) cs).
