(** correspondence for C10, metadata / certificate / readiness endpoints: (id, endpoint, cert_ok, sign_conf, mkey_ok,
    signer_ok, health_ok, observed kind: 1 metadata unsigned, 2 metadata signed, 3 certificate, 4 ok, 5 error, 6 panic) *)
From Saml Require Import Base.Bytes Idp.Metadata.
Definition c10case := (Z * Z * bool * bool * bool * bool * bool * Z)%type.
Definition kind_of (r : mreply) : Z := match r with MMetadata false => 1 | MMetadata true => 2 | MCert => 3 | MOk => 4 | MError => 5 end.
Definition c10_ok (c : c10case) : bool :=
  let '(_, ep, cert_ok, sign_conf, mkey_ok, signer_ok, health_ok, obs) := c in
  Z.eqb obs (kind_of (if Z.eqb ep 1 then metadata_handler cert_ok sign_conf mkey_ok signer_ok
                      else if Z.eqb ep 2 then certificate_handler cert_ok else ready_handler health_ok)).
Definition c10_bad (cs : list c10case) : list Z :=
  map (fun c => let '(i, _, _, _, _, _, _, _) := c in i) (filter (fun c => negb (c10_ok c)) cs).
