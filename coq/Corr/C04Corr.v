(** correspondence for C04:
    KCanon    : a signed element of a real artefact (without its Signature child) as a tree, the signer's digest input
                (whose hash the harness checked against the DigestValue actually emitted) and the bytes goxmldsig's
                exclusive canonicaliser produces for that element: the model's two canonical forms must be exactly those;
    KRedirect : the values handed to BuildRedirectQuery and the query string actually sent: the generated function
                reproduces the sent query, and the octets a verifier reconstructs from it are the signed ones. *)
From Saml Require Import Base.Bytes Xml.Tree Xml.C14N Gen.Pure Core.RedirectSig.
Inductive c04case :=
| KCanon (id : Z) (t : xml) (signer_bytes : bytes) (verifier_bytes : bytes)
| KRedirect (id : Z) (resp relay alg sig sent : bytes).
Definition c04_id (c : c04case) : Z := match c with KCanon i _ _ _ | KRedirect i _ _ _ _ _ => i end.
Definition c04_ok (c : c04case) : bool :=
  match c with
  | KCanon _ t s v => beq (signer_digest_input t) s && beq (verifier_digest_input t) v && Bool.eqb (beq s v) (data_plain t)
  | KRedirect _ resp relay alg sig sent =>
      beq (BuildRedirectQuery resp relay alg sig) sent && option_eqb beq (verifier_octets sent) (Some (BuildRedirectQuery resp relay alg []))
  end.
Definition c04_bad (cs : list c04case) : list Z := map c04_id (filter (fun c => negb (c04_ok c)) cs).
