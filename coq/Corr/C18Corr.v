(** correspondence for C18:
    KDoc   : a document the IdP (or its Marshal) produced, with the tree a raw tokenisation of those bytes gives:
             the bytes must be exactly the model's print of that tree, and the tree must be well formed;
    KCodec : InflateAndDecode on (encoding, b64, message) with compress/flate's own answer for the decoded data;
    KEnc   : DeflateAndBase64 output against base64 of compress/flate's own output;
    KEsc   : xml.EscapeText;
    KStruct: a value of one of the library's XML model types (generic value, no tag information) with the document
             Marshal produced for it: the schema-driven model of encoding/xml (Xml/Schema.v over the generated
             Gen/Schema.v) must produce exactly those bytes;
    KBuilt : a reply the real handlers sent, as a raw tree, with the inputs of the builder function that made it (the
             handler's Response record, the user's attributes, ...): the builder programs go2v translates from
             response.go / logout_response.go / attributes.go, interpreted and marshalled with the generated schema, must
             yield the same document up to the signature elements the signer adds afterwards (identifiers from NewID()
             and the clock's two instants are read off the document);
    KBuiltX: the metadata document the endpoint served, rebuilt from the translated builders of metadata.go / identityprovider.go
             with further oracles by source text (certificate text, endpoint URLs, entity ID, validity instant);
    KUnm   : a document (as the element tree Go's decoder resolves, an oracle) with what a library decoder made of it (the
             decoded struct as a generic value, or an error): the schema-driven model of Unmarshal (Xml/Unmarshal.v) must
             produce the same value / refuse as well; trailing content is unmarshalDocument's rule. *)
From Saml Require Import Base.Bytes Codec.Base64 Codec.XmlEscape Xml.Tree Xml.Lex Xml.Balanced Gen.Facts Core.WireCodec Xml.SchemaTypes Xml.Schema Gen.Schema Idp.BuilderTypes Idp.Builder Idp.BuiltDoc Xml.Unmarshal.
Inductive c18case :=
| KDoc (id : Z) (header : bool) (t : xml) (doc : bytes)
| KCodec (id : Z) (encoding : bytes) (b64 : bool) (msg : bytes) (inflated : option bytes) (obs : option bytes)
| KEnc (id : Z) (deflated out : bytes) (back : option bytes)
| KEsc (id : Z) (s escaped : bytes)
| KStruct (id : Z) (ty : string) (v : gval) (doc : bytes)
| KBuilt (id : Z) (fn : string) (recv : option dval) (args : list dval) (fresh : list bytes) (issue until : bytes) (root : string) (obs : xml)
| KUnm (id : Z) (ty : string) (trailing : bool) (doc : rnode) (obs : option gval)
| KBuiltX (id : Z) (extra : list (string * dval)) (fn : string) (recv : option dval) (args : list dval) (fresh : list bytes) (obs : xml).
Definition c18_id (c : c18case) : Z := match c with KDoc i _ _ _ | KCodec i _ _ _ _ _ | KEnc i _ _ _ | KEsc i _ _ | KStruct i _ _ _ | KBuilt i _ _ _ _ _ _ _ _ | KUnm i _ _ _ _ | KBuiltX i _ _ _ _ _ _ => i end.
Definition c18_ok (c : c18case) : bool :=
  match c with
  | KDoc _ h t doc => wfb t && beq (if h then marshal_doc t else marshal t) doc
  | KCodec _ enc b64 msg inflated obs => option_eqb beq (inflate_and_decode (fun _ => inflated) ci_MaxInflatedSize enc b64 msg) obs
  | KEnc _ deflated out back => beq (b64_encode deflated) out && option_eqb beq (b64_decode out) back
  | KEsc _ s e => beq (xml_escape s) e
  | KStruct _ ty v doc => option_eqb beq (marshal_struct_doc xml_schema ty v) (Some doc)
  | KBuilt _ fn recv args fresh issue until root obs => built_matches fn recv args fresh issue until root obs
  | KBuiltX _ extra fn recv args fresh obs => built_matches_with extra fn recv args fresh [] [] "md.EntityDescriptorType" obs
  | KUnm _ ty trailing doc obs => option_eqb gval_eqb (if trailing then None else unmarshal_root xml_schema ty doc) obs
  end.
Definition c18_bad (cs : list c18case) : list Z := map c18_id (filter (fun c => negb (c18_ok c)) cs).
