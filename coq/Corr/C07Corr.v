From Saml Require Export Corr.SsoCorr.
