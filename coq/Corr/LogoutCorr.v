(** correspondence for the logout endpoint (C13, logout part of C02) *)
From Saml Require Import Base.Bytes Idp.FactTypes Gen.Facts Gen.Pure Idp.Sso Idp.Logout Codec.HtmlEsc Xml.SchemaTypes Xml.Schema Xml.Unmarshal Idp.AuthnOf Idp.RequestsOf.

Record lo_obs := { lo_kind : Z; lo_status : bytes; lo_irt : bytes; lo_issuer : bytes; lo_dest : bytes; lo_target : bytes; lo_relay : bytes }.
Record lo_case := { lc_id : Z; lc_form : option lform; lc_dec : option lreq; lc_sp : option sp_rec; lc_times : list (bytes * instant); lc_now : Z;
                    lc_eid : bytes; lc_obs : lo_obs;
                    lc_spdoc : option rnode;
                    lc_doc : option (bool * rnode)  (* the inflated payload as Go's tokenizer resolves it *) }.
Fixpoint assoc_inst (s : bytes) (l : list (bytes * instant)) : instant :=
  match l with [] => if is_empty s then IAbsent else IBad | (k, v) :: r => if beq s k then v else assoc_inst s r end.
Definition lo_model (k : lo_case) : loutcome :=
  logout_handler (lc_form k) (fun _ _ => lc_dec k) (fun _ => lc_sp k) (fun s => if is_empty s then IAbsent else assoc_inst s (lc_times k)) (lc_now k) (lc_eid k) logout_steps.
Definition lo_project (o : loutcome) : lo_obs :=
  let none kind := {| lo_kind := kind; lo_status := []; lo_irt := []; lo_issuer := []; lo_dest := []; lo_target := []; lo_relay := [] |} in
  match o with
  | LPanicked => none 6%Z
  | LDone _ [LBody m] => {| lo_kind := 2; lo_status := lm_status m; lo_irt := lm_in_response_to m; lo_issuer := lm_issuer m; lo_dest := lm_destination m; lo_target := []; lo_relay := [] |}
  | LDone _ [LPost u r m] => {| lo_kind := 3; lo_status := lm_status m; lo_irt := lm_in_response_to m; lo_issuer := lm_issuer m; lo_dest := lm_destination m;
                                lo_target := url_normalize (url_filter u); lo_relay := r |}
  | LDone _ [LHttp _] => none 5%Z
  | LDone _ [] => none 7%Z
  | LDone _ _ => none 8%Z
  end.
Definition lo_obs_eqb (x y : lo_obs) : bool :=
  Z.eqb (lo_kind x) (lo_kind y) && beq (lo_status x) (lo_status y) && beq (lo_irt x) (lo_irt y) && beq (lo_issuer x) (lo_issuer y) &&
  beq (lo_dest x) (lo_dest y) && beq (lo_target x) (lo_target y) && beq (lo_relay x) (lo_relay y).
(** the abstract request of the case is what the model of DecodeLogoutRequest makes of the document *)
Definition lo_doc_ok (k : lo_case) : bool :=
  match lc_doc k with Some (trailing, doc) => option_eqb lreq_eqb (lreq_of_doc trailing doc) (lc_dec k) | None => true end.
Definition lo_ok (k : lo_case) : bool := lo_obs_eqb (lo_project (lo_model k)) (lc_obs k) && lo_doc_ok k && sp_doc_ok (lc_sp k) (lc_spdoc k).
Definition lo_bad (ks : list lo_case) : list Z := map lc_id (filter (fun k => negb (lo_ok k)) ks).
Definition lo_predict (k : lo_case) := lo_project (lo_model k).
