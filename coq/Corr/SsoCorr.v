(** correspondence for the SSO endpoint (C02, C05, C06, C08): the model run on the abstract inputs of a case
    must reproduce the projected observation of the real handler. *)
From Saml Require Import Base.Bytes Idp.FactTypes Gen.Facts Gen.Pure Idp.Sso Xml.SchemaTypes Xml.Schema Xml.Unmarshal Idp.AuthnOf Idp.RequestsOf.

Record sso_obs := { o_kind : Z; o_status : bytes; o_target : bytes; o_relay : bytes; o_irt : bytes; o_sigalg : bytes;
                    o_login : bytes; o_issuer : bytes; o_dest : bytes; o_creates : list create_args }.
Record sso_case := { k_id : Z; k_form : option form; k_dec : option authn; k_sp : option sp_rec; k_vr : bool; k_vp : bool;
                     k_times : list (bytes * instant); k_now : Z; k_create : option bytes; k_want : bytes; k_locs : list bytes;
                     k_eid : bytes; k_cert_ok : bool; k_obs : sso_obs;
                     k_spdoc : option rnode  (* the metadata document the service provider was registered with *);
                     k_doc : option (bool * rnode)  (* the inflated payload as Go's decoder resolves it: trailing content?, root element *) }.

Fixpoint assoc_instant (s : bytes) (l : list (bytes * instant)) : instant :=
  match l with [] => if is_empty s then IAbsent else IBad | (k, v) :: r => if beq s k then v else assoc_instant s r end.

Definition model_of (k : sso_case) : outcome :=
  sso_handler (k_form k) (fun _ _ => k_dec k) (fun _ => k_sp k) (fun _ _ _ _ _ => k_vr k) (fun _ _ => k_vp k)
    (fun s => if is_empty s then IAbsent else assoc_instant s (k_times k)) (k_now k) (fun _ => k_create k)
    (k_want k) (k_locs k) (k_eid k) (k_cert_ok k) sso_steps.

Definition empty_obs (kind : Z) (cs : list create_args) : sso_obs :=
  {| o_kind := kind; o_status := []; o_target := []; o_relay := []; o_irt := []; o_sigalg := []; o_login := []; o_issuer := []; o_dest := []; o_creates := cs |}.
Definition project (o : outcome) : sso_obs :=
  match o with
  | Panicked st _ => empty_obs 6 (created st)
  | Done st [RLogin id] =>
      {| o_kind := 1; o_status := []; o_target := []; o_relay := []; o_irt := []; o_sigalg := []; o_login := id; o_issuer := []; o_dest := []; o_creates := created st |}
  | Done st [RFail d m] =>
      let '(kind, target, relay, sigalg) := match d with
        | DBody => (2%Z, [], [], [])
        | DPost a r => (3%Z, a, r, [])
        | DRedirect a r sa _ => (4%Z, a, r, sa) end in
      {| o_kind := kind; o_status := fm_status m; o_target := target; o_relay := relay; o_irt := fm_in_response_to m; o_sigalg := sigalg;
         o_login := []; o_issuer := fm_issuer m; o_dest := fm_destination m; o_creates := created st |}
  | Done st [RHttp _] => empty_obs 5 (created st)
  | Done st [] => empty_obs 7 (created st)
  | Done st _ => empty_obs 8 (created st)
  end.

Definition create_eqb (x y : create_args) : bool :=
  beq (c_acs x) (c_acs y) && beq (c_binding x) (c_binding y) && beq (c_relay x) (c_relay y) && beq (c_app x) (c_app y) && beq (c_reqid x) (c_reqid y).
Definition obs_eqb (x y : sso_obs) : bool :=
  Z.eqb (o_kind x) (o_kind y) && beq (o_status x) (o_status y) && beq (o_target x) (o_target y) && beq (o_relay x) (o_relay y) &&
  beq (o_irt x) (o_irt y) && beq (o_sigalg x) (o_sigalg y) && beq (o_login x) (o_login y) && beq (o_issuer x) (o_issuer y) &&
  beq (o_dest x) (o_dest y) && list_eqb create_eqb (o_creates x) (o_creates y).

(** the abstract request the case carries is what the model of DecodeAuthNRequest (Unmarshal over the generated schema, then
    the projection of Idp/AuthnOf.v) makes of the request document *)
Definition doc_ok (k : sso_case) : bool :=
  match k_doc k with
  | Some (trailing, doc) => option_eqb authn_eqb (authn_of_doc trailing doc) (k_dec k)
  | None => true
  end.
Definition sso_ok (k : sso_case) : bool := obs_eqb (project (model_of k)) (k_obs k) && doc_ok k && sp_doc_ok (k_sp k) (k_spdoc k).
Definition sso_bad (ks : list sso_case) : list Z := map k_id (filter (fun k => negb (sso_ok k)) ks).
(** debugging aid: what the model predicts *)
Definition sso_predict (k : sso_case) := project (model_of k).
