(** correspondence for C20: one case = (id, instrumented chain, (result, trace) observed on the real checker) *)
From Saml Require Import Base.Bytes Core.Checker.
Definition c20case := (Z * list ispec * (bool * list event))%type.
Definition c20_ok (c : c20case) : bool :=
  let '(_, l, (r, t)) := c in let '(r', t') := trace_of l in Bool.eqb r r' && list_eqb event_eqb t t'.
Definition c20_bad (cs : list c20case) : list Z := map (fun c => fst (fst c)) (filter (fun c => negb (c20_ok c)) cs).
