(** correspondence for C14: (id, inflated length, observed: Some n = n bytes returned by InflateAndDecode, None = error) *)
From Saml Require Import Base.Bytes Gen.Facts Core.Inflate.
Definition c14case := (Z * Z * option Z)%type.
Definition c14_ok (c : c14case) : bool :=
  let '(_, n, obs) := c in option_eqb Z.eqb (inflate_decode ci_MaxInflatedSize [n]) obs.
Definition c14_bad (cs : list c14case) : list Z := map (fun c => fst (fst c)) (filter (fun c => negb (c14_ok c)) cs).
