(** correspondence for C17: the model page must equal, byte for byte, the page the real template produced *)
From Saml Require Import Base.Bytes Codec.HtmlEsc Codec.Template.
Definition c17case := (Z * bool * bytes * bytes * bytes * bytes)%type.   (* id, logout?, url, relay, msg, page *)
Definition c17_ok (c : c17case) : bool :=
  let '(_, lo, url, relay, msg, page) := c in
  beq (if lo then render_logout url relay msg else render_post url relay msg) page.
Definition c17_bad (cs : list c17case) : list Z :=
  map (fun c => let '(i, _, _, _, _, _) := c in i) (filter (fun c => negb (c17_ok c)) cs).
