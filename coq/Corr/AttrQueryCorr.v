(** correspondence for the attribute-query endpoint (C12) *)
From Saml Require Import Base.Bytes Idp.FactTypes Gen.Facts Gen.Pure Idp.Sso Idp.Callback Core.Attrs Idp.AttrQuery Xml.SchemaTypes Xml.Schema Xml.Unmarshal Idp.AuthnOf Idp.RequestsOf.
Record aq_obs := { ao_kind : Z; ao_irt : bytes; ao_issuer : bytes; ao_audience : bytes; ao_nameid : bytes; ao_attrs : list attr }.
Record aq_case := { ac_id : Z; ac_dec : option aquery; ac_sp : option sp_rec; ac_verify : bool; ac_locs : list bytes; ac_user : option user;
                    ac_cert1 : bool; ac_cert2 : bool; ac_sign : bool; ac_eid : bytes; ac_obs : aq_obs;
                    ac_spdoc : option rnode;
                    ac_doc : option (bool * rnode)  (* the request body as Go's tokenizer resolves it *) }.
Definition aq_model (k : aq_case) : aoutcome :=
  attrquery_handler (ac_dec k) (fun _ => ac_sp k) (fun _ => ac_verify k) (ac_locs k) (fun _ => ac_user k) (ac_cert1 k) (ac_cert2 k) (ac_sign k) (ac_eid k) attrquery_steps.
Definition aq_project (o : aoutcome) : aq_obs :=
  let none kind := {| ao_kind := kind; ao_irt := []; ao_issuer := []; ao_audience := []; ao_nameid := []; ao_attrs := [] |} in
  match o with
  | APanicked => none 6%Z
  | ADone [ASoap m] => {| ao_kind := 2; ao_irt := am_in_response_to m; ao_issuer := am_issuer m; ao_audience := am_audience m; ao_nameid := am_nameid m; ao_attrs := am_attrs m |}
  | ADone [AHttp _] => none 5%Z
  | ADone [] => none 7%Z
  | ADone _ => none 8%Z
  end.
Definition aq_obs_eqb (x y : aq_obs) : bool :=
  Z.eqb (ao_kind x) (ao_kind y) && beq (ao_irt x) (ao_irt y) && beq (ao_issuer x) (ao_issuer y) && beq (ao_audience x) (ao_audience y) &&
  beq (ao_nameid x) (ao_nameid y) && list_eqb attr_eqb (ao_attrs x) (ao_attrs y).
(** the abstract query of the case is what the model of DecodeAttributeQuery makes of the body *)
Definition aq_doc_ok (k : aq_case) : bool :=
  match ac_doc k with Some (trailing, doc) => option_eqb aquery_eqb (aquery_of_doc trailing doc) (ac_dec k) | None => true end.
Definition aq_ok (k : aq_case) : bool := aq_obs_eqb (aq_project (aq_model k)) (ac_obs k) && aq_doc_ok k && sp_doc_ok (ac_sp k) (ac_spdoc k).
Definition aq_bad (ks : list aq_case) : list Z := map ac_id (filter (fun k => negb (aq_ok k)) ks).
Definition aq_predict (k : aq_case) := aq_project (aq_model k).
