From Saml Require Export Corr.LogoutCorr.
