(** correspondence for C16: (id, entries as (index, isDefault, binding, location), requested binding, observed pair) *)
From Saml Require Import Base.Bytes Gen.Pure.
Definition c16entry := (bytes * bytes * bytes * bytes)%type.
Definition c16case := (Z * list c16entry * bytes * (bytes * bytes))%type.
Definition mk_ep (e : c16entry) : IndexedEndpointType :=
  let '(i, d, bn, l) := e in
  {| IndexedEndpointType_Index := i; IndexedEndpointType_IsDefault := d; IndexedEndpointType_Binding := bn;
     IndexedEndpointType_Location := l; IndexedEndpointType_ResponseLocation := [] |}.
Definition c16_ok (c : c16case) : bool :=
  let '(_, l, req, obs) := c in pair_eqb beq beq (GetAcsUrlAndBindingForResponse (map mk_ep l) req) obs.
Definition c16_bad (cs : list c16case) : list Z := map (fun c => fst (fst (fst c))) (filter (fun c => negb (c16_ok c)) cs).
