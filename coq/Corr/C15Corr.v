From Saml Require Export Corr.CallbackCorr.
