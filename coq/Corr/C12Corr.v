From Saml Require Export Corr.AttrQueryCorr.
