(** correspondence for C19: static (kind 1): (issuer, insecure, url.Parse parts, accepted?) ; derived (kind 2):
    (per-header Forwarded parse results, Host, path, insecure, issuer seen in the served metadata) *)
From Saml Require Import Base.Bytes Gen.Pure Core.Issuer.
Inductive c19case :=
| KStatic (id : Z) (issuer : bytes) (insecure : bool) (parsed : option url_parts) (accepted : bool)
| KDerived (id : Z) (parsed : list (option (list bytes))) (host path : bytes) (insecure : bool) (observed : bytes).
Definition c19_id (c : c19case) : Z := match c with KStatic i _ _ _ _ => i | KDerived i _ _ _ _ _ => i end.
Definition c19_ok (c : c19case) : bool :=
  match c with
  | KStatic _ s ins p acc => Bool.eqb acc (match validate_issuer s ins p with None => true | Some _ => false end)
  | KDerived _ ps h path ins obs => beq obs (derived_issuer ps h path ins)
  end.
Definition c19_bad (cs : list c19case) : list Z := map c19_id (filter (fun c => negb (c19_ok c)) cs).
