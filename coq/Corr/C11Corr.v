(** correspondence for C11: served metadata (entityID, advertised locations), which handler answers a path, and the exported
    Endpoint methods, against Idp/Router.v *)
From Saml Require Import Base.Bytes Gen.Facts Gen.Pure Idp.Router Xml.Tree Idp.BuilderTypes Idp.Builder Idp.BuiltDoc Core.UrlPath.
From Saml Require Gen.Nec.
Inductive c11case :=
| KMeta (id : Z) (k : rconf) (issuer entity : bytes) (locs : list (Z * bytes))   (* 0 SingleSignOn, 1 SingleLogout, 2 AttributeService *)
| KRoute (id : Z) (k : rconf) (path : bytes) (h : Z)                              (* -1: no route; 0.. = HHealth, HReady, HMetadata, HCert, HCallback, HSSO, HSLO, HAttr *)
| KEp (id : Z) (path url host rel abs : bytes)
| KMetaDoc (id : Z) (extra : list (string * dval)) (fn : string) (recv : option dval) (args : list dval) (fresh : list bytes) (obs : xml)
    (* the served metadata document against the translated builders of metadata.go / identityprovider.go and the generated schema *)
| KUrl (id : Z) (u path : bytes)     (* the path component of an absolute URL: net/url's Parse(u).Path for URLs without percent-escapes *)
| KTime (id : Z) (now : Z) (parses : list (bytes * option Z)) (nb noa layout : bytes) (err : option bytes)
    (* the validity-window check (verif hook) against the function go2v generates from time.go; err: the message up to the first ":" *)
| KNec (id : Z) (norms : list (bytes * bytes)) (idp : option bytes) (sp : option (option (bytes * list (list bytes)))) (sg : option (bytes * bytes * option (list bytes)))
       (sigparam binding : bytes) (obs : bool * bool * bool * bool * bool)
    (* provided, post necessary, redirect necessary, certificate check necessary, certificate check refuses: verif hook vs Gen/Nec.v;
       norms: strings.Join(strings.Fields(x), "") of every certificate text used (oracle) *)
| KDest (id : Z) (attr : bool) (eps : list (bytes * bytes * bytes)) (dest : bytes) (err : option bytes)
    (* the Destination checks (verif hooks) against the functions go2v generates from identityprovider.go: Binding, Location, ResponseLocation per endpoint *).
Definition c11_id (c : c11case) : Z := match c with KMeta i _ _ _ _ | KRoute i _ _ _ | KEp i _ _ _ _ _ | KMetaDoc i _ _ _ _ _ _ | KDest i _ _ _ _ | KUrl i _ _ | KTime i _ _ _ _ _ _ | KNec i _ _ _ _ _ _ _ => i end.
Definition svc_code (s : service) : Z := match s with SvcSSO => 0 | SvcSLO => 1 | SvcAttr => 2 end.
Definition h_code (h : option handler) : Z :=
  match h with None => -1 | Some HHealth => 0 | Some HReady => 1 | Some HMetadata => 2 | Some HCert => 3 | Some HCallback => 4 | Some HSSO => 5 | Some HSLO => 6 | Some HAttr => 7 end.
Definition c11_ok (c : c11case) : bool :=
  match c with
  | KMeta _ k issuer entity locs =>
      beq (entity_id (effective k) issuer) entity &&
      list_eqb (fun x y => Z.eqb (fst x) (fst y) && beq (snd x) (snd y)) (map (fun p => (svc_code (fst p), snd p)) (advertised (effective k) issuer)) locs
  | KRoute _ k path h => Z.eqb (h_code (lookup path (routes (effective k)))) h
  | KEp _ path url host rel ab =>
      let e := {| Endpoint_path := path; Endpoint_url := url |} in beq (Endpoint_Relative e) rel && beq (Endpoint_Absolute e host) ab
  | KMetaDoc _ extra fn recv args fresh obs => built_matches_with extra fn recv args fresh [] [] "md.EntityDescriptorType" obs
  | KUrl _ u path => beq (url_path u) path
  | KNec _ norms idp sp sg sigparam binding obs =>
      let norm := fun x => match find (fun p => beq (fst p) x) norms with Some p => snd p | None => x end in
      let ki cs := {| Nec.KeyInfoType_X509Data := map (fun c => {| Nec.X509DataType_X509Certificate := c |}) cs |} in
      let idpv := option_map (fun w => {| Nec.IDPSSODescriptorType_WantAuthnRequestsSigned := w |}) idp in
      let spv := option_map (fun d => {| Nec.EntityDescriptorType_SPSSODescriptor :=
                     option_map (fun p => {| Nec.SPSSODescriptorType_AuthnRequestsSigned := fst p;
                                             Nec.SPSSODescriptorType_KeyDescriptor := map (fun kd => {| Nec.KeyDescriptorType_KeyInfo := ki kd |}) (snd p) |}) d |}) sp in
      let sgv := option_map (fun g => {| Nec.SignatureType_SignatureValue := {| Nec.SignatureValueType_Id := fst (fst g); Nec.SignatureValueType_Text := snd (fst g) |};
                                         Nec.SignatureType_KeyInfo := option_map ki (snd g) |}) sg in
      let '(pv, po, re, ce, cr) := obs in
      Bool.eqb (Nec.signaturePostProvided sgv) pv && Bool.eqb (Nec.signaturePostVerificationNecessary idpv spv sgv binding) po &&
      Bool.eqb (Nec.signatureRedirectVerificationNecessary idpv spv sigparam binding) re && Bool.eqb (Nec.certificateCheckNecessary sgv spv) ce &&
      Bool.eqb (negb (goerr_is_nil (Nec.checkCertificate norm sgv spv))) cr
  | KTime _ now parses nb noa layout err =>
      let parse := fun (_ s : bytes) => match find (fun p => beq (fst p) s) parses with Some p => snd p | None => None end in
      let upto_colon := fix go (x : bytes) : bytes := match x with [] => [] | c :: r => if Ascii.eqb c ":" then [] else c :: go r end in
      match checkIfRequestTimeIsStillValid now parse nb noa layout, err with
      | Some x, Some y => beq (upto_colon x) y | None, None => true | _, _ => false end
  | KDest _ attr eps dest err =>
      let l := map (fun e => {| EndpointType_Binding := fst (fst e); EndpointType_Location := snd (fst e); EndpointType_ResponseLocation := snd e |}) eps in
      let r := if attr then verifyRequestDestinationOfAttrQuery {| AttributeAuthorityDescriptorType_AttributeService := l |} {| AttributeQueryType_Destination := dest |}
               else verifyRequestDestinationOfAuthRequest {| IDPSSODescriptorType_SingleSignOnService := l |} {| AuthnRequestType_Destination := dest |} in
      match r, err with Some x, Some y => beq x y | None, None => true | _, _ => false end
  end.
Definition c11_bad (cs : list c11case) : list Z := map c11_id (filter (fun c => negb (c11_ok c)) cs).
