(** correspondence for the login callback (C01, C03, C10 callback part) *)
From Saml Require Import Base.Bytes Idp.FactTypes Gen.Facts Idp.Callback Core.Attrs Codec.HtmlEsc Codec.HttpRedirect.

Record cb_obs := { b_kind : Z; b_status : bytes; b_msg : bytes; b_target : bytes; b_relay : bytes; b_irt : bytes; b_dest : bytes;
                   b_audience : bytes; b_nameid : bytes; b_attrs : list attr; b_sig : Z; b_calls : list call }.
Record cb_case := { q_id : Z; q_form_ok : bool; q_form_id : bytes; q_rec : option stored_req; q_entity : option bytes;
                    q_user : option user; q_cert_ok : bool; q_sign_ok : bool; q_obs : cb_obs }.

Definition cb_model (k : cb_case) : cstate :=
  callback (q_form_ok k) (q_form_id k) (fun _ => q_rec k) (fun _ => q_entity k) (fun _ _ => q_user k) (q_cert_ok k) (q_sign_ok k)
    callback_seq loginResponse_seq.

Definition call_eqb (x y : call) : bool :=
  match x, y with
  | KAuthRequestByID a, KAuthRequestByID c => beq a c
  | KEntityIDByAppID a, KEntityIDByAppID c => beq a c
  | KUserinfo a u, KUserinfo c v => beq a c && beq u v
  | KSigningKey, KSigningKey => true
  | _, _ => false
  end.

Definition cb_project (s : cstate) : cb_obs :=
  let none kind := {| b_kind := kind; b_status := []; b_msg := []; b_target := []; b_relay := []; b_irt := []; b_dest := []; b_audience := [];
                      b_nameid := []; b_attrs := []; b_sig := 0; b_calls := cs_calls s |} in
  if cs_panic s then none 6%Z else
  match cs_out s with
  | [CHttp _] => none 5%Z
  | [CSaml d m] =>
      let '(kind, target, relay, det) := match d with
        (* what an HTML parser reads back from the form action / what net/http puts into Location *)
        | CBody => (2%Z, [], [], false) | CPost a r => (3%Z, url_normalize (url_filter a), r, false)
        | CRedirect a r dt => (4%Z, location_of a, r, dt) end in
      match m_resp m with
      | CFailed st msg =>
          {| b_kind := kind; b_status := st; b_msg := msg; b_target := target; b_relay := relay; b_irt := m_in_response_to m; b_dest := m_destination m;
             b_audience := []; b_nameid := []; b_attrs := []; b_sig := 0; b_calls := cs_calls s |}
      | CSuccess u sg =>
          {| b_kind := kind; b_status := c_StatusCodeSuccess; b_msg := []; b_target := target; b_relay := relay; b_irt := m_in_response_to m;
             b_dest := m_destination m; b_audience := m_audience m; b_nameid := nameid_of u; b_attrs := attrs_of u;
             b_sig := (if det then 2 else match sg with SigEnveloped => 1 | _ => 0 end)%Z; b_calls := cs_calls s |}
      end
  | [] => none 7%Z
  | _ => none 8%Z
  end.

Definition cb_obs_eqb (x y : cb_obs) : bool :=
  (* status message text is not compared *)
  Z.eqb (b_kind x) (b_kind y) && beq (b_status x) (b_status y) && beq (b_target x) (b_target y) &&
  beq (b_relay x) (b_relay y) && beq (b_irt x) (b_irt y) && beq (b_dest x) (b_dest y) && beq (b_audience x) (b_audience y) &&
  beq (b_nameid x) (b_nameid y) && list_eqb attr_eqb (b_attrs x) (b_attrs y) && Z.eqb (b_sig x) (b_sig y) &&
  list_eqb call_eqb (b_calls x) (b_calls y).
Definition cb_ok (k : cb_case) : bool := cb_obs_eqb (cb_project (cb_model k)) (q_obs k).
Definition cb_bad (ks : list cb_case) : list Z := map q_id (filter (fun k => negb (cb_ok k)) ks).
Definition cb_predict (k : cb_case) := cb_project (cb_model k).
