(** What an accepting run of the SSO chain establishes (C06, C05) and where replies can go (C02);
    parametric in the extracted chain. *)
From Saml Require Import Base.Bytes Idp.FactTypes Gen.Facts Gen.Pure Core.Acs Idp.Sso Proofs.SsoProofs.

Definition has_tag (c : list stepfact) (t : tag) : bool := existsb (fun f => tag_eqb (tag_of f) t) c.
Definition has_tags (c : list stepfact) (ts : list tag) : bool := forallb (has_tag c) ts.

Lemma tag_eqb_eq x y : tag_eqb x y = true -> x = y.
Proof. destruct x, y; try discriminate; reflexivity. Qed.

Lemma has_tag_split c t : has_tag c t = true -> exists c1 f c2, c = c1 ++ f :: c2 /\ tag_of f = t.
Proof.
  unfold has_tag. rewrite existsb_exists. intros (f & Hin & Ht). apply tag_eqb_eq in Ht.
  destruct (in_split _ _ Hin) as (c1 & c2 & ->). eauto.
Qed.

Lemma time_valid_spec now nb noa : time_valid now nb noa = true <->
  (nb = IAbsent \/ exists t, nb = IAt t /\ (t <= now)%Z) /\ (noa = IAbsent \/ exists t, noa = IAt t /\ (now < t)%Z).
Proof.
  unfold time_valid. rewrite andb_true_iff. split.
  - intros [H1 H2]. split.
    + destruct nb as [| |t]; [now left|discriminate|right]. exists t. split; [reflexivity|]. apply negb_true_iff, Z.ltb_ge in H1. exact H1.
    + destruct noa as [| |t]; [now left|discriminate|right]. exists t. split; [reflexivity|]. now apply Z.ltb_lt.
  - intros [[->|(t & -> & H1)] [->|(u & -> & H2)]]; split; try reflexivity;
      try (apply negb_true_iff, Z.ltb_ge; exact H1); try (apply Z.ltb_lt; exact H2).
Qed.

Section Accept.
Variable e_form : option form.
Variable decode : bytes -> bytes -> option authn.
Variable lookup : bytes -> option sp_rec.
Variable verify_redirect : sp_rec -> bytes -> bytes -> bytes -> bytes -> bool.
Variable verify_post : sp_rec -> bytes -> bool.
Variable instant_of : bytes -> instant.
Variable now : Z.
Variable create : create_args -> option bytes.
Variable want_signed : bytes.
Variable sso_locs : list bytes.
Variable entity_id : bytes.
Variable cert_ok : bool.

Notation step := (step_sem e_form decode lookup verify_redirect verify_post instant_of now create want_signed sso_locs).
Notation run := (run_chain e_form decode lookup verify_redirect verify_post instant_of now create want_signed sso_locs entity_id).
Notation handler := (sso_handler e_form decode lookup verify_redirect verify_post instant_of now create want_signed sso_locs entity_id cert_ok).

(** the values every local can only ever hold: functions of the request and the storage answers *)
Definition can_req : option authn := match e_form with Some f => decode (f_enc f) (f_req f) | None => None end.
Definition can_sp : option sp_rec :=
  match can_req with Some a => match a_issuer a with Some i => lookup i | None => None end | None => None end.
Definition can_target : bytes * bytes :=
  match can_req, can_sp with Some a, Some s => GetAcsUrlAndBindingForResponse (sp_acs s) (a_binding a) | _, _ => ([], []) end.

Record canon (st : state) : Prop := {
  cn_form : forall f, l_form st = Some f -> e_form = Some f;
  cn_req : forall a, l_req st = Some a -> can_req = Some a;
  cn_sp : forall s, l_sp st = Some s -> can_sp = Some s;
  cn_target : (r_acs st, r_binding st) = ([], []) \/ (r_acs st, r_binding st) = can_target;
  cn_relay : forall f, l_form st = Some f -> r_relay st = f_relay f /\ r_sigalg st = f_sigalg f;
  cn_created : forall c, In c (created st) ->
     exists f a s, e_form = Some f /\ can_req = Some a /\ can_sp = Some s /\
       ((c_acs c, c_binding c) = ([], []) \/ (c_acs c, c_binding c) = can_target) /\
       c_relay c = f_relay f /\ c_app c = sp_id s /\ c_reqid c = a_id a
}.

Lemma canon_st0 : canon st0.
Proof. constructor; cbn; try discriminate; auto. intros c []. Qed.

Lemma step_canon t st st' : canon st -> step t st = SPass st' -> canon st'.
Proof.
  intros C H. destruct t; cbn [step_sem] in H;
    repeat match type of H with context [match ?x with _ => _ end] => destruct x eqn:?; try discriminate end;
    inversion H; subst; clear H; try exact C;
    destruct C as [Cf Cr Cs Ct Crl Ccr].
  - (* TParseForm *)
    constructor; cbn [l_form l_req l_sp r_acs r_binding r_relay r_sigalg created set_form]; auto.
    + intros f0 E. congruence.
    + intros f0 E. inversion E; subst. auto.
  - (* TDecode *)
    constructor; cbn [l_form l_req l_sp r_acs r_binding r_relay r_sigalg created set_req]; auto.
    intros a0 E. inversion E; subst. unfold can_req.
    match goal with H : l_form st = Some ?f |- _ => rewrite (Cf _ H) end. assumption.
  - (* TLookupSP *)
    constructor; cbn [l_form l_req l_sp r_acs r_binding r_relay r_sigalg created set_sp]; auto.
    intros s0 E. inversion E; subst. unfold can_sp.
    match goal with H : l_req st = Some ?a |- _ => rewrite (Cr _ H) end.
    match goal with H : a_issuer _ = Some _ |- _ => rewrite H end. assumption.
  - (* TSelectAcs *)
    constructor; cbn [l_form l_req l_sp r_acs r_binding r_relay r_sigalg created set_target]; auto.
    right. unfold can_target.
    match goal with H : l_req st = Some ?a |- _ => rewrite (Cr _ H) end.
    match goal with H : l_sp st = Some ?a |- _ => rewrite (Cs _ H) end.
    match goal with |- (fst ?p, snd ?p) = _ => destruct p; reflexivity end.
  - (* TPersist *)
    constructor; cbn [l_form l_req l_sp r_acs r_binding r_relay r_sigalg created set_created]; auto.
    intros c Hin. apply in_app_or in Hin as [Hin|[<-|[]]]; [auto|].
    match goal with Hf : l_form st = Some ?f, Ha : l_req st = Some ?a, Hs : l_sp st = Some ?s |- _ =>
      exists f, a, s; cbn [c_acs c_binding c_relay c_app c_reqid]; repeat split; auto end.
Qed.

Lemma run_canon c : forall st b st' out, canon st -> run c st = (b, Done st' out) -> canon st'.
Proof.
  induction c as [|f c IH]; intros st b st' out Hc H; cbn [run_chain] in H.
  - inversion H; subst. exact Hc.
  - destruct (step (tag_of f) st) as [st1| |] eqn:Es.
    + eapply IH; [eapply step_canon; eauto|exact H].
    + inversion H; subst. exact Hc.
    + discriminate.
Qed.

(** an accepting run: every step passed, in the state its predecessors left *)
Lemma run_pass_split c1 f c2 : forall st st' out, run (c1 ++ f :: c2) st = (false, Done st' out) ->
  exists sta stb, run c1 st = (false, Done sta []) /\ step (tag_of f) sta = SPass stb /\ run c2 stb = (false, Done st' out).
Proof.
  induction c1 as [|g c1 IH]; intros st st' out H; cbn [app run_chain] in H.
  - destruct (step (tag_of f) st) as [st1| |] eqn:Es; try discriminate. exists st, st1. auto.
  - destruct (step (tag_of g) st) as [st1| |] eqn:Es; try discriminate.
    destruct (IH _ _ _ H) as (sta & stb & H1 & H2 & H3). exists sta, stb. cbn [run_chain]. rewrite Es. auto.
Qed.

Lemma run_pass_out c : forall st st' out, run c st = (false, Done st' out) -> out = [].
Proof.
  induction c as [|f c IH]; intros st st' out H; cbn [run_chain] in H; [now inversion H|].
  destruct (step (tag_of f) st); try discriminate. eauto.
Qed.

Definition passes (c : list stepfact) : Prop := exists st out, run c st0 = (false, Done st out).

Lemma pass_at c t : passes c -> has_tag c t = true -> exists sta stb, canon sta /\ step t sta = SPass stb.
Proof.
  intros (st & out & H) Ht. destruct (has_tag_split _ _ Ht) as (c1 & f & c2 & -> & <-).
  destruct (run_pass_split _ _ _ _ _ _ H) as (sta & stb & H1 & H2 & _).
  exists sta, stb. split; [|exact H2]. eapply run_canon; [apply canon_st0|exact H1].
Qed.

Lemma run_fail_replies c : forall st st' out, run c st = (true, Done st' out) -> forall r id, In r out -> r <> RLogin id.
Proof.
  induction c as [|f c IH]; intros st st' out H r id Hin; cbn [run_chain] in H; [discriminate|].
  destruct (step (tag_of f) st) as [st1| |] eqn:Es; [eapply IH; eauto| |discriminate].
  inversion H; subst. destruct (sf f); cbn [fail_reply] in Hin; try (destruct Hin; fail).
  - destruct Hin as [<-|[]]. unfold send_failed.
    destruct (is_empty (r_acs st')); [discriminate|]. destruct (beq (r_binding st') c_PostBinding); [discriminate|].
    destruct (beq (r_binding st') c_RedirectBinding); discriminate.
  - destruct Hin as [<-|[]]. discriminate.
Qed.

(** accepted (the browser is sent on to login) means the whole chain passed *)
Theorem accepted_passes c st id : handler c = Done st [RLogin id] -> passes c.
Proof.
  unfold sso_handler. destruct (negb cert_ok); [discriminate|].
  destruct (run c st0) as [[|] o] eqn:Er.
  - intros ->. exfalso. exact (run_fail_replies c st0 st _ Er (RLogin id) id (or_introl eq_refl) eq_refl).
  - destruct o as [st1 o1|]; [|discriminate]. intros _. exists st1, o1. exact Er.
Qed.

(** ** C06: the validity conditions an accepted request satisfies *)
Definition window_ok (a : authn) : Prop :=
  match a_conditions a with
  | Some (nb, noa) => (nb = [] /\ noa = []) \/ time_valid now (instant_of nb) (instant_of noa) = true
  | None => True
  end.
Definition tags6 : list tag := [TParseForm; TReqNotEmpty; TSigIfSigAlg; TDecode; TLookupSP; TRequiredContent].

Lemma is_empty_false (x : bytes) : is_empty x = false -> x <> [].
Proof. destruct x; [discriminate|]. intros _ E. discriminate. Qed.
Lemma is_empty_true (x : bytes) : is_empty x = true -> x = [].
Proof. destruct x; [reflexivity|discriminate]. Qed.

Theorem accept_implies c : has_tags c tags6 = true -> passes c ->
  exists f a i s,
    e_form = Some f /\ f_req f <> [] /\ (f_sigalg f <> [] -> f_sig f <> []) /\
    decode (f_enc f) (f_req f) = Some a /\ a_issuer a = Some i /\ i <> [] /\ lookup i = Some s /\ i = sp_entity s /\
    a_id a <> [] /\ a_version a <> [] /\ (a_destination a = [] \/ In (a_destination a) sso_locs) /\ window_ok a.
Proof.
  unfold has_tags, tags6. cbn [forallb]. intros Hall Hp.
  repeat (apply andb_prop in Hall as [?H Hall]).
  (* form *)
  destruct (pass_at c _ Hp H0) as (s1 & s1' & C1 & P1). cbn [step_sem] in P1.
  destruct (l_form s1) as [f|] eqn:E1; [|discriminate]. pose proof (cn_form _ C1 _ E1) as Ef.
  destruct (is_empty (f_req f)) eqn:Ereq; [discriminate|].
  destruct (pass_at c _ Hp H1) as (s2 & s2' & C2 & P2). cbn [step_sem] in P2.
  destruct (l_form s2) as [f2|] eqn:E2; [|discriminate]. pose proof (cn_form _ C2 _ E2) as Ef2. rewrite Ef in Ef2. inversion Ef2; subst f2.
  (* request / sp from the content check *)
  destruct (pass_at c _ Hp H4) as (s5 & s5' & C5 & P5). cbn [step_sem] in P5.
  destruct (l_req s5) as [a|] eqn:E5; [|discriminate]. destruct (l_sp s5) as [s|] eqn:E5s; [|discriminate].
  destruct (required_content instant_of now sso_locs a s) eqn:Erc; [|discriminate].
  pose proof (cn_req _ C5 _ E5) as Ea. pose proof (cn_sp _ C5 _ E5s) as Es.
  unfold can_req in Ea. rewrite Ef in Ea. unfold can_sp, can_req in Es. rewrite Ef, Ea in Es.
  unfold required_content in Erc.
  apply andb_prop in Erc as [Erc Hdest]. apply andb_prop in Erc as [Erc Hiss].
  apply andb_prop in Erc as [Erc Hver]. apply andb_prop in Erc as [Erc Hid].
  destruct (a_issuer a) as [i|] eqn:Ei; [|discriminate]. apply andb_prop in Hiss as [Hi1 Hi2].
  exists f, a, i, s. repeat split; auto.
  - now apply is_empty_false.
  - intros Hsa. destruct (is_empty (f_sigalg f)) eqn:Esa; [now apply is_empty_true in Esa|].
    cbn [negb andb] in P2. destruct (is_empty (f_sig f)) eqn:Esg; [discriminate|]. now apply is_empty_false.
  - apply negb_true_iff in Hi1. now apply is_empty_false.
  - now apply beq_eq.
  - apply negb_true_iff in Hid. now apply is_empty_false.
  - apply negb_true_iff in Hver. now apply is_empty_false.
  - apply orb_prop in Hdest as [Hd|Hd]; [left; now apply is_empty_true|right; now apply bmem_In].
  - unfold window_ok. destruct (a_conditions a) as [[nb noa]|]; [|exact I].
    destruct (is_empty noa && is_empty nb) eqn:Ee.
    + left. apply andb_prop in Ee as [E1' E2']. split; now apply is_empty_true.
    + right. exact Erc.
Qed.

(** ** C05: signatures *)
Definition tags5 : list tag := [TParseForm; TDecode; TLookupSP; TVerifyRedirect; TVerifyPost].

Theorem accept_signatures c : has_tags c tags5 = true -> passes c ->
  exists f a s,
    e_form = Some f /\ can_req = Some a /\ can_sp = Some s /\
    (* whatever the configuration: a detached signature (Redirect) / an enveloped signature value (POST) was verified *)
    (beq (f_binding f) c_RedirectBinding = true -> f_sig f <> [] ->
       f_sigalg f <> [] /\ verify_redirect s (f_req f) (f_relay f) (f_sigalg f) (f_sig f) = true) /\
    (beq (f_binding f) c_PostBinding = true -> post_provided (a_signature a) = true -> verify_post s (f_req f) = true) /\
    (* signing required: the oracle accepted exactly the values of this request *)
    (signing_required want_signed s = true ->
       (beq (f_binding f) c_RedirectBinding = true ->
          f_sig f <> [] /\ f_sigalg f <> [] /\ verify_redirect s (f_req f) (f_relay f) (f_sigalg f) (f_sig f) = true) /\
       (beq (f_binding f) c_PostBinding = true -> verify_post s (f_req f) = true)).
Proof.
  unfold has_tags, tags5. cbn [forallb]. intros Hall Hp.
  repeat (apply andb_prop in Hall as [?H Hall]).
  destruct (pass_at c _ Hp H2) as (s4 & s4' & C4 & P4). cbn [step_sem] in P4.
  destruct (l_form s4) as [f|] eqn:E4; [|discriminate]. destruct (l_sp s4) as [s|] eqn:E4s; [|discriminate].
  destruct (pass_at c _ Hp H3) as (s5 & s5' & C5 & P5). cbn [step_sem] in P5.
  destruct (l_form s5) as [f'|] eqn:E5; [|discriminate]. destruct (l_req s5) as [a|] eqn:E5a; [|discriminate].
  destruct (l_sp s5) as [s'|] eqn:E5s; [|discriminate].
  pose proof (cn_form _ C4 _ E4) as Ef. pose proof (cn_form _ C5 _ E5) as Ef'. rewrite Ef in Ef'. inversion Ef'; subst f'.
  pose proof (cn_sp _ C4 _ E4s) as Es. pose proof (cn_sp _ C5 _ E5s) as Es'. rewrite Es in Es'. inversion Es'; subst s'.
  pose proof (cn_req _ C5 _ E5a) as Ea.
  exists f, a, s. split; [exact Ef|]. split; [exact Ea|]. split; [exact Es|].
  assert (VR : redirect_necessary want_signed f s = true ->
     f_sig f <> [] /\ f_sigalg f <> [] /\ verify_redirect s (f_req f) (f_relay f) (f_sigalg f) (f_sig f) = true).
  { intro Hn. rewrite Hn in P4. unfold verify_redirect_sem in P4.
    destruct (is_empty (f_req f)); [discriminate|]. destruct (is_empty (f_sig f)) eqn:Esg; [discriminate|].
    destruct (is_empty (f_sigalg f)) eqn:Esa; [discriminate|].
    destruct (verify_redirect s (f_req f) (f_relay f) (f_sigalg f) (f_sig f)); [|discriminate].
    repeat split; now apply is_empty_false. }
  assert (VP : post_necessary want_signed f a s = true -> verify_post s (f_req f) = true).
  { intro Hn. rewrite Hn in P5. destruct (verify_post s (f_req f)); [reflexivity|discriminate]. }
  split; [|split].
  - intros Hb Hsig. destruct VR as (_ & V2 & V3); [|auto]. unfold redirect_necessary. rewrite Hb.
    destruct (f_sig f); [contradiction|]. cbn. now rewrite orb_true_r.
  - intros Hb Hpp. apply VP. unfold post_necessary. now rewrite Hb, Hpp, orb_true_r.
  - intro Hreq. split; intro Hb.
    + apply VR. unfold redirect_necessary. now rewrite Hb, Hreq.
    + apply VP. unfold post_necessary. now rewrite Hb, Hreq.
Qed.

(** the certificate clause: when the request's signature names a certificate (KeyInfo) and the provider has registered key
    descriptors, an accepted request's KeyInfo contains a certificate registered for that provider *)
Theorem accept_cert c : has_tag c TCertCheck = true -> passes c ->
  exists a s, can_req = Some a /\ can_sp = Some s /\
    (cert_check_necessary a s = true ->
       check_certificate a s = true /\
       exists g cs kd cert, a_signature a = Some g /\ sg_keyinfo g = Some cs /\ In kd (sp_keydescs s) /\ In cert kd /\ bmem cert cs = true).
Proof.
  intros Ht Hp. destruct (pass_at c _ Hp Ht) as (s1 & s1' & C1 & P1). cbn [step_sem] in P1.
  destruct (l_req s1) as [a|] eqn:Ea; [|discriminate]. destruct (l_sp s1) as [s|] eqn:Es; [|discriminate].
  exists a, s. split; [exact (cn_req _ C1 _ Ea)|]. split; [exact (cn_sp _ C1 _ Es)|].
  intro Hn. rewrite Hn in P1. destruct (check_certificate a s) eqn:Ec; [|discriminate]. split; [reflexivity|].
  unfold check_certificate in Ec. destruct (Nat.eqb (length (sp_keydescs s)) 0); [discriminate|].
  destruct (a_signature a) as [g|]; [|discriminate]. destruct (sg_keyinfo g) as [cs|] eqn:Ek; [|discriminate].
  destruct (Nat.eqb (length cs) 0); [discriminate|].
  apply existsb_exists in Ec as (kd & Hkd & Ec). apply existsb_exists in Ec as (cert & Hcert & Ec).
  exists g, cs, kd, cert. auto.
Qed.

(** what is persisted is what was verified *)
Theorem persisted_values c : forall b st out, run c st0 = (b, Done st out) -> forall x, In x (created st) ->
  exists f a s, e_form = Some f /\ can_req = Some a /\ can_sp = Some s /\
    ((c_acs x, c_binding x) = ([], []) \/ (c_acs x, c_binding x) = can_target) /\
    c_relay x = f_relay f /\ c_app x = sp_id s /\ c_reqid x = a_id a.
Proof. intros b st out H x Hx. exact (cn_created _ (run_canon c st0 b st out canon_st0 H) x Hx). Qed.

(** ** C02: where replies and persisted pairs can point *)
Definition reply_target (r : reply) : option (bytes * bytes) :=
  match r with
  | RFail (DPost a _) _ => Some (a, c_PostBinding)
  | RFail (DRedirect a _ _ _) _ => Some (a, c_RedirectBinding)
  | _ => None
  end.

Lemma send_failed_target status st p : canon st -> reply_target (send_failed entity_id status st) = Some p ->
  p = can_target /\ fst p <> [].
Proof.
  intros C. unfold send_failed. destruct (is_empty (r_acs st)) eqn:Ee; [discriminate|].
  assert (Hne : r_acs st <> []) by now apply is_empty_false.
  assert (Ht : (r_acs st, r_binding st) = can_target).
  { destruct (cn_target _ C) as [E|E]; [inversion E; contradiction|exact E]. }
  destruct (beq (r_binding st) c_PostBinding) eqn:Ep.
  - cbn [reply_target]. intros [= <-]. apply beq_eq in Ep. rewrite <- Ep. split; [exact Ht|exact Hne].
  - destruct (beq (r_binding st) c_RedirectBinding) eqn:Er; [|discriminate].
    cbn [reply_target]. intros [= <-]. apply beq_eq in Er. rewrite <- Er. split; [exact Ht|exact Hne].
Qed.

Lemma run_targets c : forall st b st' out, canon st -> run c st = (b, Done st' out) ->
  forall r p, In r out -> reply_target r = Some p -> p = can_target /\ fst p <> [].
Proof.
  induction c as [|f c IH]; intros st b st' out C H r p Hin Hp; cbn [run_chain] in H.
  - inversion H; subst. destruct Hin.
  - destruct (step (tag_of f) st) as [st1| |] eqn:Es.
    + eapply (IH st1 b st' out); [eapply step_canon; eauto|exact H|exact Hin|exact Hp].
    + inversion H; subst. destruct (sf f); cbn [fail_reply] in Hin; try (destruct Hin; fail).
      * destruct Hin as [<-|[]]. eapply send_failed_target; eauto.
      * destruct Hin as [<-|[]]. discriminate.
    + discriminate.
Qed.

Theorem handler_targets c : forall st out, handler c = Done st out ->
  forall r p, In r out -> reply_target r = Some p -> p = can_target /\ fst p <> [].
Proof.
  intros st out H r p Hin Hp. unfold sso_handler in H. destruct (negb cert_ok).
  - inversion H; subst. destruct Hin as [<-|[]]. discriminate.
  - destruct (run c st0) as [[|] o] eqn:Er.
    + subst o. eapply run_targets; eauto. apply canon_st0.
    + destruct o as [st1 o1|]; [|discriminate]. inversion H; subst.
      unfold terminal in Hin. destruct (binding_supported (r_binding st)).
      * destruct (l_created st); [destruct Hin as [<-|[]]; discriminate|destruct Hin].
      * destruct Hin as [<-|[]]. eapply send_failed_target; eauto. eapply run_canon; [apply canon_st0|exact Er].
Qed.

(** the canonical target is an entry registered for the provider named by the issuer (or nothing) *)
Lemma can_target_registered : can_target = ([], []) \/
  exists a i s x, can_req = Some a /\ a_issuer a = Some i /\ lookup i = Some s /\ In x (sp_acs s) /\ can_target = pair_of x.
Proof.
  unfold can_target. destruct can_req as [a|] eqn:Ea; [|now left]. destruct can_sp as [s|] eqn:Es; [|now left].
  unfold can_sp in Es. rewrite Ea in Es. destruct (a_issuer a) as [i|] eqn:Ei; [|discriminate].
  rewrite acs_bridge. destruct (acs_fun_member (sp_acs s) (a_binding a)) as [(x & Hx & E)|[E1 E2]].
  - right. exists a, i, s, x. auto.
  - left. exact E2.
Qed.
End Accept.
