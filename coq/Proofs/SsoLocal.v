(** C15: the SSO handler's outcome depends on the storage only through the record registered under the request's own Issuer
    (and through what CreateAuthRequest returns for this request). Parametric in the chain. *)
From Saml Require Import Base.Bytes Idp.FactTypes Gen.Facts Gen.Pure Idp.Sso Proofs.SsoProofs Proofs.SsoAccept.

Section Local.
Variable e_form : option form.
Variable decode : bytes -> bytes -> option authn.
Variable lookup1 lookup2 : bytes -> option sp_rec.
Variable verify_redirect : sp_rec -> bytes -> bytes -> bytes -> bytes -> bool.
Variable verify_post : sp_rec -> bytes -> bool.
Variable instant_of : bytes -> instant.
Variable now : Z.
Variable create : create_args -> option bytes.
Variable want_signed : bytes.
Variable sso_locs : list bytes.
Variable entity_id : bytes.
Variable cert_ok : bool.
Hypothesis agree : forall a i, can_req e_form decode = Some a -> a_issuer a = Some i -> lookup1 i = lookup2 i.

Notation step1 := (step_sem e_form decode lookup1 verify_redirect verify_post instant_of now create want_signed sso_locs).
Notation step2 := (step_sem e_form decode lookup2 verify_redirect verify_post instant_of now create want_signed sso_locs).
Notation run1 := (run_chain e_form decode lookup1 verify_redirect verify_post instant_of now create want_signed sso_locs entity_id).
Notation run2 := (run_chain e_form decode lookup2 verify_redirect verify_post instant_of now create want_signed sso_locs entity_id).

Lemma step_local t st : canon e_form decode lookup1 st -> step1 t st = step2 t st.
Proof.
  intros C. destruct t; cbn [step_sem]; try reflexivity.
  destruct (l_req st) as [a|] eqn:Ea; [|reflexivity]. destruct (a_issuer a) as [i|] eqn:Ei; [|reflexivity].
  now rewrite (agree a i (cn_req _ _ _ _ C a Ea) Ei).
Qed.
Lemma run_local c : forall st, canon e_form decode lookup1 st -> run1 c st = run2 c st.
Proof.
  induction c as [|f c IH]; intros st C; cbn [run_chain]; [reflexivity|].
  rewrite <- (step_local (tag_of f) st C). destruct (step1 (tag_of f) st) as [st'| |] eqn:E; [|reflexivity|reflexivity].
  apply IH. exact (step_canon e_form decode lookup1 verify_redirect verify_post instant_of now create want_signed sso_locs (tag_of f) st st' C E).
Qed.
Theorem sso_local c :
  sso_handler e_form decode lookup1 verify_redirect verify_post instant_of now create want_signed sso_locs entity_id cert_ok c =
  sso_handler e_form decode lookup2 verify_redirect verify_post instant_of now create want_signed sso_locs entity_id cert_ok c.
Proof. unfold sso_handler. now rewrite (run_local c st0 (canon_st0 e_form decode lookup1)). Qed.
End Local.
