(** The handler models evaluate their chains with [run_chain] / [lrun] / [arun]: first failing step replies and stops.
    That discipline is not an assumption: it is what the checker generated from checker/checker.go does.  Each step of a
    handler chain is presented to the generated [CheckFailed] as a logic step whose closures act on the handler's world
    (state, replies written so far, has a nil value been dereferenced), and the generated evaluator is proved to compute
    exactly [run_chain].  (The per-kind failure conditions -- value empty, condition false, ... -- are part of
    [step_sem]; C20_sem ties each kind of the generated checker to its documented condition.) *)
From Saml Require Import Base.Bytes Base.Loops Idp.FactTypes Gen.Facts Gen.Checker Core.Checker Idp.Sso.

Section SsoRefine.
Variable e_form : option form.
Variable decode : bytes -> bytes -> option authn.
Variable lookup : bytes -> option sp_rec.
Variable verify_redirect : sp_rec -> bytes -> bytes -> bytes -> bytes -> bool.
Variable verify_post : sp_rec -> bytes -> bool.
Variable instant_of : bytes -> instant.
Variable now : Z.
Variable create : create_args -> option bytes.
Variable want_signed : bytes.
Variable sso_locs : list bytes.
Variable entity_id : bytes.

Notation step := (step_sem e_form decode lookup verify_redirect verify_post instant_of now create want_signed sso_locs).
Notation run := (run_chain e_form decode lookup verify_redirect verify_post instant_of now create want_signed sso_locs entity_id).

(** the world the closures of the real chain share: the handler's locals, what was written, a nil dereference *)
Record world := { w_st : state; w_out : list reply; w_panic : bool }.

Definition logic_of (f : stepfact) : SM world goerr := fun w =>
  match step (tag_of f) (w_st w) with
  | SPass st' => (None, {| w_st := st'; w_out := w_out w; w_panic := w_panic w |})
  | SFail => (Some (b "failed"), w)
  | SPanic => (Some (b "panic"), {| w_st := w_st w; w_out := w_out w; w_panic := true |})
  end.
(** the failure callback writes the step's reply (a panic unwinds instead) *)
Definition callback_of (f : stepfact) : SM world unit := fun w =>
  (tt, if w_panic w then w else {| w_st := w_st w; w_out := w_out w ++ fail_reply entity_id (sf f) (w_st w); w_panic := false |}).
Definition desc_of (f : stepfact) : stepdesc world := DLogic world (logic_of f) (callback_of f).
Definition nolog : SM world unit := fun w => (tt, w).

Definition outcome_of (r : bool * world) : bool * outcome :=
  let '(failed, w) := r in
  (failed, if w_panic w then Panicked (w_st w) (w_out w) else Done (w_st w) (w_out w)).

Theorem sso_chain_refines c : forall st,
  outcome_of (Gen.Checker.CheckFailed (SM world) (@sret world) (@sbind world) (build world nolog (map desc_of c))
                {| w_st := st; w_out := []; w_panic := false |})
  = run c st.
Proof.
  intro st. rewrite C20_sem_lemma. revert st.
  induction c as [|f c IH]; intro st; cbn [map ref_run run_chain]; [reflexivity|].
  cbn [desc_of ref_step]. unfold logic_of at 1. cbn [w_st w_out w_panic].
  destruct (step (tag_of f) st) as [st'| |]; cbn [goerr_is_nil].
  - apply IH.
  - unfold failing, nolog, callback_of. cbn [w_st w_out w_panic app outcome_of]. reflexivity.
  - unfold failing, nolog, callback_of. cbn [w_st w_out w_panic app outcome_of]. reflexivity.
Qed.
End SsoRefine.

From Saml Require Import Idp.Callback Idp.AttrQuery Idp.Logout.

Section LogoutRefine.
Variable e_form : option lform.
Variable decode : bytes -> bytes -> option lreq.
Variable lookup : bytes -> option sp_rec.
Variable instant_of : bytes -> instant.
Variable now : Z.
Variable entity_id : bytes.
Notation lstep' := (lstep e_form decode lookup instant_of now).
Notation lrun' := (lrun e_form decode lookup instant_of now entity_id).
Notation lsend' := (lsend entity_id).

Record lworld := { lw_st : lstate; lw_out : list lreply; lw_panic : bool }.
Definition l_logic_of (f : stepfact) : SM lworld goerr := fun w =>
  match lstep' (ltag_of f) (lw_st w) with
  | GPass s' => (None, {| lw_st := s'; lw_out := lw_out w; lw_panic := lw_panic w |})
  | GFail => (Some (b "failed"), w)
  | GPanic => (Some (b "panic"), {| lw_st := lw_st w; lw_out := lw_out w; lw_panic := true |})
  end.
Definition l_callback_of (f : stepfact) : SM lworld unit := fun w =>
  (tt, if lw_panic w then w else
       {| lw_st := lw_st w; lw_panic := false;
          lw_out := lw_out w ++ match sf f with FSamlLogout st => [lsend' st (lw_st w)] | FHttp c => [LHttp c] | _ => [] end |}).
Definition l_desc_of (f : stepfact) : stepdesc lworld := DLogic lworld (l_logic_of f) (l_callback_of f).
Definition l_nolog : SM lworld unit := fun w => (tt, w).

(** logoutHandleFunc: the chain, then -- only when CheckFailed reports no failure -- the Success response *)
Definition l_outcome_of (r : bool * lworld) : loutcome :=
  let '(failed, w) := r in
  if lw_panic w then LPanicked
  else if failed then LDone (lw_st w) (lw_out w)
  else LDone (lw_st w) (lw_out w ++ [lsend' c_StatusCodeSuccess (lw_st w)]).

Theorem logout_chain_refines c : forall s,
  l_outcome_of (Gen.Checker.CheckFailed (SM lworld) (@sret lworld) (@sbind lworld) (build lworld l_nolog (map l_desc_of c))
                  {| lw_st := s; lw_out := []; lw_panic := false |})
  = lrun' c s.
Proof.
  intro s. rewrite C20_sem_lemma. revert s.
  induction c as [|f c IH]; intro s; cbn [map ref_run lrun]; [reflexivity|].
  cbn [l_desc_of ref_step]. unfold l_logic_of at 1. cbn [lw_st lw_out lw_panic].
  destruct (lstep' (ltag_of f) s) as [s'| |]; cbn [goerr_is_nil].
  - apply IH.
  - unfold failing, l_nolog, l_callback_of. cbn [lw_st lw_out lw_panic app l_outcome_of]. destruct (sf f); reflexivity.
  - unfold failing, l_nolog, l_callback_of. cbn [lw_st lw_out lw_panic app l_outcome_of]. reflexivity.
Qed.
End LogoutRefine.

Section AttrRefine.
Variable decode : option aquery.
Variable lookup : bytes -> option sp_rec.
Variable verify_sig : sp_rec -> bool.
Variable attr_locs : list bytes.
Variable userinfo : bytes -> option user.
Variable cert_ok1 cert_ok2 sign_ok : bool.
Variable entity_id : bytes.
Notation astep' := (astep decode lookup verify_sig attr_locs userinfo cert_ok2 sign_ok entity_id).
Notation arun' := (arun decode lookup verify_sig attr_locs userinfo cert_ok2 sign_ok entity_id).

Record aworld := { aw_st : astate; aw_out : list areply; aw_panic : bool }.
Definition a_logic_of (f : stepfact) : SM aworld goerr := fun w =>
  match astep' (atag_of f) (aw_st w) with
  | APass s' => (None, {| aw_st := s'; aw_out := aw_out w; aw_panic := aw_panic w |})
  | AFail => (Some (b "failed"), w)
  | APanic => (Some (b "panic"), {| aw_st := aw_st w; aw_out := aw_out w; aw_panic := true |})
  end.
Definition a_callback_of (f : stepfact) : SM aworld unit := fun w =>
  (tt, if aw_panic w then w else
       {| aw_st := aw_st w; aw_panic := false; aw_out := aw_out w ++ match sf f with FHttp code => [AHttp code] | _ => [] end |}).
Definition a_desc_of (f : stepfact) : stepdesc aworld := DLogic aworld (a_logic_of f) (a_callback_of f).
Definition a_nolog : SM aworld unit := fun w => (tt, w).

(** attributeQueryHandleFunc: the chain, then -- only without failure -- the SOAP answer built by the last steps *)
Definition a_outcome_of (r : bool * aworld) : aoutcome :=
  let '(failed, w) := r in
  if aw_panic w then APanicked
  else if failed then ADone (aw_out w)
  else match q_resp (aw_st w) with Some m => ADone (aw_out w ++ [ASoap m]) | None => APanicked end.

Theorem attrquery_chain_refines c : forall s,
  a_outcome_of (Gen.Checker.CheckFailed (SM aworld) (@sret aworld) (@sbind aworld) (build aworld a_nolog (map a_desc_of c))
                  {| aw_st := s; aw_out := []; aw_panic := false |})
  = arun' c s.
Proof.
  intro s. rewrite C20_sem_lemma. revert s.
  induction c as [|f c IH]; intro s; cbn [map ref_run arun].
  - cbn [a_outcome_of aw_panic aw_st aw_out app]. destruct (q_resp s); reflexivity.
  - cbn [a_desc_of ref_step]. unfold a_logic_of at 1. cbn [aw_st aw_out aw_panic].
    destruct (astep' (atag_of f) s) as [s'| |]; cbn [goerr_is_nil].
    + apply IH.
    + unfold failing, a_nolog, a_callback_of. cbn [aw_st aw_out aw_panic app a_outcome_of]. destruct (sf f); reflexivity.
    + unfold failing, a_nolog, a_callback_of. cbn [aw_st aw_out aw_panic app a_outcome_of]. reflexivity.
Qed.
End AttrRefine.
