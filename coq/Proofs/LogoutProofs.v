(** The complete behaviour of the logout handler, by symbolic execution of the extracted chain. *)
From Saml Require Import Base.Bytes Idp.FactTypes Gen.Facts Idp.Sso Idp.Logout.

Definition cur_ltags : list ltag := Eval vm_compute in map ltag_of logout_steps.
Lemma cur_ltags_eq : map ltag_of logout_steps = cur_ltags. Proof. vm_compute. reflexivity. Qed.
Lemma logout_fail_facts : forallb (fun f => match sf f with FSamlLogout s => beq s c_StatusCodeRequestDenied | FNone => kind_eqb (sk f) KValueStep | _ => false end) logout_steps = true.
Proof. vm_compute. reflexivity. Qed.
Lemma logout_keys_unchanged : logout_form_keys = expected_logout_keys /\ logout_handler_keys = [].
Proof. split; vm_compute; reflexivity. Qed.

Definition logout_expected (e_form : option lform) (decode : bytes -> bytes -> option lreq) (lookup : bytes -> option sp_rec)
  (instant_of : bytes -> instant) (now : Z) (entity_id : bytes) : loutcome -> Prop := fun o =>
  let body st irt := LBody {| lm_status := st; lm_in_response_to := irt; lm_issuer := entity_id; lm_destination := [] |} in
  match e_form with
  | None => o = LDone g0 [body c_StatusCodeRequestDenied []]
  | Some f =>
      match decode (lf_enc f) (lf_req f) with
      | None => exists s, o = LDone s [body c_StatusCodeRequestDenied []]
      | Some q =>
          if negb (time_valid now (instant_of (lq_issue_instant q)) (instant_of (lq_not_on_or_after q)))
          then exists s, o = LDone s [body c_StatusCodeRequestDenied (lq_id q)]
          else match lq_issuer q with
               | None => exists s, o = LDone s [body c_StatusCodeRequestDenied (lq_id q)]
               | Some i =>
                   match lookup i with
                   | None => exists s, o = LDone s [body c_StatusCodeRequestDenied (lq_id q)]
                   | Some sp =>
                       exists s, o = LDone s [match sp_slo sp with
                         | u :: _ => if is_empty u then body c_StatusCodeSuccess (lq_id q)
                                     else LPost u (lf_relay f) {| lm_status := c_StatusCodeSuccess; lm_in_response_to := lq_id q; lm_issuer := entity_id; lm_destination := u |}
                         | [] => body c_StatusCodeSuccess (lq_id q) end]
                   end
               end
      end
  end.

Theorem logout_table : forall e_form decode lookup instant_of now entity_id,
  logout_expected e_form decode lookup instant_of now entity_id
    (logout_handler e_form decode lookup instant_of now entity_id logout_steps).
Proof.
  intros. unfold logout_handler, logout_expected.
  (* run the five steps of the current chain *)
  assert (Hf := logout_fail_facts).
  unfold logout_steps in *. cbn [forallb sf sk] in Hf.
  cbn [lrun]. repeat match goal with |- context [ltag_of ?f] => let t := eval vm_compute in (ltag_of f) in change (ltag_of f) with t end.
  cbn [lstep sf g_form g_req g_sp g_relay g_reqid g_url g0].
  destruct e_form as [f|]; [|reflexivity].
  cbn [lstep g_form]. destruct (decode (lf_enc f) (lf_req f)) as [q|]; [|eexists; reflexivity].
  cbn [lstep g_req]. destruct (time_valid now (instant_of (lq_issue_instant q)) (instant_of (lq_not_on_or_after q))); cbn [negb]; [|eexists; reflexivity].
  cbn [lstep g_req]. destruct (lq_issuer q) as [i|]; [|eexists; reflexivity].
  destruct (lookup i) as [sp|]; [|eexists; reflexivity].
  cbn [lstep g_sp g_form g_req g_relay g_reqid g_url]. unfold lsend. cbn [g_url g_relay g_reqid].
  destruct (sp_slo sp) as [|u r]; [eexists; reflexivity|]. destruct u; cbn [is_empty]; eexists; reflexivity.
Qed.
