(** C07, SSO: the converse of C06 -- a request that meets every condition is accepted (persisted and sent to login), by
    symbolic execution of the chain go2v extracts from sso.go, for arbitrary request and storage answers. *)
From Saml Require Import Base.Bytes Idp.FactTypes Gen.Facts Gen.Pure Idp.Sso.

Definition cur_tags : list tag := Eval vm_compute in map tag_of sso_steps.
Lemma cur_tags_eq : map tag_of sso_steps = cur_tags. Proof. vm_compute. reflexivity. Qed.

Section Live.
Variable e_form : option form.
Variable decode : bytes -> bytes -> option authn.
Variable lookup : bytes -> option sp_rec.
Variable verify_redirect : sp_rec -> bytes -> bytes -> bytes -> bytes -> bool.
Variable verify_post : sp_rec -> bytes -> bool.
Variable instant_of : bytes -> instant.
Variable now : Z.
Variable create : create_args -> option bytes.
Variable want_signed : bytes.
Variable sso_locs : list bytes.
Variable entity_id : bytes.
Notation step := (step_sem e_form decode lookup verify_redirect verify_post instant_of now create want_signed sso_locs).

(** the chain over tags *)
Fixpoint run_tags (ts : list tag) (st : state) : option state :=
  match ts with [] => Some st | t :: r => match step t st with SPass st' => run_tags r st' | _ => None end end.
Lemma run_chain_tags : forall c st st', run_tags (map tag_of c) st = Some st' ->
  run_chain e_form decode lookup verify_redirect verify_post instant_of now create want_signed sso_locs entity_id c st = (false, Done st' []).
Proof.
  induction c as [|f c IH]; intros st st' H; cbn [map run_tags run_chain] in *; [now inversion H|].
  destruct (step (tag_of f) st) as [st1| |]; [now apply IH|discriminate|discriminate].
Qed.

Theorem sso_accepts : forall f a i s id,
  e_form = Some f -> is_empty (f_req f) = false -> (is_empty (f_sigalg f) = true \/ is_empty (f_sig f) = false) ->
  decode (f_enc f) (f_req f) = Some a -> a_issuer a = Some i -> lookup i = Some s ->
  (cert_check_necessary a s = true -> check_certificate a s = true) ->
  (redirect_necessary want_signed f s = true -> verify_redirect_sem verify_redirect f s = true) ->
  (post_necessary want_signed f a s = true -> verify_post s (f_req f) = true) ->
  is_empty (fst (GetAcsUrlAndBindingForResponse (sp_acs s) (a_binding a))) = false ->
  binding_supported (snd (GetAcsUrlAndBindingForResponse (sp_acs s) (a_binding a))) = true ->
  required_content instant_of now sso_locs a s = true ->
  create {| c_acs := fst (GetAcsUrlAndBindingForResponse (sp_acs s) (a_binding a)); c_binding := snd (GetAcsUrlAndBindingForResponse (sp_acs s) (a_binding a));
            c_relay := f_relay f; c_app := sp_id s; c_reqid := a_id a |} = Some id ->
  exists st, sso_handler e_form decode lookup verify_redirect verify_post instant_of now create want_signed sso_locs entity_id true sso_steps = Done st [RLogin id] /\
             created st = [{| c_acs := fst (GetAcsUrlAndBindingForResponse (sp_acs s) (a_binding a)); c_binding := snd (GetAcsUrlAndBindingForResponse (sp_acs s) (a_binding a));
                              c_relay := f_relay f; c_app := sp_id s; c_reqid := a_id a |}].
Proof.
  intros f a i s id Hf Hreq Hsig Hd Hi Hl Hcert Hred Hpost Hacs Hbs Hrc Hcr.
  set (tgt := GetAcsUrlAndBindingForResponse (sp_acs s) (a_binding a)) in *.
  assert (Hbn : is_empty (snd tgt) = false).
  { revert Hbs. generalize (snd tgt). intros bn Hb. destruct bn; [discriminate Hb|reflexivity]. }
  set (c := {| c_acs := fst tgt; c_binding := snd tgt; c_relay := f_relay f; c_app := sp_id s; c_reqid := a_id a |}) in *.
  set (st1 := set_form f st0). set (st2 := set_req a st1). set (st3 := set_sp s st2). set (st4 := set_target tgt st3). set (st5 := set_created id c st4).
  assert (R : run_tags cur_tags st0 = Some st5).
  { unfold cur_tags. cbn [run_tags].
    (* TParseForm *) cbn [step_sem]. rewrite Hf. fold st1.
    (* TReqNotEmpty *) cbn [step_sem l_form st1 set_form]. rewrite Hreq.
    (* TSigIfSigAlg *) cbn [step_sem l_form st1 set_form].
    assert (E1 : negb (is_empty (f_sigalg f)) && is_empty (f_sig f) = false) by (destruct Hsig as [-> | ->]; [reflexivity|apply Bool.andb_false_r]).
    rewrite E1.
    (* TDecode *) cbn [step_sem l_form st1 set_form]. rewrite Hd. fold st1. fold st2.
    (* TLookupSP *) cbn [step_sem l_req st2 set_req]. rewrite Hi, Hl. fold st2. fold st3.
    (* TCertCheck *) cbn [step_sem l_req l_sp st3 st2 set_sp set_req].
    destruct (cert_check_necessary a s) eqn:Ec; [rewrite (Hcert eq_refl)|]; fold st2; fold st3.
    all: cbn [step_sem l_form l_req l_sp st3 st2 st1 set_sp set_req set_form].
    all: destruct (redirect_necessary want_signed f s) eqn:Er; [rewrite (Hred eq_refl)|]; fold st1; fold st2; fold st3.
    all: cbn [step_sem l_form l_req l_sp st3 st2 st1 set_sp set_req set_form].
    all: destruct (post_necessary want_signed f a s) eqn:Ep; [rewrite (Hpost eq_refl)|]; fold st1; fold st2; fold st3.
    all: cbn [step_sem l_form l_req l_sp st3 st2 st1 set_sp set_req set_form]; fold st1; fold st2; fold st3; fold tgt; fold st4.
    all: cbn [step_sem r_acs r_binding st4 set_target]; rewrite Hacs; cbn [step_sem r_acs r_binding st4 set_target]; rewrite Hbn; cbn [step_sem r_acs r_binding st4 set_target]; rewrite Hbs.
    all: cbn [step_sem l_form l_req l_sp st4 st3 st2 st1 set_target set_sp set_req set_form]; rewrite Hrc.
    all: cbn [step_sem l_form l_req l_sp r_acs r_binding st4 st3 st2 st1 set_target set_sp set_req set_form]; fold c; rewrite Hcr; reflexivity. }
  exists st5. unfold sso_handler. cbn [negb]. rewrite <- cur_tags_eq in R. rewrite (run_chain_tags _ _ _ R).
  unfold terminal. cbn [r_binding st5 set_created st4 set_target l_created created st3 st2 st1 st0 set_sp set_req set_form]. rewrite Hbs. split; reflexivity.
Qed.
End Live.
