(** Theorems about the login callback, by symbolic execution of the instruction sequence extracted from login.go
    for arbitrary request and storage answers. *)
From Saml Require Import Base.Bytes Idp.FactTypes Gen.Facts Idp.Callback.

Definition cur_cseq : list instr := Eval vm_compute in map instr_of callback_seq.
Definition cur_lseq : list linstr := Eval vm_compute in map linstr_of loginResponse_seq.
Lemma cur_cseq_eq : map instr_of callback_seq = cur_cseq. Proof. vm_compute. reflexivity. Qed.
Lemma cur_lseq_eq : map linstr_of loginResponse_seq = cur_lseq. Proof. vm_compute. reflexivity. Qed.

(** none of the extracted statements is unrecognised *)
Lemma cur_known : forallb (fun i => match i with IUnknown => false | _ => true end) cur_cseq = true /\
                  forallb (fun i => match i with LUnknown => false | _ => true end) cur_lseq = true.
Proof. split; vm_compute; reflexivity. Qed.

Section CB.
Variable form_ok : bool.
Variable form_id : bytes.
Variable lookup_req : bytes -> option stored_req.
Variable app_entity : bytes -> option bytes.
Variable userinfo : bytes -> bytes -> option user.
Variable cert_ok sign_ok : bool.
Notation run := (callback form_ok form_id lookup_req app_entity userinfo cert_ok sign_ok callback_seq loginResponse_seq).

Definition is_success (r : creply) : bool := match r with CSaml _ m => match m_resp m with CSuccess _ _ => true | _ => false end | _ => false end.

(** the complete behaviour of the handler, as a decision table over the request and the storage answers *)
Definition expected : cstate -> Prop := fun s =>
  cs_panic s = false /\
  if negb form_ok then cs_out s = [CHttp 500] /\ cs_calls s = [] else
  if is_empty form_id then cs_out s = [CHttp 500] /\ cs_calls s = [] else
  match lookup_req form_id with
  | None => cs_calls s = [KAuthRequestByID form_id] /\
      cs_out s = [CSaml CBody {| m_in_response_to := []; m_destination := []; m_audience := []; m_resp := CFailed c_StatusCodeRequestDenied [] |}]
  | Some rec =>
      match app_entity (sr_app rec) with
      | None => cs_out s = [CHttp 500] /\ cs_calls s = [KAuthRequestByID form_id; KEntityIDByAppID (sr_app rec)]
      | Some ent =>
          let base := [KAuthRequestByID form_id; KEntityIDByAppID (sr_app rec)] in
          let reply resp := deliver (sr_acs rec) (sr_binding rec) (sr_relay rec)
              {| m_in_response_to := sr_reqid rec; m_destination := sr_acs rec; m_audience := ent; m_resp := resp |} in
          let failed st calls := cs_out s = [reply (CFailed st (b "failed to create response"))] /\ cs_calls s = calls in
          if negb (sr_done rec) then failed c_StatusCodeAuthNFailed base else
          match userinfo (sr_app rec) (sr_user rec) with
          | None => failed c_StatusCodeInvalidAttrNameOrValue (base ++ [KUserinfo (sr_app rec) (sr_user rec)])
          | Some u =>
              let calls := base ++ [KUserinfo (sr_app rec) (sr_user rec); KSigningKey] in
              if negb cert_ok then failed c_StatusCodeInvalidAttrNameOrValue calls else
              if negb sign_ok then failed c_StatusCodeResponder calls else
              cs_out s = [reply (CSuccess u (sig_for (sr_binding rec)))] /\ cs_calls s = calls
          end
      end
  end.

Notation lstep' := (lstep userinfo cert_ok sign_ok).
Notation cstep' := (cstep form_ok form_id lookup_req app_entity userinfo cert_ok sign_ok).

Definition lrun (rec : stored_req) (l : list linstr) (s : lstate) : lstate := fold_left (fun s i => lstep' rec i s) l s.
Definition crun (ls : list linstr) (l : list instr) (s : cstate) : cstate := fold_left (fun s i => cstep' ls i s) l s.
Lemma lrun_cons rec i l s : lrun rec (i :: l) s = lrun rec l (lstep' rec i s). Proof. reflexivity. Qed.
Lemma crun_cons ls i l s : crun ls (i :: l) s = crun ls l (cstep' ls i s). Proof. reflexivity. Qed.

(** a finished loginResponse ignores the remaining statements *)
Lemma l_finished rec l : forall s, ls_result s <> None -> lrun rec l s = s.
Proof.
  unfold lrun. induction l as [|i l IH]; intros s H; [reflexivity|]. cbn [fold_left].
  replace (lstep' rec i s) with s; [now apply IH|]. unfold lstep. destruct (ls_result s); [reflexivity|contradiction].
Qed.
Lemma c_stopped ls l : forall s, cs_stop s = true -> crun ls l s = s.
Proof.
  unfold crun. induction l as [|i l IH]; intros s H; [reflexivity|]. cbn [fold_left].
  replace (cstep' ls i s) with s; [now apply IH|]. unfold cstep. now rewrite H.
Qed.

Ltac lst E := rewrite lrun_cons in E; unfold lstep at 1 in E; cbn [ls_result ls_panic ls_err ls_user ls_made ls_calls app] in E.
Ltac lfin E := rewrite l_finished in E by (cbn [ls_result]; discriminate); subst; cbn [ls_result ls_panic ls_calls]; repeat split; reflexivity.

(** loginResponse as a decision table *)
Definition login_expected (rec : stored_req) : lstate -> Prop := fun l =>
  ls_panic l = false /\
  if negb (sr_done rec) then ls_result l = Some (inr c_StatusCodeAuthNFailed) /\ ls_calls l = [] else
  match userinfo (sr_app rec) (sr_user rec) with
  | None => ls_result l = Some (inr c_StatusCodeInvalidAttrNameOrValue) /\ ls_calls l = [KUserinfo (sr_app rec) (sr_user rec)]
  | Some u =>
      ls_calls l = [KUserinfo (sr_app rec) (sr_user rec); KSigningKey] /\
      if negb cert_ok then ls_result l = Some (inr c_StatusCodeInvalidAttrNameOrValue) else
      if negb sign_ok then ls_result l = Some (inr c_StatusCodeResponder) else
      ls_result l = Some (inl (CSuccess u (sig_for (sr_binding rec))))
  end.

Lemma lr_eq rec l : login_response userinfo cert_ok sign_ok l rec = lrun rec l ls0.
Proof. reflexivity. Qed.
Lemma cr_eq cl ll : callback_i form_ok form_id lookup_req app_entity userinfo cert_ok sign_ok cl ll = crun ll cl cs0.
Proof. reflexivity. Qed.

Lemma login_table rec : login_expected rec (login_response userinfo cert_ok sign_ok cur_lseq rec).
Proof.
  rewrite lr_eq. remember (lrun rec cur_lseq ls0) as l eqn:E. unfold cur_lseq, ls0 in E. unfold login_expected.
  lst E. destruct (sr_done rec); cbn [negb] in *.
  2:{ lfin E. }
  lst E. lst E. destruct (userinfo (sr_app rec) (sr_user rec)) as [u|].
  2:{ lfin E. }
  lst E. destruct cert_ok; cbn [negb] in *.
  2:{ lst E. lfin E. }
  lst E. lst E. lst E. destruct sign_ok; cbn [negb] in *.
  2:{ lfin E. }
  lst E. unfold lrun in E. cbn [fold_left] in E. subst. cbn [ls_result ls_panic ls_calls]. repeat split; reflexivity.
Qed.

Lemma crun_step ls i l s s' : cstep' ls i s = s' -> crun ls (i :: l) s = crun ls l s'.
Proof. intros <-. reflexivity. Qed.
End CB.

Ltac cst := erewrite crun_step by
  (unfold cstep; cbn [cs_stop cs_id cs_rec cs_entity cs_err cs_reqid cs_relay cs_binding cs_acs cs_audience cs_login cs_calls cs_out cs_panic with_out with_panic app]; reflexivity).
Ltac cfin := rewrite c_stopped by reflexivity; unfold expected; cbn [cs_panic cs_out cs_calls negb is_empty].
Ltac sent := unfold send; cbn [cs_acs cs_binding cs_relay cs_reqid cs_audience]; repeat split; reflexivity.

Theorem callback_table : forall form_ok form_id lookup_req app_entity userinfo cert_ok sign_ok,
  expected form_ok form_id lookup_req app_entity userinfo cert_ok sign_ok
    (callback form_ok form_id lookup_req app_entity userinfo cert_ok sign_ok callback_seq loginResponse_seq).
Proof.
  intros. unfold callback. rewrite cur_cseq_eq, cur_lseq_eq, cr_eq. unfold cur_cseq, cs0.
  cst. cst. destruct form_ok.
  2:{ cfin. auto. }
  cst. cst. destruct (is_empty form_id) eqn:Eid.
  { cfin. rewrite Eid. auto. }
  cst. destruct (lookup_req form_id) as [rec|] eqn:El.
  2:{ cst. cfin. rewrite Eid, El. sent. }
  cst. cst. cst. cst. cst. cst. destruct (app_entity (sr_app rec)) as [ent|] eqn:Ea.
  2:{ cst. cfin. rewrite Eid, El, Ea. auto. }
  cst. cst.
  pose proof (login_table userinfo cert_ok sign_ok rec) as L. unfold login_expected in L.
  erewrite crun_step.
  2:{ unfold cstep. cbn [cs_stop cs_rec]. reflexivity. }
  destruct (login_response userinfo cert_ok sign_ok cur_lseq rec) as [lerr luser lmade lcalls lres lpanic].
  cbn [ls_panic ls_result ls_calls] in L. destruct L as [Lp L]. subst lpanic.
  cbn [ls_panic ls_result ls_calls cs_id cs_rec cs_entity cs_err cs_reqid cs_relay cs_binding cs_acs cs_audience cs_login cs_calls cs_out cs_panic app].
  destruct (sr_done rec) eqn:Ed; cbn [negb] in L.
  2:{ destruct L as [-> ->]. cst. cfin. rewrite Eid, El, Ea, Ed. cbn [negb]. sent. }
  destruct (userinfo (sr_app rec) (sr_user rec)) as [u|] eqn:Eu.
  2:{ destruct L as [-> ->]. cst. cfin. rewrite Eid, El, Ea, Ed, Eu. cbn [negb]. sent. }
  destruct L as [-> L]. destruct cert_ok; cbn [negb] in L.
  2:{ subst lres. cst. cfin. rewrite Eid, El, Ea, Ed, Eu. cbn [negb]. sent. }
  destruct sign_ok; cbn [negb] in L.
  2:{ subst lres. cst. cfin. rewrite Eid, El, Ea, Ed, Eu. cbn [negb]. sent. }
  subst lres. cst. cst. cfin. rewrite Eid, El, Ea, Ed, Eu. cbn [negb]. sent.
Qed.

(** exactly one reply in every case; when it is not a Success response it is either the plain HTTP 500 or a SAML
    response whose status is one of four non-Success codes, carrying no user data and no signature (the [CFailed]
    constructor has neither) *)
Definition failure_statuses : list bytes :=
  [c_StatusCodeRequestDenied; c_StatusCodeAuthNFailed; c_StatusCodeInvalidAttrNameOrValue; c_StatusCodeResponder].
Lemma failure_statuses_not_success : forallb (fun s => negb (beq s c_StatusCodeSuccess)) failure_statuses = true.
Proof. vm_compute. reflexivity. Qed.

Definition failure_reply (r : creply) : Prop :=
  r = CHttp 500 \/ exists d m st msg, r = CSaml d m /\ m_resp m = CFailed st msg /\ In st failure_statuses.

Lemma deliver_failed acs binding relay m st msg :
  m_resp m = CFailed st msg -> In st failure_statuses -> failure_reply (deliver acs binding relay m).
Proof.
  intros Hm Hs. unfold deliver.
  destruct (is_empty acs); [right; eauto 8|].
  destruct (beq binding c_PostBinding); [right; eauto 8|].
  destruct (beq binding c_RedirectBinding); [right; eauto 8|left; reflexivity].
Qed.

Theorem callback_one_reply : forall form_ok form_id lookup_req app_entity userinfo cert_ok sign_ok,
  exists r, cs_out (callback form_ok form_id lookup_req app_entity userinfo cert_ok sign_ok callback_seq loginResponse_seq) = [r] /\
            (is_success r = false -> failure_reply r).
Proof.
  intros form_ok form_id lookup_req app_entity userinfo cert_ok sign_ok.
  pose proof (callback_table form_ok form_id lookup_req app_entity userinfo cert_ok sign_ok) as T.
  unfold expected in T. destruct T as [_ T].
  assert (F : forall st, In st failure_statuses -> forall acs binding relay irt dst aud msg,
            failure_reply (deliver acs binding relay {| m_in_response_to := irt; m_destination := dst; m_audience := aud; m_resp := CFailed st msg |})).
  { intros st Hs acs binding relay irt dst aud msg. eapply deliver_failed; [reflexivity|exact Hs]. }
  destruct form_ok; cbn [negb] in T; [|destruct T as [T _]; rewrite T; eexists; split; [reflexivity|intros _; now left]].
  destruct (is_empty form_id); [destruct T as [T _]; rewrite T; eexists; split; [reflexivity|intros _; now left]|].
  destruct (lookup_req form_id) as [rec|].
  2:{ destruct T as [_ T]. rewrite T. eexists. split; [reflexivity|]. intros _. right.
      do 4 eexists. split; [reflexivity|]. split; [reflexivity|]. left. reflexivity. }
  destruct (app_entity (sr_app rec)) as [ent|]; [|destruct T as [T _]; rewrite T; eexists; split; [reflexivity|intros _; now left]].
  destruct (sr_done rec); cbn [negb] in T.
  2:{ destruct T as [T _]. rewrite T. eexists. split; [reflexivity|]. intros _. apply F. right. left. reflexivity. }
  destruct (userinfo (sr_app rec) (sr_user rec)) as [u|].
  2:{ destruct T as [T _]. rewrite T. eexists. split; [reflexivity|]. intros _. apply F. right. right. left. reflexivity. }
  destruct cert_ok; cbn [negb] in T.
  2:{ destruct T as [T _]. rewrite T. eexists. split; [reflexivity|]. intros _. apply F. right. right. left. reflexivity. }
  destruct sign_ok; cbn [negb] in T.
  2:{ destruct T as [T _]. rewrite T. eexists. split; [reflexivity|]. intros _. apply F. right. right. right. left. reflexivity. }
  destruct T as [T _]. rewrite T. eexists. split; [reflexivity|].
  unfold deliver. destruct (is_empty (sr_acs rec)); [cbn; discriminate|].
  destruct (beq (sr_binding rec) c_PostBinding); [cbn; discriminate|].
  destruct (beq (sr_binding rec) c_RedirectBinding); [cbn; discriminate|intros _; now left].
Qed.
