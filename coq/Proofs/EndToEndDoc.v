(** End to end down to the document: SSO hands a request to storage, the callback later finds it; whatever the callback
    answers, the DOCUMENT the translated programs build for that answer carries the original request's ID and goes to the
    consumer URL selected at SSO time.  Composition of the handler models (Proofs/EndToEnd.v) with the builder programs
    (Idp/SuccessAny.v, Idp/BuiltDoc.v). *)
From Saml Require Import Base.Bytes Idp.FactTypes Gen.Facts Idp.Sso Idp.Callback Proofs.EndToEnd Core.Attrs
  Idp.BuilderTypes Idp.Builder Idp.BuiltDoc Idp.GetSamlAll Idp.SuccessAny Idp.AttrRefine.
From Coq Require Import List String. Import ListNotations.
Local Open Scope string_scope.

Definition reply_document_ok (k : create_args) (issuer : bytes) (m : cmsg) (id1 id2 : bytes) (rest : list bytes) (issue until : bytes) : Prop :=
  match m_resp m with
  | CSuccess u _ =>
      built_sat "makeSuccessfulResponse" (Some (response_rec (m_in_response_to m) (m_destination m) issuer (m_audience m))) [user_rec u; DStr (b "f"); DNil]
        (id1 :: id2 :: rest) issue until
        (fun d r => r = rest /\
           at_ d ["InResponseTo"] = Some (DStr (c_reqid k)) /\ dget d (sc_data ++ [PField "InResponseTo"]) = Some (DStr (c_reqid k)) /\
           at_ d ["Destination"] = Some (DStr (c_acs k)) /\ dget d (sc_data ++ [PField "Recipient"]) = Some (DStr (c_acs k)) /\
           exists l, dget d [PField "Assertion"; PField "AttributeStatement"; PIndex 0; PField "Attribute"] = Some (DList l) /\ map attr_of_dval l = attrs_of u)
  | CFailed st msg =>
      built_sat "makeFailedResponse" (Some (response_rec (m_in_response_to m) (m_destination m) issuer (m_audience m))) [DStr st; DStr msg; DStr (b "f")]
        (id1 :: id2 :: rest) issue until
        (fun d r => r = id2 :: rest /\
           at_ d ["InResponseTo"] = Some (DStr (c_reqid k)) /\ at_ d ["Destination"] = Some (DStr (c_acs k)) /\ at_ d ["Assertion"] = None)
  end.

Theorem end_to_end_document : forall k rec form_id lookup_req app_entity userinfo cert_ok sign_ok issuer id1 id2 rest issue until,
  stores k rec -> c_acs k <> [] -> binding_supported (c_binding k) = true ->
  form_id <> [] -> lookup_req form_id = Some rec -> app_entity (sr_app rec) <> None ->
  exists d m, cs_out (callback true form_id lookup_req app_entity userinfo cert_ok sign_ok callback_seq loginResponse_seq) = [CSaml d m] /\
    reply_document_ok k issuer m id1 id2 rest issue until.
Proof.
  intros k rec form_id lookup_req app_entity userinfo cert_ok sign_ok issuer id1 id2 rest issue until Hs Ha Hb Hf Hl He.
  destruct (callback_answers_stored k rec form_id lookup_req app_entity userinfo cert_ok sign_ok Hs Ha Hb Hf Hl He) as (d & m & Ho & Hr & Hd & _).
  exists d, m. split; [exact Ho|]. unfold reply_document_ok.
  assert (Hne : is_empty (c_acs k) = false) by (destruct (c_acs k); [contradiction|reflexivity]).
  destruct (m_resp m) as [st msg|u sg].
  - eapply built_sat_mono; [exact (failed_response_fields (m_in_response_to m) (m_destination m) issuer (m_audience m) st msg id1 (id2 :: rest) issue until)|].
    intros doc r (R & _ & A & _ & _ & _ & _ & B & C). rewrite Hr, Hd, Hne in *. auto.
  - unfold user_rec.
    eapply built_sat_mono; [exact (success_all_any (m_in_response_to m) (m_destination m) issuer (m_audience m) (u_email u) (u_fullname u) (u_given u) (u_surname u) (u_userid u) (u_username u)
                                    (map dcustom_of (u_custom u)) id1 id2 rest issue until)|].
    intros doc r (R & _ & _ & A1 & A2 & A3 & A4 & _ & _ & _ & _ & _ & A5). rewrite Hr, Hd, Hne in *.
    repeat split; auto. eexists. split; [exact A5|apply abs_getsaml].
Qed.
