(** What the SSO handler accepts when the decode oracle is InflateAndDecode followed by a parser (Core/DecodeVia.v). *)
From Saml Require Import Base.Bytes Idp.FactTypes Gen.Facts Idp.Sso Proofs.SsoProofs Proofs.SsoAccept Codec.Base64 Core.WireCodec Core.DecodeVia.

Section SsoCodec.
Variable e_form : option form.
Variable inflate : bytes -> option bytes.
Variable cap : Z.
Variable parse : bytes -> option authn.
Variable lookup : bytes -> option sp_rec.
Variable verify_redirect : sp_rec -> bytes -> bytes -> bytes -> bytes -> bool.
Variable verify_post : sp_rec -> bytes -> bool.
Variable instant_of : bytes -> instant.
Variable now : Z.
Variable create : create_args -> option bytes.
Variable want_signed : bytes.
Variable sso_locs : list bytes.
Variable entity_id : bytes.
Variable cert_ok : bool.
Notation decode := (decode_via authn inflate cap parse).
Notation handler := (sso_handler e_form decode lookup verify_redirect verify_post instant_of now create want_signed sso_locs entity_id cert_ok).

Theorem sso_encoding : forall c st id, has_tags c tags6 = true -> handler c = Done st [RLogin id] ->
  exists f a raw d, e_form = Some f /\ (f_enc f = [] \/ f_enc f = c_EncodingDeflate) /\
    b64_decode (f_req f) = Some raw /\ parse d = Some a /\
    ((f_enc f = [] /\ d = raw) \/ (f_enc f = c_EncodingDeflate /\ inflate raw = Some d /\ (Z.of_nat (length d) <= cap)%Z)).
Proof.
  intros c st id Ht H.
  destruct (accept_implies e_form decode lookup verify_redirect verify_post instant_of now create want_signed sso_locs entity_id c Ht
              (accepted_passes e_form decode lookup verify_redirect verify_post instant_of now create want_signed sso_locs entity_id cert_ok c st id H))
    as (f & a & i & s & Ef & _ & _ & Ed & _).
  destruct (decode_via_some authn inflate cap parse _ _ _ Ed) as (He & raw & d & Hb & Hp & Hd).
  exists f, a, raw, d. auto.
Qed.

Theorem sso_unknown_encoding_refused : forall c f st id, has_tags c tags6 = true -> e_form = Some f ->
  f_enc f <> [] -> f_enc f <> c_EncodingDeflate -> handler c <> Done st [RLogin id].
Proof.
  intros c f st id Ht Ef H1 H2 H. destruct (sso_encoding c st id Ht H) as (f' & a & raw & d & Ef' & [E|E] & _); congruence.
Qed.

Theorem sso_oversized_refused : forall c f raw d st id, has_tags c tags6 = true -> e_form = Some f ->
  f_enc f = c_EncodingDeflate -> b64_decode (f_req f) = Some raw -> inflate raw = Some d -> (Z.of_nat (length d) > cap)%Z ->
  handler c <> Done st [RLogin id].
Proof.
  intros c f raw d st id Ht Ef He Hb Hi Hl H.
  destruct (sso_encoding c st id Ht H) as (f' & a & raw' & d' & Ef' & _ & Hb' & _ & [[E _]|(_ & Hi' & Hl')]).
  - rewrite Ef in Ef'. inversion Ef'; subst f'. rewrite He in E. discriminate E.
  - rewrite Ef in Ef'. inversion Ef'; subst f'. rewrite Hb in Hb'. inversion Hb'; subst raw'. rewrite Hi in Hi'. inversion Hi'; subst d'. lia.
Qed.
End SsoCodec.
