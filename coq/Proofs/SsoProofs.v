(** Lemmas about the SSO handler model, parametric in the extracted checker chain. *)
From Saml Require Import Base.Bytes Idp.FactTypes Gen.Facts Gen.Pure Core.Acs Idp.Sso.

(** * Decidable well-formedness of a chain *)
Definition single_reply (f : failfact) : bool :=
  match f with
  | FSaml s => negb (beq s c_StatusCodeSuccess)
  | FHttp c => (400 <=? c)%Z
  | _ => false
  end.
Definition is_failure_reply (r : reply) : bool :=
  match r with
  | RFail _ m => negb (beq (fm_status m) c_StatusCodeSuccess)
  | RHttp c => (400 <=? c)%Z
  | RLogin _ => false
  end.
Definition never_fails (t : tag) : bool := tag_eqb t TSelectAcs.
Definition init_step_ok (f : stepfact) : bool :=
  negb (tag_eqb (tag_of f) TPersist) && negb (tag_eqb (tag_of f) TUnknown) && (never_fails (tag_of f) || single_reply (sf f)).
(** after the last ACS selection the binding is checked to be supported *)
Fixpoint bind_ok (l : list tag) (ok : bool) : bool :=
  match l with
  | [] => ok
  | TBindingSupported :: r => bind_ok r true
  | TSelectAcs :: r => bind_ok r false
  | _ :: r => bind_ok r ok
  end.
(** locals are set before they are used *)
Definition needs (t : tag) : bool * bool * bool :=   (* form, request, service provider *)
  match t with
  | TParseForm | TAcsNotEmpty | TBindingNotEmpty | TBindingSupported => (false, false, false)
  | TReqNotEmpty | TSigIfSigAlg | TDecode => (true, false, false)
  | TLookupSP => (false, true, false)
  | TCertCheck | TSelectAcs | TRequiredContent => (false, true, true)
  | TVerifyRedirect => (true, false, true)
  | TVerifyPost | TPersist => (true, true, true)
  | TUnknown => (true, true, true)
  end.
Definition impl (x y : bool) : bool := negb x || y.
Fixpoint order_ok (l : list tag) (hf hr hs : bool) : bool :=
  match l with
  | [] => true
  | t :: r =>
      let '(nf, nr, ns) := needs t in
      negb (tag_eqb t TUnknown) && impl nf hf && impl nr hr && impl ns hs &&
      order_ok r (hf || tag_eqb t TParseForm) (hr || tag_eqb t TDecode) (hs || tag_eqb t TLookupSP)
  end.

Definition wf8 (c : list stepfact) : bool :=
  match rev c with
  | last :: init =>
      tag_eqb (tag_of last) TPersist && single_reply (sf last) &&
      forallb init_step_ok (rev init) && bind_ok (map tag_of (rev init)) false
  | [] => false
  end.
Definition wf_order (c : list stepfact) : bool := order_ok (map tag_of c) false false false.

Lemma current_chain_wf8 : wf8 sso_steps = true.
Proof. vm_compute. reflexivity. Qed.
Lemma current_chain_order : wf_order sso_steps = true.
Proof. vm_compute. reflexivity. Qed.

Section Proofs.
Variable e_form : option form.
Variable decode : bytes -> bytes -> option authn.
Variable lookup : bytes -> option sp_rec.
Variable verify_redirect : sp_rec -> bytes -> bytes -> bytes -> bytes -> bool.
Variable verify_post : sp_rec -> bytes -> bool.
Variable instant_of : bytes -> instant.
Variable now : Z.
Variable create : create_args -> option bytes.
Variable want_signed : bytes.
Variable sso_locs : list bytes.
Variable entity_id : bytes.
Variable cert_ok : bool.

Notation step := (step_sem e_form decode lookup verify_redirect verify_post instant_of now create want_signed sso_locs).
Notation run := (run_chain e_form decode lookup verify_redirect verify_post instant_of now create want_signed sso_locs entity_id).
Notation handler := (sso_handler e_form decode lookup verify_redirect verify_post instant_of now create want_signed sso_locs entity_id cert_ok).

(** ** effects of single steps *)
Ltac step_cases t st :=
  destruct t; cbn [step_sem] in *;
  repeat match goal with
  | H : context [match ?x with _ => _ end] |- _ => destruct x eqn:?; try discriminate
  end.

Lemma step_created t st st' : tag_eqb t TPersist = false -> step t st = SPass st' ->
  created st' = created st /\ l_created st' = l_created st.
Proof.
  intros Ht H. destruct t; try discriminate Ht; cbn [step_sem] in H;
    repeat match type of H with context [match ?x with _ => _ end] => destruct x eqn:?; try discriminate end;
    inversion H; subst; split; reflexivity.
Qed.

Lemma step_binding t st st' : tag_eqb t TSelectAcs = false -> step t st = SPass st' ->
  r_binding st' = r_binding st /\ r_acs st' = r_acs st.
Proof.
  intros Ht H. destruct t; try discriminate Ht; cbn [step_sem] in H;
    repeat match type of H with context [match ?x with _ => _ end] => destruct x eqn:?; try discriminate end;
    inversion H; subst; split; reflexivity.
Qed.

Lemma step_never_fails t st : never_fails t = true -> step t st <> SFail.
Proof.
  destruct t; try discriminate. intros _. cbn [step_sem]. destruct (l_req st); [destruct (l_sp st)|]; discriminate.
Qed.

Lemma send_failed_is_failure s st : negb (beq s c_StatusCodeSuccess) = true -> is_failure_reply (send_failed entity_id s st) = true.
Proof.
  intro H. unfold send_failed.
  destruct (is_empty (r_acs st)); [exact H|]. destruct (beq (r_binding st) c_PostBinding); [exact H|].
  destruct (beq (r_binding st) c_RedirectBinding); [exact H|]. reflexivity.
Qed.

Lemma fail_reply_single f st : single_reply f = true -> exists r, fail_reply entity_id f st = [r] /\ is_failure_reply r = true.
Proof.
  destruct f; cbn [single_reply fail_reply]; try discriminate; intro H.
  - eexists; split; [reflexivity|]. now apply send_failed_is_failure.
  - eexists; split; [reflexivity|]. exact H.
Qed.

(** ** the prefix of the chain: nothing is persisted; a failure sends exactly one failure reply *)
Inductive pre_result (st : state) (ok0 : bool) (tags : list tag) : bool * outcome -> Prop :=
| pre_pass st' : created st' = created st -> l_created st' = l_created st ->
    (bind_ok tags ok0 = true -> binding_supported (r_binding st') = true) ->
    pre_result st ok0 tags (false, Done st' [])
| pre_fail st' r : created st' = created st -> is_failure_reply r = true -> pre_result st ok0 tags (true, Done st' [r])
| pre_panic st' : created st' = created st -> pre_result st ok0 tags (true, Panicked st' []).

Lemma run_prefix c : forall st ok0, forallb init_step_ok c = true ->
  (ok0 = true -> binding_supported (r_binding st) = true) ->
  pre_result st ok0 (map tag_of c) (run c st).
Proof.
  induction c as [|f c IH]; intros st ok0 Hwf Hb; cbn [run_chain map].
  - apply pre_pass; auto.
  - cbn [forallb] in Hwf. apply andb_prop in Hwf as [Hf Hc]. unfold init_step_ok in Hf.
    apply andb_prop in Hf as [Hf Hrep]. apply andb_prop in Hf as [Hnp Hnu].
    apply negb_true_iff in Hnp.
    destruct (step (tag_of f) st) as [st1| |] eqn:Es.
    + destruct (step_created _ _ _ Hnp Es) as [Hc1 Hc2].
      set (ok1 := match tag_of f with TBindingSupported => true | TSelectAcs => false | _ => ok0 end).
      assert (Hb1 : ok1 = true -> binding_supported (r_binding st1) = true).
      { unfold ok1. clear IH. revert Es. generalize (tag_of f) as t. intros t Es Hok.
        destruct (tag_eqb t TSelectAcs) eqn:Esel.
        - destruct t; discriminate.
        - destruct (tag_eqb t TBindingSupported) eqn:Ebs.
          + destruct t; try discriminate Ebs. cbn [step_sem] in Es.
            destruct (binding_supported (r_binding st)) eqn:Eb; [|discriminate]. inversion Es; subst. exact Eb.
          + destruct (step_binding _ st st1 Esel Es) as [E1 _]. rewrite E1. apply Hb. destruct t; try discriminate; exact Hok. }
      specialize (IH st1 ok1 Hc Hb1).
      assert (Etags : bind_ok (tag_of f :: map tag_of c) ok0 = bind_ok (map tag_of c) ok1).
      { unfold ok1. cbn [bind_ok]. destruct (tag_of f); reflexivity. }
      inversion IH as [st' E1 E2 E3 | st' r E1 E2 | st' E1]; subst.
      * apply pre_pass; [congruence|congruence|]. rewrite Etags. exact E3.
      * apply pre_fail; [congruence|exact E2].
      * apply pre_panic. congruence.
    + destruct (orb_prop _ _ Hrep) as [Hn|Hs].
      * exfalso. exact (step_never_fails _ st Hn Es).
      * destruct (fail_reply_single (sf f) st Hs) as (r & -> & Hr). apply pre_fail; auto.
    + apply pre_panic. reflexivity.
Qed.

Lemma run_app c1 c2 st :
  run (c1 ++ c2) st = match run c1 st with (false, Done st' _) => run c2 st' | r => r end.
Proof.
  revert st; induction c1 as [|f c1 IH]; intro st; cbn [app run_chain]; [reflexivity|].
  destruct (step (tag_of f) st); [apply IH|reflexivity|reflexivity].
Qed.

(** ** C08: exactly one of the two outcomes, for every well-formed chain *)
Definition one_outcome (o : outcome) : Prop :=
  match o with
  | Done st out =>
      (exists id args, created st = [args] /\ create args = Some id /\ out = [RLogin id]) \/
      (created st = [] /\ exists r, out = [r] /\ is_failure_reply r = true)
  | Panicked st out => created st = [] /\ out = []
  end.

Theorem chain_one_outcome c : wf8 c = true -> one_outcome (handler c).
Proof.
  unfold wf8, sso_handler. intro Hwf. destruct (rev c) as [|last init] eqn:Er; [discriminate|].
  assert (Ec : c = rev init ++ [last]) by (rewrite <- (rev_involutive c), Er; reflexivity). subst c. clear Er.
  apply andb_prop in Hwf as [Hwf Hbind]. apply andb_prop in Hwf as [Hwf Hinit]. apply andb_prop in Hwf as [Hp Hrep].
  destruct cert_ok; cbn [negb].
  2:{ right. split; [reflexivity|]. eexists; split; reflexivity. }
  rewrite run_app.
  pose proof (run_prefix (rev init) st0 false Hinit ltac:(discriminate)) as Hpre.
  inversion Hpre as [st' E1 E2 E3 Eq | st' r E1 E2 Eq | st' E1 Eq]; subst.
  - (* prefix passed: the persist step *)
    cbn [run_chain]. destruct (tag_of last) eqn:Et; try discriminate Hp. cbn [step_sem].
    destruct (l_form st') as [f|]; [|split; [exact E1|reflexivity]].
    destruct (l_req st') as [a|]; [|split; [exact E1|reflexivity]].
    destruct (l_sp st') as [s|]; [|split; [exact E1|reflexivity]].
    destruct (create _) as [id|] eqn:Ecr.
    + left. unfold terminal. cbn [r_binding set_created l_created created]. rewrite (E3 Hbind).
      eexists id, _. rewrite E1. cbn [created st0 app]. repeat split; eauto.
    + right. split; [exact E1|]. destruct (fail_reply_single (sf last) st' Hrep) as (r & -> & Hr). eauto.
  - right. split; [exact E1|]. eauto.
  - split; [exact E1|reflexivity].
Qed.

(** ** no step dereferences an unset local when the order is right *)
Lemma run_no_panic c : forall st hf hr hs,
  order_ok (map tag_of c) hf hr hs = true ->
  (hf = true -> l_form st <> None) -> (hr = true -> l_req st <> None) -> (hs = true -> l_sp st <> None) ->
  forall st' out, run c st <> (true, Panicked st' out) /\ run c st <> (false, Panicked st' out).
Proof.
  induction c as [|f c IH]; intros st hf hr hs Hord Hf Hr Hs st' out; cbn [run_chain map]; [split; discriminate|].
  cbn [map order_ok] in Hord. destruct (needs (tag_of f)) as [[nf nr] ns] eqn:En.
  apply andb_prop in Hord as [Hord Hrest]. apply andb_prop in Hord as [Hord Hns]. apply andb_prop in Hord as [Hord Hnr].
  apply andb_prop in Hord as [Hnu Hnf].
  assert (Hfm : nf = true -> l_form st <> None) by (intro E; subst; apply Hf; now destruct hf).
  assert (Hrq : nr = true -> l_req st <> None) by (intro E; subst; apply Hr; now destruct hr).
  assert (Hsp : ns = true -> l_sp st <> None) by (intro E; subst; apply Hs; now destruct hs).
  destruct (step (tag_of f) st) as [st1| |] eqn:Es.
  - apply (IH st1 _ _ _ Hrest).
    + intro E. apply orb_prop in E as [E|E].
      * destruct (tag_of f); cbn [step_sem] in Es;
          repeat match type of Es with context [match ?x with _ => _ end] => destruct x eqn:?; try discriminate end;
          inversion Es; subst; cbn; try (apply Hf; exact E); try congruence; try (intro; discriminate); auto.
      * destruct (tag_of f); try discriminate E. cbn [step_sem] in Es. destruct e_form; [|discriminate]. inversion Es. discriminate.
    + intro E. apply orb_prop in E as [E|E].
      * destruct (tag_of f); cbn [step_sem] in Es;
          repeat match type of Es with context [match ?x with _ => _ end] => destruct x eqn:?; try discriminate end;
          inversion Es; subst; cbn; try (apply Hr; exact E); try congruence; try (intro; discriminate); auto.
      * destruct (tag_of f); try discriminate E. cbn [step_sem] in Es.
        repeat match type of Es with context [match ?x with _ => _ end] => destruct x eqn:?; try discriminate end.
        inversion Es. discriminate.
    + intro E. apply orb_prop in E as [E|E].
      * destruct (tag_of f); cbn [step_sem] in Es;
          repeat match type of Es with context [match ?x with _ => _ end] => destruct x eqn:?; try discriminate end;
          inversion Es; subst; cbn; try (apply Hs; exact E); try congruence; try (intro; discriminate); auto.
      * destruct (tag_of f); try discriminate E. cbn [step_sem] in Es.
        repeat match type of Es with context [match ?x with _ => _ end] => destruct x eqn:?; try discriminate end.
        inversion Es. discriminate.
  - split; discriminate.
  - exfalso. destruct (tag_of f); cbn [needs] in En; inversion En; subst; cbn [step_sem] in Es; try discriminate Hnu;
      repeat match type of Es with context [match ?x with _ => _ end] => destruct x eqn:?; try discriminate end;
      try (now apply Hfm); try (now apply Hrq); try (now apply Hsp).
Qed.

Theorem handler_no_panic c : wf_order c = true -> forall st out, handler c <> Panicked st out.
Proof.
  intros Hord st out. unfold sso_handler. destruct (negb cert_ok); [discriminate|].
  destruct (run c st0) as [[|] o] eqn:Er.
  - intro E. subst o. eapply (proj1 (run_no_panic c st0 false false false Hord ltac:(discriminate) ltac:(discriminate) ltac:(discriminate) st out)). exact Er.
  - destruct o as [st1 o1|st1 o1]; [discriminate|].
    intro E. inversion E; subst.
    eapply (proj2 (run_no_panic c st0 false false false Hord ltac:(discriminate) ltac:(discriminate) ltac:(discriminate) st out)). exact Er.
Qed.
End Proofs.
