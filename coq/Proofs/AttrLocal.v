(** C15: the attribute-query handler depends on the storage only through the provider registered under the query's Issuer and
    the user record of the query's subject. Parametric in the chain. *)
From Saml Require Import Base.Bytes Idp.FactTypes Gen.Facts Idp.Sso Idp.Callback Core.Attrs Idp.AttrQuery.

Section Local.
Variable decode : option aquery.
Variable lookup1 lookup2 : bytes -> option sp_rec.
Variable verify_sig : sp_rec -> bool.
Variable attr_locs : list bytes.
Variable userinfo1 userinfo2 : bytes -> option user.
Variable cert_ok1 cert_ok2 sign_ok : bool.
Variable entity_id : bytes.
Hypothesis agree_sp : forall q i, decode = Some q -> aq_issuer q = Some i -> lookup1 i = lookup2 i.
Hypothesis agree_user : forall q n, decode = Some q -> aq_nameid q = Some n -> userinfo1 n = userinfo2 n.

Notation step1 := (astep decode lookup1 verify_sig attr_locs userinfo1 cert_ok2 sign_ok entity_id).
Notation step2 := (astep decode lookup2 verify_sig attr_locs userinfo2 cert_ok2 sign_ok entity_id).
Definition qcanon (s : astate) : Prop := forall q, q_query s = Some q -> decode = Some q.

Lemma astep_local t s : qcanon s -> step1 t s = step2 t s.
Proof.
  intro C. destruct t; cbn [astep]; try reflexivity.
  - destruct (q_query s) as [q|] eqn:Eq; [|reflexivity]. destruct (aq_issuer q) as [i|] eqn:Ei; [|reflexivity].
    now rewrite (agree_sp q i (C q Eq) Ei).
  - destruct (q_query s) as [q|] eqn:Eq; [|reflexivity]. destruct (q_sp s); [|reflexivity]. destruct (aq_nameid q) as [n|] eqn:En; [|reflexivity].
    now rewrite (agree_user q n (C q Eq) En).
Qed.
Ltac fin C Eq := let q0 := fresh "q0" in let E := fresh "E" in intros q0 E; cbn [q_query] in E;
  first [apply C; exact E | rewrite Eq in E; apply C; exact E | apply C; rewrite Eq; exact E].
Lemma astep_canon t s s' : qcanon s -> step1 t s = APass s' -> qcanon s'.
Proof.
  unfold qcanon. intros C H. destruct t; cbn [astep] in H.
  - inversion H; subst. exact C.
  - remember decode as d eqn:Hd. destruct d as [q|]; [|discriminate H].
    destruct (aq_issuer q); [|discriminate H]. destruct (aq_nameid q); [|discriminate H]. inversion H; subst s'. cbn [q_query]. intros q0 E. exact E.
  - destruct (q_query s) as [q|] eqn:Eq; [|discriminate H]. destruct (aq_issuer q) as [i|]; [|discriminate H]. destruct (lookup1 i); [|discriminate H]. inversion H; subst s'. fin C Eq.
  - destruct (q_query s) as [q|] eqn:Eq; [|discriminate H]. destruct (q_sp s) as [sp|]; [|discriminate H].
    destruct (cert_necessary (aq_signature q) sp); [destruct (cert_matches (aq_signature q) sp); [|discriminate H]|]; inversion H; subst s'; fin C Eq.
  - destruct (q_query s) as [q|] eqn:Eq; [|discriminate H]. destruct (q_sp s) as [sp|].
    + destruct (sig_provided (aq_signature q)); [destruct (verify_sig sp); [|discriminate H]|]; inversion H; subst s'; fin C Eq.
    + destruct (sig_provided (aq_signature q)); [discriminate H|]. inversion H; subst s'; fin C Eq.
  - destruct (q_query s) as [q|] eqn:Eq; [|discriminate H]. destruct (is_empty (aq_destination q) || bmem (aq_destination q) attr_locs); [|discriminate H]. inversion H; subst s'; fin C Eq.
  - destruct (q_query s) as [q|] eqn:Eq; [|discriminate H]. destruct (q_sp s) as [sp|]; [|discriminate H]. destruct (aq_nameid q) as [n|]; [|discriminate H].
    destruct (userinfo1 n); [|discriminate H]. inversion H; subst s'. fin C Eq.
  - destruct (q_resp s); [destruct (cert_ok2 && sign_ok); [|discriminate H]; inversion H; subst s'; exact C|destruct cert_ok2; discriminate H].
  - discriminate H.
Qed.
Lemma arun_local c : forall s, qcanon s ->
  arun decode lookup1 verify_sig attr_locs userinfo1 cert_ok2 sign_ok entity_id c s = arun decode lookup2 verify_sig attr_locs userinfo2 cert_ok2 sign_ok entity_id c s.
Proof.
  induction c as [|f c IH]; intros s C; cbn [arun]; [reflexivity|].
  rewrite <- (astep_local (atag_of f) s C). destruct (step1 (atag_of f) s) as [s'| |] eqn:E; [|reflexivity|reflexivity].
  apply IH. exact (astep_canon _ _ _ C E).
Qed.
Theorem attrquery_local c :
  attrquery_handler decode lookup1 verify_sig attr_locs userinfo1 cert_ok1 cert_ok2 sign_ok entity_id c =
  attrquery_handler decode lookup2 verify_sig attr_locs userinfo2 cert_ok1 cert_ok2 sign_ok entity_id c.
Proof. unfold attrquery_handler. destruct (negb cert_ok1); [reflexivity|]. apply arun_local. intros q E. discriminate E. Qed.
End Local.
