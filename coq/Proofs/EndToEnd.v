(** From an accepted AuthnRequest to the response the login callback sends: what the SSO handler hands to the storage
    is a non-empty registered consumer URL with a supported binding (so the request can be answered), and a callback
    for a record that stores exactly those values delivers to exactly that URL, in the way that binding prescribes,
    echoing that request's ID and RelayState. *)
From Saml Require Import Base.Bytes Idp.FactTypes Gen.Facts Gen.Pure Core.Acs Idp.Sso Idp.Callback Proofs.SsoProofs Proofs.SsoAccept Proofs.CallbackProofs.

(** after the last ACS selection the consumer URL is checked to be non-empty *)
Fixpoint acs_chk (l : list tag) (ok : bool) : bool :=
  match l with
  | [] => ok
  | TAcsNotEmpty :: r => acs_chk r true
  | TSelectAcs :: r => acs_chk r false
  | _ :: r => acs_chk r ok
  end.

Section E2E.
Variable e_form : option form.
Variable decode : bytes -> bytes -> option authn.
Variable lookup : bytes -> option sp_rec.
Variable verify_redirect : sp_rec -> bytes -> bytes -> bytes -> bytes -> bool.
Variable verify_post : sp_rec -> bytes -> bool.
Variable instant_of : bytes -> instant.
Variable now : Z.
Variable create : create_args -> option bytes.
Variable want_signed : bytes.
Variable sso_locs : list bytes.
Variable entity_id : bytes.
Variable cert_ok : bool.

Notation step := (step_sem e_form decode lookup verify_redirect verify_post instant_of now create want_signed sso_locs).
Notation run := (run_chain e_form decode lookup verify_redirect verify_post instant_of now create want_signed sso_locs entity_id).
Notation handler := (sso_handler e_form decode lookup verify_redirect verify_post instant_of now create want_signed sso_locs entity_id cert_ok).
Notation target := (can_target e_form decode lookup).

Lemma run_acs c : forall st ok0 st' out,
  (ok0 = true -> is_empty (r_acs st) = false) ->
  run c st = (false, Done st' out) -> acs_chk (map tag_of c) ok0 = true -> is_empty (r_acs st') = false.
Proof.
  induction c as [|f c IH]; intros st ok0 st' out Hb H Hc; cbn [run_chain map acs_chk] in *.
  - inversion H; subst. auto.
  - destruct (step (tag_of f) st) as [st1| |] eqn:Es; try discriminate.
    set (ok1 := match tag_of f with TAcsNotEmpty => true | TSelectAcs => false | _ => ok0 end).
    assert (Hc1 : acs_chk (map tag_of c) ok1 = true) by (unfold ok1; destruct (tag_of f); exact Hc).
    apply (IH st1 ok1 st' out); [|exact H|exact Hc1].
    unfold ok1. intro Hok. destruct (tag_eqb (tag_of f) TSelectAcs) eqn:Esel.
    + destruct (tag_of f); discriminate.
    + destruct (step_binding e_form decode lookup verify_redirect verify_post instant_of now create want_signed sso_locs _ st st1 Esel Es) as [_ E2].
      rewrite E2. destruct (tag_eqb (tag_of f) TAcsNotEmpty) eqn:Ean.
      * destruct (tag_of f); try discriminate Ean. cbn [step_sem] in Es. destruct (is_empty (r_acs st)); [discriminate|reflexivity].
      * apply Hb. destruct (tag_of f); try discriminate; exact Hok.
Qed.

(** an accepted request: exactly one record is handed to the storage, and it can be answered *)
Theorem accepted_record c st id :
  wf8 c = true -> acs_chk (map tag_of (removelast c)) false = true ->
  handler c = Done st [RLogin id] ->
  exists k, created st = [k] /\ create k = Some id /\
            c_acs k <> [] /\ binding_supported (c_binding k) = true /\ (c_acs k, c_binding k) = target /\
            exists f a s, e_form = Some f /\ can_req e_form decode = Some a /\ can_sp e_form decode lookup = Some s /\
                          c_relay k = f_relay f /\ c_app k = sp_id s /\ c_reqid k = a_id a.
Proof.
  intros Hwf Hacs H. unfold wf8 in Hwf. destruct (rev c) as [|last init] eqn:Er; [discriminate|].
  assert (Ec : c = rev init ++ [last]) by (rewrite <- (rev_involutive c), Er; reflexivity). subst c. clear Er.
  rewrite removelast_last in Hacs.
  apply andb_prop in Hwf as [Hwf Hbind]. apply andb_prop in Hwf as [Hwf Hinit]. apply andb_prop in Hwf as [Hp Hrep].
  unfold sso_handler in H. destruct cert_ok; cbn [negb] in H; [|discriminate].
  destruct (run (rev init ++ [last]) st0) as [[|] o] eqn:ER.
  - (* a failing chain never answers with a login redirect *)
    subst o. exfalso.
    exact (run_fail_replies e_form decode lookup verify_redirect verify_post instant_of now create want_signed sso_locs entity_id _ _ _ _ ER (RLogin id) id (or_introl eq_refl) eq_refl).
  - destruct o as [st1 o1|]; [|discriminate]. inversion H; subst st1. clear H.
    pose proof ER as ER0. rewrite run_app in ER.
    pose proof (run_prefix e_form decode lookup verify_redirect verify_post instant_of now create want_signed sso_locs entity_id (rev init) st0 false Hinit ltac:(discriminate)) as Hpre.
    destruct (run (rev init) st0) as [[|] o'] eqn:EP.
    + inversion Hpre; subst; discriminate ER.
    + destruct o' as [stp op|]; [|inversion Hpre].
      inversion Hpre as [st' E1 E2 E3 Eq | |]; subst.
      pose proof (run_acs (rev init) st0 false stp [] ltac:(discriminate) EP Hacs) as Hne.
      cbn [run_chain] in ER. destruct (tag_of last) eqn:Et; try discriminate Hp. cbn [step_sem] in ER.
      destruct (l_form stp) as [f|]; [|discriminate ER].
      destruct (l_req stp) as [a|]; [|discriminate ER].
      destruct (l_sp stp) as [s|]; [|discriminate ER].
      set (k := {| c_acs := r_acs stp; c_binding := r_binding stp; c_relay := f_relay f; c_app := sp_id s; c_reqid := a_id a |}) in *.
      destruct (create k) as [id'|] eqn:Ecr; [|discriminate ER].
      inversion ER; subst st. clear ER.
      assert (Hid : id' = id).
      { match goal with H : terminal _ _ = [RLogin id] |- _ => unfold terminal in H; cbn [r_binding set_created l_created] in H; rewrite (E3 Hbind) in H; inversion H; reflexivity end. }
      subst id'. exists k. cbn [created set_created]. rewrite E1. cbn [created st0 app].
      split; [reflexivity|]. split; [exact Ecr|].
      split; [cbn [c_acs k]; destruct (r_acs stp); [discriminate Hne|discriminate]|].
      split; [exact (E3 Hbind)|].
      destruct (persisted_values e_form decode lookup verify_redirect verify_post instant_of now create want_signed sso_locs entity_id _ _ _ _ ER0 k) as (f' & a' & s' & Hf & Ha & Hs & Hpair & Hr & Happ & Hq).
      { cbn [created set_created]. rewrite E1. now left. }
      split.
      * destruct Hpair as [E|E]; [|exact E]. cbn [c_acs c_binding k] in E. inversion E as [[Ea Eb]]. rewrite Ea in Hne. discriminate Hne.
      * exists f', a', s'. repeat split; assumption.
Qed.
End E2E.

(** the record the callback finds holds what the SSO handler handed over *)
Definition stores (k : create_args) (rec : stored_req) : Prop :=
  sr_acs rec = c_acs k /\ sr_binding rec = c_binding k /\ sr_relay rec = c_relay k /\ sr_app rec = c_app k /\ sr_reqid rec = c_reqid k.

(** ... and then the callback's reply, whatever its status, goes to that consumer URL by that binding, with that RelayState
    and that request's ID *)
Theorem callback_answers_stored : forall k rec form_id lookup_req app_entity userinfo cert_ok sign_ok,
  stores k rec -> c_acs k <> [] -> binding_supported (c_binding k) = true ->
  form_id <> [] -> lookup_req form_id = Some rec -> app_entity (sr_app rec) <> None ->
  exists d m, cs_out (callback true form_id lookup_req app_entity userinfo cert_ok sign_ok callback_seq loginResponse_seq) = [CSaml d m] /\
    m_in_response_to m = c_reqid k /\ m_destination m = c_acs k /\
    ((c_binding k = c_PostBinding /\ d = CPost (c_acs k) (c_relay k)) \/
     (c_binding k = c_RedirectBinding /\ exists det, d = CRedirect (c_acs k) (c_relay k) det)).
Proof.
  intros k rec form_id lookup_req app_entity userinfo cert_ok sign_ok (Ha & Hb & Hr & Happ & Hq) Hne Hsup Hid Hl Hent.
  pose proof (callback_table true form_id lookup_req app_entity userinfo cert_ok sign_ok) as T.
  unfold expected in T. destruct T as [_ T]. cbn [negb] in T.
  destruct (is_empty form_id) eqn:Eid; [destruct form_id; [contradiction|discriminate]|].
  rewrite Hl in T. destruct (app_entity (sr_app rec)) as [ent|]; [|contradiction].
  assert (D : forall resp, exists d m,
            deliver (sr_acs rec) (sr_binding rec) (sr_relay rec) {| m_in_response_to := sr_reqid rec; m_destination := sr_acs rec; m_audience := ent; m_resp := resp |} = CSaml d m /\
            m_in_response_to m = c_reqid k /\ m_destination m = c_acs k /\
            ((c_binding k = c_PostBinding /\ d = CPost (c_acs k) (c_relay k)) \/ (c_binding k = c_RedirectBinding /\ exists det, d = CRedirect (c_acs k) (c_relay k) det))).
  { intro resp. unfold deliver. rewrite Ha, Hb, Hr, Hq.
    destruct (is_empty (c_acs k)) eqn:Ee; [destruct (c_acs k); [contradiction|discriminate]|].
    unfold binding_supported in Hsup.
    destruct (beq (c_binding k) c_PostBinding) eqn:Ep.
    - apply beq_eq in Ep. eexists _, _. split; [reflexivity|]. cbn. auto.
    - destruct (beq (c_binding k) c_RedirectBinding) eqn:Erd; [|rewrite orb_false_r in Hsup; discriminate Hsup].
      apply beq_eq in Erd. eexists _, _. split; [reflexivity|]. cbn. split; [reflexivity|]. split; [reflexivity|]. right. split; [exact Erd|]. eauto. }
  destruct (sr_done rec); cbn [negb] in T.
  2:{ destruct T as [T _]. rewrite T. destruct (D (CFailed c_StatusCodeAuthNFailed (b "failed to create response"))) as (d & m & E & R). rewrite E. eauto. }
  destruct (userinfo (sr_app rec) (sr_user rec)) as [u|].
  2:{ destruct T as [T _]. rewrite T. destruct (D (CFailed c_StatusCodeInvalidAttrNameOrValue (b "failed to create response"))) as (d & m & E & R). rewrite E. eauto. }
  destruct cert_ok; cbn [negb] in T.
  2:{ destruct T as [T _]. rewrite T. destruct (D (CFailed c_StatusCodeInvalidAttrNameOrValue (b "failed to create response"))) as (d & m & E & R). rewrite E. eauto. }
  destruct sign_ok; cbn [negb] in T.
  2:{ destruct T as [T _]. rewrite T. destruct (D (CFailed c_StatusCodeResponder (b "failed to create response"))) as (d & m & E & R). rewrite E. eauto. }
  destruct T as [T _]. rewrite T. destruct (D (CSuccess u (sig_for (sr_binding rec)))) as (d & m & E & R). rewrite E. eauto.
Qed.
