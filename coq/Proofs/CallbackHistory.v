(** Storage histories: the Done flag of a stored request can only have been set by a completion of that request. *)
From Saml Require Import Base.Bytes Idp.Callback.

Inductive hop := HAccept (id : bytes) (r : stored_req) | HComplete (id : bytes) | HCallback (id : bytes).
Definition store := list (bytes * stored_req).
Fixpoint find_req (st : store) (id : bytes) : option stored_req :=
  match st with [] => None | (k, r) :: t => if beq k id then Some r else find_req t id end.
Definition set_done (r : stored_req) : stored_req :=
  {| sr_app := sr_app r; sr_relay := sr_relay r; sr_acs := sr_acs r; sr_binding := sr_binding r; sr_reqid := sr_reqid r; sr_user := sr_user r; sr_done := true |}.
Definition pending (r : stored_req) : stored_req :=
  {| sr_app := sr_app r; sr_relay := sr_relay r; sr_acs := sr_acs r; sr_binding := sr_binding r; sr_reqid := sr_reqid r; sr_user := sr_user r; sr_done := false |}.
Fixpoint complete (st : store) (id : bytes) : store :=
  match st with [] => [] | (k, r) :: t => if beq k id then (k, set_done r) :: t else (k, r) :: complete t id end.
(** SSO acceptance persists a request that is not done; login completion flips it; the callback only reads *)
Definition hstep (st : store) (o : hop) : store :=
  match o with
  | HAccept id r => (id, pending r) :: st
  | HComplete id => complete st id
  | HCallback _ => st
  end.
Definition hrun (ops : list hop) (st : store) : store := fold_left hstep ops st.

Definition completed_in (ops : list hop) (id : bytes) : Prop := exists i, In (HComplete i) ops /\ beq i id = true.

Lemma find_complete st id k : forall r, find_req (complete st id) k = Some r -> sr_done r = true ->
  (exists r0, find_req st k = Some r0 /\ sr_done r0 = true) \/ beq id k = true.
Proof.
  induction st as [|[k0 r0] t IH]; intros r H Hd; cbn [complete find_req] in *; [discriminate|].
  destruct (beq k0 id) eqn:E1; cbn [find_req] in H.
  - destruct (beq k0 k) eqn:E2.
    + right. apply beq_eq in E1, E2. subst. apply beq_refl.
    + left. exists r. auto.
  - destruct (beq k0 k) eqn:E2.
    + inversion H; subst. left. exists r. auto.
    + apply IH in H; auto.
Qed.

Theorem done_only_by_completion ops : forall st,
  (forall k r, find_req st k = Some r -> sr_done r = false) ->
  forall k r, find_req (hrun ops st) k = Some r -> sr_done r = true -> completed_in ops k.
Proof.
  assert (G : forall ops st past,
    (forall k r, find_req st k = Some r -> sr_done r = true -> completed_in past k) ->
    forall k r, find_req (hrun ops st) k = Some r -> sr_done r = true -> completed_in (past ++ ops) k).
  { clear. induction ops as [|o ops IH]; intros st past Inv k r H Hd; cbn [hrun fold_left] in H.
    - rewrite app_nil_r. eapply Inv; eauto.
    - replace (past ++ o :: ops) with ((past ++ [o]) ++ ops) by now rewrite <- app_assoc.
      apply (IH (hstep st o) (past ++ [o])) with (r := r); [|exact H|exact Hd]. clear H Hd k r. intros k r H Hd.
      destruct o as [id r0|id|id]; cbn [hstep] in H.
      + cbn [find_req] in H. destruct (beq id k); [inversion H; subst; discriminate|].
        destruct (Inv k r H Hd) as (i & Hi & E). exists i. split; [apply in_or_app; now left|exact E].
      + destruct (find_complete st id k r H Hd) as [(r1 & H1 & Hd1)|E].
        * destruct (Inv k r1 H1 Hd1) as (i & Hi & E). exists i. split; [apply in_or_app; now left|exact E].
        * exists id. split; [apply in_or_app; right; now left|exact E].
      + destruct (Inv k r H Hd) as (i & Hi & E). exists i. split; [apply in_or_app; now left|exact E]. }
  intros st Hinit k r H Hd. apply (G ops st []) with (r := r); [|exact H|exact Hd].
  intros k0 r0 H0 Hd0. rewrite (Hinit k0 r0 H0) in Hd0. discriminate.
Qed.
