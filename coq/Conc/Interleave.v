(** C15: isolation of concurrent requests, N threads, every schedule.

    Handlers are programs in a free monad over the storage operations of the identity provider.
    A pool of such programs is interleaved operation by operation under an arbitrary schedule.
    Proved, for every schedule and every number of threads:
      - [reads_commute]           every operation but [OCreate] leaves the storage unchanged, reads commute with
                                  reads and with creations of other ids, two creations commute up to the swap of
                                  the two ids they hand out;
      - [isolation_readonly]      in a pool that never creates, each finished thread answers what it answers alone
                                  on the initial storage;
      - [non_interference]        so replacing another thread by any other read-only program changes nothing;
      - [ids_distinct]            the ids handed out in one run are [fresh n0, fresh (n0+1), ...] in order, hence
                                  pairwise distinct;
      - [isolation_with_creates]  with creations: the answers a thread actually received are those of a run alone
                                  on the initial storage, except for the numbers of the ids handed to it; the
                                  numbers of different threads are disjoint.  Hypothesis, explicit:
                                  [reads_only_initial_keys] (a thread looks up stored requests only under ids
                                  that cannot be allocated during the run, or under ids handed to itself).
    Footprint predicates are [Fixpoint]s into [Prop], proofs go by induction on the schedule, peeling the first
    step and transporting the rest of the run back over a frame lemma ([log_valid_agree]). *)
From Saml Require Import Base.Bytes.
From Coq Require Import Arith Lia List FinFun.
Import ListNotations.

Section Interleave.
  (** stored values are abstract *)
  Variable V : Type.
  (** identifier supply: the n-th creation of a run gets [fresh n] *)
  Variable fresh : nat -> bytes.
  Hypothesis fresh_inj : forall m n, fresh m = fresh n -> m = n.

  (* ------------------------------------------------------------------ storage *)
  (** four maps (service providers, stored authentication requests, application -> entity, users), the signing
      key, and the allocation counter.  Only [reqs] and [next] are ever written. *)
  Record store := mkStore {
    sps : bytes -> option V;
    reqs : bytes -> option V;
    apps : bytes -> option V;
    users : bytes -> bytes -> option V;
    skey : option V;
    next : nat }.

  Definition write (s : store) (id : bytes) (v : V) : store :=
    mkStore (sps s) (fun k => if beq k id then Some v else reqs s k) (apps s) (users s) (skey s) (next s).
  Definition bump (s : store) : store :=
    mkStore (sps s) (reqs s) (apps s) (users s) (skey s) (S (next s)).
  Definition alloc (s : store) (v : V) : store := bump (write s (fresh (next s)) v).

  Inductive op :=
  | OGetSP (entity : bytes)
  | OGetRequest (id : bytes)
  | OGetApp (app : bytes)
  | OGetUser (app uid : bytes)
  | OGetKey
  | OCreate (payload : V).

  (** one answer type for every operation: no dependent matching anywhere *)
  Inductive ans := ANone | AVal (v : V) | AId (id : bytes).
  Definition answer (o : op) : Type := ans.

  Definition of_opt (x : option V) : ans := match x with Some v => AVal v | None => ANone end.
  Definition is_create (o : op) : bool := match o with OCreate _ => true | _ => false end.
  Definition read_ans (o : op) (s : store) : ans :=
    match o with
    | OGetSP e => of_opt (sps s e)
    | OGetRequest id => of_opt (reqs s id)
    | OGetApp a => of_opt (apps s a)
    | OGetUser a u => of_opt (users s a u)
    | OGetKey => of_opt (skey s)
    | OCreate _ => ANone
    end.
  Definition exec (o : op) (s : store) : answer o * store :=
    match o with
    | OCreate v => (AId (fresh (next s)), alloc s v)
    | _ => (read_ans o s, s)
    end.

  (** the key of [reqs] an operation looks up, if any *)
  Definition req_key (o : op) : option bytes := match o with OGetRequest id => Some id | _ => None end.

  Lemma exec_read o s : is_create o = false -> exec o s = (read_ans o s, s).
  Proof. destruct o; cbn; intros H; try reflexivity; discriminate. Qed.

  (** a write is visible only to a lookup of that very id in the stored requests *)
  Lemma read_ans_write o s id v : req_key o <> Some id -> read_ans o (write s id v) = read_ans o s.
  Proof.
    intros Hk. destruct o; cbn in *; try reflexivity.
    destruct (beq id0 id) eqn:E; [|reflexivity]. apply beq_eq in E. subst. contradiction Hk. reflexivity.
  Qed.

  Lemma beq_fresh_neq m n : m <> n -> beq (fresh m) (fresh n) = false.
  Proof. intros H. apply beq_neq. intros E. apply fresh_inj in E. contradiction. Qed.

  (* ------------------------------------------------------------------ 1. commutation *)
  Definition swap_id (x y k : bytes) : bytes := if beq k x then y else if beq k y then x else k.
  Definition rename_ans (f : bytes -> bytes) (a : ans) : ans := match a with AId id => AId (f id) | _ => a end.

  Lemma read_unchanged o s : is_create o = false -> snd (exec o s) = s.
  Proof. intros H. now rewrite (exec_read o s H). Qed.

  Lemma read_read_commute o1 o2 s : is_create o1 = false -> is_create o2 = false ->
    fst (exec o1 (snd (exec o2 s))) = fst (exec o1 s) /\
    fst (exec o2 (snd (exec o1 s))) = fst (exec o2 s) /\
    snd (exec o2 (snd (exec o1 s))) = snd (exec o1 (snd (exec o2 s))).
  Proof. intros H1 H2. repeat rewrite read_unchanged by assumption. auto. Qed.

  Lemma read_alloc o s v : is_create o = false -> req_key o <> Some (fresh (next s)) ->
    read_ans o (alloc s v) = read_ans o s.
  Proof.
    intros H Hk. destruct o; cbn in *; try reflexivity; try discriminate.
    destruct (beq id (fresh (next s))) eqn:E; [|reflexivity].
    apply beq_eq in E. subst. contradiction Hk. reflexivity.
  Qed.

  (** a read and a creation commute exactly, unless the read looks up the very id being allocated *)
  Lemma read_create_commute o v s : is_create o = false -> req_key o <> Some (fresh (next s)) ->
    fst (exec o (snd (exec (OCreate v) s))) = fst (exec o s) /\
    fst (exec (OCreate v) (snd (exec o s))) = fst (exec (OCreate v) s) /\
    snd (exec (OCreate v) (snd (exec o s))) = snd (exec o (snd (exec (OCreate v) s))).
  Proof.
    intros H Hk. rewrite (read_unchanged _ _ H). rewrite !(exec_read o _ H). cbn [fst snd exec].
    split; [|split]; try reflexivity. now apply read_alloc.
  Qed.

  (** two creations commute up to the transposition of the two ids handed out *)
  Lemma create_create_commute v1 v2 s :
    let n := next s in
    let pi := swap_id (fresh n) (fresh (S n)) in
    let r1 := exec (OCreate v1) s in let r12 := exec (OCreate v2) (snd r1) in
    let r2 := exec (OCreate v2) s in let r21 := exec (OCreate v1) (snd r2) in
    fst r1 = AId (fresh n) /\ fst r12 = AId (fresh (S n)) /\
    fst r2 = AId (fresh n) /\ fst r21 = AId (fresh (S n)) /\
    fst r21 = rename_ans pi (fst r1) /\ fst r2 = rename_ans pi (fst r12) /\
    sps (snd r12) = sps (snd r21) /\ apps (snd r12) = apps (snd r21) /\
    users (snd r12) = users (snd r21) /\ skey (snd r12) = skey (snd r21) /\
    next (snd r12) = next (snd r21) /\
    forall k, reqs (snd r12) k = reqs (snd r21) (pi k).
  Proof.
    cbn. unfold swap_id.
    assert (F01 : beq (fresh (next s)) (fresh (S (next s))) = false) by (apply beq_fresh_neq; lia).
    assert (F10 : beq (fresh (S (next s))) (fresh (next s)) = false) by (apply beq_fresh_neq; lia).
    rewrite !beq_refl, ?F01, ?F10. repeat (split; [reflexivity|]).
    intros k.
    destruct (beq k (fresh (next s))) eqn:E0.
    - apply beq_eq in E0. subst k. now rewrite F01, ?beq_refl.
    - destruct (beq k (fresh (S (next s)))) eqn:E1.
      + now rewrite ?F01, ?F10, ?beq_refl.
      + now rewrite ?E1, ?E0.
  Qed.

  Theorem reads_commute :
    (* every operation except OCreate leaves the store unchanged *)
    (forall o s, is_create o = false -> snd (exec o s) = s) /\
    (* hence two such operations commute: same answers, same final store *)
    (forall o1 o2 s, is_create o1 = false -> is_create o2 = false ->
       fst (exec o1 (snd (exec o2 s))) = fst (exec o1 s) /\
       fst (exec o2 (snd (exec o1 s))) = fst (exec o2 s) /\
       snd (exec o2 (snd (exec o1 s))) = snd (exec o1 (snd (exec o2 s)))) /\
    (* a read commutes with a creation unless it looks up the id being allocated *)
    (forall o v s, is_create o = false -> req_key o <> Some (fresh (next s)) ->
       fst (exec o (snd (exec (OCreate v) s))) = fst (exec o s) /\
       fst (exec (OCreate v) (snd (exec o s))) = fst (exec (OCreate v) s) /\
       snd (exec (OCreate v) (snd (exec o s))) = snd (exec o (snd (exec (OCreate v) s)))) /\
    (* two creations commute up to the ids they allocate *)
    (forall v1 v2 s,
       let n := next s in
       let pi := swap_id (fresh n) (fresh (S n)) in
       let r1 := exec (OCreate v1) s in let r12 := exec (OCreate v2) (snd r1) in
       let r2 := exec (OCreate v2) s in let r21 := exec (OCreate v1) (snd r2) in
       fst r1 = AId (fresh n) /\ fst r12 = AId (fresh (S n)) /\
       fst r2 = AId (fresh n) /\ fst r21 = AId (fresh (S n)) /\
       fst r21 = rename_ans pi (fst r1) /\ fst r2 = rename_ans pi (fst r12) /\
       sps (snd r12) = sps (snd r21) /\ apps (snd r12) = apps (snd r21) /\
       users (snd r12) = users (snd r21) /\ skey (snd r12) = skey (snd r21) /\
       next (snd r12) = next (snd r21) /\
       forall k, reqs (snd r12) k = reqs (snd r21) (pi k)).
  Proof.
    split; [exact read_unchanged|]. split; [exact read_read_commute|].
    split; [exact read_create_commute|exact create_create_commute].
  Qed.

  (** creation really allocates: on a store whose not-yet-allocated ids are unused, nothing is overwritten, and
      that property is kept by every operation *)
  Definition store_wf (s : store) : Prop := forall n, next s <= n -> reqs s (fresh n) = None.
  Lemma create_fresh s : store_wf s -> reqs s (fresh (next s)) = None.
  Proof. intros H. apply H. lia. Qed.
  Lemma exec_wf o s : store_wf s -> store_wf (snd (exec o s)).
  Proof.
    intros H. destruct o; cbn; try exact H. intros n Hn. cbn in *.
    rewrite beq_fresh_neq by lia. apply H. lia.
  Qed.

  (* ------------------------------------------------------------------ programs *)
  Inductive prog (A : Type) := Ret (a : A) | Op (o : op) (k : answer o -> prog A).
  Arguments Ret {A}. Arguments Op {A}.

  Fixpoint pbind {A B} (m : prog A) (f : A -> prog B) : prog B :=
    match m with Ret a => f a | Op o k => Op o (fun x => pbind (k x) f) end.

  (** sequential semantics *)
  Fixpoint interp {A} (p : prog A) (s : store) : A * store :=
    match p with
    | Ret a => (a, s)
    | Op o k => let '(x, s') := exec o s in interp (k x) s'
    end.

  Lemma interp_bind {A B} (m : prog A) (f : A -> prog B) s :
    interp (pbind m f) s = let '(a, s') := interp m s in interp (f a) s'.
  Proof.
    revert s; induction m as [a|o k IH]; intro s; cbn [pbind interp]; [reflexivity|].
    destruct (exec o s) as [x s']. apply IH.
  Qed.

  (* ------------------------------------------------------------------ pools, schedules *)
  Definition pool (A : Type) := list (prog A).
  Definition schedule := list nat.

  Fixpoint set_nth {X} (l : list X) (i : nat) (x : X) : list X :=
    match l, i with
    | [], _ => []
    | _ :: r, O => x :: r
    | y :: r, S j => y :: set_nth r j x
    end.

  Lemma nth_error_set_nth_eq {X} (l : list X) i x y :
    nth_error l i = Some y -> nth_error (set_nth l i x) i = Some x.
  Proof.
    revert i; induction l as [|z l IH]; intros [|i] H; cbn in *; try discriminate; [reflexivity|]. now apply IH.
  Qed.
  Lemma nth_error_set_nth_neq {X} (l : list X) i j x :
    i <> j -> nth_error (set_nth l i x) j = nth_error l j.
  Proof.
    revert i j; induction l as [|z l IH]; intros [|i] [|j] H; cbn; try reflexivity; [contradiction|].
    apply IH. lia.
  Qed.

  (** one atomic step of thread [i]: a finished or non-existent thread does nothing *)
  Definition step {A} (i : nat) (st : pool A * store) : pool A * store :=
    match nth_error (fst st) i with
    | Some (Op o k) => @pair (pool A) store (set_nth (fst st) i (k (fst (exec o (snd st))))) (snd (exec o (snd st)))
    | _ => st
    end.
  (** what the step shows to its thread: (thread, answer) *)
  Definition emit {A} (i : nat) (st : pool A * store) : list (nat * ans) :=
    match nth_error (fst st) i with
    | Some (Op o k) => [(i, fst (exec o (snd st)))]
    | _ => []
    end.

  Fixpoint run_sched {A} (sched : schedule) (st : pool A * store) : pool A * store :=
    match sched with [] => st | i :: r => run_sched r (step i st) end.
  Fixpoint run_trace {A} (sched : schedule) (st : pool A * store) : list (nat * ans) :=
    match sched with [] => [] | i :: r => emit i st ++ run_trace r (step i st) end.

  Definition result {A} (i : nat) (ps : pool A) : option A :=
    match nth_error ps i with Some (Ret a) => Some a | _ => None end.

  (** the answers thread [i] received during a run, in order *)
  Definition answers_of (i : nat) (tr : list (nat * ans)) : list ans :=
    map snd (filter (fun e => Nat.eqb (fst e) i) tr).
  (** all ids handed out during a run, in order (only [OCreate] answers with [AId]) *)
  Definition ids_of_trace (tr : list (nat * ans)) : list bytes :=
    flat_map (fun e => match snd e with AId id => [id] | _ => [] end) tr.

  Lemma step_cases {A} i (ps : pool A) s :
    (step i (ps, s) = (ps, s) /\ emit i (ps, s) = []) \/
    (exists o k, nth_error ps i = Some (Op o k) /\
       step i (ps, s) = @pair (pool A) store (set_nth ps i (k (fst (exec o s)))) (snd (exec o s)) /\
       emit i (ps, s) = [(i, fst (exec o s))]).
  Proof.
    unfold step, emit. cbn [fst snd]. destruct (nth_error ps i) as [[a|o k]|] eqn:E; auto.
    right. exists o, k. auto.
  Qed.

  Lemma answers_of_cons_eq i x tr : answers_of i ((i, x) :: tr) = x :: answers_of i tr.
  Proof. unfold answers_of. cbn. now rewrite Nat.eqb_refl. Qed.
  Lemma answers_of_cons_neq i j x tr : i <> j -> answers_of j ((i, x) :: tr) = answers_of j tr.
  Proof. intros H. unfold answers_of. cbn. apply Nat.eqb_neq in H. now rewrite H. Qed.

  (* ------------------------------------------------------------------ 2. read-only pools *)
  Fixpoint no_create {A} (p : prog A) : Prop :=
    match p with Ret _ => True | Op o k => is_create o = false /\ forall x, no_create (k x) end.
  Definition pool_all {A} (P : prog A -> Prop) (ps : pool A) : Prop :=
    forall i p, nth_error ps i = Some p -> P p.

  Lemma pool_all_set_nth {A} (P : prog A -> Prop) ps i q : pool_all P ps -> P q -> pool_all P (set_nth ps i q).
  Proof.
    intros Hall Hq j p Hj. destruct (Nat.eq_dec i j) as [->|Hne].
    - destruct (nth_error ps j) as [y|] eqn:E.
      + rewrite (nth_error_set_nth_eq ps j q y E) in Hj. now inversion Hj; subst.
      + assert (nth_error (set_nth ps j q) j = None).
        { clear -E. revert j E; induction ps as [|z l IH]; intros [|j] E; cbn in *; try discriminate; auto. }
        congruence.
    - rewrite nth_error_set_nth_neq in Hj by assumption. eauto.
  Qed.

  Lemma readonly_run {A} : forall sched (ps : pool A) s, pool_all no_create ps ->
    snd (run_sched sched (ps, s)) = s /\
    forall i p, nth_error ps i = Some p ->
      exists p', nth_error (fst (run_sched sched (ps, s))) i = Some p' /\ fst (interp p' s) = fst (interp p s).
  Proof.
    induction sched as [|i sched IH]; intros ps s Hall; cbn [run_sched].
    - split; [reflexivity|]. intros i p H. exists p. auto.
    - destruct (step_cases i ps s) as [[-> _]|(o & k & Hi & -> & _)]; [now apply IH|].
      destruct (Hall i _ Hi) as [Hro Hk]. rewrite (exec_read o s Hro). cbn [fst snd].
      destruct (IH (set_nth ps i (k (read_ans o s))) s) as [Hs Hth].
      { apply pool_all_set_nth; [exact Hall|apply Hk]. }
      split; [exact Hs|]. intros j p Hj. destruct (Nat.eq_dec i j) as [->|Hne].
      + rewrite Hi in Hj. inversion Hj; subst p.
        destruct (Hth j _ (nth_error_set_nth_eq ps j _ _ Hi)) as (p' & Hp' & Hr).
        exists p'. split; [exact Hp'|]. rewrite Hr. cbn [interp]. now rewrite (exec_read o s Hro).
      + apply Hth. now rewrite nth_error_set_nth_neq.
  Qed.

  (** no thread creates: every schedule leaves the storage as it was *)
  Theorem readonly_store_unchanged {A} (ps : pool A) s0 sched :
    pool_all no_create ps -> snd (run_sched sched (ps, s0)) = s0.
  Proof. intros H. apply (readonly_run sched ps s0 H). Qed.

  Theorem isolation_readonly {A} (ps : pool A) (s0 : store) :
    pool_all no_create ps ->
    forall (sched : schedule) (i : nat) (p : prog A) (a : A),
      nth_error ps i = Some p ->
      result i (fst (run_sched sched (ps, s0))) = Some a ->
      a = fst (interp p s0).
  Proof.
    intros Hall sched i p a Hi Hres.
    destruct (readonly_run sched ps s0 Hall) as [_ Hth]. destruct (Hth i p Hi) as (p' & Hp' & Hr).
    unfold result in Hres. rewrite Hp' in Hres. destruct p' as [a'|]; [|discriminate].
    inversion Hres; subst a'. now rewrite <- Hr.
  Qed.

  (* ------------------------------------------------------------------ 4. non-interference *)
  Theorem non_interference {A} (ps : pool A) (s0 : store) (i j : nat) (q : prog A) :
    pool_all no_create ps -> no_create q -> j <> i ->
    forall (sched sched' : schedule) (a a' : A),
      result i (fst (run_sched sched (ps, s0))) = Some a ->
      result i (fst (run_sched sched' (set_nth ps j q, s0))) = Some a' ->
      a = a'.
  Proof.
    intros Hall Hq Hne sched sched' a a' H1 H2.
    destruct (nth_error ps i) as [p|] eqn:Hi.
    - rewrite (isolation_readonly ps s0 Hall sched i p a Hi H1). symmetry.
      apply (isolation_readonly (set_nth ps j q) s0 (pool_all_set_nth _ ps j q Hall Hq) sched' i p a'); [|exact H2].
      now rewrite nth_error_set_nth_neq.
    - exfalso. clear H2. revert ps s0 Hall Hi H1.
      induction sched as [|t sched IH]; intros ps s0 Hall Hi H1; cbn [run_sched] in H1.
      + unfold result in H1. cbn [fst] in H1. now rewrite Hi in H1.
      + destruct (step_cases t ps s0) as [[E _]|(o & k & Ht & E & _)]; rewrite E in H1.
        * eapply IH; eauto.
        * destruct (Hall t _ Ht) as [Hro Hk]. eapply IH; [| |exact H1].
          -- apply pool_all_set_nth; [exact Hall|apply Hk].
          -- rewrite nth_error_set_nth_neq; [exact Hi|]. intros ->. congruence.
  Qed.

  (* ------------------------------------------------------------------ ids handed out *)
  Lemma step_next_le {A} i (st : pool A * store) : next (snd st) <= next (snd (step i st)).
  Proof.
    destruct st as [ps s]. destruct (step_cases i ps s) as [[-> _]|(o & k & _ & -> & _)]; cbn [snd]; [lia|].
    destruct o; cbn; lia.
  Qed.
  Lemma run_next_le {A} sched (st : pool A * store) : next (snd st) <= next (snd (run_sched sched st)).
  Proof.
    revert st; induction sched as [|i r IH]; intro st; cbn [run_sched]; [lia|].
    pose proof (step_next_le i st). pose proof (IH (step i st)). lia.
  Qed.

  (** the ids handed out in a run are exactly fresh n0, fresh (n0+1), ... in this order *)
  Theorem ids_in_order {A} sched (st : pool A * store) :
    ids_of_trace (run_trace sched st) =
    map fresh (seq (next (snd st)) (next (snd (run_sched sched st)) - next (snd st))).
  Proof.
    revert st; induction sched as [|i r IH]; intro st; cbn [run_sched run_trace].
    - now rewrite Nat.sub_diag.
    - unfold ids_of_trace. rewrite flat_map_app. fold (ids_of_trace (run_trace r (step i st))).
      rewrite IH. pose proof (run_next_le r (step i st)) as Hle.
      destruct st as [ps s]. destruct (step_cases i ps s) as [[E ->]|(o & k & _ & E & ->)]; rewrite E in *; cbn [snd fst] in *.
      + reflexivity.
      + destruct (is_create o) eqn:Ho.
        * destruct o; try discriminate. cbn [exec fst snd alloc bump write next flat_map app] in *.
          revert Hle. generalize (next (snd (run_sched r (@pair (pool A) store
            (set_nth ps i (k (AId (fresh (next s))))) (alloc s payload))))).
          intros m Hle. replace (m - next s) with (S (m - S (next s))) by lia. reflexivity.
        * rewrite (exec_read o s Ho) in *. cbn [fst snd flat_map app] in *.
          destruct o; try discriminate; cbn [read_ans]; unfold of_opt;
            repeat match goal with |- context [match ?x with Some _ => _ | None => _ end] => destruct x end;
            reflexivity.
  Qed.

  Theorem ids_distinct {A} sched (st : pool A * store) : NoDup (ids_of_trace (run_trace sched st)).
  Proof.
    rewrite ids_in_order. apply Injective_map_NoDup; [exact fresh_inj|apply seq_NoDup].
  Qed.

  (* ------------------------------------------------------------------ 3. pools that create *)
  (** feed a log of answers to a program *)
  Fixpoint replay {A} (p : prog A) (log : list ans) : option A :=
    match p with
    | Ret a => match log with [] => Some a | _ :: _ => None end
    | Op o k => match log with [] => None | x :: r => replay (k x) r end
    end.
  (** the residual program after a log of answers *)
  Fixpoint feed {A} (p : prog A) (log : list ans) {struct log} : option (prog A) :=
    match log with
    | [] => Some p
    | x :: r => match p with Ret _ => None | Op o k => feed (k x) r end
    end.
  Lemma feed_replay {A} (p : prog A) log a : feed p log = Some (Ret a) -> replay p log = Some a.
  Proof.
    revert p; induction log as [|x r IH]; intros p H; cbn in H.
    - inversion H; subst. reflexivity.
    - destruct p as [a'|o k]; [discriminate|]. cbn. now apply IH.
  Qed.

  (** [log_valid p loc log ids]: [log] is a (prefix of a) sequence of answers [p] gets when run ALONE from the
      store [loc], except that its creations are handed the ids [fresh n] for the successive [n] of [ids]
      (all of [ids] is used up).  Every answer to an operation other than OCreate is the answer of that operation on
      [loc] extended by the thread's own creations so far. *)
  Fixpoint log_valid {A} (p : prog A) (loc : store) (log : list ans) (ids : list nat) {struct p} : Prop :=
    match p with
    | Ret _ => log = [] /\ ids = []
    | Op o k =>
      match log with
      | [] => ids = []
      | x :: r =>
        match o with
        | OCreate v =>
          match ids with
          | n :: ids' => x = AId (fresh n) /\ log_valid (k x) (write loc (fresh n) v) r ids'
          | [] => False
          end
        | _ => x = read_ans o loc /\ log_valid (k x) loc r ids
        end
      end
    end.

  Lemma log_valid_nil {A} (p : prog A) loc : log_valid p loc [] [].
  Proof. destruct p; cbn; auto. Qed.
  Lemma log_valid_read {A} o (k : ans -> prog A) loc x r ids : is_create o = false ->
    (log_valid (Op o k) loc (x :: r) ids <-> x = read_ans o loc /\ log_valid (k x) loc r ids).
  Proof. destruct o; cbn; intros H; try discriminate; reflexivity. Qed.

  (** sequential run from [s] in which the creations get the ids numbered [ids] *)
  Fixpoint interp_ids {A} (p : prog A) (s : store) (ids : list nat) : option A :=
    match p with
    | Ret a => Some a
    | Op o k =>
      match o with
      | OCreate v =>
        match ids with
        | n :: r => interp_ids (k (AId (fresh n))) (write s (fresh n) v) r
        | [] => None
        end
      | _ => interp_ids (k (read_ans o s)) s ids
      end
    end.

  Lemma replay_interp_ids {A} (p : prog A) : forall loc log ids a,
    log_valid p loc log ids -> replay p log = Some a -> interp_ids p loc ids = Some a.
  Proof.
    induction p as [a0|o k IH]; intros loc log ids a Hv Hr.
    - cbn in *. destruct log; [|discriminate]. exact Hr.
    - destruct log as [|x r]; [discriminate|]. cbn [replay] in Hr.
      destruct (is_create o) eqn:Ho.
      + destruct o; try discriminate. cbn in Hv. destruct ids as [|n ids']; [contradiction|].
        destruct Hv as [-> Hv]. cbn. eapply IH; eauto.
      + apply (log_valid_read o k loc x r ids Ho) in Hv. destruct Hv as [-> Hv].
        assert (E : interp_ids (Op o k) loc ids = interp_ids (k (read_ans o loc)) loc ids)
          by (destruct o; try discriminate; reflexivity).
        rewrite E. eapply IH; eauto.
  Qed.

  (** footprint of the lookups of stored requests: every [OGetRequest] key satisfies [K], where an id returned
      by one of the thread's own creations is added to [K] from then on *)
  Definition add_key (K : bytes -> Prop) (id : bytes) : bytes -> Prop := fun k => k = id \/ K k.
  Fixpoint reads_ok {A} (K : bytes -> Prop) (p : prog A) : Prop :=
    match p with
    | Ret _ => True
    | Op o k =>
      match o with
      | OGetRequest id => K id /\ forall x, reads_ok K (k x)
      | OCreate _ => forall id, reads_ok (add_key K id) (k (AId id))
      | _ => forall x, reads_ok K (k x)
      end
    end.
  (** keys that no creation can be handed once the counter is at [n0] *)
  Definition old_key (n0 : nat) (k : bytes) : Prop := forall n, n0 <= n -> k <> fresh n.
  (** the explicit hypothesis of theorem 3 *)
  Definition reads_only_initial_keys {A} (n0 : nat) (p : prog A) : Prop := reads_ok (old_key n0) p.

  Lemma reads_ok_mono {A} (p : prog A) : forall (K K' : bytes -> Prop),
    (forall k, K k -> K' k) -> reads_ok K p -> reads_ok K' p.
  Proof.
    induction p as [a|o k IH]; intros K K' HK H; [exact I|].
    destruct o; cbn in *; try (intros x; apply (IH x K K' HK (H x))).
    - destruct H as [H1 H2]. split; [auto|]. intros x; apply (IH x K K' HK (H2 x)).
    - intros id. apply (IH (AId id) (add_key K id) (add_key K' id)); [|apply H].
      unfold add_key. intros k0 [->|Hk]; auto.
  Qed.
  Lemma reads_ok_read_step {A} o (k : ans -> prog A) K : is_create o = false ->
    reads_ok K (Op o k) -> forall x, reads_ok K (k x).
  Proof. destruct o; cbn; intros H Hr; try discriminate; try exact Hr. apply Hr. Qed.
  Lemma reads_ok_key {A} o (k : ans -> prog A) K id : req_key o = Some id -> reads_ok K (Op o k) -> K id.
  Proof. destruct o; cbn; intros H Hr; try discriminate. inversion H; subst. apply Hr. Qed.

  (** two stores agree on everything a thread with footprint [K] can see *)
  Definition agree (K : bytes -> Prop) (s1 s2 : store) : Prop :=
    sps s1 = sps s2 /\ apps s1 = apps s2 /\ users s1 = users s2 /\ skey s1 = skey s2 /\
    forall k, K k -> reqs s1 k = reqs s2 k.

  Lemma read_ans_agree K o s1 s2 : agree K s1 s2 -> (forall id, req_key o = Some id -> K id) ->
    read_ans o s1 = read_ans o s2.
  Proof.
    intros (H1 & H2 & H3 & H4 & H5) Hk. destruct o; cbn; try congruence.
    rewrite (H5 id); [reflexivity|]. apply Hk. reflexivity.
  Qed.
  Lemma agree_write K s1 s2 id v : agree K s1 s2 -> agree (add_key K id) (write s1 id v) (write s2 id v).
  Proof.
    intros (H1 & H2 & H3 & H4 & H5). repeat split; cbn; auto.
    intros k Hk. destruct (beq k id) eqn:E; [reflexivity|].
    destruct Hk as [->|Hk]; [now rewrite beq_refl in E|auto].
  Qed.

  (** frame lemma: what a log says about a thread only depends on the part of the store inside its footprint *)
  Lemma log_valid_agree {A} (p : prog A) : forall K loc1 loc2 log ids,
    reads_ok K p -> agree K loc1 loc2 -> log_valid p loc1 log ids -> log_valid p loc2 log ids.
  Proof.
    induction p as [a|o k IH]; intros K loc1 loc2 log ids Hr Ha Hv; [exact Hv|].
    destruct log as [|x r]; [exact Hv|].
    destruct (is_create o) eqn:Ho.
    - destruct o; try discriminate. cbn in *. destruct ids as [|n ids']; [contradiction|].
      destruct Hv as [-> Hv]. split; [reflexivity|].
      eapply IH; [apply Hr| |exact Hv]. now apply agree_write.
    - apply (log_valid_read o k _ x r ids Ho). apply (log_valid_read o k _ x r ids Ho) in Hv.
      destruct Hv as [-> Hv]. split.
      + apply (read_ans_agree K); [exact Ha|]. intros id Hid. eapply reads_ok_key; eauto.
      + eapply IH; [exact (reads_ok_read_step o k K Ho Hr _)|exact Ha|exact Hv].
  Qed.

  Lemma agree_bump K s : agree K (bump s) s.
  Proof. repeat split. Qed.
  Lemma agree_alloc_old s v : agree (old_key (next s)) (alloc s v) s.
  Proof.
    repeat split. intros k Hk. cbn. destruct (beq k (fresh (next s))) eqn:E; [|reflexivity].
    apply beq_eq in E. exfalso. apply (Hk (next s)); [lia|exact E].
  Qed.
  Lemma old_key_S n k : old_key n k -> old_key (S n) k.
  Proof. intros H m Hm. apply H. lia. Qed.
  Lemma add_old_key_S n k : add_key (old_key n) (fresh n) k -> old_key (S n) k.
  Proof.
    intros [->|H]; [|now apply old_key_S]. intros m Hm E. apply fresh_inj in E. lia.
  Qed.

  (** the run lemma, by induction on the schedule, generalised over the starting configuration *)
  Lemma conc_run {A} : forall sched (ps : pool A) s,
    pool_all (reads_only_initial_keys (next s)) ps ->
    exists idss : nat -> list nat,
      (forall i p, nth_error ps i = Some p ->
         log_valid p s (answers_of i (run_trace sched (ps, s))) (idss i) /\
         nth_error (fst (run_sched sched (ps, s))) i = feed p (answers_of i (run_trace sched (ps, s)))) /\
      (forall i n, In n (idss i) -> next s <= n < next (snd (run_sched sched (ps, s)))) /\
      (forall i j n, In n (idss i) -> In n (idss j) -> i = j) /\
      (forall i, NoDup (idss i)).
  Proof.
    induction sched as [|t sched IH]; intros ps s Hall; cbn [run_sched run_trace].
    - exists (fun _ => []). repeat split.
      + apply log_valid_nil.
      + cbn. exact H.
      + contradiction.
      + contradiction.
      + contradiction.
      + intros; constructor.
    - destruct (step_cases t ps s) as [[-> ->]|(o & k & Ht & -> & ->)]; [now apply IH|].
      pose proof (Hall t _ Ht) as Hrt. unfold reads_only_initial_keys in Hrt.
      destruct (is_create o) eqn:Ho.
      + (* thread t creates *)
        destruct o as [| | | | |v]; try discriminate. cbn [exec fst snd].
        set (n := next s) in *. set (x := AId (fresh n)).
        assert (Hall' : pool_all (reads_only_initial_keys (next (alloc s v))) (set_nth ps t (k x))).
        { apply pool_all_set_nth.
          - intros j p Hj. eapply reads_ok_mono; [|exact (Hall j p Hj)]. apply old_key_S.
          - cbn in Hrt. eapply reads_ok_mono; [|exact (Hrt (fresh n))]. apply add_old_key_S. }
        destruct (IH _ _ Hall') as (idss & Hth & Hrange & Hdisj & Hnd).
        pose proof (run_next_le sched (@pair (pool A) store (set_nth ps t (k x)) (alloc s v))) as Hle. cbn [snd] in Hle.
        change (next (alloc s v)) with (S n) in *.
        exists (fun j => if Nat.eqb j t then n :: idss t else idss j).
        split; [|split; [|split]].
        * intros j p Hj. destruct (Nat.eq_dec t j) as [<-|Hne].
          -- rewrite Ht in Hj. inversion Hj; subst p. rewrite Nat.eqb_refl.
             cbn [app]. rewrite answers_of_cons_eq.
             destruct (Hth t _ (nth_error_set_nth_eq ps t _ _ Ht)) as [Hv Hf].
             split; [|exact Hf]. cbn [log_valid]. split; [reflexivity|].
             eapply log_valid_agree; [| |exact Hv].
             ++ eapply reads_ok_mono; [|exact (Hrt (fresh n))]. intros k0 Hk0. exact Hk0.
             ++ apply agree_bump.
          -- assert (E : Nat.eqb j t = false) by (apply Nat.eqb_neq; congruence). rewrite E.
             cbn [app]. rewrite answers_of_cons_neq by assumption.
             assert (Hj' : nth_error (set_nth ps t (k x)) j = Some p) by now rewrite nth_error_set_nth_neq.
             destruct (Hth j p Hj') as [Hv Hf]. split; [|exact Hf].
             eapply log_valid_agree; [exact (Hall j p Hj)| |exact Hv]. apply agree_alloc_old.
        * clearbody x; clearbody n. intros j m Hm. destruct (Nat.eqb j t).
          -- destruct Hm as [<-|Hm]; [lia|]. specialize (Hrange _ _ Hm). lia.
          -- specialize (Hrange _ _ Hm). lia.
        * clearbody x; clearbody n. intros i j m Hi Hj.
          destruct (Nat.eqb i t) eqn:Ei; destruct (Nat.eqb j t) eqn:Ej.
          -- apply Nat.eqb_eq in Ei, Ej. congruence.
          -- destruct Hi as [<-|Hi]; [specialize (Hrange _ _ Hj); lia|].
             apply Nat.eqb_eq in Ei. subst i. eauto.
          -- destruct Hj as [<-|Hj]; [specialize (Hrange _ _ Hi); lia|].
             apply Nat.eqb_eq in Ej. subst j. eauto.
          -- eauto.
        * clearbody x; clearbody n. intros j. destruct (Nat.eqb j t); [|apply Hnd]. constructor; [|apply Hnd].
          intros Hin. specialize (Hrange _ _ Hin). lia.
      + (* thread t reads *)
        rewrite (exec_read o s Ho). cbn [fst snd]. set (x := read_ans o s).
        assert (Hall' : pool_all (reads_only_initial_keys (next s)) (set_nth ps t (k x))).
        { apply pool_all_set_nth; [exact Hall|]. now apply (reads_ok_read_step o k _ Ho Hrt). }
        destruct (IH _ _ Hall') as (idss & Hth & Hrange & Hdisj & Hnd).
        exists idss. split; [|auto].
        intros j p Hj. cbn [app]. destruct (Nat.eq_dec t j) as [<-|Hne].
        * rewrite Ht in Hj. inversion Hj; subst p. rewrite answers_of_cons_eq.
          destruct (Hth t _ (nth_error_set_nth_eq ps t _ _ Ht)) as [Hv Hf].
          split; [|exact Hf]. apply (log_valid_read o k s x _ _ Ho). auto.
        * rewrite answers_of_cons_neq by assumption. apply Hth. now rewrite nth_error_set_nth_neq.
  Qed.

  (** 3.  For every schedule and every pool whose threads look up stored requests only under ids that cannot be
      allocated during the run or under ids handed to themselves, there is a numbering [idss] of the creations,
      thread by thread, such that
        - the answers thread i ACTUALLY received ([answers_of i] of the run's trace) form a valid log of [p_i]
          alone on the INITIAL store s0 with its creations numbered [idss i]: every answer to an operation other
          than OCreate is the answer of that operation on s0 (extended by the thread's own creations), every
          answer to OCreate is [AId (fresh n)] for the next n of [idss i];
        - the state of thread i after the run is [p_i] fed with these answers; if it has finished, its result is
          [replay p_i answers_i], which is also [interp_ids p_i s0 (idss i)], the sequential run on the initial
          store with those ids;
        - the numbers are those allocated during the run, no number is given twice to a thread nor to two
          threads. *)
  Theorem isolation_with_creates {A} (ps : pool A) (s0 : store) (sched : schedule) :
    pool_all (reads_only_initial_keys (next s0)) ps ->
    exists idss : nat -> list nat,
      (forall i p, nth_error ps i = Some p ->
         let answers_i := answers_of i (run_trace sched (ps, s0)) in
         log_valid p s0 answers_i (idss i) /\
         nth_error (fst (run_sched sched (ps, s0))) i = feed p answers_i /\
         forall a, result i (fst (run_sched sched (ps, s0))) = Some a ->
                   replay p answers_i = Some a /\ interp_ids p s0 (idss i) = Some a) /\
      (forall i n, In n (idss i) -> next s0 <= n < next (snd (run_sched sched (ps, s0)))) /\
      (forall i j n, In n (idss i) -> In n (idss j) -> i = j) /\
      (forall i, NoDup (idss i)).
  Proof.
    intros Hall. destruct (conc_run sched ps s0 Hall) as (idss & Hth & Hrest).
    exists idss. split; [|exact Hrest].
    intros i p Hi answers_i. destruct (Hth i p Hi) as [Hv Hf]. fold answers_i in Hv, Hf.
    split; [exact Hv|]. split; [exact Hf|].
    intros a Hres. unfold result in Hres. rewrite Hf in Hres.
    destruct (feed p answers_i) as [[a'|]|] eqn:E; try discriminate. inversion Hres; subst a'.
    pose proof (feed_replay p answers_i a E) as Hrep. split; [exact Hrep|].
    eapply replay_interp_ids; eauto.
  Qed.

  (** the same for a thread that never looks up a stored request under an id allocated during the run (not even
      its own): every answer to an operation other than OCreate is literally the answer on the INITIAL store *)
  Fixpoint reads_in {A} (K : bytes -> Prop) (p : prog A) : Prop :=
    match p with
    | Ret _ => True
    | Op o k => (forall id, req_key o = Some id -> K id) /\ forall x, reads_in K (k x)
    end.
  Fixpoint log_on_initial {A} (p : prog A) (s0 : store) (log : list ans) : Prop :=
    match p with
    | Ret _ => log = []
    | Op o k =>
      match log with
      | [] => True
      | x :: r => (if is_create o then exists n, x = AId (fresh n) else x = read_ans o s0) /\
                  log_on_initial (k x) s0 r
      end
    end.
  Lemma log_valid_on_initial {A} (p : prog A) : forall n0 loc s0 log ids,
    reads_in (old_key n0) p -> agree (old_key n0) loc s0 -> (forall n, In n ids -> n0 <= n) ->
    log_valid p loc log ids -> log_on_initial p s0 log.
  Proof.
    induction p as [a|o k IH]; intros n0 loc s0 log ids Hr Ha Hids Hv.
    - cbn in *. tauto.
    - destruct log as [|x r]; [exact I|]. destruct Hr as [Hk Hr]. cbn [log_on_initial].
      destruct (is_create o) eqn:Ho.
      + destruct o; try discriminate. cbn in Hv. destruct ids as [|n ids']; [contradiction|].
        destruct Hv as [-> Hv]. split; [eauto|].
        apply (IH _ n0 (write loc (fresh n) payload) s0 r ids'); auto.
        * destruct Ha as (H1 & H2 & H3 & H4 & H5). repeat split; cbn; auto.
          intros k0 Hk0. destruct (beq k0 (fresh n)) eqn:E; [|auto].
          apply beq_eq in E. exfalso. apply (Hk0 n); [apply Hids; now left|exact E].
        * intros m Hm. apply Hids. now right.
      + apply (log_valid_read o k loc x r ids Ho) in Hv. destruct Hv as [-> Hv]. split.
        * apply (read_ans_agree (old_key n0)); auto.
        * apply (IH _ n0 loc s0 r ids); auto.
  Qed.
  Corollary isolation_with_creates_initial {A} (ps : pool A) (s0 : store) (sched : schedule) i p :
    pool_all (reads_only_initial_keys (next s0)) ps ->
    nth_error ps i = Some p -> reads_in (old_key (next s0)) p ->
    log_on_initial p s0 (answers_of i (run_trace sched (ps, s0))).
  Proof.
    intros Hall Hi Hin. destruct (isolation_with_creates ps s0 sched Hall) as (idss & Hth & Hrange & _).
    destruct (Hth i p Hi) as (Hv & _ & _).
    apply (log_valid_on_initial p (next s0) s0 s0 _ (idss i)); auto.
    - repeat split.
    - intros n Hn. apply (Hrange i n Hn).
  Qed.

  (** [interp_ids] with the ids the thread gets when it runs alone IS the sequential semantics *)
  Definition set_next (s : store) (n : nat) : store :=
    mkStore (sps s) (reqs s) (apps s) (users s) (skey s) n.
  Lemma interp_ids_alone {A} (p : prog A) : forall s n,
    exists m, forall m', m <= m' -> interp_ids p s (seq n m') = Some (fst (interp p (set_next s n))).
  Proof.
    induction p as [a|o k IH]; intros s n.
    - exists 0. reflexivity.
    - destruct (is_create o) eqn:Ho.
      + destruct o; try discriminate.
        destruct (IH (AId (fresh n)) (write s (fresh n) payload) (S n)) as [m Hm].
        exists (S m). intros [|m'] Hle; [lia|]. cbn [seq interp_ids interp exec].
        rewrite (Hm m') by lia. reflexivity.
      + destruct (IH (read_ans o s) s n) as [m Hm]. exists m. intros m' Hle.
        assert (E : interp_ids (Op o k) s (seq n m') = interp_ids (k (read_ans o s)) s (seq n m'))
          by (destruct o; try discriminate; reflexivity).
        rewrite E, (Hm m' Hle). cbn [interp]. rewrite (exec_read o _ Ho).
        replace (read_ans o (set_next s n)) with (read_ans o s) by (destruct o; reflexivity).
        reflexivity.
  Qed.
  Corollary interp_ids_sequential {A} (p : prog A) (s : store) :
    exists m, forall m', m <= m' -> interp_ids p s (seq (next s) m') = Some (fst (interp p s)).
  Proof.
    destruct (interp_ids_alone p s (next s)) as [m Hm]. exists m. intros m' Hle. rewrite (Hm m' Hle).
    destruct s; reflexivity.
  Qed.

  (** a thread without creations: the valid log is the log on the initial store, the result the sequential one *)
  Lemma interp_ids_no_create {A} (p : prog A) : forall s ids, no_create p ->
    interp_ids p s ids = Some (fst (interp p s)).
  Proof.
    induction p as [a|o k IH]; intros s ids H; [reflexivity|]. destruct H as [Ho Hk].
    assert (E : interp_ids (Op o k) s ids = interp_ids (k (read_ans o s)) s ids)
      by (destruct o; try discriminate; reflexivity).
    rewrite E, IH by auto. cbn [interp]. now rewrite (exec_read o s Ho).
  Qed.

  (** consequence: in a pool where OTHER threads create, a finished thread that does not create itself still
      answers exactly what it answers alone on the initial storage *)
  Corollary isolation_reader_among_creators {A} (ps : pool A) (s0 : store) (sched : schedule) i p a :
    pool_all (reads_only_initial_keys (next s0)) ps ->
    nth_error ps i = Some p -> no_create p ->
    result i (fst (run_sched sched (ps, s0))) = Some a ->
    a = fst (interp p s0).
  Proof.
    intros Hall Hi Hnc Hres. destruct (isolation_with_creates ps s0 sched Hall) as (idss & Hth & _).
    destruct (Hth i p Hi) as (_ & _ & Hr). destruct (Hr a Hres) as [_ Hi2].
    rewrite (interp_ids_no_create p s0 (idss i) Hnc) in Hi2. now inversion Hi2.
  Qed.
End Interleave.

Arguments Ret {V A}. Arguments Op {V A}.
Arguments OGetSP {V}. Arguments OGetRequest {V}. Arguments OGetApp {V}. Arguments OGetUser {V}.
Arguments OGetKey {V}. Arguments OCreate {V}.
Arguments ANone {V}. Arguments AVal {V}. Arguments AId {V}.

(* ---------------------------------------------------------------------- 5. example *)
Module Example3.
  Definition fresh (n : nat) : bytes := b "_id" ++ repeat "1"%char n.
  Lemma fresh_inj m n : fresh m = fresh n -> m = n.
  Proof.
    unfold fresh. intros H. apply app_inv_head in H.
    apply (f_equal (@length _)) in H. now rewrite !repeat_length in H.
  Qed.

  Definition look (l : list (bytes * bytes)) (k : bytes) : option bytes :=
    match find (fun e => beq (fst e) k) l with Some e => Some (snd e) | None => None end.

  Definition s0 : store bytes :=
    mkStore bytes
      (look [(b "https://sp.example/metadata", b "sp-config")])
      (look [(b "old-request", b "AuthnRequest#0")])
      (look [(b "app-1", b "https://sp.example/metadata")])
      (fun app uid => if beq app (b "app-1") && beq uid (b "alice") then Some (b "Alice") else None)
      (Some (b "signing-key"))
      0.

  (** thread 0: a callback-like request, read-only: stored request, application -> entity, provider, user *)
  Definition t_callback : prog bytes (list (ans bytes)) :=
    Op (OGetRequest (b "old-request")) (fun r =>
    Op (OGetApp (b "app-1")) (fun e =>
    match e with
    | AVal ent => Op (OGetSP ent) (fun sp => Op (OGetUser (b "app-1") (b "alice")) (fun u => Ret [r; e; sp; u]))
    | _ => Ret [r; e]
    end)).
  (** thread 1: an SSO-like request: provider, then store the request, answer with the new id *)
  Definition t_sso (payload : bytes) : prog bytes (list (ans bytes)) :=
    Op (OGetSP (b "https://sp.example/metadata")) (fun sp =>
    Op (OCreate payload) (fun id => Ret [sp; id])).
  (** thread 2: store a request, read it back under the id obtained, then the key *)
  Definition t_store_readback (payload : bytes) : prog bytes (list (ans bytes)) :=
    Op (OCreate payload) (fun id =>
    match id with
    | AId i => Op (OGetRequest i) (fun r => Op OGetKey (fun key => Ret [id; r; key]))
    | _ => Ret [id]
    end).

  Definition pool3 : pool bytes (list (ans bytes)) :=
    [t_callback; t_sso (b "AuthnRequest#1"); t_store_readback (b "AuthnRequest#2")].
  Definition sched3 : schedule := [2; 0; 1; 1; 0; 7; 2; 0; 1; 0; 2; 0; 2].

  Definition final := run_sched bytes fresh sched3 (pool3, s0).

  Example three_threads :
    result bytes 0 (fst final) =
      Some [AVal (b "AuthnRequest#0"); AVal (b "https://sp.example/metadata"); AVal (b "sp-config"); AVal (b "Alice")] /\
    result bytes 1 (fst final) = Some [AVal (b "sp-config"); AId (fresh 1)] /\
    result bytes 2 (fst final) = Some [AId (fresh 0); AVal (b "AuthnRequest#2"); AVal (b "signing-key")] /\
    result bytes 3 (fst final) = None /\
    next bytes (snd final) = 2 /\
    reqs bytes (snd final) (fresh 1) = Some (b "AuthnRequest#1") /\
    ids_of_trace bytes (run_trace bytes fresh sched3 (pool3, s0)) = [fresh 0; fresh 1] /\
    (* thread 0 alone on the initial store gives the same; thread 1 alone would have been handed fresh 0 *)
    fst (interp bytes fresh t_callback s0) =
      [AVal (b "AuthnRequest#0"); AVal (b "https://sp.example/metadata"); AVal (b "sp-config"); AVal (b "Alice")] /\
    fst (interp bytes fresh (t_sso (b "AuthnRequest#1")) s0) = [AVal (b "sp-config"); AId (fresh 0)] /\
    interp_ids bytes fresh (t_sso (b "AuthnRequest#1")) s0 [1] = Some [AVal (b "sp-config"); AId (fresh 1)].
  Proof. vm_compute. repeat split. Qed.

  (** the other schedule order hands the ids out the other way round; the read-only thread does not notice *)
  Example three_threads_other_schedule :
    let final' := run_sched bytes fresh [1; 1; 0; 0; 2; 2; 0; 0; 2] (pool3, s0) in
    result bytes 0 (fst final') = result bytes 0 (fst final) /\
    result bytes 1 (fst final') = Some [AVal (b "sp-config"); AId (fresh 0)] /\
    result bytes 2 (fst final') = Some [AId (fresh 1); AVal (b "AuthnRequest#2"); AVal (b "signing-key")].
  Proof. vm_compute. repeat split. Qed.

  (** the hypothesis of theorem 3 holds for this pool (thread 2 reads back only the id it was handed), so the
      theorem applies to it for every schedule *)
  Lemma old_request_old : old_key fresh 0 (b "old-request").
  Proof. intros n _ E. unfold fresh in E. vm_compute in E. discriminate E. Qed.
  Example pool3_reads_only_initial_keys : pool_all bytes (reads_only_initial_keys bytes fresh 0) pool3.
  Proof.
    intros i p H. destruct i as [|[|[|i]]]; cbn in H; try (destruct i; discriminate H);
      inversion H; subst p; clear H; unfold reads_only_initial_keys; cbn.
    - split; [exact old_request_old|]. intros r e. destruct e; cbn; auto.
    - intros sp id. exact I.
    - intros id. split; [now left|]. intros r key. exact I.
  Qed.
  Example pool3_isolated (sched : schedule) :
    exists idss : nat -> list nat,
      (forall i p, nth_error pool3 i = Some p ->
         forall a, result bytes i (fst (run_sched bytes fresh sched (pool3, s0))) = Some a ->
                   interp_ids bytes fresh p s0 (idss i) = Some a) /\
      (forall i j n, In n (idss i) -> In n (idss j) -> i = j).
  Proof.
    destruct (isolation_with_creates bytes fresh fresh_inj pool3 s0 sched pool3_reads_only_initial_keys)
      as (idss & Hth & _ & Hdisj & _).
    exists idss. split; [|exact Hdisj]. intros i p Hi a Hres. destruct (Hth i p Hi) as (_ & _ & Hr).
    now apply Hr.
  Qed.
End Example3.

Print Assumptions reads_commute.
Print Assumptions isolation_readonly.
Print Assumptions non_interference.
Print Assumptions ids_distinct.
Print Assumptions isolation_with_creates.
Print Assumptions isolation_with_creates_initial.
Print Assumptions interp_ids_sequential.
Print Assumptions isolation_reader_among_creators.
Print Assumptions Example3.three_threads.
