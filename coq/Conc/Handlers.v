(** C15: the endpoint models in the interleaving model of Conc/Interleave.v.
    (1) locality: the reply of each endpoint model is a function of the request and of the storage answers under the keys
        the request names (own issuer; own id, then that record's application and user) -- nothing else of the storage;
    (2) the login callback as a program over atomic storage operations whose result IS the callback model's reply and
        whose operations ARE the model's call list (the list the C01 correspondence compares with the real storage log);
    (3) hence, by [isolation_readonly], under every schedule of any number of such threads each reply equals the model's
        reply for that request alone on the initial storage. *)
From Saml Require Import Base.Bytes Idp.FactTypes Gen.Facts Idp.Sso Idp.Callback Idp.Logout Idp.AttrQuery
  Proofs.CallbackProofs Proofs.LogoutProofs Conc.Interleave.

Definition cb_obs (s : cstate) : list creply * list call := (cs_out s, cs_calls s).
Definition cb form_ok form_id L A U cert_ok sign_ok := cb_obs (callback form_ok form_id L A U cert_ok sign_ok callback_seq loginResponse_seq).

Lemma pair_l {A B} (a a' : A) (b0 : B) : a = a' -> (a, b0) = (a', b0).
Proof. now intros ->. Qed.
Opaque callback.

(** * 1. locality *)
Theorem callback_local : forall form_ok form_id L1 A1 U1 c1 L2 A2 U2 c2 sign_ok,
  L1 form_id = L2 form_id ->
  (forall rec, L1 form_id = Some rec -> A1 (sr_app rec) = A2 (sr_app rec)) ->
  (forall rec e, L1 form_id = Some rec -> A1 (sr_app rec) = Some e -> sr_done rec = true -> U1 (sr_app rec) (sr_user rec) = U2 (sr_app rec) (sr_user rec)) ->
  (forall rec e u, L1 form_id = Some rec -> A1 (sr_app rec) = Some e -> sr_done rec = true -> U1 (sr_app rec) (sr_user rec) = Some u -> c1 = c2) ->
  cb form_ok form_id L1 A1 U1 c1 sign_ok = cb form_ok form_id L2 A2 U2 c2 sign_ok.
Proof.
  intros form_ok form_id L1 A1 U1 c1 L2 A2 U2 c2 sign_ok HL HA HU Hc.
  pose proof (callback_table form_ok form_id L1 A1 U1 c1 sign_ok) as T1.
  pose proof (callback_table form_ok form_id L2 A2 U2 c2 sign_ok) as T2.
  unfold cb, cb_obs. unfold expected in T1, T2.
  set (r1 := callback form_ok form_id L1 A1 U1 c1 sign_ok callback_seq loginResponse_seq) in *.
  set (r2 := callback form_ok form_id L2 A2 U2 c2 sign_ok callback_seq loginResponse_seq) in *.
  clearbody r1 r2. destruct T1 as [_ T1], T2 as [_ T2].
  destruct (negb form_ok); [destruct T1 as [-> ->], T2 as [-> ->]; reflexivity|].
  destruct (is_empty form_id); [destruct T1 as [-> ->], T2 as [-> ->]; reflexivity|].
  rewrite <- HL in T2. destruct (L1 form_id) as [rec|] eqn:El; [|destruct T1 as [-> ->], T2 as [-> ->]; reflexivity].
  specialize (HA rec eq_refl). pose proof (fun e => HU rec e eq_refl) as HU1. pose proof (fun e u => Hc rec e u eq_refl) as Hc1. clear HU Hc.
  rewrite <- HA in T2.
  destruct (A1 (sr_app rec)) as [e|] eqn:Ea; [|destruct T1 as [-> ->], T2 as [-> ->]; reflexivity].
  pose proof (HU1 e eq_refl) as HU2. pose proof (fun u => Hc1 e u eq_refl) as Hc2. clear HU1 Hc1.
  destruct (sr_done rec) eqn:Ed; cbn [negb] in T1, T2; [|destruct T1 as [-> ->], T2 as [-> ->]; reflexivity].
  pose proof (HU2 eq_refl) as HU3. pose proof (fun u => Hc2 u eq_refl) as Hc3. clear HU2 Hc2.
  rewrite <- HU3 in T2.
  destruct (U1 (sr_app rec) (sr_user rec)) as [u|] eqn:Eu; [|destruct T1 as [-> ->], T2 as [-> ->]; reflexivity].
  rewrite <- (Hc3 u eq_refl) in T2.
  destruct (negb c1); [destruct T1 as [-> ->], T2 as [-> ->]; reflexivity|].
  destruct (negb sign_ok); destruct T1 as [-> ->], T2 as [-> ->]; reflexivity.
Qed.

Theorem logout_local : forall e_form decode lookup1 lookup2 instant_of now entity_id out1 out2 s1 s2,
  (forall f q i, e_form = Some f -> decode (lf_enc f) (lf_req f) = Some q -> lq_issuer q = Some i -> lookup1 i = lookup2 i) ->
  logout_handler e_form decode lookup1 instant_of now entity_id logout_steps = LDone s1 out1 ->
  logout_handler e_form decode lookup2 instant_of now entity_id logout_steps = LDone s2 out2 ->
  out1 = out2.
Proof.
  intros e_form decode lookup1 lookup2 instant_of now entity_id out1 out2 s1 s2 Hl H1 H2.
  pose proof (logout_table e_form decode lookup1 instant_of now entity_id) as T1.
  pose proof (logout_table e_form decode lookup2 instant_of now entity_id) as T2.
  rewrite H1 in T1. rewrite H2 in T2. unfold logout_expected in T1, T2. clear H1 H2.
  destruct e_form as [f|]; [|inversion T1; inversion T2; congruence].
  destruct (decode (lf_enc f) (lf_req f)) as [q|] eqn:Ed; [|destruct T1 as [? T1], T2 as [? T2]; inversion T1; inversion T2; congruence].
  destruct (negb _); [destruct T1 as [? T1], T2 as [? T2]; inversion T1; inversion T2; congruence|].
  destruct (lq_issuer q) as [i|] eqn:Ei; [|destruct T1 as [? T1], T2 as [? T2]; inversion T1; inversion T2; congruence].
  rewrite <- (Hl f q i eq_refl Ed Ei) in T2.
  destruct (lookup1 i); destruct T1 as [? T1], T2 as [? T2]; inversion T1; inversion T2; congruence.
Qed.

(** * 2. the callback as a program over atomic storage operations *)
Inductive val := VSP (x : sp_rec) | VReq (x : stored_req) | VEnt (x : bytes) | VUser (x : user) | VKey.
Definition as_req (a : ans val) : option stored_req := match a with AVal (VReq r) => Some r | _ => None end.
Definition as_ent (a : ans val) : option bytes := match a with AVal (VEnt e) => Some e | _ => None end.
Definition as_user (a : ans val) : option user := match a with AVal (VUser u) => Some u | _ => None end.
Definition as_key (a : ans val) : bool := match a with AVal VKey => true | _ => false end.
Definition only {X} (k : bytes) (v : option X) : bytes -> option X := fun k' => if beq k' k then v else None.
Definition none1 {X} : bytes -> option X := fun _ => None.
Definition none2 {X} : bytes -> bytes -> option X := fun _ _ => None.

Definition callback_prog (form_ok : bool) (form_id : bytes) (sign_ok : bool) : prog val (list creply * list call) :=
  if negb form_ok || is_empty form_id then Ret (cb form_ok form_id none1 none1 none2 false sign_ok) else
  Op (OGetRequest form_id) (fun a1 =>
    match as_req a1 with
    | None => Ret (cb form_ok form_id none1 none1 none2 false sign_ok)
    | Some rec =>
        Op (OGetApp (sr_app rec)) (fun a2 =>
          match as_ent a2 with
          | None => Ret (cb form_ok form_id (only form_id (Some rec)) none1 none2 false sign_ok)
          | Some e =>
              if negb (sr_done rec) then Ret (cb form_ok form_id (only form_id (Some rec)) (only (sr_app rec) (Some e)) none2 false sign_ok) else
              Op (OGetUser (sr_app rec) (sr_user rec)) (fun a3 =>
                match as_user a3 with
                | None => Ret (cb form_ok form_id (only form_id (Some rec)) (only (sr_app rec) (Some e)) none2 false sign_ok)
                | Some u => Op OGetKey (fun a4 =>
                    Ret (cb form_ok form_id (only form_id (Some rec)) (only (sr_app rec) (Some e)) (fun _ _ => Some u) (as_key a4) sign_ok))
                end)
          end)
    end).

(** the storage seen as the oracles of the callback model *)
Definition L_of (s : store val) : bytes -> option stored_req := fun k => as_req (of_opt val (reqs val s k)).
Definition A_of (s : store val) : bytes -> option bytes := fun k => as_ent (of_opt val (apps val s k)).
Definition U_of (s : store val) : bytes -> bytes -> option user := fun a u => as_user (of_opt val (users val s a u)).
Definition C_of (s : store val) : bool := as_key (of_opt val (skey val s)).

Lemma callback_prog_no_create form_ok form_id sign_ok : no_create val (callback_prog form_ok form_id sign_ok).
Proof.
  unfold callback_prog. destruct (negb form_ok || is_empty form_id); cbn [no_create]; [exact I|].
  split; [reflexivity|]. intro a1. destruct (as_req a1) as [rec|]; cbn [no_create]; [|exact I].
  split; [reflexivity|]. intro a2. destruct (as_ent a2) as [e|]; cbn [no_create]; [|exact I].
  destruct (negb (sr_done rec)); cbn [no_create]; [exact I|].
  split; [reflexivity|]. intro a3. destruct (as_user a3) as [u|]; cbn [no_create]; [|exact I].
  split; [reflexivity|]. intro a4. exact I.
Qed.

Section Seq.
Variable fresh : nat -> bytes.

Theorem callback_prog_correct form_ok form_id sign_ok (s : store val) :
  interp val fresh (callback_prog form_ok form_id sign_ok) s =
  (cb form_ok form_id (L_of s) (A_of s) (U_of s) (C_of s) sign_ok, s).
Proof.
  unfold callback_prog. destruct (negb form_ok || is_empty form_id) eqn:E0.
  { cbn [interp]. apply pair_l. pose proof (callback_table form_ok form_id none1 none1 none2 false sign_ok) as T1.
    pose proof (callback_table form_ok form_id (L_of s) (A_of s) (U_of s) (C_of s) sign_ok) as T2.
    unfold expected in T1, T2. unfold cb, cb_obs. destruct T1 as [_ T1], T2 as [_ T2].
    destruct (negb form_ok); [destruct T1 as [-> ->], T2 as [-> ->]; reflexivity|]. cbn [orb] in E0. rewrite E0 in T1, T2.
    destruct T1 as [-> ->], T2 as [-> ->]; reflexivity. }
  cbn [interp exec read_ans fst snd]. fold (L_of s form_id).
  destruct (L_of s form_id) as [rec|] eqn:El.
  2:{ cbn [interp]. apply pair_l. apply callback_local; [now rewrite El|unfold none1; intros; discriminate|unfold none1; intros; discriminate|unfold none1; intros; discriminate]. }
  cbn [interp exec read_ans fst snd]. fold (A_of s (sr_app rec)).
  assert (Lo : only form_id (Some rec) form_id = Some rec) by (unfold only; now rewrite beq_refl).
  assert (Inv : forall r, only form_id (Some rec) form_id = Some r -> r = rec) by (intros r Hr; rewrite Lo in Hr; now inversion Hr).
  destruct (A_of s (sr_app rec)) as [e|] eqn:Ea.
  2:{ cbn [interp]. apply pair_l. apply callback_local; [now rewrite Lo, El| | |].
      - intros r Hr. apply Inv in Hr. subst r. unfold none1. now rewrite Ea.
      - intros r e0 Hr He. unfold none1 in He. discriminate.
      - intros r e0 u Hr He. unfold none1 in He. discriminate. }
  assert (Ao : only (sr_app rec) (Some e) (sr_app rec) = Some e) by (unfold only; now rewrite beq_refl).
  destruct (negb (sr_done rec)) eqn:Ed.
  { cbn [interp]. apply pair_l. apply callback_local; [now rewrite Lo, El| | |].
    - intros r Hr. apply Inv in Hr. subst r. now rewrite Ao, Ea.
    - intros r e0 Hr He Hd. apply Inv in Hr. subst r. rewrite Hd in Ed. discriminate.
    - intros r e0 u Hr He Hd. apply Inv in Hr. subst r. rewrite Hd in Ed. discriminate. }
  cbn [interp exec read_ans fst snd]. fold (U_of s (sr_app rec) (sr_user rec)).
  destruct (U_of s (sr_app rec) (sr_user rec)) as [u|] eqn:Eu.
  2:{ cbn [interp]. apply pair_l. apply callback_local; [now rewrite Lo, El| | |].
      - intros r Hr. apply Inv in Hr. subst r. now rewrite Ao, Ea.
      - intros r e0 Hr He Hd. apply Inv in Hr. subst r. unfold none2. now rewrite Eu.
      - intros r e0 u Hr He Hd Hu. unfold none2 in Hu. discriminate. }
  cbn [interp exec read_ans fst snd]. fold (C_of s). apply pair_l. apply callback_local; [now rewrite Lo, El| | |].
  - intros r Hr. apply Inv in Hr. subst r. now rewrite Ao, Ea.
  - intros r e0 Hr He Hd. apply Inv in Hr. subst r. now rewrite Eu.
  - reflexivity.
Qed.

(** the operations the program issues are the model's call list (which the C01 correspondence compares with the real log) *)
Definition op_of_call (c : call) : op val :=
  match c with KAuthRequestByID id => OGetRequest id | KEntityIDByAppID a => OGetApp a | KUserinfo a u => OGetUser a u | KSigningKey => OGetKey end.
Fixpoint ops_of {A} (p : prog val A) (s : store val) : list (op val) :=
  match p with Ret _ => [] | Op o k => o :: ops_of (k (fst (exec val fresh o s))) (snd (exec val fresh o s)) end.
Theorem callback_prog_footprint form_ok form_id sign_ok (s : store val) :
  ops_of (callback_prog form_ok form_id sign_ok) s = map op_of_call (snd (cb form_ok form_id (L_of s) (A_of s) (U_of s) (C_of s) sign_ok)).
Proof.
  pose proof (callback_table form_ok form_id (L_of s) (A_of s) (U_of s) (C_of s) sign_ok) as T. unfold expected in T. destruct T as [_ T].
  unfold cb, cb_obs. cbn [snd]. unfold callback_prog.
  destruct (negb form_ok) eqn:Ef; cbn [orb]; [destruct T as [_ ->]; reflexivity|].
  destruct (is_empty form_id) eqn:Ei; [destruct T as [_ ->]; reflexivity|].
  cbn [ops_of exec read_ans fst snd]. fold (L_of s form_id).
  destruct (L_of s form_id) as [rec|] eqn:El; [|destruct T as [-> _]; reflexivity].
  cbn [ops_of exec read_ans fst snd]. fold (A_of s (sr_app rec)).
  destruct (A_of s (sr_app rec)) as [e|] eqn:Ea; [|destruct T as [_ ->]; reflexivity].
  destruct (negb (sr_done rec)) eqn:Ed; [destruct T as [_ ->]; reflexivity|].
  cbn [ops_of exec read_ans fst snd]. fold (U_of s (sr_app rec) (sr_user rec)).
  destruct (U_of s (sr_app rec) (sr_user rec)) as [u|] eqn:Eu; [|destruct T as [_ ->]; reflexivity].
  cbn [ops_of exec read_ans fst snd].
  destruct (negb (C_of s)); [destruct T as [_ ->]; reflexivity|].
  destruct (negb sign_ok); destruct T as [_ ->]; reflexivity.
Qed.

(** * 3. every schedule, any number of concurrent callbacks: each reply is the model's reply for its own request on the
    initial storage -- no reply depends on what the other threads ask for *)
Theorem concurrent_callbacks_isolated (reqs : list (bool * bytes * bool)) (s0 : store val) (sched : schedule) i fo id so a :
  nth_error reqs i = Some (fo, id, so) ->
  result val i (fst (run_sched val fresh sched (map (fun r => callback_prog (fst (fst r)) (snd (fst r)) (snd r)) reqs, s0))) = Some a ->
  a = cb fo id (L_of s0) (A_of s0) (U_of s0) (C_of s0) so.
Proof.
  intros Hi Hres.
  assert (Hall : pool_all val (no_create val) (map (fun r => callback_prog (fst (fst r)) (snd (fst r)) (snd r)) reqs)).
  { intros j p Hj. apply nth_error_In in Hj. apply in_map_iff in Hj as (r & <- & _). apply callback_prog_no_create. }
  rewrite (isolation_readonly val fresh _ s0 Hall sched i (callback_prog fo id so) a); [now rewrite callback_prog_correct| |exact Hres].
  rewrite nth_error_map, Hi. reflexivity.
Qed.
End Seq.
