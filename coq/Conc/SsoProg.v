(** C15: the SSO handler in the interleaving model.  The handler model takes the storage as three oracles: is the
    response key available ([cert_ok]), the provider registered under an issuer ([lookup]), and CreateAuthRequest
    ([create]).  Here it becomes a program over the atomic storage operations: read the key, read the provider under the
    request's own issuer, and -- only when every check passed -- create one record; the program's result is the
    handler model's reply with the allocated id.  Under any schedule, among any number of concurrent SSO requests and
    callbacks, each SSO request is answered as if alone on the initial storage, and the records get distinct ids. *)
From Saml Require Import Base.Bytes Idp.FactTypes Gen.Facts Gen.Pure Idp.Sso Idp.Callback Proofs.SsoProofs Proofs.SsoAccept Proofs.SsoLocal
  Conc.Interleave Conc.Handlers.

Section SsoProg.
Variable e_form : option form.
Variable decode : bytes -> bytes -> option authn.
Variable verify_redirect : sp_rec -> bytes -> bytes -> bytes -> bytes -> bool.
Variable verify_post : sp_rec -> bytes -> bool.
Variable instant_of : bytes -> instant.
Variable now : Z.
Variable want_signed : bytes.
Variable sso_locs : list bytes.
Variable entity_id : bytes.

Notation H lookup create cert_ok := (sso_handler e_form decode lookup verify_redirect verify_post instant_of now create want_signed sso_locs entity_id cert_ok).
Notation stepc create lookup := (step_sem e_form decode lookup verify_redirect verify_post instant_of now create want_signed sso_locs).
Notation runc create lookup := (run_chain e_form decode lookup verify_redirect verify_post instant_of now create want_signed sso_locs entity_id).

(** ** the handler uses [create] in the persist step only *)
Lemma step_create_indep c1 c2 lookup t st : tag_eqb t TPersist = false -> stepc c1 lookup t st = stepc c2 lookup t st.
Proof. destruct t; intro E; try discriminate E; reflexivity. Qed.

Lemma run_create_indep c1 c2 lookup c : forallb init_step_ok c = true -> forall st, runc c1 lookup c st = runc c2 lookup c st.
Proof.
  induction c as [|f c IH]; intros Hwf st; cbn [run_chain]; [reflexivity|].
  cbn [forallb] in Hwf. apply andb_prop in Hwf as [Hf Hc]. unfold init_step_ok in Hf.
  apply andb_prop in Hf as [Hf _]. apply andb_prop in Hf as [Hnp _]. apply negb_true_iff in Hnp.
  rewrite (step_create_indep c1 c2 lookup _ st Hnp). destruct (stepc c2 lookup (tag_of f) st); [apply IH; exact Hc|reflexivity|reflexivity].
Qed.

Definition replies (o : outcome) : list reply := match o with Done _ out | Panicked _ out => out end.
Definition panicked (o : outcome) : bool := match o with Panicked _ _ => true | Done _ _ => false end.

(** with a storage that always allocates, the handler either answers with the login redirect for the allocated id after
    handing over one record that does not depend on the id, or answers as it would with any other id *)
Lemma handler_const_create lookup cert_ok c id1 id2 : wf8 c = true ->
  (exists st1 st2 k, H lookup (fun _ => Some id1) cert_ok c = Done st1 [RLogin id1] /\ created st1 = [k] /\
                     H lookup (fun _ => Some id2) cert_ok c = Done st2 [RLogin id2] /\ created st2 = [k]) \/
  (H lookup (fun _ => Some id1) cert_ok c = H lookup (fun _ => Some id2) cert_ok c /\
   (forall x, ~ In (RLogin x) (replies (H lookup (fun _ => Some id1) cert_ok c))) /\
   match H lookup (fun _ => Some id1) cert_ok c with Done st _ | Panicked st _ => created st = [] end).
Proof.
  unfold wf8, sso_handler. intro Hwf. destruct (rev c) as [|last init] eqn:Er; [discriminate|].
  assert (Ec : c = rev init ++ [last]) by (rewrite <- (rev_involutive c), Er; reflexivity). subst c. clear Er.
  apply andb_prop in Hwf as [Hwf Hbind]. apply andb_prop in Hwf as [Hwf Hinit]. apply andb_prop in Hwf as [Hp Hrep].
  destruct cert_ok; cbn [negb].
  2:{ right. split; [reflexivity|]. split; [|reflexivity]. intros x [E|[]]. discriminate E. }
  rewrite !run_app. rewrite (run_create_indep (fun _ => Some id1) (fun _ => Some id2) lookup (rev init) Hinit st0).
  pose proof (run_prefix e_form decode lookup verify_redirect verify_post instant_of now (fun _ => Some id2) want_signed sso_locs entity_id (rev init) st0 false Hinit ltac:(discriminate)) as Hpre.
  inversion Hpre as [st' E1 E2 E3 Eq | st' r E1 E2 Eq | st' E1 Eq]; subst.
  - cbn [run_chain]. destruct (tag_of last) eqn:Et; try discriminate Hp. cbn [step_sem].
    destruct (l_form st') as [f|]; [|right; split; [reflexivity|]; split; [intros x []|exact E1]].
    destruct (l_req st') as [a|]; [|right; split; [reflexivity|]; split; [intros x []|exact E1]].
    destruct (l_sp st') as [s|]; [|right; split; [reflexivity|]; split; [intros x []|exact E1]].
    left. unfold terminal. cbn [r_binding set_created l_created created]. rewrite (E3 Hbind).
    set (k := {| c_acs := r_acs st'; c_binding := r_binding st'; c_relay := f_relay f; c_app := sp_id s; c_reqid := a_id a |}).
    exists (set_created id1 k st'), (set_created id2 k st'), k. cbn [created set_created]. rewrite E1. cbn [created st0 app].
    repeat split; reflexivity.
  - right. split; [reflexivity|]. cbn [replies]. split; [|exact E1]. intros x [E|[]]. subst r. discriminate E2.
  - right. split; [reflexivity|]. split; [intros x []|exact E1].
Qed.

(** ** the program *)
Definition as_sp (a : ans val) : option sp_rec := match a with AVal (VSP s) => Some s | _ => None end.
Definition own_issuer : option bytes := match can_req e_form decode with Some a => a_issuer a | None => None end.
Definition probe_id : bytes := [].
Definition rec_of (k : create_args) : stored_req :=
  {| sr_app := c_app k; sr_relay := c_relay k; sr_acs := c_acs k; sr_binding := c_binding k; sr_reqid := c_reqid k; sr_user := []; sr_done := false |}.

(** what the handler does once the two reads are answered: [inl k] = every check passed, record [k] is to be created;
    [inr out] = the replies *)
Definition decide (c : list stepfact) (lookup : bytes -> option sp_rec) (cert_ok : bool) : create_args + list reply :=
  match H lookup (fun _ => Some probe_id) cert_ok c with
  | Done st [RLogin _] => match created st with [k] => inl k | _ => inr [] end
  | o => inr (replies o)
  end.
Definition finish (c : list stepfact) (lookup : bytes -> option sp_rec) (cert_ok : bool) : prog val (list reply) :=
  match decide c lookup cert_ok with
  | inl k => Op (OCreate (VReq (rec_of k))) (fun a => match a with AId id => Ret [RLogin id] | _ => Ret [] end)
  | inr out => Ret out
  end.
Definition sso_prog (c : list stepfact) : prog val (list reply) :=
  Op OGetKey (fun a0 =>
    match own_issuer with
    | Some i => Op (OGetSP i) (fun a1 => finish c (only i (as_sp a1)) (as_key a0))
    | None => finish c none1 (as_key a0)
    end).

(** the storage as the handler model's oracles *)
Definition S_of (s : store val) : bytes -> option sp_rec := fun k => as_sp (of_opt val (sps val s k)).

Variable fresh : nat -> bytes.

Lemma lookup_only_agrees (s : store val) i : own_issuer = Some i ->
  forall a j, can_req e_form decode = Some a -> a_issuer a = Some j -> only i (S_of s i) j = S_of s j.
Proof. intros Hi a j Ha Hj. unfold own_issuer in Hi. rewrite Ha, Hj in Hi. inversion Hi; subst j. unfold only. now rewrite beq_refl. Qed.
Lemma lookup_none_agrees (s : store val) : own_issuer = None ->
  forall a j, can_req e_form decode = Some a -> a_issuer a = Some j -> @none1 sp_rec j = S_of s j.
Proof. intros Hi a j Ha Hj. unfold own_issuer in Hi. rewrite Ha, Hj in Hi. discriminate Hi. Qed.

(** sequentially, the program is the handler model with the storage as oracles and an allocating CreateAuthRequest *)
Theorem sso_prog_correct c (s : store val) : wf8 c = true ->
  fst (interp val fresh (sso_prog c) s) = replies (H (S_of s) (fun _ => Some (fresh (next val s))) (C_of s) c).
Proof.
  intro Hwf. unfold sso_prog. cbn [interp exec read_ans fst snd]. fold (C_of s).
  assert (Fin : forall lookup, (forall a j, can_req e_form decode = Some a -> a_issuer a = Some j -> lookup j = S_of s j) ->
            fst (interp val fresh (finish c lookup (C_of s)) s) = replies (H (S_of s) (fun _ => Some (fresh (next val s))) (C_of s) c)).
  { intros lookup Hag.
    rewrite <- (sso_local e_form decode lookup (S_of s) verify_redirect verify_post instant_of now (fun _ => Some (fresh (next val s))) want_signed sso_locs entity_id (C_of s) Hag c).
    unfold finish, decide.
    destruct (handler_const_create lookup (C_of s) c probe_id (fresh (next val s)) Hwf) as [(st1 & st2 & k & E1 & K1 & E2 & K2)|(E & Hno & Hcr)].
    - rewrite E1, K1, E2. cbn [interp exec fst snd replies]. reflexivity.
    - rewrite <- E. destruct (H lookup (fun _ => Some probe_id) (C_of s) c) as [st out|st out] eqn:EH; cbn [replies] in *.
      + destruct out as [|r [|r2 out']]; try reflexivity; destruct r; try reflexivity. exfalso. apply (Hno id). now left.
      + reflexivity. }
  destruct own_issuer as [i|] eqn:Ei.
  - cbn [interp exec read_ans fst snd]. fold (S_of s i). apply Fin. apply lookup_only_agrees. exact Ei.
  - apply Fin. apply lookup_none_agrees. exact Ei.
Qed.

(** the program never looks up a stored request: its footprint is the key, the provider under its own issuer, one creation *)
Lemma sso_prog_reads c n0 : reads_only_initial_keys val fresh n0 (sso_prog c).
Proof.
  unfold reads_only_initial_keys, sso_prog. cbn [reads_ok]. intro a0.
  assert (F : forall lookup ck, reads_ok val (old_key fresh n0) (finish c lookup ck)).
  { intros lookup ck. unfold finish. destruct (decide c lookup ck); cbn [reads_ok]; [|exact I]. intros id. exact I. }
  destruct own_issuer; cbn [reads_ok]; [intro a1|]; apply F.
Qed.

(** the same with the ids a concurrent run hands out: the reply is the handler model's reply on [s] with
    CreateAuthRequest answering some id; a login redirect names [fresh n] for the first of the thread's own numbers *)
Lemma sso_prog_interp_ids c (s : store val) ids a : wf8 c = true ->
  interp_ids val fresh (sso_prog c) s ids = Some a ->
  exists id, a = replies (H (S_of s) (fun _ => Some id) (C_of s) c) /\
             forall x, In (RLogin x) a -> exists n r, ids = n :: r /\ x = fresh n.
Proof.
  intros Hwf. unfold sso_prog. cbn [interp_ids read_ans]. fold (C_of s).
  assert (Fin : forall lookup, (forall a0 j, can_req e_form decode = Some a0 -> a_issuer a0 = Some j -> lookup j = S_of s j) ->
            interp_ids val fresh (finish c lookup (C_of s)) s ids = Some a ->
            exists id, a = replies (H (S_of s) (fun _ => Some id) (C_of s) c) /\ forall x, In (RLogin x) a -> exists n r, ids = n :: r /\ x = fresh n).
  { intros lookup Hag Hi. unfold finish, decide in Hi.
    destruct ids as [|n r].
    - (* no number available: the program cannot have created *)
      destruct (handler_const_create lookup (C_of s) c probe_id probe_id Hwf) as [(st1 & st2 & k & E1 & K1 & _)|(_ & Hno & _)].
      + rewrite E1, K1 in Hi. cbn [interp_ids] in Hi. discriminate Hi.
      + exists probe_id.
        rewrite <- (sso_local e_form decode lookup (S_of s) verify_redirect verify_post instant_of now (fun _ => Some probe_id) want_signed sso_locs entity_id (C_of s) Hag c).
        destruct (H lookup (fun _ => Some probe_id) (C_of s) c) as [st out|st out] eqn:EH; cbn [replies] in *.
        * destruct out as [|r0 [|r2 out']]; cbn [interp_ids] in Hi; try (inversion Hi; subst a; split; [reflexivity|intros x Hx; exfalso; exact (Hno x Hx)]);
          destruct r0; cbn [interp_ids] in Hi; try (inversion Hi; subst a; split; [reflexivity|intros x Hx; exfalso; exact (Hno x Hx)]).
          exfalso. apply (Hno id). now left.
        * cbn [interp_ids] in Hi. inversion Hi; subst a. split; [reflexivity|]. intros x Hx. exfalso. exact (Hno x Hx).
    - exists (fresh n).
      rewrite <- (sso_local e_form decode lookup (S_of s) verify_redirect verify_post instant_of now (fun _ => Some (fresh n)) want_signed sso_locs entity_id (C_of s) Hag c).
      destruct (handler_const_create lookup (C_of s) c probe_id (fresh n) Hwf) as [(st1 & st2 & k & E1 & K1 & E2 & K2)|(E & Hno & _)].
      + rewrite E1, K1 in Hi. cbn [interp_ids] in Hi. inversion Hi; subst a. rewrite E2. cbn [replies]. split; [reflexivity|].
        intros x [Hx|[]]. inversion Hx; subst x. eauto.
      + rewrite <- E. destruct (H lookup (fun _ => Some probe_id) (C_of s) c) as [st out|st out] eqn:EH; cbn [replies] in *.
        * destruct out as [|r0 [|r2 out']]; cbn [interp_ids] in Hi; try (inversion Hi; subst a; split; [reflexivity|intros x Hx; exfalso; exact (Hno x Hx)]);
          destruct r0; cbn [interp_ids] in Hi; try (inversion Hi; subst a; split; [reflexivity|intros x Hx; exfalso; exact (Hno x Hx)]).
          exfalso. apply (Hno id). now left.
        * cbn [interp_ids] in Hi. inversion Hi; subst a. split; [reflexivity|]. intros x Hx. exfalso. exact (Hno x Hx). }
  destruct own_issuer as [i|] eqn:Ei.
  - cbn [interp_ids read_ans]. fold (S_of s i). apply Fin. apply lookup_only_agrees. exact Ei.
  - apply Fin. apply lookup_none_agrees. exact Ei.
Qed.
End SsoProg.

(** ** any number of concurrent SSO requests, every schedule *)
Section Pool.
Variable decode : bytes -> bytes -> option authn.
Variable verify_redirect : sp_rec -> bytes -> bytes -> bytes -> bytes -> bool.
Variable verify_post : sp_rec -> bytes -> bool.
Variable instant_of : bytes -> instant.
Variable now : Z.
Variable want_signed : bytes.
Variable sso_locs : list bytes.
Variable entity_id : bytes.
Variable fresh : nat -> bytes.
Hypothesis fresh_inj : forall m n, fresh m = fresh n -> m = n.
Variable c : list stepfact.
Hypothesis Hwf : wf8 c = true.

Definition sso_thread (f : option form) : prog val (list reply) :=
  sso_prog f decode verify_redirect verify_post instant_of now want_signed sso_locs entity_id c.

(** each finished request was answered as the handler model answers it alone on the INITIAL storage (with CreateAuthRequest
    handing out some id), and two login redirects of different requests never name the same stored request *)
Theorem concurrent_sso_isolated (forms : list (option form)) (s0 : store val) (sched : schedule) :
  (forall i f a, nth_error forms i = Some f ->
     result val i (fst (run_sched val fresh sched (map sso_thread forms, s0))) = Some a ->
     exists id, a = replies (sso_handler f decode (S_of s0) verify_redirect verify_post instant_of now (fun _ => Some id) want_signed sso_locs entity_id (C_of s0) c)) /\
  (forall i j fi fj ai aj x, nth_error forms i = Some fi -> nth_error forms j = Some fj ->
     result val i (fst (run_sched val fresh sched (map sso_thread forms, s0))) = Some ai ->
     result val j (fst (run_sched val fresh sched (map sso_thread forms, s0))) = Some aj ->
     In (RLogin x) ai -> In (RLogin x) aj -> i = j).
Proof.
  assert (Hall : pool_all val (reads_only_initial_keys val fresh (next val s0)) (map sso_thread forms)).
  { intros j p Hj. apply nth_error_In in Hj. apply in_map_iff in Hj as (f & <- & _). apply sso_prog_reads. }
  destruct (isolation_with_creates val fresh fresh_inj (map sso_thread forms) s0 sched Hall) as (idss & Hth & _ & Hdisj & _).
  assert (Each : forall i f a, nth_error forms i = Some f ->
            result val i (fst (run_sched val fresh sched (map sso_thread forms, s0))) = Some a ->
            exists id, a = replies (sso_handler f decode (S_of s0) verify_redirect verify_post instant_of now (fun _ => Some id) want_signed sso_locs entity_id (C_of s0) c) /\
                       forall x, In (RLogin x) a -> exists n r, idss i = n :: r /\ x = fresh n).
  { intros i f a Hi Hres.
    destruct (Hth i (sso_thread f)) as (_ & _ & Hr); [rewrite nth_error_map, Hi; reflexivity|].
    destruct (Hr a Hres) as [_ Hids].
    exact (sso_prog_interp_ids f decode verify_redirect verify_post instant_of now want_signed sso_locs entity_id fresh c s0 (idss i) a Hwf Hids). }
  split.
  - intros i f a Hi Hres. destruct (Each i f a Hi Hres) as (id & E & _). eauto.
  - intros i j fi fj ai aj x Hi Hj Hri Hrj Hxi Hxj.
    destruct (Each i fi ai Hi Hri) as (_ & _ & Li). destruct (Each j fj aj Hj Hrj) as (_ & _ & Lj).
    destruct (Li x Hxi) as (n & r & Ei & Exn). destruct (Lj x Hxj) as (m & r' & Ej & Exm).
    assert (n = m) by (apply fresh_inj; congruence). subst m.
    apply (Hdisj i j n); [rewrite Ei; now left|rewrite Ej; now left].
Qed.
End Pool.
