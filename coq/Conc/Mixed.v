(** C15: SSO requests and login callbacks together.  In one pool, under every schedule: a callback for a request that
    existed before the run is answered exactly as alone on the initial storage although SSO threads create records all the
    while, and the SSO threads are answered as in [concurrent_sso_isolated]. *)
From Saml Require Import Base.Bytes Idp.FactTypes Gen.Facts Idp.Sso Idp.Callback Proofs.SsoProofs Proofs.CallbackProofs
  Conc.Interleave Conc.Handlers Conc.SsoProg.

Section Map.
Variable V : Type.
Variable fresh : nat -> bytes.
Definition pmap {A B} (f : A -> B) (p : prog V A) : prog V B := pbind V p (fun a => Ret (f a)).

Lemma pmap_reads {A B} (f : A -> B) (p : prog V A) : forall K, reads_ok V K p -> reads_ok V K (pmap f p).
Proof.
  induction p as [a|o k IH]; intros K H; [exact I|]. cbn [pmap pbind reads_ok] in *.
  destruct o; cbn in *; try (intro x; apply IH; apply H);
    try (destruct H as [H1 H2]; split; [exact H1|]; intro x; apply IH; apply H2).
Qed.
Lemma pmap_no_create {A B} (f : A -> B) (p : prog V A) : no_create V p -> no_create V (pmap f p).
Proof.
  induction p as [a|o k IH]; intro H; [exact I|]. cbn [pmap pbind no_create] in *.
  destruct H as [H1 H2]. split; [exact H1|]. intro x. apply IH. apply H2.
Qed.
Lemma pmap_interp {A B} (f : A -> B) (p : prog V A) s : interp V fresh (pmap f p) s = (f (fst (interp V fresh p s)), snd (interp V fresh p s)).
Proof. unfold pmap. rewrite interp_bind. destruct (interp V fresh p s) as [a s']. reflexivity. Qed.
End Map.

Lemma callback_prog_reads (K : bytes -> Prop) form_ok form_id sign_ok : K form_id -> reads_ok val K (callback_prog form_ok form_id sign_ok).
Proof.
  intro Hk. unfold callback_prog. destruct (negb form_ok || is_empty form_id); cbn [reads_ok]; [exact I|].
  split; [exact Hk|]. intro a1. destruct (as_req a1) as [rec|]; cbn [reads_ok]; [|exact I].
  intro a2. destruct (as_ent a2) as [e|]; cbn [reads_ok]; [|exact I].
  destruct (negb (sr_done rec)); cbn [reads_ok]; [exact I|].
  intro a3. destruct (as_user a3) as [u|]; cbn [reads_ok]; [|exact I]. intro a4. exact I.
Qed.

Section Mixed.
Variable decode : bytes -> bytes -> option authn.
Variable verify_redirect : sp_rec -> bytes -> bytes -> bytes -> bytes -> bool.
Variable verify_post : sp_rec -> bytes -> bool.
Variable instant_of : bytes -> instant.
Variable now : Z.
Variable want_signed : bytes.
Variable sso_locs : list bytes.
Variable entity_id : bytes.
Variable fresh : nat -> bytes.
Hypothesis fresh_inj : forall m n, fresh m = fresh n -> m = n.
Variable c : list stepfact.

Definition result_t : Type := list reply + (list creply * list call).
Definition sso_t (f : option form) : prog val result_t :=
  pmap val (@inl (list reply) (list creply * list call)) (sso_thread decode verify_redirect verify_post instant_of now want_signed sso_locs entity_id c f).
Definition cb_t (r : bool * bytes * bool) : prog val result_t :=
  pmap val (@inr (list reply) (list creply * list call)) (callback_prog (fst (fst r)) (snd (fst r)) (snd r)).

(** callbacks whose request existed before the run, among any number of SSO threads *)
Theorem callbacks_among_sso (forms : list (option form)) (cbs : list (bool * bytes * bool)) (s0 : store val) (sched : schedule) :
  (forall r, In r cbs -> old_key fresh (next val s0) (snd (fst r))) ->
  forall j fo id so a,
    nth_error cbs j = Some (fo, id, so) ->
    result val (length forms + j) (fst (run_sched val fresh sched (map sso_t forms ++ map cb_t cbs, s0))) = Some a ->
    a = inr (cb fo id (L_of s0) (A_of s0) (U_of s0) (C_of s0) so).
Proof.
  intros Hold j fo id so a Hj Hres.
  assert (Hall : pool_all val (reads_only_initial_keys val fresh (next val s0)) (map sso_t forms ++ map cb_t cbs)).
  { intros i p Hi. apply nth_error_In in Hi. apply in_app_or in Hi as [Hi|Hi]; apply in_map_iff in Hi as (x & <- & Hx).
    - unfold sso_t. apply pmap_reads. apply sso_prog_reads.
    - unfold cb_t. apply pmap_reads. apply callback_prog_reads. exact (Hold x Hx). }
  assert (Hn : nth_error (map sso_t forms ++ map cb_t cbs) (length forms + j) = Some (cb_t (fo, id, so))).
  { rewrite nth_error_app2 by (rewrite map_length; lia). rewrite map_length. replace (length forms + j - length forms) with j by lia.
    rewrite nth_error_map, Hj. reflexivity. }
  rewrite (isolation_reader_among_creators val fresh fresh_inj _ s0 sched _ (cb_t (fo, id, so)) a Hall Hn); [| |exact Hres].
  - unfold cb_t. rewrite pmap_interp. cbn [fst snd]. now rewrite callback_prog_correct.
  - unfold cb_t. apply pmap_no_create. apply callback_prog_no_create.
Qed.
End Mixed.
