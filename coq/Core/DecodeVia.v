(** The [decode] oracle of the SSO and logout models, opened up one level: DecodeAuthNRequest / DecodeLogoutRequest are
    InflateAndDecode(encoding, true, message) followed by a parser of the inflated document.  With the oracle in that
    form, the codec theorems (unknown encoding is an error, more than the cap is an error) become statements about
    what the handlers accept.  The form itself is read off the source: the statement sequences and call texts of the
    two Decode functions, and the arguments the handlers pass. *)
From Saml Require Import Base.Bytes Codec.Base64 Idp.FactTypes Gen.Facts Core.WireCodec.
Local Open Scope string_scope.

Section Via.
Variable A : Type.
Variable inflate : bytes -> option bytes.
Variable cap : Z.
Variable parse : bytes -> option A.        (* unmarshalDocument into the request struct *)

Definition decode_via (encoding message : bytes) : option A :=
  match inflate_and_decode inflate cap encoding true message with
  | Some d => parse d
  | None => None
  end.

Theorem decode_via_some encoding message a : decode_via encoding message = Some a ->
  (encoding = [] \/ encoding = c_EncodingDeflate) /\
  exists raw d, b64_decode message = Some raw /\ parse d = Some a /\
    ((encoding = [] /\ d = raw) \/ (encoding = c_EncodingDeflate /\ inflate raw = Some d /\ (Z.of_nat (length d) <= cap)%Z)).
Proof.
  unfold decode_via, inflate_and_decode. destruct (b64_decode message) as [raw|]; [|discriminate].
  destruct (is_empty encoding) eqn:Ee.
  - intro H. destruct encoding; [|discriminate]. split; [now left|]. exists raw, raw. repeat split; auto.
  - destruct (beq encoding c_EncodingDeflate) eqn:Ed; [|discriminate]. apply beq_eq in Ed.
    destruct (inflate raw) as [out|] eqn:Ei; [|discriminate].
    destruct (Z.of_nat (length out) >? cap)%Z eqn:G; [discriminate|]. intro H.
    split; [now right|]. exists raw, out. split; [reflexivity|]. split; [exact H|]. right. repeat split; auto. lia.
Qed.

Theorem decode_via_unknown encoding message :
  encoding <> [] -> encoding <> c_EncodingDeflate -> decode_via encoding message = None.
Proof. intros H1 H2. unfold decode_via. now rewrite unknown_encoding_rejected. Qed.

Theorem decode_via_oversized message raw d :
  b64_decode message = Some raw -> inflate raw = Some d -> (Z.of_nat (length d) > cap)%Z ->
  decode_via c_EncodingDeflate message = None.
Proof.
  intros Hb Hi Hl. unfold decode_via, inflate_and_decode. rewrite Hb, Hi.
  assert (E : is_empty c_EncodingDeflate = false) by reflexivity. rewrite E, beq_refl.
  destruct (Z.of_nat (length d) >? cap)%Z eqn:G; [reflexivity|lia].
Qed.
End Via.

(** the source has that form *)
Definition decode_fn_ok (seq : list stmtfact) (calls : list (string * string)) : bool :=
  match seq with
  | [s1; s2; s3; s4; s5] =>
      stmtkind_eqb (sfk s1) SAssign && strs_eqb (targets s1) ["data"; "err"] && strs_eqb (FactTypes.calls s1) ["InflateAndDecode"] &&
      stmtkind_eqb (sfk s2) SIf && strs_eqb (conds s2) ["cond:err!=nil"] && returns s2 &&
      stmtkind_eqb (sfk s3) SAssign && strs_eqb (targets s3) ["req"] && strs_eqb (FactTypes.calls s3) [] &&
      stmtkind_eqb (sfk s4) SIf && strs_eqb (conds s4) ["unmarshalDocument"; "cond:err!=nil"] && returns s4 &&
      stmtkind_eqb (sfk s5) SReturn
  | _ => false
  end &&
  list_eqb (fun p q => String.eqb (fst p) (fst q) && String.eqb (snd p) (snd q)) calls
    [("InflateAndDecode", "InflateAndDecode(encoding, true, message)"); ("unmarshalDocument", "unmarshalDocument(data, req)")].

Theorem decode_functions_from_source :
  decode_fn_ok decodeAuthNRequest_seq decodeAuthNRequest_calls = true /\
  decode_fn_ok decodeLogoutRequest_seq decodeLogoutRequest_calls = true /\
  sso_decode_call = [("arg0", "authRequestForm.Encoding"); ("arg1", "authRequestForm.AuthRequest")] /\
  logout_decode_call = [("arg0", "logoutRequestForm.Encoding"); ("arg1", "logoutRequestForm.LogoutRequest")].
Proof. repeat split; vm_compute; reflexivity. Qed.
