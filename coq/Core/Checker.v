(** C20: semantics of the validation-chain DSL, stated on the definitions go2v generates from
    checker/checker.go ([Gen.Checker]), instantiated at the state monad over an arbitrary world. *)
From Saml Require Import Base.Bytes Base.Loops Gen.Checker.

Section StateMonad.
Variable W : Type.
Definition SM (A : Type) := W -> A * W.
Definition sret {A} (a : A) : SM A := fun w => (a, w).
Definition sbind {A B} (m : SM A) (f : A -> SM B) : SM B := fun w => let '(a, w') := m w in f a w'.
Variable log : SM unit.

Notation gCheckFailed := (Gen.Checker.CheckFailed SM (@sret) (@sbind)).

(** readable reference semantics of one step per kind: the documented failure condition, the order in
    which the closures are called, and the callback exactly once on the failing branch *)
Inductive stepdesc :=
| DValueNotEmpty (name : bytes) (value : SM bytes) (cb : SM unit)
| DValuesNotEmpty (values : SM (list bytes)) (cb : SM unit)
| DValueLength (name : bytes) (value : SM bytes) (mn mx : Z) (cb : SM unit)
| DValueEquals (name : bytes) (value equal : SM bytes) (cb : SM unit)
| DCondValueNotEmpty (cond : SM bool) (name : bytes) (value : SM bytes) (cb : SM unit)
| DCondLogic (cond : SM bool) (logic : SM goerr) (cb : SM unit)
| DLogic (logic : SM goerr) (cb : SM unit)
| DValueStep (logic : SM unit).

Definition failing (cb : SM unit) : SM bool := fun w => let '(_, w1) := log w in let '(_, w2) := cb w1 in (true, w2).

Definition ref_step (d : stepdesc) : SM bool :=
  match d with
  | DValueNotEmpty _ value cb => fun w => let '(v, w1) := value w in if is_empty v then failing cb w1 else (false, w1)
  | DValuesNotEmpty values cb => fun w => let '(vs, w1) := values w in if existsb is_empty vs then failing cb w1 else (false, w1)
  | DValueLength _ value mn mx cb => fun w =>
      (* (mn > 0 && len(value()) < mn) || (mx > 0 && len(value()) > mx), short-circuit, value() per use *)
      let '(c1, w1) := (if (0 <? mn)%Z then let '(v, w1) := value w in ((blen v <? mn)%Z, w1) else (false, w)) in
      if c1 then failing cb w1
      else let '(c2, w2) := (if (0 <? mx)%Z then let '(v, w2) := value w1 in ((mx <? blen v)%Z, w2) else (false, w1)) in
           if c2 then failing cb w2 else (false, w2)
  | DValueEquals _ value equal cb => fun w =>
      let '(v, w1) := value w in let '(e, w2) := equal w1 in
      if beq v e then (false, w2)
      else (* the log line evaluates value() and equal() again *)
           let '(_, w3) := value w2 in let '(_, w4) := equal w3 in failing cb w4
  | DCondValueNotEmpty cond _ value cb => fun w =>
      let '(c, w1) := cond w in
      if c then let '(v, w2) := value w1 in if is_empty v then failing cb w2 else (false, w2) else (false, w1)
  | DCondLogic cond logic cb => fun w =>
      let '(c, w1) := cond w in
      if c then let '(e, w2) := logic w1 in if goerr_is_nil e then (false, w2) else failing cb w2 else (false, w1)
  | DLogic logic cb => fun w => let '(e, w1) := logic w in if goerr_is_nil e then (false, w1) else failing cb w1
  | DValueStep logic => fun w => let '(_, w1) := logic w in (false, w1)
  end.

Fixpoint ref_run (ds : list stepdesc) : SM bool :=
  match ds with
  | [] => fun w => (false, w)
  | d :: r => fun w => let '(f, w') := ref_step d w in if f then (true, w') else ref_run r w'
  end.

(** the chain as the Go API builds it: With* calls on an initially empty Checker *)
Definition add_desc (c : Checker SM) (d : stepdesc) : Checker SM :=
  match d with
  | DValueNotEmpty n v cb => WithValueNotEmptyCheck SM (@sret) (@sbind) log c n v cb
  | DValuesNotEmpty vs cb => WithValuesNotEmptyCheck SM (@sret) (@sbind) log c vs cb
  | DValueLength n v mn mx cb => WithValueLengthCheck SM (@sret) (@sbind) log c n v mn mx cb
  | DValueEquals n v e cb => WithValueEqualsCheck SM (@sret) (@sbind) log c n v e cb
  | DCondValueNotEmpty cd n v cb => WithConditionalValueNotEmpty SM (@sret) (@sbind) log c cd n v cb
  | DCondLogic cd l cb => WithConditionalLogicStep SM (@sret) (@sbind) log c cd l cb
  | DLogic l cb => WithLogicStep SM (@sret) (@sbind) log c l cb
  | DValueStep l => WithValueStep SM (@sret) (@sbind) c l
  end.
Definition build (ds : list stepdesc) : Checker SM := fold_left add_desc ds [].

Definition gen_step (d : stepdesc) : SM bool :=
  match d with
  | DValueNotEmpty n v cb => step_WithValueNotEmptyCheck SM (@sret) (@sbind) log n v cb
  | DValuesNotEmpty vs cb => step_WithValuesNotEmptyCheck SM (@sret) (@sbind) log vs cb
  | DValueLength n v mn mx cb => step_WithValueLengthCheck SM (@sret) (@sbind) log n v mn mx cb
  | DValueEquals n v e cb => step_WithValueEqualsCheck SM (@sret) (@sbind) log n v e cb
  | DCondValueNotEmpty cd n v cb => step_WithConditionalValueNotEmpty SM (@sret) (@sbind) log cd n v cb
  | DCondLogic cd l cb => step_WithConditionalLogicStep SM (@sret) (@sbind) log cd l cb
  | DLogic l cb => step_WithLogicStep SM (@sret) (@sbind) log l cb
  | DValueStep l => step_WithValueStep SM (@sret) (@sbind) l
  end.

Lemma build_map ds : build ds = map gen_step ds.
Proof.
  unfold build. rewrite <- (app_nil_l (map gen_step ds)). generalize (@nil (SM bool)) as acc.
  induction ds as [|d ds IH]; intro acc; cbn [fold_left map]; [now rewrite app_nil_r|].
  rewrite IH. replace (add_desc acc d) with (acc ++ [gen_step d]) by (destruct d; reflexivity).
  now rewrite <- app_assoc.
Qed.

(** running a list of step closures: what the generated CheckFailed loop does *)
Fixpoint run (c : list (SM bool)) : SM bool :=
  match c with
  | [] => fun w => (false, w)
  | s :: r => fun w => let '(f, w') := s w in if f then (true, w') else run r w'
  end.

Lemma CheckFailed_run c w : gCheckFailed c w = run c w.
Proof.
  unfold Gen.Checker.CheckFailed. cbv beta delta [Loops.seqc sbind sret].
  revert w. induction c as [|s c IH]; intro w; [reflexivity|].
  cbn [Loops.range_ctl run]. cbv beta delta [sbind sret]. destruct (s w) as [f w']. destruct f; [reflexivity|].
  specialize (IH w'). cbv beta delta [sbind sret] in IH. exact IH.
Qed.

Ltac step_crunch :=
  repeat (cbv beta iota zeta; cbn [goerr_is_nil negb]; rewrite ?beq_empty;
    match goal with
    | |- context [if ?c then _ else _] => destruct c
    | |- context [match ?m ?w with pair _ _ => _ end] => is_var m; destruct (m w)
    | u : unit |- _ => destruct u
    end); cbv beta iota zeta; try reflexivity.

Lemma gen_step_ref d w : gen_step d w = ref_step d w.
Proof.
  destruct d; cbn [gen_step ref_step]; unfold failing;
    cbv beta iota zeta delta [step_WithValueNotEmptyCheck step_WithValuesNotEmptyCheck step_WithValueLengthCheck
      step_WithValueEqualsCheck step_WithConditionalValueNotEmpty step_WithConditionalLogicStep step_WithLogicStep
      step_WithValueStep Loops.seqc sbind sret]; rewrite ?beq_empty.
  - step_crunch.
  - (* values loop *)
    destruct (values w) as [vs w1].
    assert (L : forall st0 : step_WithValuesNotEmptyCheck_st,
      Loops.range_ctl SM (@sret) (@sbind) (R := bool) vs st0
        (fun value st1 => sbind (sbind (sret value) (fun x => sbind (sret (b "")) (fun y => sret (beq x y))))
           (fun c => if c then Loops.seqc SM (@sret) (@sbind) (sbind (sbind (sret (b "empty value")) (fun _ => log)) (fun _ => sret (Normal st1)))
                   (fun st2 => Loops.seqc SM (@sret) (@sbind) (sbind cb (fun _ => sret (Normal st2))) (fun _ => sbind (sret true) (fun v => sret (Ret v))))
                 else sret (Normal st1))) w1
      = if existsb is_empty vs then (let '(_, w2) := log w1 in let '(_, w3) := cb w2 in (Ret true, w3)) else (Normal st0, w1)).
    { clear. induction vs as [|v vs IH]; intro st0; [reflexivity|].
      cbn [Loops.range_ctl existsb]. cbv beta iota zeta delta [Loops.seqc sbind sret]. rewrite beq_empty.
      destruct (is_empty v); cbn [orb].
      - destruct (log w1) as [[] w2]. destruct (cb w2) as [[] w3]. reflexivity.
      - specialize (IH st0). cbv beta iota zeta delta [Loops.seqc sbind sret] in IH. exact IH. }
    cbv beta iota zeta delta [Loops.seqc sbind sret] in L. rewrite L.
    destruct (existsb is_empty vs); step_crunch.
  - unfold blen. destruct (0 <? mn)%Z; destruct (0 <? mx)%Z; step_crunch.
  - destruct (value w) as [v w1]. destruct (equal w1) as [e w2]. destruct (beq v e); cbn [negb]; step_crunch.
  - destruct (cond w) as [c w1]. destruct c; step_crunch.
  - destruct (cond w) as [c w1]. destruct c; [|step_crunch]. cbv beta iota zeta. destruct (logic w1) as [e w2]. destruct e; step_crunch.
  - destruct (logic w) as [e w1]. destruct e; step_crunch.
  - step_crunch.
Qed.

Lemma run_map_ref ds w : run (map gen_step ds) w = ref_run ds w.
Proof.
  revert w; induction ds as [|d ds IH]; intro w; cbn [map run ref_run]; [reflexivity|].
  rewrite gen_step_ref. destruct (ref_step d w) as [f w']. destruct f; [reflexivity|apply IH].
Qed.

(** C20_sem: the generated chain evaluator on a chain built through the generated constructors is the
    reference semantics *)
Theorem C20_sem_lemma ds w : gCheckFailed (build ds) w = ref_run ds w.
Proof. now rewrite CheckFailed_run, build_map, run_map_ref. Qed.

Lemma ref_run_app d1 d2 w :
  ref_run (d1 ++ d2) w = let '(f, w') := ref_run d1 w in if f then (true, w') else ref_run d2 w'.
Proof.
  revert w; induction d1 as [|d d1 IH]; intro w; cbn [app ref_run]; [reflexivity|].
  destruct (ref_step d w) as [f w']. destruct f; [reflexivity|apply IH].
Qed.

(** C20_prefix: when [s] is the first failing step, the run is that of the prefix followed by [s] and
    does not depend on what follows -- no later logic or callback contributes anything *)
Theorem C20_prefix_lemma d1 s d2 d2' w w1 w2 :
  ref_run d1 w = (false, w1) -> ref_step s w1 = (true, w2) ->
  gCheckFailed (build (d1 ++ s :: d2)) w = (true, w2) /\ gCheckFailed (build (d1 ++ s :: d2')) w = (true, w2).
Proof.
  intros H1 H2. rewrite !C20_sem_lemma, !ref_run_app, H1. cbn [ref_run]. now rewrite H2.
Qed.

(** C20_iff: the chain reports failure iff some step fails in the world the passing prefix leaves *)
Theorem C20_iff_lemma ds w :
  fst (gCheckFailed (build ds) w) = true <->
  exists d1 s d2 w1 w2, ds = d1 ++ s :: d2 /\ ref_run d1 w = (false, w1) /\ ref_step s w1 = (true, w2).
Proof.
  rewrite C20_sem_lemma. revert w. induction ds as [|s ds IH]; intro w; cbn [ref_run].
  - split; [discriminate|]. intros (d1 & s & d2 & ? & ? & E & _). destruct d1; discriminate.
  - destruct (ref_step s w) as [f w'] eqn:Es. destruct f; cbn [fst].
    + split; [|reflexivity]. intros _. exists [], s, ds, w, w'. auto.
    + rewrite IH. split.
      * intros (d1 & s' & d2 & w1 & w2 & -> & H1 & H2). exists (s :: d1), s', d2, w1, w2. cbn [app ref_run]. rewrite Es. auto.
      * intros (d1 & s' & d2 & w1 & w2 & E & H1 & H2). destruct d1 as [|t d1]; cbn [app] in E; inversion E; subst.
        -- cbn [ref_run] in H1. inversion H1; subst. rewrite Es in H2. discriminate.
        -- cbn [ref_run] in H1. rewrite Es in H1. exists d1, s', d2, w1, w2. auto.
Qed.

(** when no step fails, every step ran, in order *)
Theorem C20_all_pass_lemma ds w :
  fst (gCheckFailed (build ds) w) = false ->
  gCheckFailed (build ds) w = fold_left (fun acc d => (false, snd (ref_step d (snd acc)))) ds (false, w).
Proof.
  rewrite C20_sem_lemma. revert w; induction ds as [|d ds IH]; intro w; cbn [ref_run fold_left snd]; [reflexivity|].
  destruct (ref_step d w) as [f w'] eqn:E. destruct f; cbn [fst snd]; [discriminate|]. apply IH.
Qed.
End StateMonad.

(** * Instrumented chains: the trace the harness records on the real checker *)

Inductive evk := EValue | EValues | EEqual | ECond | ELogic | ECallback.
Definition event := (nat * evk)%type.
Definition evk_eqb (a c : evk) : bool :=
  match a, c with
  | EValue, EValue | EValues, EValues | EEqual, EEqual | ECond, ECond | ELogic, ELogic | ECallback, ECallback => true
  | _, _ => false
  end.
Definition event_eqb (a c : event) : bool := Nat.eqb (fst a) (fst c) && evk_eqb (snd a) (snd c).

(** a step whose closures return fixed results and record that they ran *)
Inductive ispec :=
| IValueNotEmpty (v : bytes)
| IValuesNotEmpty (vs : list bytes)
| IValueLength (v : bytes) (mn mx : Z)
| IValueEquals (v e : bytes)
| ICondValueNotEmpty (c : bool) (v : bytes)
| ICondLogic (c : bool) (err : bool)
| ILogic (err : bool)
| IValueStep.

Definition TW := list event.     (* newest first *)
Definition emit {A} (i : nat) (k : evk) (a : A) : SM TW A := fun w => (a, (i, k) :: w).
Definition tlog : SM TW unit := fun w => (tt, w).
Definition err_of (e : bool) : goerr := if e then Some (b "error") else None.

Definition instr (i : nat) (s : ispec) : stepdesc TW :=
  let cb := emit i ECallback tt in
  match s with
  | IValueNotEmpty v => DValueNotEmpty TW (b "name") (emit i EValue v) cb
  | IValuesNotEmpty vs => DValuesNotEmpty TW (emit i EValues vs) cb
  | IValueLength v mn mx => DValueLength TW (b "name") (emit i EValue v) mn mx cb
  | IValueEquals v e => DValueEquals TW (b "name") (emit i EValue v) (emit i EEqual e) cb
  | ICondValueNotEmpty c v => DCondValueNotEmpty TW (emit i ECond c) (b "name") (emit i EValue v) cb
  | ICondLogic c e => DCondLogic TW (emit i ECond c) (emit i ELogic (err_of e)) cb
  | ILogic e => DLogic TW (emit i ELogic (err_of e)) cb
  | IValueStep => DValueStep TW (emit i ELogic tt)
  end.
Fixpoint instr_from (i : nat) (l : list ispec) : list (stepdesc TW) :=
  match l with [] => [] | s :: r => instr i s :: instr_from (S i) r end.

(** what the real code is compared with: result and trace (oldest first) of the generated evaluator *)
Definition trace_of (l : list ispec) : bool * list event :=
  let '(f, w) := Gen.Checker.CheckFailed (SM TW) (@sret TW) (@sbind TW) (build TW tlog (instr_from 0 l)) [] in (f, rev w).

(** documented behaviour: failure condition and closure calls per kind *)
Definition ifails (s : ispec) : bool :=
  match s with
  | IValueNotEmpty v => is_empty v
  | IValuesNotEmpty vs => existsb is_empty vs
  | IValueLength v mn mx => ((0 <? mn) && (blen v <? mn) || (0 <? mx) && (mx <? blen v))%Z
  | IValueEquals v e => negb (beq v e)
  | ICondValueNotEmpty c v => c && is_empty v
  | ICondLogic c e => c && e
  | ILogic e => e
  | IValueStep => false
  end.
(** events of the evaluation part (oldest first), without the callback *)
Definition ievents (i : nat) (s : ispec) : list event :=
  match s with
  | IValueNotEmpty _ => [(i, EValue)]
  | IValuesNotEmpty _ => [(i, EValues)]
  | IValueLength v mn mx =>
      (if (0 <? mn)%Z then [(i, EValue)] else []) ++
      (if ((0 <? mn) && (blen v <? mn))%Z then [] else if (0 <? mx)%Z then [(i, EValue)] else [])
  | IValueEquals v e => [(i, EValue); (i, EEqual)] ++ (if beq v e then [] else [(i, EValue); (i, EEqual)])
  | ICondValueNotEmpty c _ => (i, ECond) :: (if c then [(i, EValue)] else [])
  | ICondLogic c _ => (i, ECond) :: (if c then [(i, ELogic)] else [])
  | ILogic _ => [(i, ELogic)]
  | IValueStep => [(i, ELogic)]
  end.
Fixpoint expected_from (i : nat) (l : list ispec) : bool * list event :=
  match l with
  | [] => (false, [])
  | s :: r =>
      if ifails s then (true, ievents i s ++ [(i, ECallback)])
      else let '(f, t) := expected_from (S i) r in (f, ievents i s ++ t)
  end.

Lemma instr_step i s w :
  ref_step TW tlog (instr i s) w = (ifails s, (if ifails s then [(i, ECallback)] else []) ++ rev (ievents i s) ++ w).
Proof.
  destruct s; cbn [instr ref_step ifails ievents]; unfold failing, emit, tlog, err_of.
  - destruct (is_empty v); reflexivity.
  - destruct (existsb is_empty vs); reflexivity.
  - destruct (0 <? mn)%Z; destruct (blen v <? mn)%Z; destruct (0 <? mx)%Z; destruct (mx <? blen v)%Z; reflexivity.
  - destruct (beq v e); reflexivity.
  - destruct c; [destruct (is_empty v)|]; reflexivity.
  - destruct c; [destruct err|]; reflexivity.
  - destruct err; reflexivity.
  - reflexivity.
Qed.

Lemma instr_run l : forall i w,
  ref_run TW tlog (instr_from i l) w = (fst (expected_from i l), rev (snd (expected_from i l)) ++ w).
Proof.
  induction l as [|s l IH]; intros i w; cbn [instr_from ref_run expected_from]; [reflexivity|].
  rewrite instr_step. destruct (ifails s); cbn [fst snd].
  - rewrite rev_app_distr. reflexivity.
  - rewrite IH. destruct (expected_from (S i) l) as [f t]. cbn [fst snd app]. now rewrite rev_app_distr, <- app_assoc.
Qed.

(** C20_trace: for every instrumented chain the generated evaluator produces exactly the documented trace *)
Theorem C20_trace_lemma l : trace_of l = expected_from 0 l.
Proof.
  unfold trace_of. rewrite C20_sem_lemma, instr_run. rewrite app_nil_r, rev_involutive.
  destruct (expected_from 0 l); reflexivity.
Qed.

(** re-evaluation: from any world the same chain value gives the same verdict and appends the same events again *)
Lemma run_from_any l w :
  Gen.Checker.CheckFailed (SM TW) (@sret TW) (@sbind TW) (build TW tlog (instr_from 0 l)) w
  = (fst (expected_from 0 l), rev (snd (expected_from 0 l)) ++ w).
Proof. rewrite C20_sem_lemma. apply instr_run. Qed.

Fixpoint repeat_run (n : nat) (l : list ispec) (w : TW) : list bool * TW :=
  match n with
  | 0 => ([], w)
  | S k => let '(f, w1) := Gen.Checker.CheckFailed (SM TW) (@sret TW) (@sbind TW) (build TW tlog (instr_from 0 l)) w in
           let '(fs, w2) := repeat_run k l w1 in (f :: fs, w2)
  end.
Fixpoint napp {A} (n : nat) (t : list A) : list A := match n with 0 => [] | S k => t ++ napp k t end.

Lemma repeat_run_spec n l : forall w,
  repeat_run n l w = (repeat (fst (expected_from 0 l)) n, rev (napp n (snd (expected_from 0 l))) ++ w).
Proof.
  induction n as [|n IH]; intro w; cbn [repeat_run repeat napp]; [reflexivity|].
  rewrite run_from_any, IH. f_equal. rewrite rev_app_distr, <- app_assoc. reflexivity.
Qed.

(** consequences on the documented trace *)
Definition count_cb (t : list event) : nat := length (filter (fun e => evk_eqb (snd e) ECallback) t).
Definition max_index (t : list event) : nat := fold_right (fun e m => Nat.max (fst e) m) 0 t.

Lemma ievents_no_cb i s : count_cb (ievents i s) = 0.
Proof.
  destruct s; cbn [ievents]; unfold count_cb; rewrite ?filter_app;
    repeat match goal with |- context [if ?c then _ else _] => destruct c end; reflexivity.
Qed.
Lemma count_cb_app x y : count_cb (x ++ y) = count_cb x + count_cb y.
Proof. unfold count_cb. now rewrite filter_app, app_length. Qed.

(** the failure callback runs exactly once when the chain fails and never when it passes *)
Lemma expected_once l : forall i, count_cb (snd (expected_from i l)) = if fst (expected_from i l) then 1 else 0.
Proof.
  induction l as [|s l IH]; intro i; cbn [expected_from]; [reflexivity|].
  destruct (ifails s); cbn [fst snd].
  - now rewrite count_cb_app, ievents_no_cb.
  - specialize (IH (S i)). destruct (expected_from (S i) l) as [f t]. cbn [fst snd] in *. now rewrite count_cb_app, ievents_no_cb.
Qed.

Fixpoint events_passing (i : nat) (l : list ispec) : list event :=
  match l with [] => [] | s :: r => ievents i s ++ events_passing (S i) r end.

(** nothing of any step after the first failing one appears in the trace: the trace is that of the passing
    prefix, the failing step's own closures and its callback -- whatever follows *)
Lemma expected_prefix l1 : forall s l2 i,
  forallb (fun x => negb (ifails x)) l1 = true -> ifails s = true ->
  expected_from i (l1 ++ s :: l2) =
    (true, events_passing i l1 ++ ievents (i + length l1) s ++ [(i + length l1, ECallback)]).
Proof.
  induction l1 as [|x l1 IH]; intros s l2 i Hp Hs; cbn [app expected_from events_passing length forallb] in *.
  - rewrite Hs, Nat.add_0_r. reflexivity.
  - apply andb_prop in Hp as [Hx Hp]. apply negb_true_iff in Hx. rewrite Hx.
    rewrite (IH s l2 (S i) Hp Hs). rewrite <- app_assoc.
    replace (S i + length l1) with (i + S (length l1)) by lia. reflexivity.
Qed.

Lemma expected_all_pass l : forall i,
  forallb (fun x => negb (ifails x)) l = true -> expected_from i l = (false, events_passing i l).
Proof.
  induction l as [|x l IH]; intros i Hp; cbn [expected_from events_passing forallb] in *; [reflexivity|].
  apply andb_prop in Hp as [Hx Hp]. apply negb_true_iff in Hx. now rewrite Hx, (IH (S i) Hp).
Qed.

Lemma expected_fails_iff l : forall i, fst (expected_from i l) = existsb ifails l.
Proof.
  induction l as [|x l IH]; intro i; cbn [expected_from existsb]; [reflexivity|].
  destruct (ifails x); [reflexivity|]. specialize (IH (S i)). destruct (expected_from (S i) l). exact IH.
Qed.
