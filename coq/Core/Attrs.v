(** Attributes.GetSAML (pkg/provider/attributes.go): the attribute statement of a user record. *)
From Saml Require Import Base.Bytes Idp.Callback.

Record attr := { at_name : bytes; at_friendly : bytes; at_format : bytes; at_values : list bytes }.
Definition basic_format : bytes := b "urn:oasis:names:tc:SAML:2.0:attrname-format:basic".
Definition std (name : string) (v : bytes) : list attr :=
  if is_empty v then [] else [{| at_name := b name; at_friendly := []; at_format := basic_format; at_values := [v] |}].
(** standard attributes in the code's order, each present iff its value is non-empty; then the custom ones
    (a Go map: emission order unspecified -- the correspondence compares them sorted by name) *)
Definition attrs_of (u : user) : list attr :=
  std "Email" (u_email u) ++ std "SurName" (u_surname u) ++ std "FirstName" (u_given u) ++ std "FullName" (u_fullname u) ++
  std "UserName" (u_username u) ++ std "UserID" (u_userid u) ++
  map (fun c => {| at_name := ca_name c; at_friendly := ca_friendly c; at_format := ca_format c; at_values := ca_values c |}) (u_custom u).
Definition nameid_of (u : user) : bytes := u_username u.

Definition attr_eqb (x y : attr) : bool :=
  beq (at_name x) (at_name y) && beq (at_friendly x) (at_friendly y) && beq (at_format x) (at_format y) && list_eqb beq (at_values x) (at_values y).
