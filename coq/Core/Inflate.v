(** C14: bounded decompression (xml.go:InflateAndDecode after fix d3ea572).  The inflated stream is abstract: a list of
    chunk lengths the flate reader hands out; io.LimitReader(r, cap+1) + io.ReadAll is the read loop below. *)
From Saml Require Import Base.Bytes Idp.FactTypes Gen.Facts.
Open Scope Z_scope.

(** one Read through the LimitedReader: at most [remaining] bytes are requested from (and handed on by) the stream *)
Definition limited_step (st : Z * Z) (chunk : Z) : Z * Z :=      (* (remaining budget, bytes materialised) *)
  let '(remaining, got) := st in
  let take := Z.min (Z.max chunk 0) remaining in (remaining - take, got + take).
Definition read_limited (limit : Z) (chunks : list Z) : Z := snd (fold_left limited_step chunks (limit, 0)).
Definition total (chunks : list Z) : Z := fold_left (fun a c => a + Z.max c 0) chunks 0.

(** InflateAndDecode for the DEFLATE encoding: Some n = n bytes returned, None = rejected *)
Definition inflate_decode (cap : Z) (chunks : list Z) : option Z :=
  let got := read_limited (cap + 1) chunks in if got >? cap then None else Some got.

Lemma limited_inv chunks : forall remaining got, 0 <= remaining -> 0 <= got ->
  let '(r', g') := fold_left limited_step chunks (remaining, got) in
  0 <= r' /\ g' + r' = got + remaining /\ g' = got + Z.min remaining (fold_left (fun a c => a + Z.max c 0) chunks 0).
Proof.
  induction chunks as [|c cs IH]; intros remaining got Hr Hg; cbn [fold_left].
  - repeat split; lia.
  - unfold limited_step at 2.
    set (take := Z.min (Z.max c 0) remaining).
    assert (Ht : 0 <= take <= remaining) by (unfold take; split; [apply Z.min_glb; [apply Z.le_max_r|exact Hr]|apply Z.le_min_r]).
    specialize (IH (remaining - take) (got + take)).
    destruct (fold_left limited_step cs _) as [r' g']. destruct IH as (H1 & H2 & H3); [lia|lia|].
    repeat split; [exact H1|lia|].
    assert (E : forall a, fold_left (fun a c => a + Z.max c 0) cs a = a + fold_left (fun a c => a + Z.max c 0) cs 0).
    { clear. induction cs as [|x xs IHx]; intro a; cbn [fold_left]; [lia|]. rewrite (IHx (a + Z.max x 0)), (IHx (0 + Z.max x 0)). lia. }
    assert (P : 0 <= fold_left (fun a c => a + Z.max c 0) cs 0).
    { assert (G : forall a, 0 <= a -> 0 <= fold_left (fun a c => a + Z.max c 0) cs a).
      { clear. induction cs as [|x xs IHx]; intros a Ha; cbn [fold_left]; [lia|]. apply IHx. pose proof (Z.le_max_r x 0). lia. }
      apply G. lia. }
    rewrite (E (0 + Z.max c 0)). rewrite H3. clear E H2 H1.
    set (rest := fold_left (fun a c0 => a + Z.max c0 0) cs 0) in *.
    pose proof (Z.le_max_r c 0) as M0. set (m := Z.max c 0) in *.
    destruct (Z.min_spec m remaining) as [[L1 E1]|[L1 E1]]; fold take in E1; rewrite E1 in *;
    destruct (Z.min_spec (remaining - m) rest) as [[L2 E2]|[L2 E2]];
    destruct (Z.min_spec remaining (0 + m + rest)) as [[L3 E3]|[L3 E3]];
    try (rewrite E2); try (rewrite E3); try lia;
    destruct (Z.min_spec (remaining - remaining) rest) as [[L4 E4]|[L4 E4]]; try rewrite E4; lia.
Qed.

(** never more than limit bytes are materialised, whatever the stream *)
Theorem read_limited_bound limit chunks : 0 <= limit -> 0 <= read_limited limit chunks <= limit /\
  read_limited limit chunks = Z.min limit (total chunks).
Proof.
  intro H. unfold read_limited, total. pose proof (limited_inv chunks limit 0 H ltac:(lia)) as I.
  destruct (fold_left limited_step chunks (limit, 0)) as [r' g']. cbn [snd]. destruct I as (I1 & I2 & I3).
  assert (0 <= fold_left (fun a c => a + Z.max c 0) chunks 0).
  { assert (G : forall a, 0 <= a -> 0 <= fold_left (fun a c => a + Z.max c 0) chunks a).
    { clear. induction chunks as [|x xs IHx]; intros a Ha; cbn [fold_left]; [lia|]. apply IHx. lia. }
    apply G. lia. }
  lia.
Qed.

Theorem inflate_decode_spec cap chunks : 0 <= cap ->
  (total chunks <= cap -> inflate_decode cap chunks = Some (total chunks)) /\
  (total chunks > cap -> inflate_decode cap chunks = None) /\
  read_limited (cap + 1) chunks <= cap + 1.
Proof.
  intro H. unfold inflate_decode. destruct (read_limited_bound (cap + 1) chunks ltac:(lia)) as [B E]. rewrite E.
  repeat split; intros; try lia.
  - replace (Z.min (cap + 1) (total chunks)) with (total chunks) by lia. destruct (total chunks >? cap) eqn:G; [lia|reflexivity].
  - replace (Z.min (cap + 1) (total chunks)) with (cap + 1) by lia. destruct (cap + 1 >? cap) eqn:G; [reflexivity|lia].
Qed.

(** structure of the source: the DEFLATE case reads through io.LimitReader *)
Open Scope string_scope.
(* every read of the inflated stream goes through one io.LimitReader: the case makes exactly these calls, in this order
   (a second reader or a second ReadAll -- a fallback path, a retry -- breaks this obligation) *)
Definition deflate_case_limited (seq : list stmtfact) : bool :=
  existsb (fun f => stmtkind_eqb (sfk f) SSwitch &&
     existsb (fun c => strs_eqb (fst c) ["urn:oasis:names:tc:SAML:2.0:bindings:URL-Encoding:DEFLATE"] &&
                       strs_eqb (snd c) ["bytes.NewBuffer"; "flate.NewReader"; "io.LimitReader"; "io.ReadAll"; "r.Close"; "return:ok"]) (cases f)) seq.
Close Scope string_scope.
Lemma inflate_structure : deflate_case_limited inflateAndDecode_seq = true /\ (0 < ci_MaxInflatedSize <= 64 * 1024 * 1024)%Z.
Proof. split; [vm_compute; reflexivity|unfold ci_MaxInflatedSize; lia]. Qed.
