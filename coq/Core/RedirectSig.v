(** C04, HTTP-Redirect binding: what is signed (createRedirectSignature: BuildRedirectQuery response relayState sigAlg "")
    versus what a verifier reconstructs from the URL actually sent (SAML Bindings 3.4.4.1: the raw, still percent-encoded
    values of SAMLResponse, RelayState (if present) and SigAlg, in that order), over the BuildRedirectQuery go2v generates
    from redirect.go. *)
From Saml Require Import Base.Bytes Codec.QueryEscape Gen.Pure.
Open Scope char_scope.

Definition opt_param (name v : bytes) : bytes := if negb (beq v []) then "&" :: name ++ "=" :: go_query_escape v else [].
Lemma build_formula resp relay alg sig : BuildRedirectQuery resp relay alg sig =
  b "SAMLResponse=" ++ go_query_escape resp ++ opt_param (b "RelayState") relay ++ opt_param (b "Signature") sig ++ opt_param (b "SigAlg") alg.
Proof.
  unfold BuildRedirectQuery, opt_param.
  cbv beta iota zeta delta [bind ret Loops.seqc BuildRedirectQuery_query BuildRedirectQuery_set_query].
  change (b "") with (@nil ascii).
  destruct (negb (beq relay [])); destruct (negb (beq sig [])); destruct (negb (beq alg [])); cbn [app]; rewrite <- ?app_assoc; cbn [app]; rewrite ?app_nil_r; reflexivity.
Qed.

(** the verifier: split the query at '&', take the raw values by name *)
Fixpoint split_amp (s : bytes) : list bytes :=
  match s with
  | [] => [[]]
  | c :: r => if Ascii.eqb c "&" then [] :: split_amp r
              else match split_amp r with h :: t => (c :: h) :: t | [] => [[c]] end
  end.
Fixpoint param (name : bytes) (segs : list bytes) : option bytes :=
  match segs with
  | [] => None
  | s :: r => if has_prefix s (name ++ ["="]) then Some (drop_prefix s (name ++ ["="])) else param name r
  end.
Definition verifier_octets (query : bytes) : option bytes :=
  let segs := split_amp query in
  match param (b "SAMLResponse") segs, param (b "SigAlg") segs with
  | Some r, Some a => Some (b "SAMLResponse=" ++ r ++ match param (b "RelayState") segs with Some l => b "&RelayState=" ++ l | None => [] end ++ b "&SigAlg=" ++ a)
  | _, _ => None
  end.

Definition amp_free (s : bytes) : bool := forallb (fun c => negb (Ascii.eqb c "&")) s.
Lemma query_safe_no_amp c : query_safe c = true -> negb (Ascii.eqb c "&") = true.
Proof. destruct c as [[] [] [] [] [] [] [] []]; vm_compute; intro H; try reflexivity; discriminate H. Qed.
Lemma escape_amp_free s : amp_free (go_query_escape s) = true.
Proof.
  unfold amp_free. pose proof (query_escape_safe s) as H. rewrite forallb_forall in *. intros c Hc. apply query_safe_no_amp. now apply H.
Qed.
Lemma split_free a : amp_free a = true -> split_amp a = [a].
Proof.
  induction a as [|c a IH]; [reflexivity|]. unfold amp_free. cbn [forallb split_amp]. intro H. apply andb_prop in H as [H1 H2].
  apply Bool.negb_true_iff in H1. rewrite H1. now rewrite (IH H2).
Qed.
Lemma split_app a rest : amp_free a = true -> split_amp (a ++ "&" :: rest) = a :: split_amp rest.
Proof.
  induction a as [|c a IH]; [reflexivity|]. unfold amp_free. cbn [forallb app split_amp]. intro H. apply andb_prop in H as [H1 H2].
  apply Bool.negb_true_iff in H1. rewrite H1. now rewrite (IH H2).
Qed.

(** the segments of a built query *)
Definition seg (name v : bytes) : bytes := name ++ "=" :: go_query_escape v.
Lemma seg_free name v : amp_free name = true -> amp_free (seg name v) = true.
Proof. intro H. unfold seg, amp_free in *. rewrite forallb_app, H. cbn [forallb]. exact (escape_amp_free v). Qed.
Definition opt_seg (name v : bytes) : list bytes := if negb (beq v []) then [seg name v] else [].
Definition oparam (name v : bytes) : bytes := if negb (beq v []) then "&" :: seg name v else [].
Lemma build_seg_form resp relay alg sig : BuildRedirectQuery resp relay alg sig =
  seg (b "SAMLResponse") resp ++ oparam (b "RelayState") relay ++ oparam (b "Signature") sig ++ oparam (b "SigAlg") alg.
Proof.
  rewrite build_formula. unfold opt_param, oparam, seg.
  destruct (negb (beq relay [])); destruct (negb (beq sig [])); destruct (negb (beq alg [])); cbn [app b]; rewrite <- ?app_assoc; cbn [app]; reflexivity.
Qed.
Lemma split_build resp relay alg sig :
  split_amp (BuildRedirectQuery resp relay alg sig) =
  seg (b "SAMLResponse") resp :: opt_seg (b "RelayState") relay ++ opt_seg (b "Signature") sig ++ opt_seg (b "SigAlg") alg.
Proof.
  rewrite build_seg_form. unfold oparam, opt_seg.
  assert (F1 : amp_free (seg (b "SAMLResponse") resp) = true) by (apply seg_free; reflexivity).
  assert (F2 : amp_free (seg (b "RelayState") relay) = true) by (apply seg_free; reflexivity).
  assert (F3 : amp_free (seg (b "Signature") sig) = true) by (apply seg_free; reflexivity).
  assert (F4 : amp_free (seg (b "SigAlg") alg) = true) by (apply seg_free; reflexivity).
  destruct (negb (beq relay [])); destruct (negb (beq sig [])); destruct (negb (beq alg [])); cbn [app];
    rewrite ?app_nil_r, ?split_app, ?split_free by assumption; reflexivity.
Qed.

(** the octets a conformant verifier reconstructs from the sent URL are the octets that were signed *)
Theorem redirect_octets resp relay alg sig : alg <> [] ->
  verifier_octets (BuildRedirectQuery resp relay alg sig) = Some (BuildRedirectQuery resp relay alg []).
Proof.
  intro Ha. unfold verifier_octets. rewrite split_build. rewrite (build_formula resp relay alg []).
  unfold opt_seg, opt_param, seg.
  assert (E : negb (beq alg []) = true) by (destruct alg; [contradiction|reflexivity]). rewrite E.
  change (negb (beq [] [])) with false.
  destruct (negb (beq relay [])); destruct (negb (beq sig [])); cbn; rewrite ?has_prefix_app, ?drop_prefix_app; cbn; rewrite <- ?app_assoc; reflexivity.
Qed.

(** * the URL actually sent (sendBackResponse): AcsUrl + separator + query, separator "&" when the consumer URL already
    contains a "?", else "?" *)
Fixpoint has_qmark (s : bytes) : bool := match s with [] => false | c :: r => Ascii.eqb c "?" || has_qmark r end.
Fixpoint after_qmark (s : bytes) : bytes := match s with [] => [] | c :: r => if Ascii.eqb c "?" then r else after_qmark r end.
Definition sent_url (acs query : bytes) : bytes := acs ++ (if has_qmark acs then "&" else "?") :: query.

Lemma after_qmark_app_no a r : has_qmark a = false -> after_qmark (a ++ "?" :: r) = r.
Proof. induction a as [|c a IH]; cbn [has_qmark app after_qmark]; [reflexivity|]. destruct (Ascii.eqb c "?"); [discriminate|exact IH]. Qed.
Lemma after_qmark_app_yes a r : has_qmark a = true -> after_qmark (a ++ r) = after_qmark a ++ r.
Proof. induction a as [|c a IH]; cbn [has_qmark app after_qmark]; [discriminate|]. destruct (Ascii.eqb c "?"); [reflexivity|exact IH]. Qed.

(** the query a verifier sees: the consumer URL's own query, if any, followed by the built one *)
Lemma sent_query acs query : after_qmark (sent_url acs query) = if has_qmark acs then after_qmark acs ++ "&" :: query else query.
Proof.
  unfold sent_url. destruct (has_qmark acs) eqn:E; [now rewrite after_qmark_app_yes|now rewrite after_qmark_app_no].
Qed.

Lemma split_amp_nonempty s : split_amp s <> [].
Proof. induction s as [|c s IH]; cbn [split_amp]; [discriminate|]. destruct (Ascii.eqb c "&"); [discriminate|]. destruct (split_amp s); [contradiction|discriminate]. Qed.
Lemma split_amp_app a r : split_amp (a ++ "&" :: r) = split_amp a ++ split_amp r.
Proof.
  induction a as [|c a IH]; [reflexivity|]. cbn [app split_amp]. destruct (Ascii.eqb c "&"); [now rewrite IH|].
  rewrite IH. destruct (split_amp a) as [|h t] eqn:E; [exfalso; exact (split_amp_nonempty a E)|reflexivity].
Qed.
Lemma param_app name l1 l2 : param name (l1 ++ l2) = match param name l1 with Some v => Some v | None => param name l2 end.
Proof. induction l1 as [|s l1 IH]; cbn [app param]; [reflexivity|]. destruct (has_prefix s (name ++ ["="])); [reflexivity|exact IH]. Qed.

(** a consumer URL whose own query names none of the three signed parameters does not disturb verification *)
Definition acs_query_neutral (acs : bytes) : Prop :=
  let segs := split_amp (after_qmark acs) in
  param (b "SAMLResponse") segs = None /\ param (b "RelayState") segs = None /\ param (b "SigAlg") segs = None.

Theorem redirect_octets_url acs resp relay alg sig : alg <> [] -> acs_query_neutral acs ->
  verifier_octets (after_qmark (sent_url acs (BuildRedirectQuery resp relay alg sig))) = Some (BuildRedirectQuery resp relay alg []).
Proof.
  intros Ha (N1 & N2 & N3). rewrite sent_query. destruct (has_qmark acs); [|now apply redirect_octets].
  pose proof (redirect_octets resp relay alg sig Ha) as R. unfold verifier_octets in *.
  rewrite split_amp_app, !param_app, N1, N2, N3. exact R.
Qed.

(** ... and one that does name one of them breaks it: the RelayState of the consumer URL's own query is taken for the
    message's when the message has none *)
Theorem redirect_octets_url_refuted : exists acs resp alg sig,
  verifier_octets (after_qmark (sent_url acs (BuildRedirectQuery resp [] alg sig))) <> Some (BuildRedirectQuery resp [] alg []).
Proof. exists (b "https://sp/acs?RelayState=x"), (b "r"), (b "a"), (b "s"). vm_compute. discriminate. Qed.
