(** NewID() = fmt.Sprintf("_%s", uuid.New()): an underscore followed by the canonical text of a UUID (36 characters:
    hexadecimal digits and '-').  Every such string is an xs:ID (an NCName: a letter or '_' first, then letters, digits,
    '.', '-', '_').  That two calls differ is a property of the random source, not of this code. *)
From Saml Require Import Base.Bytes Idp.FactTypes Gen.Facts.
Open Scope char_scope.

Definition is_alpha (c : ascii) : bool := let n := nat_of_ascii c in ((65 <=? n) && (n <=? 90) || (97 <=? n) && (n <=? 122))%nat.
Definition is_digit (c : ascii) : bool := let n := nat_of_ascii c in ((48 <=? n) && (n <=? 57))%nat.
Definition ncname_start (c : ascii) : bool := is_alpha c || Ascii.eqb c "_".
Definition ncname_char (c : ascii) : bool := is_alpha c || is_digit c || Ascii.eqb c "_" || Ascii.eqb c "-" || Ascii.eqb c ".".
Definition is_ncname (s : bytes) : bool := match s with c :: r => ncname_start c && forallb ncname_char r | [] => false end.

Definition hex_lower (c : ascii) : bool := is_digit c || (let n := nat_of_ascii c in ((97 <=? n) && (n <=? 102))%nat).
Definition uuid_text (u : bytes) : bool := Nat.eqb (length u) 36 && forallb (fun c => hex_lower c || Ascii.eqb c "-") u.
Definition new_id (u : bytes) : bytes := "_" :: u.

Lemma hex_ncname c : hex_lower c || Ascii.eqb c "-" = true -> ncname_char c = true.
Proof.
  intro H. destruct c as [[] [] [] [] [] [] [] []]; vm_compute in H |- *; try reflexivity; discriminate H.
Qed.
Theorem new_id_legal u : uuid_text u = true -> is_ncname (new_id u) = true /\ length (new_id u) = 37.
Proof.
  unfold uuid_text, new_id, is_ncname. intro H. apply andb_prop in H as [Hl Hc]. apply Nat.eqb_eq in Hl. split.
  - apply andb_true_intro. split; [reflexivity|].
    rewrite forallb_forall in *. intros c Hin. apply hex_ncname. exact (Hc c Hin).
  - cbn [length]. now rewrite Hl.
Qed.
Local Open Scope string_scope.
Lemma new_id_from_source : newid_src = [("return", "fmt.Sprintf(""_%s"", uuid.New())")].
Proof. reflexivity. Qed.
Example new_id_example : is_ncname (new_id (b "e2ab0697-c501-4c7d-8d5e-0f901c989166")) = true /\ uuid_text (b "e2ab0697-c501-4c7d-8d5e-0f901c989166") = true.
Proof. split; vm_compute; reflexivity. Qed.
