(** The path component of an absolute URL (scheme "://" authority path [ "?" query ] [ "#" fragment ]), as a request for
    that URL presents it to the router, and what it is for the URLs the metadata advertises. *)
From Saml Require Import Base.Bytes.
From Coq Require Import List Ascii Bool. Import ListNotations.

Definition is_c (c : ascii) (x : ascii) : bool := Ascii.eqb x c.
Fixpoint after_scheme (u : bytes) : option bytes :=
  match u with
  | [] => None
  | c :: r => if is_c ":" c then match r with
                                | c1 :: c2 :: r2 => if is_c "/" c1 && is_c "/" c2 then Some r2 else after_scheme r
                                | _ => after_scheme r end
              else after_scheme r
  end.
(* the authority ends at the first "/", "?" or "#" *)
Fixpoint drop_to_slash (u : bytes) : bytes :=
  match u with [] => [] | c :: r => if is_c "/" c || is_c "?" c || is_c "#" c then u else drop_to_slash r end.
Fixpoint take_path (u : bytes) : bytes :=
  match u with [] => [] | c :: r => if is_c "?" c || is_c "#" c then [] else c :: take_path r end.
Definition url_path (u : bytes) : bytes :=
  match after_scheme u with Some r => take_path (drop_to_slash r) | None => take_path u end.

Definition none_of (cs : list ascii) (x : bytes) : bool := forallb (fun c => negb (existsb (fun d => Ascii.eqb c d) cs)) x.

Lemma after_scheme_app scheme x : none_of [":"%char] scheme = true -> after_scheme (scheme ++ b "://" ++ x) = Some x.
Proof.
  induction scheme as [|c s IH]; intro H.
  - reflexivity.
  - cbn [none_of forallb existsb] in H. apply andb_prop in H as [H1 H2]. rewrite orb_false_r in H1. apply negb_true_iff in H1.
    cbn [app after_scheme]. unfold is_c at 1. rewrite H1. apply IH. exact H2.
Qed.
Lemma drop_to_slash_app host p : none_of ["/"%char; "?"%char; "#"%char] host = true -> (p = [] \/ exists r, p = "/"%char :: r) -> drop_to_slash (host ++ p) = p.
Proof.
  intros H Hp. induction host as [|c h IH].
  - destruct Hp as [->|[r ->]]; reflexivity.
  - cbn [none_of forallb existsb] in H. apply andb_prop in H as [H1 H2]. rewrite orb_false_r in H1. apply negb_true_iff in H1.
    apply orb_false_elim in H1 as [A H1]. apply orb_false_elim in H1 as [B C].
    cbn [app drop_to_slash]. unfold is_c. rewrite A, B, C. apply IH. exact H2.
Qed.
Lemma take_path_id p : none_of ["?"%char; "#"%char] p = true -> take_path p = p.
Proof.
  induction p as [|c p IH]; intro H; [reflexivity|].
  cbn [none_of forallb existsb] in H. apply andb_prop in H as [H1 H2]. rewrite orb_false_r in H1. apply negb_true_iff in H1.
  cbn [take_path]. unfold is_c. rewrite H1. now rewrite IH.
Qed.

(** scheme "://" host path: the path comes back, for a host without "/", "?", "#" and a path that is empty or starts with "/" and has
    neither "?" nor "#" *)
Theorem url_path_of scheme host p :
  none_of [":"%char] scheme = true -> none_of ["/"%char; "?"%char; "#"%char] host = true ->
  (p = [] \/ exists r, p = "/"%char :: r) -> none_of ["?"%char; "#"%char] p = true ->
  url_path (scheme ++ b "://" ++ host ++ p) = p.
Proof.
  intros Hs Hh Hp Hq. unfold url_path. rewrite after_scheme_app by exact Hs. rewrite drop_to_slash_app by assumption. now apply take_path_id.
Qed.

Example url_path_examples :
  url_path (b "https://idp.example/saml/SSO") = b "/saml/SSO" /\ url_path (b "https://idp.example:8443/SSO?x=1#f") = b "/SSO" /\
  url_path (b "https://idp.example") = [] /\ url_path (b "/relative/only") = b "/relative/only" /\ url_path (b "https://idp.example?x=/y") = [].
Proof. repeat split; vm_compute; reflexivity. Qed.

Lemma none_of_app cs x y : none_of cs (x ++ y) = none_of cs x && none_of cs y.
Proof. unfold none_of. apply forallb_app. Qed.
