(** C18: the transport codec of pkg/provider/xml/xml.go.  compress/flate is not modelled: [inflate] / [deflate] are
    Section variables (the harness supplies compress/flate's answers case by case). *)
From Saml Require Import Base.Bytes Codec.Base64 Idp.FactTypes Gen.Facts.
Open Scope Z_scope.

Section Codec.
Variable inflate : bytes -> option bytes.     (* flate.NewReader read to EOF; None = corrupt input *)
Variable deflate : bytes -> bytes.            (* flate.NewWriter(level 9): Write; Close *)
Variable cap : Z.

(** InflateAndDecode(encoding, b64, message) *)
Definition inflate_and_decode (encoding : bytes) (b64 : bool) (msg : bytes) : option bytes :=
  match (if b64 then b64_decode msg else Some msg) with
  | None => None
  | Some data =>
      if is_empty encoding then Some data
      else if beq encoding c_EncodingDeflate then
        match inflate data with
        | Some out => if Z.of_nat (length out) >? cap then None else Some out
        | None => None
        end
      else None
  end.

(** DeflateAndBase64(data) *)
Definition deflate_and_base64 (data : bytes) : bytes := b64_encode (deflate data).

Theorem codec_roundtrip b : inflate (deflate b) = Some b -> Z.of_nat (length b) <= cap ->
  inflate_and_decode c_EncodingDeflate true (deflate_and_base64 b) = Some b.
Proof.
  intros Hi Hc. unfold inflate_and_decode, deflate_and_base64. rewrite b64_decode_encode.
  assert (E : is_empty c_EncodingDeflate = false) by reflexivity. rewrite E, beq_refl, Hi.
  destruct (Z.of_nat (length b) >? cap) eqn:G; [lia|reflexivity].
Qed.

Theorem unknown_encoding_rejected encoding b64 msg :
  encoding <> [] -> encoding <> c_EncodingDeflate -> inflate_and_decode encoding b64 msg = None.
Proof.
  intros H1 H2. unfold inflate_and_decode. destruct (if b64 then b64_decode msg else Some msg); [|reflexivity].
  destruct encoding as [|c r]; [congruence|]. cbn [is_empty].
  destruct (beq (c :: r) c_EncodingDeflate) eqn:E; [apply beq_eq in E; congruence|reflexivity].
Qed.

Theorem empty_encoding_is_base64_only b64 msg :
  inflate_and_decode [] b64 msg = if b64 then b64_decode msg else Some msg.
Proof. unfold inflate_and_decode. destruct (if b64 then b64_decode msg else Some msg); reflexivity. Qed.
End Codec.

(** structure of the source: a switch on [encoding] with exactly the cases "", DEFLATE and a default that returns an error *)
Open Scope string_scope.
Definition codec_switch_ok (seq : list stmtfact) : bool :=
  existsb (fun f => stmtkind_eqb (sfk f) SSwitch && strs_eqb (targets f) ["encoding"] &&
     match cases f with
     | [(l1, b1); (l2, b2); (l3, b3)] =>
         strs_eqb l1 ["lit:"] && strs_eqb b1 ["return:ok"] &&
         strs_eqb l2 ["urn:oasis:names:tc:SAML:2.0:bindings:URL-Encoding:DEFLATE"] && smem "return:ok" b2 &&
         strs_eqb l3 [] && strs_eqb b3 ["return:err"]
     | _ => false
     end) seq.
Close Scope string_scope.
Lemma codec_structure : codec_switch_ok inflateAndDecode_seq = true.
Proof. vm_compute. reflexivity. Qed.
