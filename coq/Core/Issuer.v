(** C19: issuer validation (context.go:ValidateIssuer, after fix 84d9bf3) and host-derived issuers
    (dynamicIssuer is the go2v-generated definition in Gen.Pure; hostFromForwarded / issuerFromForwardedOrHost are modelled). *)
From Saml Require Import Base.Bytes Base.Loops Gen.Pure.

(** what url.Parse reports about a string (oracle): scheme (lower-cased by Go), host, fragment, "has query values" *)
Record url_parts := { up_scheme : bytes; up_host : bytes; up_fragment : bytes; up_has_query : bool }.
Inductive issuer_err := ENoIssuer | EInvalidURL | EMissingHost | ENotHTTPS | EPath.

Definition contains_any (s : bytes) (cs : list ascii) : bool := existsb (fun c => existsb (Ascii.eqb c) cs) s.
Definition validate_path (p : url_parts) : option issuer_err :=
  if negb (is_empty (up_fragment p)) || up_has_query p then Some EPath else None.
Definition validate_issuer (issuer : bytes) (insecure : bool) (parsed : option url_parts) : option issuer_err :=
  if is_empty issuer then Some ENoIssuer else
  match parsed with
  | None => Some EInvalidURL
  | Some p =>
      if is_empty (up_host p) then Some EMissingHost
      else if negb (beq (up_scheme p) (b "https")) && negb (insecure && beq (up_scheme p) (b "http")) then Some ENotHTTPS
      else if contains_any issuer ["?"; "#"]%char then Some EPath
      else validate_path p
  end.

Theorem validate_issuer_ok issuer insecure parsed : validate_issuer issuer insecure parsed = None ->
  issuer <> [] /\ exists p, parsed = Some p /\ up_host p <> [] /\
    (up_scheme p = b "https" \/ (insecure = true /\ up_scheme p = b "http")) /\
    ~ In "?"%char issuer /\ ~ In "#"%char issuer /\ up_fragment p = [] /\ up_has_query p = false.
Proof.
  unfold validate_issuer. destruct (is_empty issuer) eqn:Ei; [discriminate|].
  destruct parsed as [p|]; [|discriminate].
  destruct (is_empty (up_host p)) eqn:Eh; [discriminate|].
  destruct (negb (beq (up_scheme p) (b "https")) && negb (insecure && beq (up_scheme p) (b "http"))) eqn:Es; [discriminate|].
  destruct (contains_any issuer ["?"; "#"]%char) eqn:Ec; [discriminate|].
  unfold validate_path. destruct (negb (is_empty (up_fragment p)) || up_has_query p) eqn:Ep; [discriminate|]. intros _.
  split; [destruct issuer; [discriminate|discriminate]|]. exists p. split; [reflexivity|].
  split; [destruct (up_host p); discriminate|]. split.
  - apply andb_false_iff in Es as [Es|Es].
    + left. apply negb_false_iff, beq_eq in Es. exact Es.
    + right. apply negb_false_iff, andb_prop in Es as [E1 E2]. apply beq_eq in E2. auto.
  - assert (Hc : forall c, In c ["?"; "#"]%char -> ~ In c issuer).
    { intros c Hc Hin. unfold contains_any in Ec. assert (existsb (fun c0 => existsb (Ascii.eqb c0) ["?"; "#"]%char) issuer = true); [|congruence].
      apply existsb_exists. exists c. split; [exact Hin|]. apply existsb_exists. exists c. split; [exact Hc|apply Ascii.eqb_refl]. }
    apply orb_false_iff in Ep as [E1 E2]. apply negb_false_iff in E1.
    repeat split; try (apply Hc; cbn; auto); [destruct (up_fragment p); [reflexivity|discriminate]|exact E2].
Qed.

(** dynamicIssuer, as generated from context.go *)
Definition lead_slash (p : bytes) : bytes := if negb (is_empty p) && negb (has_prefix p (b "/")) then b "/" ++ p else p.
Definition scheme_of (insecure : bool) : bytes := if insecure then b "http" else b "https".
Theorem dynamic_issuer_formula host path insecure :
  dynamicIssuer host path insecure = scheme_of insecure ++ b "://" ++ host ++ lead_slash path.
Proof.
  unfold dynamicIssuer, lead_slash, scheme_of. cbv beta iota zeta delta [bind ret Loops.seqc dynamicIssuer_schema dynamicIssuer_path dynamicIssuer_set_schema dynamicIssuer_set_path go_has_prefix].
  destruct insecure; destruct path as [|c p]; cbn [length Z.of_nat Z.ltb Z.compare is_empty negb andb];
    try reflexivity;
    destruct (has_prefix (c :: p) (b "/")); cbn [negb]; rewrite <- ?app_assoc; reflexivity.
Qed.

(** hostFromForwarded + fallback: the first configured header that parses and yields at least one host, else Host *)
Fixpoint select_host (parsed : list (option (list bytes))) (request_host : bytes) : bytes :=
  match parsed with
  | [] => request_host
  | Some (h :: _) :: _ => h
  | _ :: r => select_host r request_host
  end.
Definition derived_issuer (parsed : list (option (list bytes))) (request_host path : bytes) (insecure : bool) : bytes :=
  dynamicIssuer (select_host parsed request_host) path insecure.

(** scheme and path of a derived issuer never come from the request: two requests with ANY headers give issuers
    that differ only in the host component *)
Theorem derived_issuer_shape parsed host path insecure :
  derived_issuer parsed host path insecure = scheme_of insecure ++ b "://" ++ select_host parsed host ++ lead_slash path.
Proof. apply dynamic_issuer_formula. Qed.
Lemma select_host_spec parsed host :
  (exists pre h t post, parsed = pre ++ Some (h :: t) :: post /\ select_host parsed host = h /\
      forall x, In x pre -> x = None \/ x = Some []) \/
  (select_host parsed host = host /\ forall x, In x parsed -> x = None \/ x = Some []).
Proof.
  induction parsed as [|[[|h t]|] r IH]; cbn [select_host].
  - right. split; [reflexivity|intros x []].
  - destruct IH as [(pre & h & t & post & -> & E & Hp)|[E Hp]].
    + left. exists (Some [] :: pre), h, t, post. repeat split; auto. intros x [<-|Hx]; auto.
    + right. split; [exact E|]. intros x [<-|Hx]; auto.
  - left. exists [], h, t, r. repeat split; auto. intros x [].
  - destruct IH as [(pre & h & t & post & -> & E & Hp)|[E Hp]].
    + left. exists (None :: pre), h, t, post. repeat split; auto. intros x [<-|Hx]; auto.
    + right. split; [exact E|]. intros x [<-|Hx]; auto.
Qed.
