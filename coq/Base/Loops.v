(** Control-flow combinators used by go2v's function-mode output, parametric in the monad. *)
From Saml Require Import Base.Bytes.

Section Loops.
Variable M : Type -> Type.
Variable ret : forall A, A -> M A.
Variable bind : forall A B, M A -> (A -> M B) -> M B.
Arguments ret {A}. Arguments bind {A B}.

Definition seqc {S R} (m : M (ctl S R)) (k : S -> M (ctl S R)) : M (ctl S R) :=
  bind m (fun r => match r with Normal s => k s | Brk s => ret (Brk s) | Ret v => ret (Ret v) end).

Fixpoint range_ctl {T S R} (xs : list T) (st : S) (body : T -> S -> M (ctl S R)) : M (ctl S R) :=
  match xs with
  | [] => ret (Normal st)
  | x :: r => bind (body x st) (fun c =>
      match c with Normal s => range_ctl r s body | Brk s => ret (Normal s) | Ret v => ret (Ret v) end)
  end.
End Loops.

(** identity-monad instance: lemmas used by the bridges for pure functions *)
Definition idM (A : Type) := A.
Definition id_ret {A} (a : A) : idM A := a.
Definition id_bind {A B} (m : idM A) (f : A -> idM B) : idM B := f m.

Lemma range_ctl_id_ext {T S R} (f g : T -> S -> idM (ctl S R)) l :
  (forall x st, f x st = g x st) ->
  forall st, range_ctl idM (@id_ret) (@id_bind) l st f = range_ctl idM (@id_ret) (@id_bind) l st g.
Proof.
  intro H. induction l as [|x l IH]; intro st; cbn [range_ctl]; [reflexivity|].
  unfold id_bind. rewrite H. destruct (g x st); auto.
Qed.

(** a loop whose body either breaks with an update or leaves the state alone is [find] *)
Lemma range_ctl_find {T S R} (p : T -> bool) (upd : T -> S -> S) l : forall st,
  range_ctl idM (@id_ret) (@id_bind) (R := R) l st (fun x st => if p x then Brk (upd x st) else Normal st)
  = Normal (match find p l with Some x => upd x st | None => st end).
Proof.
  induction l as [|x l IH]; intro st; cbn [range_ctl find]; unfold id_bind, id_ret; [reflexivity|].
  destruct (p x); [reflexivity|apply IH].
Qed.

(** a loop whose body never breaks or returns is a left fold *)
Lemma range_ctl_fold {T S R} (f : T -> S -> S) l : forall st,
  range_ctl idM (@id_ret) (@id_bind) (R := R) l st (fun x st => Normal (f x st))
  = Normal (fold_left (fun s x => f x s) l st).
Proof.
  induction l as [|x l IH]; intro st; cbn [range_ctl fold_left]; unfold id_bind, id_ret; [reflexivity|apply IH].
Qed.
