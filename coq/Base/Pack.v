(** Fast transport of long byte strings into correspondence case files: 7 bytes per primitive 63-bit integer.
    Used only by the generated strtab.v of a harness run (never by a theorem). *)
From Coq Require Import List ZArith Ascii Uint63.
Import ListNotations.
Definition byte_of_int (i : int) : ascii := ascii_of_N (Z.to_N (Uint63.to_Z (i land 255))).
Definition unpack7 (x : int) (r : list ascii) : list ascii :=
  byte_of_int (x >> 48) :: byte_of_int (x >> 40) :: byte_of_int (x >> 32) :: byte_of_int (x >> 24) ::
  byte_of_int (x >> 16) :: byte_of_int (x >> 8) :: byte_of_int x :: r.
(** the first [n] bytes of the big-endian unpacking of [l] *)
Definition pk (n : Z) (l : list int) : list ascii := firstn (Z.to_nat n) (fold_right unpack7 [] l).
Example pk_example : pk 3 [0x61626300000000%uint63] = ["a"; "b"; "c"]%char.
Proof. vm_compute. reflexivity. Qed.
