(** Byte strings as [list ascii], Go-flavoured helpers shared by every model file. *)
From Coq Require Export String Ascii List Bool ZArith Lia.
Export ListNotations.
Open Scope bool_scope.

Definition bytes := list ascii.
Definition b (s : string) : bytes := list_ascii_of_string s.

Fixpoint beq (x y : bytes) : bool :=
  match x, y with
  | [], [] => true
  | a :: x', c :: y' => Ascii.eqb a c && beq x' y'
  | _, _ => false
  end.

Lemma beq_refl x : beq x x = true.
Proof. induction x as [|a x IH]; cbn [beq]; [reflexivity|]. now rewrite Ascii.eqb_refl, IH. Qed.

Lemma beq_eq x y : beq x y = true <-> x = y.
Proof.
  split; [|intros ->; apply beq_refl].
  revert y; induction x as [|a x IH]; intros [|c y] H; cbn [beq] in H; try discriminate; [reflexivity|].
  apply andb_prop in H as [H1 H2]. apply Ascii.eqb_eq in H1. apply IH in H2. now subst.
Qed.

Lemma beq_neq x y : beq x y = false <-> x <> y.
Proof.
  split.
  - intros H E. apply beq_eq in E. congruence.
  - intros H. destruct (beq x y) eqn:E; [|reflexivity]. apply beq_eq in E. contradiction.
Qed.

Lemma beq_sym x y : beq x y = beq y x.
Proof.
  destruct (beq x y) eqn:E.
  - apply beq_eq in E. subst. symmetry. apply beq_refl.
  - symmetry. apply beq_neq. apply beq_neq in E. congruence.
Qed.

Definition is_empty (x : bytes) : bool := match x with [] => true | _ => false end.
Lemma beq_empty x : beq x (b "") = is_empty x.
Proof. destruct x; reflexivity. Qed.
Lemma beq_nil_r x : beq x [] = is_empty x.
Proof. destruct x; reflexivity. Qed.

(** membership of a byte string in a list *)
Fixpoint bmem (x : bytes) (l : list bytes) : bool :=
  match l with [] => false | y :: r => beq x y || bmem x r end.
Lemma bmem_In x l : bmem x l = true <-> In x l.
Proof.
  induction l as [|y l IH]; cbn [bmem In]; [split; [discriminate|tauto]|].
  rewrite orb_true_iff, IH, beq_eq. split; intros [H|H]; auto.
Qed.

(** prefix / suffix tests and trimming, as strings.HasPrefix / TrimPrefix / TrimSuffix *)
Fixpoint has_prefix (s p : bytes) {struct p} : bool :=
  match p, s with
  | [], _ => true
  | c :: p', d :: s' => Ascii.eqb c d && has_prefix s' p'
  | _ :: _, [] => false
  end.
Fixpoint drop_prefix (s p : bytes) {struct p} : bytes :=
  match p, s with
  | [], _ => s
  | _ :: p', _ :: s' => drop_prefix s' p'
  | _ :: _, [] => []
  end.
Definition go_has_prefix (s p : bytes) : bool := has_prefix s p.
Definition go_trim_prefix (s p : bytes) : bytes := if has_prefix s p then drop_prefix s p else s.
Definition go_has_suffix (s p : bytes) : bool := has_prefix (rev s) (rev p).
Definition go_trim_suffix (s p : bytes) : bytes :=
  if go_has_suffix s p then rev (drop_prefix (rev s) (rev p)) else s.

Lemma has_prefix_app p s : has_prefix (p ++ s) p = true.
Proof. induction p as [|c p IH]; cbn; [reflexivity|]. now rewrite Ascii.eqb_refl, IH. Qed.
Lemma drop_prefix_app p s : drop_prefix (p ++ s) p = s.
Proof. induction p as [|c p IH]; cbn; auto. Qed.
Lemma has_prefix_split s p : has_prefix s p = true -> s = p ++ drop_prefix s p.
Proof.
  revert s; induction p as [|c p IH]; intros s H; cbn in *; [reflexivity|].
  destruct s as [|d s]; [discriminate|]. apply andb_prop in H as [H1 H2].
  apply Ascii.eqb_eq in H1. subst. f_equal. auto.
Qed.

(** Go error values: only nil-ness matters to control flow *)
Definition goerr := option bytes.
Definition goerr_is_nil (e : goerr) : bool := match e with None => true | Some _ => false end.

(** statement control for translated Go code *)
Inductive ctl (S R : Type) := Normal (s : S) | Brk (s : S) | Ret (r : R).
Arguments Normal {S R}. Arguments Brk {S R}. Arguments Ret {S R}.

(** strconv.Atoi for the values the code feeds it (optional sign, decimal digits); error -> 0 *)
Definition digit (c : ascii) : option Z :=
  let n := Z.of_N (N_of_ascii c) in
  if ((48 <=? n) && (n <=? 57))%Z then Some (n - 48)%Z else None.
Fixpoint atoi_acc (s : bytes) (acc : Z) : option Z :=
  match s with
  | [] => Some acc
  | c :: r => match digit c with Some d => atoi_acc r (acc * 10 + d)%Z | None => None end
  end.
Definition atoi_unsigned (s : bytes) : option Z := match s with [] => None | _ => atoi_acc s 0 end.
Definition go_atoi_opt (s : bytes) : option Z :=
  match s with
  | "+"%char :: r => atoi_unsigned r
  | "-"%char :: r => option_map Z.opp (atoi_unsigned r)
  | _ => atoi_unsigned s
  end.
(** Go's int is 64 bit: values outside the range are a range error (result discarded by the caller -> 0
    is NOT what Go returns: it returns the clamped value together with the error).  The one caller
    ignores the error, so the model returns the clamped value. *)
Definition int_max : Z := 9223372036854775807.
Definition int_min : Z := -9223372036854775808.
Definition go_atoi (s : bytes) : Z :=
  match go_atoi_opt s with
  | Some v => if (v >? int_max)%Z then int_max else if (v <? int_min)%Z then int_min else v
  | None => 0%Z
  end.

(** hex transport for correspondence cases: [hx "616263"] = "abc" *)
Definition hexval (c : ascii) : N :=
  let n := N_of_ascii c in
  if (48 <=? n)%N && (n <=? 57)%N then (n - 48)%N
  else if (97 <=? n)%N && (n <=? 102)%N then (n - 87)%N
  else if (65 <=? n)%N && (n <=? 70)%N then (n - 55)%N else 0%N.
Fixpoint hx_go (l : list ascii) : bytes :=
  match l with
  | h :: l0 :: r => ascii_of_N (hexval h * 16 + hexval l0) :: hx_go r
  | _ => []
  end.
Definition hx (s : string) : bytes := hx_go (list_ascii_of_string s).
Definition hexdigit (n : N) : ascii := ascii_of_N (if (n <? 10)%N then n + 48 else n + 87)%N.
Fixpoint to_hex_l (l : bytes) : list ascii :=
  match l with [] => [] | c :: r => let n := N_of_ascii c in hexdigit (n / 16) :: hexdigit (n mod 16) :: to_hex_l r end.
Definition to_hex (l : bytes) : string := string_of_list_ascii (to_hex_l l).

Definition blen (x : bytes) : Z := Z.of_nat (length x).
Fixpoint bconcat (l : list bytes) : bytes := match l with [] => [] | x :: r => x ++ bconcat r end.

(** list / option equality helpers for case comparison *)
Fixpoint list_eqb {A} (eq : A -> A -> bool) (x y : list A) : bool :=
  match x, y with [], [] => true | a :: x', c :: y' => eq a c && list_eqb eq x' y' | _, _ => false end.
Definition option_eqb {A} (eq : A -> A -> bool) (x y : option A) : bool :=
  match x, y with None, None => true | Some a, Some c => eq a c | _, _ => false end.
Definition pair_eqb {A B} (ea : A -> A -> bool) (eb : B -> B -> bool) (x y : A * B) : bool :=
  ea (fst x) (fst y) && eb (snd x) (snd y).
