(** net/http.Redirect: what ends up in the Location header for an absolute URL (Go 1.23): bytes >= 0x80 are written
    as %xx with lowercase hex (hexEscapeNonASCII); everything else is unchanged. *)
From Saml Require Import Base.Bytes.
Definition loc_byte (c : ascii) : bytes :=
  let n := N_of_ascii c in
  if (n <? 128)%N then [c] else ["%"%char; hexdigit (n / 16); hexdigit (n mod 16)].
Definition location_of (url : bytes) : bytes := flat_map loc_byte url.

Lemma location_ascii c : (N_of_ascii c < 128)%N -> loc_byte c = [c].
Proof. unfold loc_byte. intro H. apply N.ltb_lt in H. now rewrite H. Qed.
(** the escaped form is pure ASCII *)
Lemma loc_byte_ascii c : forallb (fun d => (N_of_ascii d <? 128)%N) (loc_byte c) = true.
Proof. destruct c as [[|] [|] [|] [|] [|] [|] [|] [|]]; reflexivity. Qed.
Theorem location_is_ascii url : forallb (fun d => (N_of_ascii d <? 128)%N) (location_of url) = true.
Proof.
  induction url as [|c u IH]; [reflexivity|]. change (location_of (c :: u)) with (loc_byte c ++ location_of u).
  now rewrite forallb_app, loc_byte_ascii, IH.
Qed.
