(** encoding/xml (Go 1.23): [escapeText] as used by Marshal, and the matching un-escaping done by an
    XML parser on character data and attribute values.

    Go sources modelled (encoding/xml/xml.go):
      - [isInCharacterRange]                         -> [xml_char_ok]
      - [escapeText(w, s, escapeNewline = true)]      -> [xml_escape]
        (Marshal's printer calls [EscapeText]/[EscapeString], i.e. this very switch with newline
        escaping on, for character data AND for attribute values)
      - the '&' branch of [Decoder.text]           -> [unesc] / [resolve]
      - the closing rune loop of [Decoder.text]    -> [legal_xml]

    Out of scope for the un-escaper (none of it can be triggered by escaped output):
      - CR / CRLF -> LF normalisation of raw line ends.  [escapeText] writes every raw CR and LF as
        a numeric reference, so escaped output contains no raw CR or LF byte.
      - termination of the text at the closing quote of an attribute value, at the '<' of the next
        tag, and the "]]>" check.  Escaped output contains no quote, no '<' and no '>' byte
        ([xml_escape_no_markup]); here a bare '<' is reported as an error.
      - entities declared by the document (Decoder.Entity is nil, Strict is true). *)
From Saml Require Import Base.Bytes Codec.Utf8.
Open Scope char_scope.
Open Scope N_scope.

(** * Definitions *)

(** isInCharacterRange: the Char production of XML 1.0 *)
Definition xml_char_ok (r : N) : bool :=
  (r =? 0x09) || (r =? 0x0A) || (r =? 0x0D) ||
  ((0x20 <=? r) && (r <=? 0xD7FF)) ||
  ((0xE000 <=? r) && (r <=? 0xFFFD)) ||
  ((0x10000 <=? r) && (r <=? 0x10FFFF)).

Definition esc_quot : bytes := b "&#34;".
Definition esc_apos : bytes := b "&#39;".
Definition esc_amp : bytes := b "&amp;".
Definition esc_lt : bytes := b "&lt;".
Definition esc_gt : bytes := b "&gt;".
Definition esc_tab : bytes := b "&#x9;".
Definition esc_nl : bytes := b "&#xA;".
Definition esc_cr : bytes := b "&#xD;".
Definition esc_fffd : bytes := hx "efbfbd".          (* U+FFFD in UTF-8 *)

(** one turn of the loop of escapeText: [s] is the input from the current rune on, [(r, w)] is
    [utf8.DecodeRune s]; the result is what reaches the writer for these [w] bytes *)
Definition esc_rune (r : N) (w : nat) (s : bytes) : bytes :=
  if r =? 34 then esc_quot
  else if r =? 39 then esc_apos
  else if r =? 38 then esc_amp
  else if r =? 60 then esc_lt
  else if r =? 62 then esc_gt
  else if r =? 9 then esc_tab
  else if r =? 10 then esc_nl
  else if r =? 13 then esc_cr
  else if negb (xml_char_ok r) || ((r =? 0xFFFD) && (w =? 1)%nat) then esc_fffd
  else firstn w s.

(** every turn consumes [w >= 1] bytes, so [length s] turns always suffice
    ([xml_escape_fuel_enough] below) *)
Fixpoint xml_escape_fuel (fuel : nat) (s : bytes) : bytes :=
  match fuel with
  | O => []
  | S f =>
      match s with
      | [] => []
      | _ :: _ =>
          let d := decode_rune s in
          esc_rune (fst d) (snd d) s ++ xml_escape_fuel f (skipn (snd d) s)
      end
  end.

Definition xml_escape (s : bytes) : bytes := xml_escape_fuel (length s) s.

(** the closing loop of Decoder.text: valid UTF-8 and every rune in the Char range *)
Definition legal_step (r : N) (w : nat) : bool :=
  negb ((r =? 0xFFFD) && (w =? 1)%nat) && xml_char_ok r.

Fixpoint legal_xml_fuel (fuel : nat) (s : bytes) : bool :=
  match s with
  | [] => true
  | _ :: _ =>
      match fuel with
      | O => false
      | S f =>
          let d := decode_rune s in
          legal_step (fst d) (snd d) && legal_xml_fuel f (skipn (snd d) s)
      end
  end.

Definition legal_xml (s : bytes) : bool := legal_xml_fuel (length s) s.

(** ** Un-escaping *)

Definition dec_digit (c : ascii) : option N :=
  let n := N_of_ascii c in
  if (48 <=? n) && (n <=? 57) then Some (n - 48) else None.

Definition hex_digit (c : ascii) : option N :=
  let n := N_of_ascii c in
  if (48 <=? n) && (n <=? 57) then Some (n - 48)
  else if (97 <=? n) && (n <=? 102) then Some (n - 87)
  else if (65 <=? n) && (n <=? 70) then Some (n - 55)
  else None.

(** strconv.ParseUint(s, base, 64) on a digit string.  The value is not truncated to 64 bits: a
    value Go rejects as out of range is larger than MaxRune and is rejected by the caller here. *)
Fixpoint parse_num (base : N) (dig : ascii -> option N) (ds : bytes) (acc : N) : option N :=
  match ds with
  | [] => Some acc
  | c :: r =>
      match dig c with
      | Some d => parse_num base dig r (acc * base + d)
      | None => None
      end
  end.

Definition parse_ref_num (base : N) (dig : ascii -> option N) (ds : bytes) : option N :=
  match ds with
  | [] => None
  | _ :: _ => parse_num base dig ds 0
  end.

(** the text between '&' and ';' -> replacement bytes.  [ok] decides which code points a numeric
    reference may denote. *)
Definition resolve (ok : N -> bool) (name : bytes) : option bytes :=
  match name with
  | [] => None
  | c0 :: t =>
      if Ascii.eqb c0 "#" then
        let num :=
          match t with
          | [] => None
          | c1 :: t' =>
              if Ascii.eqb c1 "x" then parse_ref_num 16 hex_digit t'
              else parse_ref_num 10 dec_digit t
          end in
        match num with
        | Some n => if ok n then Some (encode_rune n) else None
        | None => None
        end
      else if beq name (b "amp") then Some (b "&")
      else if beq name (b "lt") then Some (b "<")
      else if beq name (b "gt") then Some (b ">")
      else if beq name (b "quot") then Some (b """")
      else if beq name (b "apos") then Some (b "'")
      else None
  end.

(** Byte-wise state machine.  [ref = None]: in plain text.  [ref = Some acc]: after a '&', [acc]
    holds the bytes seen since then, most recent first.  Go fails at the first byte that cannot
    continue the reference; this machine collects up to the next ';' and fails there (or at the end
    of the input); the verdict is the same. *)
Fixpoint unesc (ok : N -> bool) (ref : option bytes) (s : bytes) : option bytes :=
  match s with
  | [] => match ref with None => Some [] | Some _ => None end
  | c :: r =>
      match ref with
      | None =>
          if Ascii.eqb c "&" then unesc ok (Some []) r
          else if Ascii.eqb c "<" then None
          else option_map (app [c]) (unesc ok None r)
      | Some acc =>
          if Ascii.eqb c ";" then
            match resolve ok (rev acc) with
            | Some t => option_map (app t) (unesc ok None r)
            | None => None
            end
          else unesc ok (Some (c :: acc)) r
      end
  end.

(** the un-escaper of the specification: a numeric reference must denote an XML Char *)
Definition xml_unescape (s : bytes) : option bytes := unesc xml_char_ok None s.

(** Go's Decoder.text, closer to the letter: a numeric reference is taken when n <= MaxRune,
    [string(rune(n))] turns a surrogate into U+FFFD, and the whole result is then checked rune by
    rune. *)
Definition go_ref_ok (n : N) : bool := n <=? max_rune.
Definition go_text_unescape (s : bytes) : option bytes :=
  match unesc go_ref_ok None s with
  | Some t => if legal_xml t then Some t else None
  | None => None
  end.

(** ** Output checkers *)

Definition markup_free (c : ascii) : bool :=
  negb (Ascii.eqb c "<") && negb (Ascii.eqb c ">") && negb (Ascii.eqb c """") && negb (Ascii.eqb c "'").

Definition ref_tails : list bytes :=
  [b "#34;"; b "#39;"; b "amp;"; b "lt;"; b "gt;"; b "#x9;"; b "#xA;"; b "#xD;"].
Definition starts_ref (r : bytes) : bool := existsb (has_prefix r) ref_tails.

(** every '&' is followed by the rest of one of the eight references escapeText writes *)
Fixpoint amp_ok (s : bytes) : bool :=
  match s with
  | [] => true
  | c :: r => (if Ascii.eqb c "&" then starts_ref r else true) && amp_ok r
  end.

(** * Fuel *)

Lemma skipn_width_length s :
  s <> [] -> (length (skipn (snd (decode_rune s)) s) < length s)%nat.
Proof.
  intros H. rewrite skipn_length. pose proof (decode_rune_width s H).
  destruct s; [congruence|]. cbn [length] in *. lia.
Qed.

Lemma xml_escape_fuel_more : forall f1 f2 s,
  (length s <= f1)%nat -> (length s <= f2)%nat -> xml_escape_fuel f1 s = xml_escape_fuel f2 s.
Proof.
  induction f1 as [|f1 IH]; intros f2 s H1 H2.
  - destruct s; [|cbn [length] in H1; lia]. destruct f2; reflexivity.
  - destruct f2 as [|f2].
    + destruct s; [reflexivity|cbn [length] in H2; lia].
    + destruct s as [|c t]; [reflexivity|].
      cbn [xml_escape_fuel]. f_equal.
      assert (c :: t <> []) as Hne by congruence.
      pose proof (skipn_width_length _ Hne). cbn [length] in *.
      apply IH; lia.
Qed.

(** more fuel than [length s] changes nothing: the definition never runs out *)
Lemma xml_escape_fuel_enough : forall fuel s,
  (length s <= fuel)%nat -> xml_escape_fuel fuel s = xml_escape s.
Proof. intros. apply xml_escape_fuel_more; lia. Qed.

Lemma legal_xml_fuel_more : forall f1 f2 s,
  (length s <= f1)%nat -> (length s <= f2)%nat -> legal_xml_fuel f1 s = legal_xml_fuel f2 s.
Proof.
  induction f1 as [|f1 IH]; intros f2 s H1 H2.
  - destruct s; [|cbn [length] in H1; lia]. destruct f2; reflexivity.
  - destruct f2 as [|f2].
    + destruct s; [reflexivity|cbn [length] in H2; lia].
    + destruct s as [|c t]; [reflexivity|].
      cbn [legal_xml_fuel]. f_equal.
      assert (c :: t <> []) as Hne by congruence.
      pose proof (skipn_width_length _ Hne). cbn [length] in *.
      apply IH; lia.
Qed.

Lemma legal_xml_fuel_enough : forall fuel s,
  (length s <= fuel)%nat -> legal_xml_fuel fuel s = legal_xml s.
Proof. intros. apply legal_xml_fuel_more; lia. Qed.

Lemma xml_escape_nil : xml_escape [] = [].
Proof. reflexivity. Qed.

Lemma legal_xml_nil : legal_xml [] = true.
Proof. reflexivity. Qed.

(** the loop equations *)
Lemma xml_escape_step : forall s, s <> [] ->
  xml_escape s =
  esc_rune (fst (decode_rune s)) (snd (decode_rune s)) s ++ xml_escape (skipn (snd (decode_rune s)) s).
Proof.
  intros s H. pose proof (skipn_width_length s H) as L.
  destruct s as [|c t]; [congruence|].
  unfold xml_escape at 1. cbn [length xml_escape_fuel]. f_equal.
  apply xml_escape_fuel_enough. cbn [length] in L. lia.
Qed.

Lemma legal_xml_step : forall s, s <> [] ->
  legal_xml s =
  legal_step (fst (decode_rune s)) (snd (decode_rune s)) && legal_xml (skipn (snd (decode_rune s)) s).
Proof.
  intros s H. pose proof (skipn_width_length s H) as L.
  destruct s as [|c t]; [congruence|].
  unfold legal_xml at 1. cbn [length legal_xml_fuel]. f_equal.
  apply legal_xml_fuel_enough. cbn [length] in L. lia.
Qed.

(** induction along the rune walk *)
Lemma rune_ind (P : bytes -> Prop) :
  P [] ->
  (forall s, s <> [] -> P (skipn (snd (decode_rune s)) s) -> P s) ->
  forall s, P s.
Proof.
  intros H0 Hs s. remember (length s) as n eqn:En. revert s En.
  induction n as [n IH] using lt_wf_ind. intros s ->.
  destruct s as [|c t]; [exact H0|].
  assert (c :: t <> []) as Hne by congruence.
  apply Hs; [exact Hne|].
  apply (IH (length (skipn (snd (decode_rune (c :: t))) (c :: t)))); [|reflexivity].
  apply skipn_width_length. exact Hne.
Qed.

(** * Byte facts *)

Lemma ascii_eqb_N c d : N_of_ascii c <> N_of_ascii d -> Ascii.eqb c d = false.
Proof. intros H. destruct (Ascii.eqb_spec c d); [subst; congruence|reflexivity]. Qed.

Lemma high_byte_eqb c d : high_byte c = true -> N_of_ascii d < 128 -> Ascii.eqb c d = false.
Proof. unfold high_byte. intros H L. apply N.leb_le in H. apply ascii_eqb_N. lia. Qed.

Lemma ascii_of_code c n : N_of_ascii c = n -> c = ascii_of_N n.
Proof. intros <-. now rewrite ascii_N_embedding. Qed.

Lemma forallb_imp {A} (p q : A -> bool) l :
  (forall x, p x = true -> q x = true) -> forallb p l = true -> forallb q l = true.
Proof.
  intros H. induction l as [|x l IH]; cbn [forallb]; [reflexivity|].
  intros E. apply andb_prop in E as [E1 E2]. now rewrite (H _ E1), IH.
Qed.

(** what one turn of the loop can see *)
Inductive rune_view (s : bytes) (r : N) (w : nat) : Prop :=
| view_ascii c t : s = c :: t -> w = 1%nat -> N_of_ascii c < 128 -> r = N_of_ascii c -> rune_view s r w
| view_bad c t : s = c :: t -> w = 1%nat -> 128 <= N_of_ascii c -> r = rune_error -> rune_view s r w
| view_multi : (2 <= w)%nat -> 128 <= r -> forallb high_byte (firstn w s) = true -> rune_view s r w.

Lemma rune_view_decode s : s <> [] -> rune_view s (fst (decode_rune s)) (snd (decode_rune s)).
Proof.
  intros H. pose proof (decode_rune_width s H) as [W _].
  destruct (decode_rune s) as [r w] eqn:D. cbn [fst snd] in *.
  destruct (Nat.eq_dec w 1) as [->|Hw].
  - destruct s as [|c t]; [congruence|].
    destruct (decode_rune_one _ _ _ D) as [[L ->]|[L ->]].
    + eapply view_ascii; eauto.
    + eapply view_bad; eauto.
  - assert (2 <= w)%nat as W2 by lia.
    destruct (decode_rune_multi _ _ _ D W2) as (F & R & _).
    apply view_multi; assumption.
Qed.

(** * No markup byte in the output *)

Lemma esc_rune_markup_free s r w : rune_view s r w -> forallb markup_free (esc_rune r w s) = true.
Proof.
  intros V. unfold esc_rune.
  repeat match goal with
  | |- context [if ?x =? ?k then _ else _] => destruct (N.eqb_spec x k); [reflexivity|]
  end.
  destruct (negb (xml_char_ok r) || (r =? 65533) && (w =? 1)%nat) eqn:C; [reflexivity|].
  destruct V as [c t -> -> L ->|c t -> -> L ->|W R F].
  - cbn [firstn forallb]. unfold markup_free.
    rewrite !ascii_eqb_N by assumption. reflexivity.
  - rewrite orb_false_iff in C. destruct C as [_ C]. discriminate C.
  - revert F. apply forallb_imp. intros c Hc. unfold markup_free.
    rewrite !(high_byte_eqb c) by (assumption || reflexivity). reflexivity.
Qed.

Theorem xml_escape_no_markup : forall s,
  forallb (fun c => negb (Ascii.eqb c "<") && negb (Ascii.eqb c ">") &&
                    negb (Ascii.eqb c """") && negb (Ascii.eqb c "'")) (xml_escape s) = true.
Proof.
  change (forall s, forallb markup_free (xml_escape s) = true).
  induction s as [|s Hne IH] using rune_ind; [reflexivity|].
  rewrite (xml_escape_step s Hne), forallb_app, IH, esc_rune_markup_free; [reflexivity|].
  apply rune_view_decode. exact Hne.
Qed.

(** * Every '&' of the output starts one of the eight references *)

Lemma amp_ok_app_plain l t :
  forallb (fun c => negb (Ascii.eqb c "&")) l = true -> amp_ok (l ++ t) = amp_ok t.
Proof.
  induction l as [|c l IH]; cbn [forallb app amp_ok]; [reflexivity|].
  intros E. apply andb_prop in E as [E1 E2]. apply negb_true_iff in E1.
  rewrite E1, IH by assumption. reflexivity.
Qed.

Lemma esc_rune_amp_ok s r w t : rune_view s r w -> amp_ok (esc_rune r w s ++ t) = amp_ok t.
Proof.
  intros V. unfold esc_rune.
  repeat match goal with
  | |- context [if ?x =? ?k then _ else _] => destruct (N.eqb_spec x k); [reflexivity|]
  end.
  destruct (negb (xml_char_ok r) || (r =? 65533) && (w =? 1)%nat) eqn:C; [reflexivity|].
  apply amp_ok_app_plain.
  destruct V as [c t' -> -> L ->|c t' -> -> L ->|W R F].
  - cbn [firstn forallb]. rewrite ascii_eqb_N by assumption. reflexivity.
  - rewrite orb_false_iff in C. destruct C as [_ C]. discriminate C.
  - revert F. apply forallb_imp. intros c Hc.
    rewrite (high_byte_eqb c) by (assumption || reflexivity). reflexivity.
Qed.

Theorem xml_escape_amp : forall s, amp_ok (xml_escape s) = true.
Proof.
  induction s as [|s Hne IH] using rune_ind; [reflexivity|].
  rewrite (xml_escape_step s Hne), esc_rune_amp_ok; [exact IH|].
  apply rune_view_decode. exact Hne.
Qed.

(** * Round trip *)

Section Unesc.
  Context (ok : N -> bool).
  Context (ok34 : ok 34 = true) (ok39 : ok 39 = true)
          (ok9 : ok 9 = true) (ok10 : ok 10 = true) (ok13 : ok 13 = true).

  Lemma unesc_ref_body : forall body acc r,
    forallb (fun c => negb (Ascii.eqb c ";")) body = true ->
    unesc ok (Some acc) (body ++ ";" :: r) =
    match resolve ok (rev acc ++ body) with
    | Some t => option_map (app t) (unesc ok None r)
    | None => None
    end.
  Proof.
    induction body as [|c body IH]; intros acc r E.
    - rewrite app_nil_r. reflexivity.
    - cbn [forallb] in E. apply andb_prop in E as [E1 E2]. apply negb_true_iff in E1.
      cbn [app unesc]. rewrite E1, IH by assumption.
      cbn [rev]. rewrite <- app_assoc. reflexivity.
  Qed.

  (** a reference written as '&' body ';' *)
  Lemma unesc_ref body r :
    forallb (fun c => negb (Ascii.eqb c ";")) body = true ->
    unesc ok None ("&" :: body ++ ";" :: r) =
    match resolve ok body with
    | Some t => option_map (app t) (unesc ok None r)
    | None => None
    end.
  Proof. intros E. cbn [unesc]. change (Ascii.eqb "&" "&") with true. cbv iota. now rewrite unesc_ref_body. Qed.

  Lemma unesc_quot r : unesc ok None (esc_quot ++ r) = option_map (app [""""]) (unesc ok None r).
  Proof.
    change (esc_quot ++ r) with ("&" :: b "#34" ++ ";" :: r). rewrite unesc_ref by reflexivity.
    change (resolve ok (b "#34")) with (if ok 34 then Some [""""] else None). now rewrite ok34.
  Qed.
  Lemma unesc_apos r : unesc ok None (esc_apos ++ r) = option_map (app ["'"]) (unesc ok None r).
  Proof.
    change (esc_apos ++ r) with ("&" :: b "#39" ++ ";" :: r). rewrite unesc_ref by reflexivity.
    change (resolve ok (b "#39")) with (if ok 39 then Some ["'"] else None). now rewrite ok39.
  Qed.
  Lemma unesc_amp r : unesc ok None (esc_amp ++ r) = option_map (app ["&"]) (unesc ok None r).
  Proof. change (esc_amp ++ r) with ("&" :: b "amp" ++ ";" :: r). now rewrite unesc_ref by reflexivity. Qed.
  Lemma unesc_lt r : unesc ok None (esc_lt ++ r) = option_map (app ["<"]) (unesc ok None r).
  Proof. change (esc_lt ++ r) with ("&" :: b "lt" ++ ";" :: r). now rewrite unesc_ref by reflexivity. Qed.
  Lemma unesc_gt r : unesc ok None (esc_gt ++ r) = option_map (app [">"]) (unesc ok None r).
  Proof. change (esc_gt ++ r) with ("&" :: b "gt" ++ ";" :: r). now rewrite unesc_ref by reflexivity. Qed.
  Lemma unesc_tab r : unesc ok None (esc_tab ++ r) = option_map (app [ascii_of_N 9]) (unesc ok None r).
  Proof.
    change (esc_tab ++ r) with ("&" :: b "#x9" ++ ";" :: r). rewrite unesc_ref by reflexivity.
    change (resolve ok (b "#x9")) with (if ok 9 then Some [ascii_of_N 9] else None). now rewrite ok9.
  Qed.
  Lemma unesc_nl r : unesc ok None (esc_nl ++ r) = option_map (app [ascii_of_N 10]) (unesc ok None r).
  Proof.
    change (esc_nl ++ r) with ("&" :: b "#xA" ++ ";" :: r). rewrite unesc_ref by reflexivity.
    change (resolve ok (b "#xA")) with (if ok 10 then Some [ascii_of_N 10] else None). now rewrite ok10.
  Qed.
  Lemma unesc_cr r : unesc ok None (esc_cr ++ r) = option_map (app [ascii_of_N 13]) (unesc ok None r).
  Proof.
    change (esc_cr ++ r) with ("&" :: b "#xD" ++ ";" :: r). rewrite unesc_ref by reflexivity.
    change (resolve ok (b "#xD")) with (if ok 13 then Some [ascii_of_N 13] else None). now rewrite ok13.
  Qed.

  (** bytes that are neither '&' nor '<' pass through *)
  Lemma unesc_copy l r :
    forallb (fun c => negb (Ascii.eqb c "&") && negb (Ascii.eqb c "<")) l = true ->
    unesc ok None (l ++ r) = option_map (app l) (unesc ok None r).
  Proof.
    induction l as [|c l IH]; cbn [forallb app]; intros E.
    - destruct (unesc ok None r); reflexivity.
    - apply andb_prop in E as [E1 E2]. apply andb_prop in E1 as [Ea El].
      apply negb_true_iff in Ea, El. cbn [unesc]. rewrite Ea, El, IH by assumption.
      destruct (unesc ok None r); reflexivity.
  Qed.

  Lemma esc_rune_unesc s r w t :
    rune_view s r w -> legal_step r w = true ->
    unesc ok None (esc_rune r w s ++ t) = option_map (app (firstn w s)) (unesc ok None t).
  Proof.
    intros V L. unfold legal_step in L. apply andb_prop in L as [L1 L2].
    apply negb_true_iff in L1.
    unfold esc_rune.
    assert (C : negb (xml_char_ok r) || (r =? 65533) && (w =? 1)%nat = false)
      by (rewrite L2; exact L1).
    destruct V as [c t' -> -> Lc ->|c t' -> -> Lc ->|W R F].
    - cbn [firstn].
      repeat match goal with
      | |- context [if ?x =? ?k then _ else _] =>
          let E := fresh "E" in
          destruct (N.eqb_spec x k) as [E|E];
          [apply ascii_of_code in E; subst c;
           first [apply unesc_quot | apply unesc_apos | apply unesc_amp | apply unesc_lt
                 | apply unesc_gt | apply unesc_tab | apply unesc_nl | apply unesc_cr]|]
      end.
      rewrite C. cbn [firstn]. apply unesc_copy. cbn [forallb].
      rewrite !ascii_eqb_N by assumption. reflexivity.
    - cbn [Nat.eqb] in L1. change (rune_error =? 65533) with true in L1. discriminate L1.
    - repeat match goal with
      | |- context [if ?x =? ?k then _ else _] =>
          let E := fresh "E" in destruct (N.eqb_spec x k) as [E|E]; [lia|]
      end.
      rewrite C. apply unesc_copy. revert F. apply forallb_imp. intros c Hc.
      rewrite !(high_byte_eqb c) by (assumption || reflexivity). reflexivity.
  Qed.

  Theorem unesc_escape : forall s, legal_xml s = true -> unesc ok None (xml_escape s) = Some s.
  Proof.
    induction s as [|s Hne IH] using rune_ind; intros L; [reflexivity|].
    rewrite (legal_xml_step s Hne) in L. apply andb_prop in L as [L1 L2].
    rewrite (xml_escape_step s Hne), esc_rune_unesc, (IH L2);
      [|apply rune_view_decode; exact Hne|exact L1].
    cbn [option_map]. now rewrite firstn_skipn.
  Qed.
End Unesc.

Theorem xml_unescape_escape : forall s, legal_xml s = true -> xml_unescape (xml_escape s) = Some s.
Proof. intros s L. unfold xml_unescape. apply unesc_escape; auto. Qed.

(** the same for the closer model of Go's decoder *)
Theorem go_text_unescape_escape : forall s, legal_xml s = true -> go_text_unescape (xml_escape s) = Some s.
Proof.
  intros s L. unfold go_text_unescape. rewrite unesc_escape by (auto; reflexivity). now rewrite L.
Qed.

(** * Examples (outputs compared with xml.EscapeText of Go 1.23.7) *)

Example ex_markup : xml_escape (b "a<b&""c'") = b "a&lt;b&amp;&#34;c&#39;".
Proof. vm_compute. reflexivity. Qed.
Example ex_gt : xml_escape (b "x>y") = b "x&gt;y".
Proof. vm_compute. reflexivity. Qed.
Example ex_ws : xml_escape (hx "61096220630d0a64") = b "a&#x9;b c&#xD;&#xA;d".
Proof. vm_compute. reflexivity. Qed.
Example ex_ff : xml_escape (hx "61ff62") = hx "61efbfbd62".
Proof. vm_compute. reflexivity. Qed.
Example ex_nul : xml_escape (hx "610062") = hx "61efbfbd62".
Proof. vm_compute. reflexivity. Qed.
Example ex_fffe : xml_escape (hx "efbfbe") = hx "efbfbd".
Proof. vm_compute. reflexivity. Qed.
Example ex_fffd_kept : xml_escape (hx "efbfbd") = hx "efbfbd".
Proof. vm_compute. reflexivity. Qed.
Example ex_grin : xml_escape (hx "f09f9880") = hx "f09f9880".
Proof. vm_compute. reflexivity. Qed.
Example ex_trunc : xml_escape (hx "e282") = hx "efbfbdefbfbd".
Proof. vm_compute. reflexivity. Qed.
Example ex_surrogate : xml_escape (hx "eda080") = hx "efbfbdefbfbdefbfbd".
Proof. vm_compute. reflexivity. Qed.

Example ex_un1 : xml_unescape (b "a&lt;b&amp;&#34;c&#39;&quot;&apos;&gt;") = Some (b "a<b&""c'""'>").
Proof. vm_compute. reflexivity. Qed.
Example ex_un2 : xml_unescape (b "&#x1F600;&#128512;&#X41;") = None.
Proof. vm_compute. reflexivity. Qed.
Example ex_un3 : xml_unescape (b "&#x1F600;&#128512;&#x0041;") = Some (hx "f09f9880f09f988041").
Proof. vm_compute. reflexivity. Qed.
Example ex_un_bad1 : xml_unescape (b "a&b") = None. Proof. vm_compute. reflexivity. Qed.
Example ex_un_bad2 : xml_unescape (b "a<b") = None. Proof. vm_compute. reflexivity. Qed.
Example ex_un_bad3 : xml_unescape (b "&#0;") = None. Proof. vm_compute. reflexivity. Qed.
Example ex_un_bad4 : xml_unescape (b "&#;") = None. Proof. vm_compute. reflexivity. Qed.
Example ex_un_bad5 : xml_unescape (b "&#x;") = None. Proof. vm_compute. reflexivity. Qed.
Example ex_un_bad6 : xml_unescape (b "&nbsp;") = None. Proof. vm_compute. reflexivity. Qed.
Example ex_un_bad7 : xml_unescape (b "&#xFFFE;") = None. Proof. vm_compute. reflexivity. Qed.
Example ex_un_bad8 : xml_unescape (b "&#xD800;") = None. Proof. vm_compute. reflexivity. Qed.
(** the two un-escapers differ exactly here: Go turns a surrogate reference into U+FFFD *)
Example ex_go_surrogate : go_text_unescape (b "&#xD800;") = Some (hx "efbfbd").
Proof. vm_compute. reflexivity. Qed.
Example ex_go_bad : go_text_unescape (b "&#xFFFE;") = None.
Proof. vm_compute. reflexivity. Qed.
Example ex_legal1 : legal_xml (hx "61c3a9e282acf09f9880090a0d") = true. Proof. vm_compute. reflexivity. Qed.
Example ex_legal2 : legal_xml (hx "61ff") = false. Proof. vm_compute. reflexivity. Qed.
Example ex_legal3 : legal_xml (hx "6100") = false. Proof. vm_compute. reflexivity. Qed.
Example ex_legal4 : legal_xml (hx "efbfbe") = false. Proof. vm_compute. reflexivity. Qed.

Print Assumptions xml_unescape_escape.
Print Assumptions go_text_unescape_escape.
Print Assumptions xml_escape_no_markup.
Print Assumptions xml_escape_amp.
Print Assumptions xml_escape_fuel_enough.
