(** unicode/utf8 (Go 1.23): DecodeRune and AppendRune on byte lists.

    Runes are [N]; bytes are [ascii], read through [N_of_ascii].  Go's bit operations are written
    arithmetically, with the same value on every input:
      [x & mask_k]  (mask_k = 2^k - 1)  is  [x mod 2^k],
      [x << k]                          is  [x * 2^k],
      [x >> k]                          is  [x / 2^k],
      [a | b] of fields that do not overlap  is  [a + b].
    The [first] table and [acceptRanges] of utf8.go are reproduced by [lead_info]:
      C2..DF            s1  (accept 0 = 80..BF, size 2)
      E0                s2  (accept 1 = A0..BF, size 3)
      E1..EC, EE..EF    s3  (accept 0 = 80..BF, size 3)
      ED                s4  (accept 2 = 80..9F, size 3)
      F0                s5  (accept 3 = 90..BF, size 4)
      F1..F3            s6  (accept 0 = 80..BF, size 4)
      F4                s7  (accept 4 = 80..8F, size 4)
      80..C1, F5..FF    xx  (invalid, size 1)
      00..7F            as  (ASCII, size 1). *)
From Saml Require Import Base.Bytes.
Open Scope N_scope.

#[local] Ltac Zify.zify_post_hook ::= Z.to_euclidean_division_equations.

Definition rune_error : N := 65533.                 (* utf8.RuneError = U+FFFD *)
Definition max_rune : N := 0x10FFFF.                (* utf8.MaxRune *)

Definition valid_scalar (r : N) : bool :=
  (r <? 0xD800) || ((0xE000 <=? r) && (r <=? 0x10FFFF)).

Definition in_rng (lo hi n : N) : bool := (lo <=? n) && (n <=? hi).

(** [first[p0]] for p0 >= 0x80: [None] is xx, [Some (lo, hi, size)] gives the accept range of the
    second byte and the sequence length. *)
Definition lead_info (p0 : N) : option (N * N * nat) :=
  if p0 <? 0xC2 then None
  else if p0 <? 0xE0 then Some (0x80, 0xBF, 2%nat)
  else if p0 =? 0xE0 then Some (0xA0, 0xBF, 3%nat)
  else if p0 =? 0xED then Some (0x80, 0x9F, 3%nat)
  else if p0 <? 0xF0 then Some (0x80, 0xBF, 3%nat)
  else if p0 =? 0xF0 then Some (0x90, 0xBF, 4%nat)
  else if p0 <? 0xF4 then Some (0x80, 0xBF, 4%nat)
  else if p0 =? 0xF4 then Some (0x80, 0x8F, 4%nat)
  else None.

(** utf8.DecodeRune.  Every failure (invalid lead byte, sequence cut short, second byte outside its
    accept range, later byte not a continuation byte) returns (RuneError, 1), so the order in which
    Go tests them is immaterial. *)
Definition decode_rune (s : bytes) : N * nat :=
  match s with
  | [] => (rune_error, 0%nat)
  | c0 :: t =>
      let p0 := N_of_ascii c0 in
      if p0 <? 0x80 then (p0, 1%nat)
      else
        match lead_info p0 with
        | None => (rune_error, 1%nat)
        | Some (lo, hi, sz) =>
            match sz, t with
            | 2%nat, c1 :: _ =>
                let b1 := N_of_ascii c1 in
                if in_rng lo hi b1 then ((p0 mod 32) * 64 + b1 mod 64, 2%nat)
                else (rune_error, 1%nat)
            | 3%nat, c1 :: c2 :: _ =>
                let b1 := N_of_ascii c1 in
                let b2 := N_of_ascii c2 in
                if in_rng lo hi b1 && in_rng 0x80 0xBF b2
                then ((p0 mod 16) * 4096 + (b1 mod 64) * 64 + b2 mod 64, 3%nat)
                else (rune_error, 1%nat)
            | 4%nat, c1 :: c2 :: c3 :: _ =>
                let b1 := N_of_ascii c1 in
                let b2 := N_of_ascii c2 in
                let b3 := N_of_ascii c3 in
                if in_rng lo hi b1 && in_rng 0x80 0xBF b2 && in_rng 0x80 0xBF b3
                then ((p0 mod 8) * 262144 + (b1 mod 64) * 4096 + (b2 mod 64) * 64 + b3 mod 64, 4%nat)
                else (rune_error, 1%nat)
            | _, _ => (rune_error, 1%nat)
            end
        end
  end.

(** utf8.AppendRune(nil, r) (for a rune given as a non-negative number): out-of-range values and
    surrogates are encoded as RuneError. *)
Definition encode_rune (r : N) : bytes :=
  if r <? 0x80 then [ascii_of_N r]
  else if r <? 0x800 then [ascii_of_N (0xC0 + r / 64); ascii_of_N (0x80 + r mod 64)]
  else if (0x10FFFF <? r) || ((0xD800 <=? r) && (r <=? 0xDFFF))
       then [ascii_of_N 0xEF; ascii_of_N 0xBF; ascii_of_N 0xBD]
  else if r <? 0x10000
       then [ascii_of_N (0xE0 + r / 4096); ascii_of_N (0x80 + (r / 64) mod 64);
             ascii_of_N (0x80 + r mod 64)]
  else [ascii_of_N (0xF0 + r / 262144); ascii_of_N (0x80 + (r / 4096) mod 64);
        ascii_of_N (0x80 + (r / 64) mod 64); ascii_of_N (0x80 + r mod 64)].

(** ** Tactics *)

Ltac n2p :=
  repeat match goal with
  | H : (_ <? _) = true |- _ => apply N.ltb_lt in H
  | H : (_ <? _) = false |- _ => apply N.ltb_ge in H
  | H : (_ <=? _) = true |- _ => apply N.leb_le in H
  | H : (_ <=? _) = false |- _ => apply N.leb_gt in H
  | H : (_ =? _) = true |- _ => apply N.eqb_eq in H
  | H : (_ =? _) = false |- _ => apply N.eqb_neq in H
  | H : (_ && _) = true |- _ => apply andb_prop in H; destruct H
  | H : (_ || _) = false |- _ => apply orb_false_elim in H; destruct H
  end.

(** decide a boolean N comparison in the goal from linear facts *)
Ltac ntrue c := let H := fresh in assert (H : c = true) by
  (repeat (apply andb_true_intro; split); first [apply N.ltb_lt | apply N.leb_le | apply N.eqb_eq]; lia);
  rewrite H; clear H.
Ltac nfalse c := let H := fresh in assert (H : c = false) by
  (first [apply N.ltb_ge | apply N.leb_gt | apply N.eqb_neq]; lia);
  rewrite H; clear H.

(** case-split the N comparisons of the goal, discarding impossible branches *)
Ltac cmp_cases :=
  repeat (match goal with
          | |- context [?a <? ?c] => destruct (N.ltb_spec a c)
          | |- context [?a <=? ?c] => destruct (N.leb_spec a c)
          end; try (exfalso; lia)); cbn [orb andb].

Lemma N_of_ascii_lt c : N_of_ascii c < 256.
Proof. destruct c as [[|] [|] [|] [|] [|] [|] [|] [|]]; reflexivity. Qed.

(** ** ASCII and width *)

Lemma decode_rune_nil : decode_rune [] = (rune_error, 0%nat).
Proof. reflexivity. Qed.

Lemma decode_rune_ascii : forall c rest, N_of_ascii c < 128 -> decode_rune (c :: rest) = (N_of_ascii c, 1%nat).
Proof.
  intros c rest H. unfold decode_rune.
  apply N.ltb_lt in H. change 0x80 with 128. now rewrite H.
Qed.

(** destruct every test of [decode_rune] *)
Ltac split_decode :=
  repeat match goal with
  | |- context [if ?c then _ else _] => destruct c eqn:?
  | |- context [match ?l with [] => _ | _ :: _ => _ end] => destruct l
  end.

Lemma decode_rune_width : forall s, s <> [] ->
  (1 <= snd (decode_rune s) <= 4)%nat /\ (snd (decode_rune s) <= length s)%nat.
Proof.
  intros [|c0 t] Hs; [congruence|]. clear Hs.
  unfold decode_rune, lead_info.
  split_decode; cbn [snd length]; lia.
Qed.

(** ** Shape of a decoding step *)

(** width 1: either an ASCII byte, or an invalid byte reported as RuneError *)
Lemma decode_rune_one : forall c t r, decode_rune (c :: t) = (r, 1%nat) ->
  (N_of_ascii c < 128 /\ r = N_of_ascii c) \/ (128 <= N_of_ascii c /\ r = rune_error).
Proof.
  intros c t r. unfold decode_rune, lead_info.
  change 0x80 with 128.
  destruct (N_of_ascii c <? 128) eqn:E.
  - intros H. injection H as <-. left. apply N.ltb_lt in E. auto.
  - apply N.ltb_ge in E.
    split_decode; intros H; injection H as H; try discriminate; subst; right; auto.
Qed.

(** width 0 only on the empty input *)
Lemma decode_rune_zero : forall s, snd (decode_rune s) = 0%nat -> s = [].
Proof.
  intros [|c t] H; [reflexivity|].
  assert (c :: t <> []) by congruence.
  pose proof (decode_rune_width (c :: t) H0). lia.
Qed.

Definition high_byte (c : ascii) : bool := 128 <=? N_of_ascii c.

(** width >= 2: a well-formed multi-byte sequence; all its bytes are >= 0x80, the rune is a
    non-ASCII scalar value and the bytes are its (unique, shortest) encoding *)
Lemma decode_rune_multi : forall s r w, decode_rune s = (r, w) -> (2 <= w)%nat ->
  forallb high_byte (firstn w s) = true /\ 128 <= r /\ valid_scalar r = true /\
  firstn w s = encode_rune r /\ (w <= length s)%nat.
Proof.
  intros [|c0 t] r w; [cbn; intros H; injection H as <- <-; lia|].
  unfold decode_rune, lead_info. change 0x80 with 128.
  destruct (N_of_ascii c0 <? 128) eqn:E0; [intros H; injection H as <- <-; lia|].
  pose proof (N_of_ascii_lt c0) as L0.
  split_decode; intros H; injection H as <- <-; intros Hw; try lia;
    unfold in_rng in *; n2p.
  all: repeat match goal with c : ascii |- _ =>
         lazymatch goal with
         | H : N_of_ascii c < 256 |- _ => fail
         | _ => pose proof (N_of_ascii_lt c)
         end end.
  all: cbn [firstn forallb length]; unfold high_byte.
  all: repeat match goal with |- _ /\ _ => split end; try lia.
  all: try (repeat (apply andb_true_intro; split); try reflexivity; apply N.leb_le; lia).
  all: try (unfold valid_scalar; cmp_cases; reflexivity).
  all: unfold encode_rune; cmp_cases.
  all: repeat match goal with
       | |- ?c :: _ = ascii_of_N ?n :: _ =>
           rewrite <- (ascii_N_embedding c) at 1; f_equal; try (f_equal; lia)
       end; try reflexivity.
Qed.

(** ** decode after encode *)

Theorem decode_encode_rune : forall r rest, valid_scalar r = true ->
  decode_rune (encode_rune r ++ rest) = (r, length (encode_rune r)).
Proof.
  intros r rest Hv. unfold valid_scalar in Hv. unfold encode_rune.
  destruct (r <? 0x80) eqn:E1.
  { n2p. cbn [app length]. rewrite <- (N_ascii_embedding r) at 2 by lia.
    apply decode_rune_ascii. rewrite N_ascii_embedding; lia. }
  destruct (r <? 0x800) eqn:E2.
  { n2p. cbn [app length]. unfold decode_rune, lead_info.
    rewrite !N_ascii_embedding by lia.
    repeat match goal with |- context [if ?c then _ else _] => first [nfalse c | ntrue c] end.
    unfold in_rng.
    repeat match goal with |- context [if ?c then _ else _] => first [nfalse c | ntrue c] end.
    f_equal. lia. }
  assert (E3 : (0x10FFFF <? r) || (0xD800 <=? r) && (r <=? 0xDFFF) = false).
  { apply orb_true_iff in Hv as [Hv|Hv]; n2p.
    - apply orb_false_intro; [apply N.ltb_ge; lia|].
      apply andb_false_iff. left. apply N.leb_gt. lia.
    - apply orb_false_intro; [apply N.ltb_ge; lia|].
      apply andb_false_iff. right. apply N.leb_gt. lia. }
  rewrite E3.
  assert (Hr : r < 0xD800 \/ (0xE000 <= r /\ r <= 0x10FFFF)).
  { apply orb_true_iff in Hv as [Hv|Hv]; n2p; [left|right]; lia. }
  clear Hv E3. n2p.
  destruct (r <? 0x10000) eqn:E4; n2p.
  - cbn [app length]. unfold decode_rune, lead_info.
    rewrite !N_ascii_embedding by lia.
    nfalse (0xE0 + r / 4096 <? 0x80). nfalse (0xE0 + r / 4096 <? 0xC2).
    nfalse (0xE0 + r / 4096 <? 0xE0).
    destruct (0xE0 + r / 4096 =? 0xE0) eqn:A1; n2p.
    { unfold in_rng. ntrue ((0xA0 <=? 0x80 + (r / 64) mod 64) && (0x80 + (r / 64) mod 64 <=? 0xBF)).
      ntrue ((0x80 <=? 0x80 + r mod 64) && (0x80 + r mod 64 <=? 0xBF)).
      cbn [andb]. f_equal. lia. }
    destruct (0xE0 + r / 4096 =? 0xED) eqn:A2; n2p.
    { unfold in_rng. ntrue ((0x80 <=? 0x80 + (r / 64) mod 64) && (0x80 + (r / 64) mod 64 <=? 0x9F)).
      ntrue ((0x80 <=? 0x80 + r mod 64) && (0x80 + r mod 64 <=? 0xBF)).
      cbn [andb]. f_equal. lia. }
    ntrue (0xE0 + r / 4096 <? 0xF0).
    unfold in_rng. ntrue ((0x80 <=? 0x80 + (r / 64) mod 64) && (0x80 + (r / 64) mod 64 <=? 0xBF)).
    ntrue ((0x80 <=? 0x80 + r mod 64) && (0x80 + r mod 64 <=? 0xBF)).
    cbn [andb]. f_equal. lia.
  - cbn [app length]. unfold decode_rune, lead_info.
    rewrite !N_ascii_embedding by lia.
    nfalse (0xF0 + r / 262144 <? 0x80). nfalse (0xF0 + r / 262144 <? 0xC2).
    nfalse (0xF0 + r / 262144 <? 0xE0). nfalse (0xF0 + r / 262144 =? 0xE0).
    nfalse (0xF0 + r / 262144 =? 0xED). nfalse (0xF0 + r / 262144 <? 0xF0).
    destruct (0xF0 + r / 262144 =? 0xF0) eqn:A1; n2p.
    { unfold in_rng.
      ntrue ((0x90 <=? 0x80 + (r / 4096) mod 64) && (0x80 + (r / 4096) mod 64 <=? 0xBF)).
      ntrue ((0x80 <=? 0x80 + (r / 64) mod 64) && (0x80 + (r / 64) mod 64 <=? 0xBF)).
      ntrue ((0x80 <=? 0x80 + r mod 64) && (0x80 + r mod 64 <=? 0xBF)).
      cbn [andb]. f_equal. lia. }
    destruct (0xF0 + r / 262144 <? 0xF4) eqn:A2; n2p.
    { unfold in_rng.
      ntrue ((0x80 <=? 0x80 + (r / 4096) mod 64) && (0x80 + (r / 4096) mod 64 <=? 0xBF)).
      ntrue ((0x80 <=? 0x80 + (r / 64) mod 64) && (0x80 + (r / 64) mod 64 <=? 0xBF)).
      ntrue ((0x80 <=? 0x80 + r mod 64) && (0x80 + r mod 64 <=? 0xBF)).
      cbn [andb]. f_equal. lia. }
    ntrue (0xF0 + r / 262144 =? 0xF4).
    unfold in_rng.
    ntrue ((0x80 <=? 0x80 + (r / 4096) mod 64) && (0x80 + (r / 4096) mod 64 <=? 0x8F)).
    ntrue ((0x80 <=? 0x80 + (r / 64) mod 64) && (0x80 + (r / 64) mod 64 <=? 0xBF)).
    ntrue ((0x80 <=? 0x80 + r mod 64) && (0x80 + r mod 64 <=? 0xBF)).
    cbn [andb]. f_equal. lia.
Qed.

(** ** Examples (checked against utf8.DecodeRune) *)
Example dec_a : decode_rune (hx "61") = (97, 1%nat). Proof. reflexivity. Qed.
Example dec_e9 : decode_rune (hx "c3a9") = (0xE9, 2%nat). Proof. reflexivity. Qed.
Example dec_euro : decode_rune (hx "e282ac") = (0x20AC, 3%nat). Proof. reflexivity. Qed.
Example dec_grin : decode_rune (hx "f09f9880") = (0x1F600, 4%nat). Proof. reflexivity. Qed.
Example dec_max : decode_rune (hx "f48fbfbf") = (0x10FFFF, 4%nat). Proof. reflexivity. Qed.
Example dec_over_max : decode_rune (hx "f4908080") = (rune_error, 1%nat). Proof. reflexivity. Qed.
Example dec_overlong2 : decode_rune (hx "c0af") = (rune_error, 1%nat). Proof. reflexivity. Qed.
Example dec_overlong3 : decode_rune (hx "e09fbf") = (rune_error, 1%nat). Proof. reflexivity. Qed.
Example dec_overlong4 : decode_rune (hx "f08fbfbf") = (rune_error, 1%nat). Proof. reflexivity. Qed.
Example dec_surrogate : decode_rune (hx "eda080") = (rune_error, 1%nat). Proof. reflexivity. Qed.
Example dec_d7ff : decode_rune (hx "ed9fbf") = (0xD7FF, 3%nat). Proof. reflexivity. Qed.
Example dec_trunc : decode_rune (hx "e282") = (rune_error, 1%nat). Proof. reflexivity. Qed.
Example dec_cont : decode_rune (hx "80") = (rune_error, 1%nat). Proof. reflexivity. Qed.
Example dec_ff : decode_rune (hx "ff") = (rune_error, 1%nat). Proof. reflexivity. Qed.
Example dec_fffd : decode_rune (hx "efbfbd") = (rune_error, 3%nat). Proof. reflexivity. Qed.
Example enc_grin : encode_rune 0x1F600 = hx "f09f9880". Proof. reflexivity. Qed.
Example enc_surrogate : encode_rune 0xD800 = hx "efbfbd". Proof. reflexivity. Qed.
Example enc_big : encode_rune 0x110000 = hx "efbfbd". Proof. reflexivity. Qed.

Print Assumptions decode_encode_rune.
Print Assumptions decode_rune_width.
Print Assumptions decode_rune_ascii.
Print Assumptions decode_rune_one.
Print Assumptions decode_rune_multi.
